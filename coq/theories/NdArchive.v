(* Model of internal/pkg/model/archive/NonDominanceModelArchive.go (C05).

   An archive entry is a CompressedModelState projected to (Variables, Actions):
   [e_vec] the objective vector (exact rationals, as in Dominance.v) and [e_acts] the
   action-set key.  BooleanArchive.IsEquivalentTo compares the declared size and then the
   64-bit words; for archives built by New/SetValue/Decode (bits above the size are always
   zero) that is equality of the bit lists, which is what [acts_eqb] is (the word-level model
   is C09's BoolArchive.v; the abstraction is validated here by the correspondence check on
   sizes 1..130).

   The Go slice [a.archive] is the list, oldest entry first (append at the end, filtering keeps
   the order).  All loops are transcribed as written, including

   * the FIRST-MATCH order of newModelStateCannotBeArchived (per entry: dominance test first,
     then the duplicate test; first entry that matches decides the verdict);
   * the eviction loop of AttemptToArchiveState, which assigns the filtered slice only when
     something was dominated;
   * ForceModelStateIntoArchive, which removes exactly the entries that dominate the candidate,
     appends it and tests nothing else (no duplicate test, no removal of entries the candidate
     dominates);
   * IsNonDominant, whose inner loop stops at [len-1], i.e. never looks at the last entry.

   Float64Vector.Dominates indexes its argument unchecked: a dimension mismatch is [Panic]
   (inherited from [Dominance.dominates]). *)
From Coq Require Import List QArith Bool Arith.
From Crem Require Import Base.Res Dominance.
Import ListNotations.

Record entry := mkE { e_vec : list Q; e_acts : list bool }.
Definition archive := list entry.

(* type StorageResult uint; const ( ... iota ) -- same order as the Go declaration *)
Inductive sres :=
| StoredReplacingDominatedEntries
| StoredWithNoDominanceDetected
| RejectedWithStoredEntryDominanceDetected
| RejectedWithDuplicateEntryDetected
| CanBeStored
| StoredForcingDominatingStateRemoval.

Definition sres_code (s : sres) : nat :=
  match s with
  | StoredReplacingDominatedEntries => 0
  | StoredWithNoDominanceDetected => 1
  | RejectedWithStoredEntryDominanceDetected => 2
  | RejectedWithDuplicateEntryDetected => 3
  | CanBeStored => 4
  | StoredForcingDominatingStateRemoval => 5
  end.

(* BooleanArchive.IsEquivalentTo on canonical archives *)
Fixpoint acts_eqb (x y : list bool) : bool :=
  match x, y with
  | [], [] => true
  | a :: x', b :: y' => if Bool.eqb a b then acts_eqb x' y' else false
  | _, _ => false
  end.

(* newModelStateCannotBeArchived *)
Fixpoint cannot_be_archived (a : archive) (c : entry) : res sres :=
  match a with
  | [] => Ok CanBeStored
  | m :: a' =>
      do d <- dominates (e_vec m) (e_vec c);
      if d then Ok RejectedWithStoredEntryDominanceDetected
      else if acts_eqb (e_acts m) (e_acts c) then Ok RejectedWithDuplicateEntryDetected
      else cannot_be_archived a' c
  end.

(* the loop of AttemptToArchiveState: (some entry was dominated, nonDominatedArray) *)
Fixpoint evict_dominated (a : archive) (c : entry) : res (bool * archive) :=
  match a with
  | [] => Ok (false, [])
  | m :: a' =>
      do d <- dominates (e_vec c) (e_vec m);
      do r <- evict_dominated a' c;
      Ok (if d then (true, snd r) else (fst r, m :: snd r))
  end.

(* AttemptToArchiveState *)
Definition attempt (a : archive) (c : entry) : res (sres * archive) :=
  do s <- cannot_be_archived a c;
  match s with
  | CanBeStored =>
      do r <- evict_dominated a c;
      let (any, kept) := r in
      Ok (if any then StoredReplacingDominatedEntries else StoredWithNoDominanceDetected,
          (if any then kept else a) ++ [c])
  | _ => Ok (s, a)
  end.

(* the loop of ForceModelStateIntoArchive *)
Fixpoint drop_dominating (a : archive) (c : entry) : res archive :=
  match a with
  | [] => Ok []
  | m :: a' =>
      do d <- dominates (e_vec m) (e_vec c);
      do r <- drop_dominating a' c;
      Ok (if d then r else m :: r)
  end.

(* ForceModelStateIntoArchive *)
Definition force (a : archive) (c : entry) : res (sres * archive) :=
  do kept <- drop_dominating a c;
  Ok (StoredForcingDominatingStateRemoval, kept ++ [c]).

(* IsNonDominant: for i in [0,len): for j in [i+1, len-1): DominancePresent(a[i], a[j]) -> false *)
Fixpoint any_dominance_present (x : entry) (ds : list entry) : res bool :=
  match ds with
  | [] => Ok false
  | d :: ds' =>
      do p <- dominance_present (e_vec x) (e_vec d);
      if p then Ok true else any_dominance_present x ds'
  end.

Fixpoint nd_scan (a : archive) : res bool :=
  match a with
  | [] => Ok true
  | x :: rest =>
      (* downstream indices i+1 .. len-2: everything after x except the archive's last entry *)
      do p <- any_dominance_present x (removelast rest);
      if p then Ok false else nd_scan rest
  end.

Definition is_non_dominant (a : archive) : res bool :=
  match a with
  | [] => Ok true               (* if a.IsEmpty() { return true } *)
  | _ => nd_scan a
  end.

Definition arch_len (a : archive) : nat := length a.        (* Len() *)
Definition arch_entries (a : archive) : list entry := a.    (* Archive() *)
Definition is_empty (a : archive) : bool := match a with [] => true | _ => false end.

(* ---- operation language ----
   Offer c       : AttemptToArchiveState(c)
   OfferForce c  : AttemptToArchiveState(c); if the verdict is "rejected, dominated" then
                   ForceModelStateIntoArchive(c)   -- the only way suppapitnarm.Explorer uses force
                   (AcceptOrRevertChange / AcceptUndesirableChange)
   ForceRaw c    : ForceModelStateIntoArchive(c) in an arbitrary state -- NOT emitted by the explorer;
                   present so that the correspondence check exercises [force] everywhere and so
                   that the need for the language restriction can be stated (C05_raw_force_refuted). *)
Inductive op := Offer (c : entry) | OfferForce (c : entry) | ForceRaw (c : entry).

Definition cand_of (o : op) : entry :=
  match o with Offer c | OfferForce c | ForceRaw c => c end.

Definition step (a : archive) (o : op) : res (list sres * archive) :=
  match o with
  | Offer c => do r <- attempt a c; Ok ([fst r], snd r)
  | OfferForce c =>
      do r <- attempt a c;
      match fst r with
      | RejectedWithStoredEntryDominanceDetected =>
          do f <- force (snd r) c; Ok ([fst r; fst f], snd f)
      | _ => Ok ([fst r], snd r)
      end
  | ForceRaw c => do f <- force a c; Ok ([fst f], snd f)
  end.

Fixpoint run_from (a : archive) (ops : list op) : res archive :=
  match ops with
  | [] => Ok a
  | o :: ops' => do r <- step a o; run_from (snd r) ops'
  end.

Definition run (ops : list op) : res archive := run_from [] ops.

(* per-operation outcomes; the trace ends at the first Panic *)
Fixpoint trace_from (a : archive) (ops : list op) : list (res (list sres * archive)) :=
  match ops with
  | [] => []
  | o :: ops' =>
      match step a o with
      | Panic => [Panic]
      | Ok r => Ok r :: trace_from (snd r) ops'
      end
  end.

Definition cands (ops : list op) : list entry := map cand_of ops.

(* ---- Spec ---- *)

Definition dom (x y : entry) : Prop := pareto_lt (e_vec x) (e_vec y).

Definition nondominated (a : archive) : Prop :=
  forall m1 m2, In m1 a -> In m2 a -> ~ dom m1 m2.

Definition dup_free (a : archive) : Prop := NoDup (map e_acts a).

(* equal action sets carry equal vectors *)
Definition consistent (cs : list entry) : Prop :=
  forall x y, In x cs -> In y cs -> e_acts x = e_acts y -> vec_eq (e_vec x) (e_vec y).

(* same entry up to the representation of the rationals *)
Definition entry_equiv (x y : entry) : Prop :=
  e_acts x = e_acts y /\ vec_eq (e_vec x) (e_vec y).

(* boolean forms (hypotheses of the theorems; executable spec used by the correspondence) *)
(* [pareto_lt_b] with early exit ([&&] is a strict function under vm_compute) *)
Fixpoint all_le_l (x y : list Q) : bool :=
  match x, y with
  | [], [] => true
  | a :: x', b :: y' => if Qle_bool a b then all_le_l x' y' else false
  | _, _ => false
  end.
Fixpoint some_lt_l (x y : list Q) : bool :=
  match x, y with
  | a :: x', b :: y' => if Qlt_bool a b then true else some_lt_l x' y'
  | _, _ => false
  end.
Definition domb (x y : entry) : bool :=
  if all_le_l (e_vec x) (e_vec y) then some_lt_l (e_vec x) (e_vec y) else false.

Fixpoint vec_eqb (x y : list Q) : bool :=
  match x, y with
  | [], [] => true
  | a :: x', b :: y' => if Qeq_bool a b then vec_eqb x' y' else false
  | _, _ => false
  end.

Definition entry_eqb (x y : entry) : bool :=
  if acts_eqb (e_acts x) (e_acts y) then vec_eqb (e_vec x) (e_vec y) else false.

Definition consistent_b (cs : list entry) : bool :=
  forallb (fun x => forallb (fun y =>
    if acts_eqb (e_acts x) (e_acts y) then vec_eqb (e_vec x) (e_vec y) else true) cs) cs.

Definition same_dim_b (n : nat) (cs : list entry) : bool :=
  forallb (fun c => Nat.eqb (length (e_vec c)) n) cs.

Definition is_raw (o : op) : bool := match o with ForceRaw _ => true | _ => false end.
Definition is_offer (o : op) : bool := match o with Offer _ => true | _ => false end.
Definition no_raw_b (ops : list op) : bool := forallb (fun o => negb (is_raw o)) ops.
Definition no_force_b (ops : list op) : bool := forallb is_offer ops.

Definition nondominated_b (a : archive) : bool :=
  forallb (fun m1 => forallb (fun m2 => negb (domb m1 m2)) a) a.

Fixpoint dup_free_b (a : archive) : bool :=
  match a with
  | [] => true
  | m :: a' => negb (existsb (fun m' => acts_eqb (e_acts m) (e_acts m')) a') && dup_free_b a'
  end.

(* the Pareto-optimal subset of a list of candidates *)
Definition pareto_front (cs : list entry) : list entry :=
  filter (fun c => negb (existsb (fun o => domb o c) cs)) cs.

(* archive = front, as sets of entries *)
Definition front_eq (a : archive) (cs : list entry) : Prop :=
  (forall m, In m a -> In m (pareto_front cs)) /\
  (forall c, In c (pareto_front cs) -> exists m, In m a /\ entry_equiv m c).

Definition subset_b (xs ys : list entry) : bool :=
  forallb (fun x => existsb (entry_eqb x) ys) xs.

Definition front_eq_b (a : archive) (cs : list entry) : bool :=
  subset_b a (pareto_front cs) && subset_b (pareto_front cs) a.

(* ---- candidates created by evaluating a model at an action set ----
   The explorer only ever creates entries as Compress(model) = (values of the model at its current
   action set, that action set).  [eval] is the valuation function (the concrete one is C01's);
   a stream is a list of (forced?, action set). *)
Definition eval_entry (eval : list bool -> list Q) (s : list bool) : entry := mkE (eval s) s.
Definition eval_op (eval : list bool -> list Q) (k : bool * list bool) : op :=
  if fst k then OfferForce (eval_entry eval (snd k)) else Offer (eval_entry eval (snd k)).
Definition eval_ops (eval : list bool -> list Q) (ks : list (bool * list bool)) : list op :=
  map (eval_op eval) ks.
