(* Correspondence checker for C12: evaluated by vm_compute on gen/cases_C12_*.v. *)
From Coq Require Import String Ascii List Bool Arith ZArith.
From Crem Require Import Base.Res Saver.
Import ListNotations.
Open Scope string_scope.

(* what the real code returned for ONE key (each map-reading function called on a one-key summary) *)
Record keyobs := mk_key {
  k_id : string; k_stem : string; k_setid : string;
  k_jname : option string;            (* None = the JSON marshaller panicked *)
  k_label : string }.

(* byte strings that are not printable ASCII are generated as lists of byte values *)
Definition bs (l : list nat) : string := string_of_list_ascii (map ascii_of_nat l).

Inductive fam := Multi | Single.

Record vrow := mk_vrow { o_label : string; o_vars : list Z; o_enc : string; o_note : string }.

(* CIdsU is the compact form of CIds used by the generator when all keys of the case start with the run id and
   share stem / set id / JSON set name (string literals are what makes the generated files slow to parse). *)
Inductive case :=
| CIds (f : fam) (name : string) (R r n : nat) (run : string) (ks : list keyobs)
| CIdsU (f : fam) (name : string) (R r n : nat) (run : string) (suffixes labels : list string)
        (stem setid : string) (jname : option string)
| CRaw (k : keyobs)
| CSave (f : fam) (name : string) (R r : nat) (t : otype) (l : olevel)
        (asis_enc : string) (members : list string)
        (names_uniform : bool) (names : list string)     (* variable names, identical in every row and valuation *)
        (evals : list (string * list Z))
        (listing : list string) (setname : option string) (header : list string) (rows : list vrow).

Definition res_opt_eqb (r : res string) (o : option string) : bool :=
  match r, o with
  | Ok a, Some b => (a =? b)%string
  | Panic, None => true
  | _, _ => false
  end.

Fixpoint list_eqb {A} (eq : A -> A -> bool) (a b : list A) : bool :=
  match a, b with
  | [], [] => true
  | x :: a', y :: b' => eq x y && list_eqb eq a' b'
  | _, _ => false
  end.

Definition check_key (k : keyobs) : bool :=
  (file_stem (k_id k) =? k_stem k)%string
  && (set_id (k_id k) =? k_setid k)%string
  && res_opt_eqb (json_set_name (k_id k)) (k_jname k)
  && (row_label (k_id k) =? k_label k)%string.

Definition model_ids (f : fam) (run : string) (n : nat) : list string :=
  match f with
  | Multi => as_is_id run :: map (fun k => member_id run k n) (seq 1 n)
  | Single => [as_is_id run; optimised_id run]
  end.

Definition vrow_eqb (a b : vrow) : bool :=
  (o_label a =? o_label b)%string && list_eqb Z.eqb (o_vars a) (o_vars b)
  && (o_enc a =? o_enc b)%string.
  (* the free-text note column is carried in the cases for the record but is not a compared observable:
     C12 says nothing about it, and rewording it must not raise an alarm *)

Definition mem_str (x : string) (l : list string) : bool := existsb (String.eqb x) l.
Definition same_set (a b : list string) : bool :=
  forallb (fun x => mem_str x b) a && forallb (fun x => mem_str x a) b && (List.length a =? List.length b)%nat.

Fixpoint lookup {A} (k : string) (l : list (string * A)) (d : A) : A :=
  match l with
  | [] => d
  | (k', v) :: l' => if (k' =? k)%string then v else lookup k l' d
  end.

Definition proj_row (r : row (list Z)) : vrow := mk_vrow (r_label r) (r_vals r) (r_enc r) (r_note r).

Definition check_case (c : case) : bool :=
  match c with
  | CIds f name R r n run ks =>
      (run_id name R r =? run)%string
      && list_eqb String.eqb (model_ids f run n) (map k_id ks)
      && forallb check_key ks
  | CIdsU f name R r n run sfx labels stem setid jname =>
      (run_id name R r =? run)%string
      && list_eqb String.eqb (model_ids f run n) (map (append run) sfx)
      && list_eqb String.eqb (map row_label (model_ids f run n)) labels
      && forallb (fun id => (file_stem id =? stem)%string && (set_id id =? setid)%string
                            && res_opt_eqb (json_set_name id) jname) (model_ids f run n)
  | CRaw k => check_key k
  | CSave f name R r t l asis members uniform names evals listing setname header rows =>
      uniform &&
      (* the saver model over the trivial decompression model whose state IS the encoding;
         the values of an encoding are those of a FRESH real model decompressed from it (exported by the harness) *)
      let vals := fun e : string => lookup e evals [] in
      let run := run_id name R r in
      let sm := match f with
                | Multi => snd (save_set string _ asis (fun e _ => e) (fun e => e) vals run members asis)
                | Single => snd (save_optimised string _ asis (fun e _ => e) (fun e => e) vals run (hd asis members) asis)
                end in
      let ids := keys sm in
      (* whichever key the encoder picks: same files, same set name *)
      forallb (fun k => same_set (files_written t l ids k) listing
                        && match t with JSON => res_opt_eqb (json_set_name k) setname | CSV => true end) ids
      (* rows, for two different map iteration orders *)
      && list_eqb vrow_eqb (map proj_row (as_sorted_array sm)) rows
      && list_eqb vrow_eqb (map proj_row (as_sorted_array (rev sm))) rows
      && match t with
         | CSV => list_eqb String.eqb names header     (* the variable columns of the header line *)
         | JSON => true
         end
  end.

Fixpoint mismatches_from (i : nat) (cs : list case) : list nat :=
  match cs with
  | [] => []
  | c :: cs' => if check_case c then mismatches_from (S i) cs' else i :: mismatches_from (S i) cs'
  end.

Definition mismatches := mismatches_from 0.
