(* End-to-end theorem about the composed single-objective run (ComposeKp.v).  Nothing about a component is
   re-proved here: the limit comes from LimitsProofs (kp_iter_valid / randomize_valid, the lemmas under
   kp_run_valid), the valuation from CatchmentProofs (inv_total: C01; accept_total, revert_propose_*: C02), the
   decision from KirkpatrickProofs (step_decision_is_metropolis, step_invalid, step_improving,
   step_not_improving: C04); the temperature is AnnealLoop.temp_after (C07). *)
From Coq Require Import List ZArith QArith Bool Arith Lia Floats.
From Crem Require Import Catchment CatchmentProofs Limits LimitsProofs Kirkpatrick KirkpatrickProofs ComposeKp.
From Crem Require AnnealLoop.
Import ListNotations.

(* ---- the explorer's fields across one proposal ---- *)
Lemma step_keeps_schedule dir s i :
  st_T (fst (Kirkpatrick.step dir s i)) = st_T s /\ st_cf (fst (Kirkpatrick.step dir s i)) = st_cf s.
Proof.
  unfold Kirkpatrick.step. destruct (negb (valid i)); [split; reflexivity|].
  destruct (desirable dir _); [split; reflexivity|].
  destruct (decide_if_acceptable _ _); split; reflexivity.
Qed.

Lemma after_cool_schedule c s :
  st_T (after_cool c s) = (if c then (st_T s * st_cf s)%float else st_T s) /\ st_cf (after_cool c s) = st_cf s.
Proof. destruct c; split; reflexivity. Qed.

Lemma temp_after_succ a T0 n : AnnealLoop.temp_after a T0 (S n) = (AnnealLoop.temp_after a T0 n * a)%float.
Proof. reflexivity. Qed.

(* ---- reading "improving" on the grid, under the computable side condition ---- *)
Lemma improves_on_grid dir k c :
  sign_faithful k c = true -> improves dir (cmd_change_float k c) = improves_grid dir (cmd_change c).
Proof.
  unfold sign_faithful. intro H. apply andb_true_iff in H as [H1 H2].
  apply eqb_prop in H1. apply eqb_prop in H2. destruct dir; cbn [improves improves_grid]; auto.
Qed.

(* ---- the composed trace is an instance of Kirkpatrick.iterations (so every C04 theorem about
        [iterations] over an abstract model applies to it) ---- *)
Lemma last_default_irrelevant {A} (l : list A) : forall x d1 d2, last (x :: l) d1 = last (x :: l) d2.
Proof. induction l as [|y l IH]; intros x d1 d2; [reflexivity|]. exact (IH y d1 d2). Qed.

Lemma ckp_iters_iterations d cfg inputs : forall b,
  iterations (kp_ops d (kc_obj cfg)) (kc_dir cfg) b (map kp_pq inputs)
  = (last (map fst (ckp_iters d cfg b inputs)) b, map snd (ckp_iters d cfg b inputs)).
Proof.
  induction inputs as [|x rest IH]; intro b; [reflexivity|].
  cbn [map iterations ckp_iters]. unfold ckp_iterate at 1.
  destruct (iterate (kp_ops d (kc_obj cfg)) (kc_dir cfg) b (kp_pq x)) as [b1 dec] eqn:E.
  unfold ckp_iterate. rewrite E. cbn [fst snd]. rewrite IH. cbn [map fst snd].
  f_equal. destruct (map fst (ckp_iters d cfg b1 rest)) as [|b0 l] eqn:L; [reflexivity|].
  change (last (b1 :: b0 :: l) b) with (last (b0 :: l) b). apply last_default_irrelevant.
Qed.

(* ---- the recursive statement, read iteration by iteration ---- *)
Lemma trace_facts_pointwise d cfg inputs : forall tr n b,
  trace_facts d cfg n b inputs tr ->
  length tr = length inputs
  /\ forall j x, nth_error inputs j = Some x ->
       exists b' dec, nth_error tr j = Some (b', dec)
         /\ step_facts d cfg (n + cooled_count (firstn j inputs)) (boundary_before b tr j) x b' dec.
Proof.
  induction inputs as [|x0 rest IH]; intros tr n b H.
  - destruct tr; [|contradiction]. split; [reflexivity|]. intros j x Hj. destruct j; discriminate Hj.
  - destruct tr as [|[b1 dec1] tr']; [contradiction|]. cbn [trace_facts] in H. destruct H as [H0 Hrest].
    destruct (IH tr' (n + cooled x0)%nat b1 Hrest) as [Hlen Hpt].
    split; [cbn [length]; now rewrite Hlen|].
    intros j x Hj. destruct j as [|j'].
    + cbn [nth_error] in Hj. inversion Hj; subst x0. exists b1, dec1. split; [reflexivity|].
      cbn [firstn cooled_count fold_right]. rewrite Nat.add_0_r. exact H0.
    + cbn [nth_error] in Hj. destruct (Hpt j' x Hj) as (b' & dec & Hn & Hf).
      exists b', dec. split; [exact Hn|].
      cbn [firstn cooled_count fold_right]. fold (cooled_count (firstn j' rest)).
      rewrite Nat.add_assoc.
      assert (Hb : boundary_before b ((b1, dec1) :: tr') (S j') = boundary_before b1 tr' j').
      { unfold boundary_before. cbn [map fst].
        change (nth (S j') (b :: b1 :: map fst tr') b) with (nth j' (b1 :: map fst tr') b).
        apply nth_indep.
        cbn [length]. rewrite map_length, Hlen.
        assert (j' < length rest)%nat by (apply nth_error_Some; congruence). lia. }
      rewrite Hb. exact Hf.
Qed.

Section ComposedKp.
  Variable d : dataset.
  Hypothesis Hwf : wf_dataset d = true.
  Variable cfg : kp_cfg.
  Hypothesis Hdir : configured (kc_dir cfg) = true.

  Let k := kc_obj cfg.
  Let dir := kc_dir cfg.

  (* what every boundary satisfies: C01 invariant + within the limit + the schedule *)
  Definition BInv (n : nat) (b : boundary) : Prop :=
    Valid d (snd b)
    /\ st_T (fst b) = AnnealLoop.temp_after (kc_cf cfg) (kc_T0 cfg) n
    /\ st_cf (fst b) = kc_cf cfg.

  (* the model half of an iteration IS Limits.kp_iter driven by the Metropolis decision *)
  Lemma ckp_iterate_model es m x :
    let r := ckp_iterate d cfg (es, m) x in
    snd (fst r) = kp_iter d m (ki_pick x) (accepts (snd r)).
  Proof.
    unfold ckp_iterate, iterate, kp_pq. cbn [m_propose m_valid m_change m_accept m_revert kp_ops d_e d_u d_cool].
    set (m1 := propose d m (ki_pick x)).
    set (i := mkInput (change_is_valid d m1) (reported_change (kc_obj cfg) m1) (ki_e x) (ki_u x)).
    pose proof (step_invalid (kc_dir cfg) es i) as Hinv.
    destruct (Kirkpatrick.step (kc_dir cfg) es i) as [s1 dec] eqn:Hst. cbn [fst snd] in *.
    unfold kp_iter. fold m1. destruct (change_is_valid d m1) eqn:V; [reflexivity|].
    assert (Ha : accepts dec = false) by (apply Hinv; reflexivity).
    rewrite Ha. reflexivity.
  Qed.

  Lemma ckp_iterate_facts n b x :
    BInv n b -> (ki_pick x < nactions d)%nat ->
    step_facts d cfg n b x (fst (ckp_iterate d cfg b x)) (snd (ckp_iterate d cfg b x))
    /\ BInv (n + cooled x) (fst (ckp_iterate d cfg b x)).
  Proof.
    destruct b as [es m]. intros (HV & HT & Hcf) Hi. cbn [fst snd] in HV, HT, Hcf.
    pose proof (ckp_iterate_model es m x) as Hmodel. cbv zeta in Hmodel.
    unfold ckp_iterate, iterate, kp_pq in *.
    cbn [m_propose m_valid m_change m_accept m_revert kp_ops d_e d_u d_cool] in *.
    set (m1 := propose d m (ki_pick x)) in *.
    set (c := reported_change (kc_obj cfg) m1) in *.
    set (i := mkInput (change_is_valid d m1) c (ki_e x) (ki_u x)) in *.
    pose proof (step_decision_is_metropolis (kc_dir cfg) es i Hdir) as Hmet.
    pose proof (step_invalid (kc_dir cfg) es i) as Hinv.
    pose proof (step_improving (kc_dir cfg) es i Hdir) as Himp.
    pose proof (step_not_improving (kc_dir cfg) es i Hdir) as Hnot.
    pose proof (step_keeps_schedule (kc_dir cfg) es i) as [HsT Hscf].
    destruct (Kirkpatrick.step (kc_dir cfg) es i) as [s1 dec] eqn:Hst. cbn [fst snd] in *.
    set (m2 := if accepts dec then accept m1 else revert m1) in *.
    assert (HV2 : Valid d m2) by (rewrite Hmodel; apply kp_iter_valid; assumption).
    destruct (after_cool_schedule (ki_cool x) s1) as [HcT Hccf].
    assert (HT2 : st_T (after_cool (ki_cool x) s1) = AnnealLoop.temp_after (kc_cf cfg) (kc_T0 cfg) (n + cooled x)).
    { rewrite HcT. unfold cooled. destruct (ki_cool x).
      - rewrite Nat.add_1_r, temp_after_succ, HsT, Hscf, HT, Hcf. reflexivity.
      - rewrite Nat.add_0_r, HsT. exact HT. }
    assert (Hcf2 : st_cf (after_cool (ki_cool x) s1) = kc_cf cfg) by (rewrite Hccf, Hscf; exact Hcf).
    split; [|refine (conj HV2 (conj HT2 Hcf2))].
    unfold step_facts. cbn [fst snd]. fold m1. fold c. fold i.
    refine (conj (proj2 HV2) (conj _ (conj _ (conj Hmet (conj _ (conj _ (conj _ (conj eq_refl (conj _ (conj _ (conj HT (conj HT2 Hcf2)))))))))))).
    - (* b *) intro k'. apply (inv_total d). exact (proj1 HV2).
    - unfold objective_float. f_equal. apply (inv_total d). exact (proj1 HV2).
    - (* c: invalid *) intro V. apply Hinv. exact V.
    - (* c: improving *) intros V I. apply (Himp V I).
    - (* c: otherwise *) intros V I. destruct (Hnot V I) as (_ & Hd & _). split; [exact Hd|].
      unfold step_exp_arg. cbn [change]. rewrite (change_seen_configured _ _ _ Hdir). reflexivity.
    - (* d: active set *) intro j. fold m2. unfold m2. destruct (accepts dec).
      + reflexivity.
      + apply revert_propose_active.
    - (* d: totals *) intro k'. fold m2. unfold m2. destruct (accepts dec).
      + apply accept_total.
      + destruct (revert_propose_same_vars d m (ki_pick x) k') as (_ & _ & E). symmetry. exact E.
  Qed.

  Lemma ckp_iters_facts inputs : forall n b,
    BInv n b -> kp_inputs_in_range d inputs = true ->
    trace_facts d cfg n b inputs (ckp_iters d cfg b inputs).
  Proof.
    induction inputs as [|x rest IH]; intros n b HB Hin; [exact I|].
    cbn [kp_inputs_in_range forallb] in Hin. apply andb_true_iff in Hin as [Hx Hrest]. apply Nat.ltb_lt in Hx.
    destruct (ckp_iterate_facts n b x HB Hx) as [F B'].
    cbn [ckp_iters trace_facts].
    destruct (ckp_iterate d cfg b x) as [b' dec] eqn:E. cbn [fst snd] in *.
    split; [exact F|]. apply IH; assumption.
  Qed.

  (* the model states of the composed run are a Limits.kp_run whose decision inputs are the Metropolis decisions *)
  Lemma ckp_iters_refine_kp_iters inputs : forall b,
    map (fun r => snd (fst r)) (ckp_iters d cfg b inputs)
    = kp_iters d (snd b) (map (fun xr => (ki_pick (fst xr), accepts (snd (snd xr))))
                              (combine inputs (ckp_iters d cfg b inputs))).
  Proof.
    induction inputs as [|x rest IH]; intro b; [reflexivity|].
    cbn [ckp_iters combine map kp_iters fst snd]. destruct b as [es m].
    pose proof (ckp_iterate_model es m x) as Hm. cbv zeta in Hm. cbn [snd]. rewrite <- Hm.
    f_equal. rewrite IH. reflexivity.
  Qed.

  Theorem ckp_run_ok picks0 inputs s0 tr :
    state_is_valid d (start_extreme d) = true ->
    picks_ok d picks0 = true -> kp_inputs_in_range d inputs = true ->
    ckp_run d cfg picks0 inputs = Some (s0, tr) ->
    state_is_valid d s0 = true
    /\ (forall k', v_total (var s0 k') = canon_total d k' (st_active s0))
    /\ trace_facts d cfg 0 (init_state (kc_T0 cfg) (kc_cf cfg), s0) inputs tr.
  Proof.
    intros Hatt Hp Hin Hr. unfold ckp_run in Hr.
    destruct (randomize d picks0 (start_extreme d)) as [s| |] eqn:R; try discriminate.
    inversion Hr; subst s0 tr. clear Hr.
    assert (V0 : Valid d s).
    { eapply randomize_valid; [exact Hwf| |exact Hp|exact R]. split; [now apply start_extreme_inv|assumption]. }
    refine (conj (proj2 V0) (conj _ _)).
    - intro k'. apply (inv_total d). exact (proj1 V0).
    - apply ckp_iters_facts; [|exact Hin]. refine (conj V0 (conj _ _)); reflexivity.
  Qed.

  Theorem ckp_run_pointwise picks0 inputs s0 tr :
    state_is_valid d (start_extreme d) = true ->
    picks_ok d picks0 = true -> kp_inputs_in_range d inputs = true ->
    ckp_run d cfg picks0 inputs = Some (s0, tr) ->
    state_is_valid d s0 = true
    /\ (forall k', v_total (var s0 k') = canon_total d k' (st_active s0))
    /\ length tr = length inputs
    /\ forall j x, nth_error inputs j = Some x ->
         exists b' dec, nth_error tr j = Some (b', dec)
           /\ step_facts d cfg (cooled_count (firstn j inputs))
                         (boundary_before (init_state (kc_T0 cfg) (kc_cf cfg), s0) tr j) x b' dec.
  Proof.
    intros Hatt Hp Hin Hr.
    destruct (ckp_run_ok picks0 inputs s0 tr Hatt Hp Hin Hr) as (A & B & C).
    destruct (trace_facts_pointwise d cfg inputs tr 0 _ C) as [Hlen Hpt].
    refine (conj A (conj B (conj Hlen _))). exact Hpt.
  Qed.

  (* ... and the same run seen through C03's own run model: kp_run_valid applies literally *)
  Theorem ckp_run_refines_kp_run picks0 inputs s0 tr :
    ckp_run d cfg picks0 inputs = Some (s0, tr) ->
    kp_run d picks0 (map (fun xr => (ki_pick (fst xr), accepts (snd (snd xr)))) (combine inputs tr))
    = Some (s0 :: map (fun r => snd (fst r)) tr).
  Proof.
    intro Hr. unfold ckp_run in Hr. unfold kp_run.
    destruct (randomize d picks0 (start_extreme d)) as [s| |] eqn:R; try discriminate.
    inversion Hr; subst s0 tr. clear Hr.
    rewrite (ckp_iters_refine_kp_iters inputs (init_state (kc_T0 cfg) (kc_cf cfg), s)). reflexivity.
  Qed.
End ComposedKp.
