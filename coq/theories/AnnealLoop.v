(* Model of the annealing loop (C07).  Executable definitions only; lemmas are in AnnealLoopProofs.v
   and AnnealLoopFloat.v.

   Go sources transcribed (as they are):
     internal/pkg/annealing/annealers/SimpleAnnealer.go               Anneal, handlePanicRecovery,
                                                                      iterationStarted, checkIfDone ...
     internal/pkg/annealing/annealers/ElapsedTimeTrackingAnnealer.go  Anneal (wrapper)
     internal/pkg/annealing/cooling/coolants/{kirkpatrick,suppapitnarm,averaged}/Coolant.go
                                                                      CoolDown: temperature *= coolingFactor
     internal/pkg/annealing/explorer/{kirkpatrick,suppapitnarm}/Explorer.go
                                                                      CoolDown: coolant.CoolDown(); notifyCoolDown()
     internal/pkg/observer/EventNotifier.go                           SynchronousAnnealingEventNotifier

       func (sa *SimpleAnnealer) Anneal() {
           completed := false
           defer func() { sa.handlePanicRecovery(recover(), completed) }()   // registered FIRST => runs LAST
           sa.SolutionExplorer().Initialise()          // a panic here: no TearDown is registered yet
           defer sa.SolutionExplorer().TearDown()      // registered SECOND => runs FIRST
           sa.annealingStarted()
           for done := sa.initialDoneValue(); !done; { // initialDoneValue: MaximumIterations == 0
               sa.iterationStarted()                   // currentIteration++ ; StartedIteration event
               sa.SolutionExplorer().TryRandomChange()
               sa.SolutionExplorer().CoolDown()        // BEFORE the FinishedIteration event
               sa.iterationFinished()
               done = sa.checkIfDone()                 // currentIteration >= MaximumIterations
           }
           sa.annealingFinished()
           completed = true                            // before the deferred TearDown runs
       }
       func (sa *SimpleAnnealer) handlePanicRecovery(r interface{}, completed bool) {
           if r == nil && !completed {                 // go.mod says `go 1.17`: panic(nil) gives r == nil
               r = errors.New("panic called with a nil argument")
           }
           if r != nil {
               if rAsError, isError := r.(error); isError {
                   wrappingError := errors.Wrap(rAsError, "...")
                   sa.LogHandler().Error(wrappingError)
                   panic(wrappingError)
               }
               panic(r)
           }
       }

   Faults.  A panic can be raised by the explorer (Initialise, TryRandomChange, CoolDown, TearDown) or by an
   OBSERVER while it is handed an event: SynchronousAnnealingEventNotifier.NotifyObserversOfEvent is a plain
   loop over the observers, so the panic of observer j propagates through iterationStarted() etc. into
   Anneal(): observers 0..j have been handed the event, observers j+1.. never are, nothing else happens
   before the deferred calls run.  A panic raised by the deferred TearDown() REPLACES the panic in flight
   (Go semantics: recover() reports the most recent panic).

   The trace is a list of events, each stamped with the explorer's temperature at that moment
   (for observer events: the `Temperature` attribute the observers are handed).  Calls on the
   explorer and on the annealer's logger are included as pseudo-events so that their position
   relative to the observer events is visible; they are delivered to no observer.

   The "Cooling" note: both real explorers' CoolDown() is `coolant.CoolDown(); notifyCoolDown()`,
   the latter sending an Explorer-type event (Note "Cooling", Temperature = the new temperature) to
   the explorer's own observers.  scenario.Runner.wireObservers registers the annealer as such an
   observer, and SimpleAnnealer.ObserveEvent relays the event (adding CurrentIteration) to the
   annealer's observers: that is [EvCooling k].  All other relayed Explorer/Model events are outside
   the property and are not part of the trace.  [EvCooling], [LogError] and [LogInfo] document what the
   code does but are NOT compared with the implementation (AnnealLoopCorr.is_compared): the property
   does not constrain notes and log lines, and a reworded note must not raise an alarm.

   Iteration numbers are the values of the field [currentIteration].  The field is set to 0 only
   by [Initialise()] (builder) and is copied by [DeepClone()]; [Anneal()] never resets it.  The
   runner anneals a fresh clone of a never-annealed annealer, i.e. [c0 = 0]: that is [anneal].
   [anneal_gen] with another [c0] says what the code does otherwise (AnnealLoopProofs, reanneal).
   [currentIteration] is a uint64; the model uses [nat] (2^64 iterations are not attainable).
   MaximumIterations is validated as a non-negative integer (IsNonNegativeInteger), so [N : nat].

   Temperature: Coq primitive binary64 ([PrimFloat.mul] = IEEE round-to-nearest-even, what Go
   computes on amd64, which does not fuse). *)
From Coq Require Import List Arith Bool Floats.
Import ListNotations.

(* What was given to panic(...): decides what handlePanicRecovery does. *)
Inductive payload :=
| PayloadError     (* a value implementing `error`: wrapped, logged at Error level, the WRAPPER is re-panicked *)
| PayloadOther     (* any other non-nil value: re-panicked as it is *)
| PayloadNil.      (* panic(nil) under go.mod `go 1.17` (< 1.21): recover() returns nil; since the `completed` flag
                      the handler re-raises errors.Wrap of a descriptive error for it *)

(* The explorer script: what happens in the iteration whose number is k. *)
Inductive step_outcome :=
| StepOk
| PanicInTry (p : payload)          (* TryRandomChange panics *)
| PanicInCoolBefore (p : payload)   (* CoolDown panics before the temperature has been touched *)
| PanicInCoolAfter (p : payload)    (* CoolDown panics after multiply + "Cooling" notification *)
| PanicInStartObserver (j : nat) (p : payload)    (* observer j panics when handed StartedIteration k *)
| PanicInFinishObserver (j : nat) (p : payload).  (* observer j panics when handed FinishedIteration k *)

Inductive init_outcome := InitOk | InitPanics (p : payload).

(* faults outside the iterations *)
Record faults := mkFaults {
  f_init : init_outcome;                 (* Initialise() panics *)
  f_start : option (nat * payload);      (* observer j panics when handed the StartedAnnealing event *)
  f_finish : option (nat * payload);     (* observer j panics when handed the FinishedAnnealing event *)
  f_teardown : option payload }.         (* TearDown() panics (after having been entered) *)

Definition no_faults : faults := mkFaults InitOk None None None.
Definition init_faults (i : init_outcome) : faults := mkFaults i None None None.

Inductive event :=
(* pseudo-events: a call was made (recorded on entry) *)
| ExplorerInit                (* SolutionExplorer().Initialise() *)
| ExplorerTry (k : nat)       (* SolutionExplorer().TryRandomChange() during iteration k *)
| ExplorerCool (k : nat)      (* SolutionExplorer().CoolDown() during iteration k *)
| ExplorerTearDown            (* SolutionExplorer().TearDown() *)
| LogError                    (* LogHandler().Error(wrappingError) in handlePanicRecovery *)
| LogInfo                     (* LogHandler().Info(elapsed time) in ElapsedTimeTrackingAnnealer.Anneal *)
(* events delivered to every observer of the annealer, in registration order *)
| EvStart                     (* StartedAnnealing  (no CurrentIteration attribute) *)
| EvStartIter (k : nat)       (* StartedIteration,  CurrentIteration = k *)
| EvCooling (k : nat)         (* the explorer's "Cooling" note relayed by SimpleAnnealer.ObserveEvent with
                                 CurrentIteration = k; emitted right after the multiplication *)
| EvFinishIter (k : nat)      (* FinishedIteration, CurrentIteration = k *)
| EvFinish (k : nat).         (* FinishedAnnealing, CurrentIteration = k, carries the result *)

Definition is_observer_event (e : event) : bool :=
  match e with
  | EvStart | EvStartIter _ | EvCooling _ | EvFinishIter _ | EvFinish _ => true
  | _ => false
  end.

(* the four annealing-state events the property's "event skeleton" talks about *)
Definition is_skeleton_event (e : event) : bool :=
  match e with
  | EvStart | EvStartIter _ | EvFinishIter _ | EvFinish _ => true
  | _ => false
  end.

Definition stamped := (event * float)%type.

(* How the body of Anneal() (everything after the first defer) ended. *)
Inductive body_result :=
| Returned
| Panicking (k : nat) (p : payload)   (* k = currentIteration when the panic was raised *)
| FuelExhausted.                      (* artefact of the fuel; unreachable: AnnealLoopProofs.anneal_never_out_of_fuel *)

Inductive outcome :=
| Finished
| Repanicked (k : nat) (p : payload)      (* Anneal() itself panics.  p = what had been given to the panic in flight:
                                             PayloadError: errors.Wrap of that error is raised (and logged);
                                             PayloadOther: the very value is raised;
                                             PayloadNil:   errors.Wrap of a descriptive error is raised (and logged) *)
| Swallowed (k : nat)                     (* Anneal() returns normally although something panicked: only panic(nil) inside
                                             TearDown() after a COMPLETED run (finish event sent) -- AnnealLoopProofs.swallowed_only_if *)
| OutOfFuel.

Record run := mkRun {
  trace : list stamped;
  cut : option nat;              (* Some j: the LAST observer event of the trace was handed to observers 0..j only
                                    (observer j panicked on it) *)
  final_iteration : nat;         (* currentIteration afterwards *)
  final_temperature : float;
  result : outcome }.

Definition cool (a t : float) : float := (t * a)%float.   (* c.temperature *= c.coolingFactor *)

Section Loop.
  Variable N : nat.                       (* MaximumIterations *)
  Variable script : nat -> step_outcome.
  Variable a : float.                     (* CoolingFactor *)

  (* One pass of the for-loop per unit of fuel; c = currentIteration, t = temperature. *)
  Fixpoint loop (fuel : nat) (c : nat) (t : float) : list stamped * nat * float * body_result :=
    match fuel with
    | O => ([], c, t, FuelExhausted)
    | S fuel' =>
      let c1 := S c in                                                  (* sa.currentIteration++ *)
      let e1 := [(EvStartIter c1, t); (ExplorerTry c1, t)] in
      match script c1 with
      | PanicInStartObserver _ p => ([(EvStartIter c1, t)], c1, t, Panicking c1 p)
      | PanicInTry p => (e1, c1, t, Panicking c1 p)
      | PanicInCoolBefore p => (e1 ++ [(ExplorerCool c1, t)], c1, t, Panicking c1 p)
      | PanicInCoolAfter p =>
          let t1 := cool a t in
          (e1 ++ [(ExplorerCool c1, t); (EvCooling c1, t1)], c1, t1, Panicking c1 p)
      | PanicInFinishObserver _ p =>
          let t1 := cool a t in
          (e1 ++ [(ExplorerCool c1, t); (EvCooling c1, t1); (EvFinishIter c1, t1)], c1, t1, Panicking c1 p)
      | StepOk =>
          let t1 := cool a t in
          let e2 := e1 ++ [(ExplorerCool c1, t); (EvCooling c1, t1); (EvFinishIter c1, t1)] in
          if N <=? c1                                                   (* done = sa.checkIfDone() *)
          then (e2, c1, t1, Returned)
          else let '(es, c', t', r) := loop fuel' c1 t1 in (e2 ++ es, c', t', r)
      end
    end.

  (* for done := sa.initialDoneValue(); !done; { ... } *)
  Definition for_loop (c0 : nat) (T0 : float) : list stamped * nat * float * body_result :=
    if N =? 0 then ([], c0, T0, Returned) else loop N c0 T0.
End Loop.

(* which observer panicked in a step (None: the explorer did, or nobody) *)
Definition observer_of (o : step_outcome) : option nat :=
  match o with
  | PanicInStartObserver j _ | PanicInFinishObserver j _ => Some j
  | _ => None
  end.

(* The deferred handlePanicRecovery(recover(), completed), applied to the trace so far. *)
Definition recover_handler (completed : bool) (cu : option nat) (tr : list stamped) (c : nat) (t : float)
           (r : body_result) : run :=
  match r with
  | Returned => mkRun tr cu c t Finished
  | Panicking k PayloadError => mkRun (tr ++ [(LogError, t)]) cu c t (Repanicked k PayloadError)
  | Panicking k PayloadOther => mkRun tr cu c t (Repanicked k PayloadOther)
  | Panicking k PayloadNil =>
      if completed then mkRun tr cu c t (Swallowed k)                    (* r == nil && completed: nothing to do *)
      else mkRun (tr ++ [(LogError, t)]) cu c t (Repanicked k PayloadNil)  (* r = errors.New(...): wrapped, logged, raised *)
  | FuelExhausted => mkRun tr cu c t OutOfFuel
  end.

(* the deferred TearDown(): entered, and if it panics its panic replaces whatever was in flight *)
Definition after_teardown (td : option payload) (c : nat) (r : body_result) : body_result :=
  match td, r with
  | _, FuelExhausted => FuelExhausted
  | Some q, _ => Panicking c q
  | None, _ => r
  end.

(* SimpleAnnealer.Anneal() on an instance whose currentIteration is c0. *)
Definition anneal_simple (fl : faults) (c0 N : nat) (script : nat -> step_outcome)
           (T0 a : float) : run :=
  match f_init fl with
  | InitPanics p =>                      (* TearDown was never deferred *)
      recover_handler false None [(ExplorerInit, T0)] c0 T0 (Panicking c0 p)
  | InitOk =>
      (* body after `defer TearDown`: events so far, counter, temperature, how it ended, who cut the last event *)
      let '(es, c, t, r, cu) :=
        match f_start fl with
        | Some (j, p) => ([(EvStart, T0)], c0, T0, Panicking c0 p, Some j)     (* sa.annealingStarted() panics *)
        | None =>
            let '(es, c, t, r) := for_loop N script a c0 T0 in
            match r with
            | Returned =>
                match f_finish fl with                                        (* sa.annealingFinished() *)
                | Some (j, p) => ((EvStart, T0) :: es ++ [(EvFinish c, t)], c, t, Panicking c p, Some j)
                | None => ((EvStart, T0) :: es ++ [(EvFinish c, t)], c, t, Returned, None)
                end
            | Panicking k _ => ((EvStart, T0) :: es, c, t, r, observer_of (script k))
            | FuelExhausted => ((EvStart, T0) :: es, c, t, r, None)
            end
        end in
      let completed := match r with Returned => true | _ => false end in
      (* deferred TearDown runs first, then the recovery handler *)
      recover_handler completed cu ((ExplorerInit, T0) :: es ++ [(ExplorerTearDown, t)]) c t
                      (after_teardown (f_teardown fl) c r)
  end.

Inductive annealer_kind := SimpleAnnealer | ElapsedTimeTrackingAnnealer.

(* ElapsedTimeTrackingAnnealer.Anneal(): SimpleAnnealer.Anneal(), and if that RETURNS, one Info line. *)
Definition anneal_gen (kind : annealer_kind) (fl : faults) (c0 N : nat)
           (script : nat -> step_outcome) (T0 a : float) : run :=
  let r := anneal_simple fl c0 N script T0 a in
  match kind with
  | SimpleAnnealer => r
  | ElapsedTimeTrackingAnnealer =>
      match result r with
      | Finished | Swallowed _ =>
          mkRun (trace r ++ [(LogInfo, final_temperature r)]) (cut r) (final_iteration r) (final_temperature r) (result r)
      | _ => r
      end
  end.

(* The run of a fresh annealer (what scenario.Runner.run does: DeepClone() of a never-annealed one). *)
Definition anneal (N : nat) (script : nat -> step_outcome) (T0 a : float) : run :=
  anneal_gen SimpleAnnealer (init_faults InitOk) 0 N script T0 a.     (* init_faults InitOk = no_faults *)

Definition anneal_elapsed (N : nat) (script : nat -> step_outcome) (T0 a : float) : run :=
  anneal_gen ElapsedTimeTrackingAnnealer (init_faults InitOk) 0 N script T0 a.

Definition events (r : run) : list event := map fst (trace r).
Definition observer_trace (r : run) : list stamped := filter (fun x => is_observer_event (fst x)) (trace r).
Definition skeleton_events (r : run) : list event := filter is_skeleton_event (events r).

(* SynchronousAnnealingEventNotifier.NotifyObserversOfEvent: every observer event goes to observers
   0..m-1 in that order before anything else happens; pseudo-events go to nobody (None). *)
Definition deliver {A} (m : nat) (x : event * A) : list (option nat * (event * A)) :=
  if is_observer_event (fst x) then map (fun i => (Some i, x)) (seq 0 m) else [(None, x)].

Definition deliveries {A} (m : nat) (tr : list (event * A)) : list (option nat * (event * A)) :=
  flat_map (deliver m) tr.

(* an observer panicked on the last observer event of the trace: that event reaches observers 0..j only *)
Definition has_observer_event {A} (tr : list (event * A)) : bool :=
  existsb (fun y => is_observer_event (fst y)) tr.

Definition deliver_upto {A} (m j : nat) (x : event * A) : list (option nat * (event * A)) :=
  map (fun i => (Some i, x)) (seq 0 (Nat.min m (S j))).

Fixpoint deliveries_cut {A} (m j : nat) (tr : list (event * A)) : list (option nat * (event * A)) :=
  match tr with
  | [] => []
  | x :: rest =>
      (if is_observer_event (fst x) && negb (has_observer_event rest) then deliver_upto m j x else deliver m x)
        ++ deliveries_cut m j rest
  end.

Definition run_deliveries (m : nat) (r : run) : list (option nat * stamped) :=
  match cut r with
  | None => deliveries m (trace r)
  | Some j => deliveries_cut m j (trace r)
  end.

Definition is_for (i : nat) {B} (d : option nat * B) : bool :=
  match fst d with Some j => Nat.eqb i j | None => false end.

Definition seen_by {A} (i : nat) (ds : list (option nat * (event * A))) : list (event * A) :=
  map snd (filter (is_for i) ds).

(* Scripts used by the theorems and by the correspondence. *)
Definition no_panic : nat -> step_outcome := fun _ => StepOk.
Definition panic_at (k : nat) (o : step_outcome) : nat -> step_outcome :=
  fun j => if Nat.eqb j k then o else StepOk.

(* Closed forms the theorems talk about. *)
Definition temp_after (a T0 : float) (k : nat) : float := Nat.iter k (cool a) T0.

(* iteration k of a run that started at temperature T0 with currentIteration = 0 *)
Definition iteration_block (a T0 : float) (k : nat) : list stamped :=
  let t := temp_after a T0 (pred k) in
  let t1 := temp_after a T0 k in
  [(EvStartIter k, t); (ExplorerTry k, t); (ExplorerCool k, t); (EvCooling k, t1); (EvFinishIter k, t1)].

(* what of iteration k is on the trace when it panics with outcome o *)
Definition partial_block (a T0 : float) (k : nat) (o : step_outcome) : list stamped :=
  let t := temp_after a T0 (pred k) in
  let t1 := temp_after a T0 k in
  match o with
  | StepOk => iteration_block a T0 k
  | PanicInStartObserver _ _ => [(EvStartIter k, t)]
  | PanicInTry _ => [(EvStartIter k, t); (ExplorerTry k, t)]
  | PanicInCoolBefore _ => [(EvStartIter k, t); (ExplorerTry k, t); (ExplorerCool k, t)]
  | PanicInCoolAfter _ => [(EvStartIter k, t); (ExplorerTry k, t); (ExplorerCool k, t); (EvCooling k, t1)]
  | PanicInFinishObserver _ _ => iteration_block a T0 k
  end.

Definition payload_of (o : step_outcome) : option payload :=
  match o with
  | StepOk => None
  | PanicInTry p | PanicInCoolBefore p | PanicInCoolAfter p
  | PanicInStartObserver _ p | PanicInFinishObserver _ p => Some p
  end.

(* number of multiplications performed when iteration k ends with outcome o *)
Definition cooled_after (k : nat) (o : step_outcome) : nat :=
  match o with
  | StepOk | PanicInCoolAfter _ | PanicInFinishObserver _ _ => k
  | PanicInTry _ | PanicInCoolBefore _ | PanicInStartObserver _ _ => pred k
  end.

Definition skeleton (N : nat) : list event :=
  [EvStart] ++ flat_map (fun k => [EvStartIter k; EvFinishIter k]) (seq 1 N) ++ [EvFinish N].

Definition skeleton_until_panic (k : nat) : list event :=
  [EvStart] ++ flat_map (fun j => [EvStartIter j; EvFinishIter j]) (seq 1 (pred k)) ++ [EvStartIter k].

(* the skeleton events of iteration k that were sent when it ended with outcome o *)
Definition skeleton_of_step (k : nat) (o : step_outcome) : list event :=
  match o with
  | StepOk | PanicInFinishObserver _ _ => [EvStartIter k; EvFinishIter k]
  | _ => [EvStartIter k]
  end.

Definition skeleton_until_fault (k : nat) (o : step_outcome) : list event :=
  [EvStart] ++ flat_map (fun j => [EvStartIter j; EvFinishIter j]) (seq 1 (pred k)) ++ skeleton_of_step k o.

(* counting the calls the annealer made on its explorer *)
Definition is_try (e : event) : bool := match e with ExplorerTry _ => true | _ => false end.
Definition is_cool (e : event) : bool := match e with ExplorerCool _ => true | _ => false end.
Definition is_teardown (e : event) : bool := match e with ExplorerTearDown => true | _ => false end.
Definition is_finish (e : event) : bool := match e with EvFinish _ => true | _ => false end.
Definition count (p : event -> bool) (r : run) : nat := length (filter p (events r)).
