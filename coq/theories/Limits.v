(* C03 — executable model of everything that moves the catchment model during an optimisation run under
   a variable limit: the starting extreme chosen by CoreModel.InitialiseActions, the two randomisation
   loops (RandomlyValidlyActivateActions / RandomlyValidlyDeactivateActions, including their attempt
   counter and the panic when it reaches zero without a boundary having been found), one iteration of the single-objective explorer
   (kirkpatrick.Explorer.TryRandomChange + AcceptOrRevertChange) and one iteration of the multi-objective
   explorer (suppapitnarm.Explorer.TryRandomChange: synchronise, Randomize, archive, move, return to base).
   Random picks, acceptance decisions, archive outcomes and return-to-base selections are INPUTS
   (any values): the theorems hold for all of them.  No proofs in this file. *)
From Coq Require Import List ZArith QArith Bool Arith.
From Crem Require Import Catchment.
Import ListNotations.
Open Scope Z_scope.

(* which loop CoreModel.Randomize / InitialiseActions(Random) runs for the configured limit:
   cost limits start from nothing active and activate; pollutant limits start from everything active and
   deactivate.  true = activate *)
Definition loop_dir (k : vk) : bool := match k with VIC | VOC => true | _ => false end.

(* InitialiseAllActionsToActive / Inactive: Initialising(De)Activation of every action in index order *)
Definition init_all (d : dataset) (s : state) (b : bool) : state :=
  fold_left (fun s i => initialising_set d s i b false) (seq 0 (nactions d)) s.

(* the optimiser's starting extreme: Initialise(Random) = rebuilt from the data, then all (in)active *)
Definition start_extreme (d : dataset) : state :=
  match d_limit d with
  | Some (k, _) => init_all d (fresh d) (negb (loop_dir k))
  | None => fresh d
  end.

Inductive lres := LOk (s : state) | LPanic | LOutOfPicks.

(* len(ActiveActions()) == actionNumber  (dir = true)  /  == 0  (dir = false): nothing is left to toggle *)
Definition all_target (d : dataset) (s : state) (dir : bool) : bool :=
  forallb (fun i => Bool.eqb (st_active s i) dir) (seq 0 (nactions d)).

(* RandomlyValidly{Activate,Deactivate}Actions.  [picks] = the indices Intn returns; a pick that is already
   in the target state is skipped without consuming an attempt; the loop is left when the last attempt was invalid
   (the boundary), when the counter is 0, or when every action is in the target state already; the Go code panics
   ("attempt limit reached") only when the counter is 0 and every attempt was valid (no boundary found). *)
Fixpoint rand_loop (d : dataset) (dir : bool) (picks : list nat) (attempts : nat) (valid : bool) (s : state) : lres :=
  match attempts with
  | O => if valid then LPanic else LOk s
  | S a' =>
      if negb valid then LOk s else
      if all_target d s dir then LOk s else
      match picks with
      | [] => LOutOfPicks
      | i :: ps =>
          if Bool.eqb (st_active s i) dir then rand_loop d dir ps attempts valid s
          else
            let s1 := initialising_set d s i dir true in
            let v := change_is_valid d s1 in
            let s2 := if v then s1 else initialising_set d s1 i (negb dir) false in
            rand_loop d dir ps a' v s2
      end
  end.

(* CoreModel.Randomize under a limit *)
Definition randomize (d : dataset) (picks : list nat) (s : state) : lres :=
  match d_limit d with
  | Some (k, _) => rand_loop d (loop_dir k) picks (nactions d) true s
  | None => LOk s      (* unbounded random initialisation: not part of this model (no limit to respect) *)
  end.

(* ---- single-objective explorer: one iteration ---- *)
Definition kp_iter (d : dataset) (s : state) (i : nat) (decision : bool) : state :=
  let s1 := propose d s i in
  if change_is_valid d s1 then (if decision then accept s1 else revert s1) else revert s1.

Fixpoint kp_iters (d : dataset) (s : state) (inputs : list (nat * bool)) : list state :=
  match inputs with
  | [] => []
  | (i, dec) :: rest => let s' := kp_iter d s i dec in s' :: kp_iters d s' rest
  end.

(* Explorer.Initialise: currentModel.Initialise(Random); currentModel.Randomize(); then the iterations.
   Result: the state after the initial randomisation followed by the state after every iteration. *)
Definition kp_run (d : dataset) (picks0 : list nat) (inputs : list (nat * bool)) : option (list state) :=
  match randomize d picks0 (start_extreme d) with
  | LOk s0 => Some (s0 :: kp_iters d s0 inputs)
  | _ => None
  end.

(* ---- multi-objective explorer ---- *)
Record mo_state := mkMO {
  mo_cur : state;                 (* currentModel   *)
  mo_pot : state;                 (* potentialModel *)
  mo_arch : list (list bool)      (* action sets of the archive members (their values are those of the set: C01/C05) *)
}.

Record mo_input := mkMOIn {
  in_picks : list nat;            (* the picks of potentialModel.Randomize() *)
  in_keep : list bool;            (* which archive members survive AttemptToArchive / ForceIntoArchive *)
  in_store : bool;                (* the candidate ends up in the archive *)
  in_move : bool;                 (* current := candidate (desirable, or accepted by the coolant) *)
  in_rtb : option nat             (* return to base fires, selecting this archive index *)
}.

Fixpoint mask {A} (l : list A) (m : list bool) : list A :=
  match l, m with
  | x :: l', b :: m' => if b then x :: mask l' m' else mask l' m'
  | _, _ => []
  end.

Inductive mres := MOk (m : mo_state) | MPanic | MOutOfPicks.

Definition mo_iter (d : dataset) (m : mo_state) (x : mo_input) : mres :=
  let pot1 := synchronise d (mo_pot m) (active_list d (mo_cur m)) in
  match randomize d (in_picks x) pot1 with
  | LPanic => MPanic
  | LOutOfPicks => MOutOfPicks
  | LOk pot2 =>
      let cand := active_list d pot2 in
      let arch1 := (if in_store x then [cand] else []) ++ mask (mo_arch m) (in_keep x) in
      let cur1 := if in_move x then synchronise d (mo_cur m) cand else mo_cur m in
      match in_rtb x with
      | None => MOk (mkMO cur1 pot2 arch1)
      | Some j =>
          match nth_error arch1 j with
          | Some base => MOk (mkMO (decompress d cur1 base) pot2 arch1)
          | None => MPanic        (* SelectRandomModel on an empty archive / index out of range *)
          end
      end
  end.

Fixpoint mo_iters (d : dataset) (m : mo_state) (inputs : list mo_input) : option (list mo_state) :=
  match inputs with
  | [] => Some []
  | x :: rest =>
      match mo_iter d m x with
      | MOk m' => match mo_iters d m' rest with Some l => Some (m' :: l) | None => None end
      | _ => None
      end
  end.

(* Explorer.Initialise: archive emptied; currentModel.Initialise(Random); currentModel.Randomize();
   potentialModel.Initialise(Random) *)
Definition mo_run (d : dataset) (picks0 : list nat) (inputs : list mo_input) : option (list mo_state) :=
  match randomize d picks0 (start_extreme d) with
  | LOk s0 =>
      let m0 := mkMO s0 (start_extreme d) [] in
      match mo_iters d m0 inputs with Some l => Some (m0 :: l) | None => None end
  | _ => None
  end.

(* ---- what must hold ---- *)
Definition set_valid (d : dataset) (bits : list bool) : bool := state_is_valid d (apply_set d bits).
Definition mo_ok (d : dataset) (m : mo_state) : bool :=
  state_is_valid d (mo_cur m) && forallb (set_valid d) (mo_arch m).

Definition picks_ok (d : dataset) (picks : list nat) : bool := forallb (fun i => Nat.ltb i (nactions d)) picks.
Definition kp_inputs_ok (d : dataset) (inputs : list (nat * bool)) : bool :=
  forallb (fun x => Nat.ltb (fst x) (nactions d)) inputs.
Definition mo_inputs_ok (d : dataset) (inputs : list mo_input) : bool :=
  forallb (fun x => picks_ok d (in_picks x)) inputs.
