(* End-to-end theorem about the composed multi-objective run (Compose.v): at every iteration boundary the
   current solution respects the limit (C03), the archive is a duplicate-free set of mutually non-dominated
   entries (C05), each entry's objective vector IS the catchment model's valuation of the entry's action set
   (C01/C05) and every entry respects the limit (C03) -- for all picks, coolant decisions and return-to-base
   selections, any number of iterations. *)
From Coq Require Import List ZArith QArith Bool Arith Lia.
From Crem Require Import Base.Res Catchment CatchmentProofs Limits LimitsProofs NdArchive NdArchiveProofs Compose.
Import ListNotations.
Open Scope Z_scope.

Lemma run_b_snoc ops : forall a o, run_b_from a (ops ++ [o]) = snd (step_b (run_b_from a ops) o).
Proof. induction ops as [|x ops IH]; intros a o; simpl; [reflexivity|apply IH]. Qed.

Lemma eval_ops_snoc eval ks k : eval_ops eval (ks ++ [k]) = eval_ops eval ks ++ [eval_op eval k].
Proof. unfold eval_ops. now rewrite map_app. Qed.

Section Composed.
  Variable d : dataset.
  Hypothesis Hwf : wf_dataset d = true.

  Let ev := eval_vec d.

  Lemma eval_vec_length bits : length (eval_vec d bits) = 6%nat.
  Proof. reflexivity. Qed.

  Lemma cands_dim ks : same_dim_b 6 (cands (eval_ops ev ks)) = true.
  Proof.
    apply same_dim_b_iff. intros m Hm. unfold cands, eval_ops in Hm. rewrite map_map in Hm.
    apply in_map_iff in Hm as [k [<- _]]. unfold eval_op. destruct (fst k); reflexivity.
  Qed.

  Definition hist_ok (ks : list (bool * list bool)) : Prop :=
    Forall (fun k => length (snd k) = nactions d /\ set_valid d (snd k) = true) ks.

  Definition CMValid (m : cm_state) : Prop :=
    Valid d (cm_cur m) /\ Inv d (cm_pot m) /\
    cm_arch m = run_b_from [] (eval_ops ev (cm_hist m)) /\ hist_ok (cm_hist m).

  (* every archive member is the valuation of an action set that was offered, and that set is valid *)
  Lemma arch_members m e :
    CMValid m -> In e (cm_arch m) ->
    e = entry_of d (e_acts e) /\ length (e_acts e) = nactions d /\ set_valid d (e_acts e) = true.
  Proof.
    intros (_ & _ & Ha & Hh) He. rewrite Ha in He.
    apply run_b_incl in He. simpl in He. unfold cands, eval_ops in He. rewrite map_map in He.
    apply in_map_iff in He as [k [Hk Hin]]. unfold hist_ok in Hh. rewrite Forall_forall in Hh.
    destruct (Hh k Hin) as [Hl Hv].
    assert (E : e = entry_of d (snd k)) by (rewrite <- Hk; unfold eval_op; destruct (fst k); reflexivity).
    rewrite E. unfold entry_of, eval_entry. cbn [e_acts]. split; [reflexivity|split; assumption].
  Qed.

  Lemma cm_apply_valid m pot2 acc rtb m' :
    CMValid m -> Valid d pot2 -> cm_apply d m pot2 acc rtb = CMOk m' -> CMValid m'.
  Proof.
    intros HV V2 Hr. pose proof HV as ([Ic Vc] & Ip & Ha & Hh). unfold cm_apply in Hr.
    set (bits := active_list d pot2) in *.
    set (cand := entry_of d bits) in *.
    set (forced := negb (desirable_verdict (fst (attempt_b (cm_arch m) cand))) && acc) in *.
    set (o := if forced then OfferForce cand else Offer cand) in *.
    set (arch1 := snd (step_b (cm_arch m) o)) in *.
    set (hist1 := cm_hist m ++ [(forced, bits)]) in *.
    assert (Ha1 : arch1 = run_b_from [] (eval_ops ev hist1)).
    { unfold hist1. rewrite eval_ops_snoc, run_b_snoc, <- Ha. unfold arch1, o, eval_op. cbn [fst snd].
      destruct forced; reflexivity. }
    assert (Hh1 : hist_ok hist1).
    { unfold hist1, hist_ok. apply Forall_app. split; [exact Hh|]. constructor; [|constructor].
      cbn [snd]. split; [apply active_list_length|now apply set_valid_of_state]. }
    set (cur1 := if desirable_verdict (fst (attempt_b (cm_arch m) cand)) || acc
                 then synchronise d (cm_cur m) bits else cm_cur m) in *.
    assert (Vc1 : Valid d cur1).
    { unfold cur1. destruct (_ || _); [apply sync_to_valid; assumption|split; assumption]. }
    destruct rtb as [j|].
    - destruct (nth_error arch1 j) as [base|] eqn:N; [|discriminate]. inversion Hr; subst m'. clear Hr.
      apply nth_error_In in N.
      assert (HVtmp : CMValid (mkCM cur1 pot2 arch1 hist1)).
      { refine (conj Vc1 (conj (proj1 V2) (conj _ Hh1))). exact Ha1. }
      destruct (arch_members _ base HVtmp N) as (_ & Hl & Hv).
      refine (conj _ (conj (proj1 V2) (conj _ Hh1))); cbn [cm_cur cm_pot cm_arch cm_hist].
      + apply decompress_valid; [assumption|exact (proj1 Vc1)|assumption|assumption].
      + exact Ha1.
    - inversion Hr; subst m'. refine (conj Vc1 (conj (proj1 V2) (conj _ Hh1))). exact Ha1.
  Qed.

  Lemma cm_iter_valid m x m' :
    CMValid m -> picks_ok d (ci_picks x) = true -> cm_iter d m x = CMOk m' -> CMValid m'.
  Proof.
    intros HV Hp Hr. pose proof HV as ([Ic Vc] & Ip & Ha & Hh). unfold cm_iter in Hr.
    set (pot1 := synchronise d (cm_pot m) (active_list d (cm_cur m))) in *.
    assert (V1 : Valid d pot1) by (apply sync_to_valid; [assumption|assumption|split; assumption]).
    destruct (randomize d (ci_picks x) pot1) as [pot2| |] eqn:R; try discriminate.
    assert (V2 : Valid d pot2) by (eapply randomize_valid; eauto).
    eapply cm_apply_valid; eauto.
  Qed.

  Lemma cm_iters_valid inputs : forall m l,
    CMValid m -> cm_inputs_ok d inputs = true -> cm_iters d m inputs = Some l -> Forall CMValid l.
  Proof.
    induction inputs as [|x rest IH]; simpl; intros m l HV Hin Hr.
    - inversion Hr; constructor.
    - apply andb_true_iff in Hin as [Hx Hrest].
      destruct (cm_iter d m x) as [m'| |] eqn:E; try discriminate.
      destruct (cm_iters d m' rest) as [l'|] eqn:E'; [|discriminate]. inversion Hr; subst.
      assert (HV' : CMValid m') by (eapply cm_iter_valid; eauto).
      constructor; [assumption|]. eapply IH; eauto.
  Qed.

  (* what a reader of the results relies on, at one boundary state *)
  Definition boundary_ok (m : cm_state) : Prop :=
    state_is_valid d (cm_cur m) = true /\
    nondominated (cm_arch m) /\ dup_free (cm_arch m) /\
    forall e, In e (cm_arch m) ->
      e_vec e = eval_vec d (e_acts e) /\ set_valid d (e_acts e) = true.

  Lemma CMValid_boundary m : CMValid m -> boundary_ok m.
  Proof.
    intro HV. pose proof HV as ([_ Vc] & _ & Ha & _).
    assert (Hrun : run (firstn (length (eval_ops ev (cm_hist m))) (eval_ops ev (cm_hist m))) = Ok (cm_arch m)).
    { rewrite firstn_all. rewrite (run_total 6) by apply cands_dim. now rewrite Ha. }
    destruct (eval_stream_invariant ev 6 (cm_hist m) (cands_dim _) _ _ Hrun) as (_ & Hnd & Hdf).
    refine (conj Vc (conj Hnd (conj Hdf _))). intros e He.
    destruct (arch_members m e HV He) as (E & _ & Hv). split; [|exact Hv].
    rewrite E at 1. reflexivity.
  Qed.

  Theorem composed_run_ok picks0 inputs ms :
    state_is_valid d (start_extreme d) = true ->
    picks_ok d picks0 = true -> cm_inputs_ok d inputs = true ->
    cm_run d picks0 inputs = Some ms ->
    Forall boundary_ok ms.
  Proof.
    intros Hatt Hp Hin Hr. unfold cm_run in Hr.
    destruct (randomize d picks0 (start_extreme d)) as [s0| |] eqn:R; try discriminate.
    assert (V0 : Valid d s0).
    { eapply randomize_valid; [exact Hwf| |exact Hp|exact R]. split; [now apply start_extreme_inv|assumption]. }
    set (m0 := mkCM s0 (start_extreme d) [] []) in *.
    assert (M0 : CMValid m0).
    { refine (conj V0 (conj _ (conj _ _))); [now apply start_extreme_inv|reflexivity|constructor]. }
    destruct (cm_iters d m0 inputs) as [l|] eqn:E; [|discriminate]. inversion Hr; subst.
    assert (F : Forall CMValid (m0 :: l)) by (constructor; [assumption|eapply cm_iters_valid; eauto]).
    eapply Forall_impl; [|exact F]. intros m. apply CMValid_boundary.
  Qed.
End Composed.
