(* Proofs about the BooleanArchive model (C09).  Statements used by Properties/C09.v. *)
From Coq Require Import List NArith ZArith String Ascii Bool Lia Arith.
From Crem Require Import Base.Res BoolArchive.
Import ListNotations.
Local Open Scope N_scope.

(* ------------------------------------------------------------------------------------------ *)
(** * A. word arithmetic as written  =  N.setbit / N.clearbit *)

Definition lt64 (w : N) : Prop := w < two64.

Lemma two64_pow : two64 = 2 ^ 64.
Proof. reflexivity. Qed.

Lemma testbit_high : forall w n j, w < 2 ^ n -> n <= j -> N.testbit w j = false.
Proof.
  intros w n j Hw Hj. rewrite <- (N.mod_small w (2 ^ n)) by exact Hw.
  apply N.mod_pow2_bits_high. exact Hj.
Qed.

Lemma lt_pow2_of_bits : forall w n, (forall j, n <= j -> N.testbit w j = false) -> w < 2 ^ n.
Proof.
  intros w n H.
  assert (E : w mod 2 ^ n = w).
  { apply N.bits_inj. intro j. destruct (N.lt_ge_cases j n) as [L | G].
    - apply N.mod_pow2_bits_low. exact L.
    - rewrite N.mod_pow2_bits_high by exact G. symmetry. apply H. exact G. }
  rewrite <- E. apply N.mod_lt. apply N.pow_nonzero. discriminate.
Qed.

Lemma land_pow2 : forall w k, N.land w (2 ^ k) = if N.testbit w k then 2 ^ k else 0.
Proof.
  intros w k. apply N.bits_inj. intro j. rewrite N.land_spec, N.pow2_bits_eqb.
  destruct (N.eqb_spec k j) as [-> | Hne].
  - destruct (N.testbit w j) eqn:E.
    + rewrite N.pow2_bits_eqb, N.eqb_refl. reflexivity.
    + rewrite N.bits_0. reflexivity.
  - rewrite andb_false_r. destruct (N.testbit w k).
    + rewrite N.pow2_bits_eqb. symmetry. apply N.eqb_neq. exact Hne.
    + rewrite N.bits_0. reflexivity.
Qed.

(* the guard  archiveArray[i] & mask > 0  reads the bit *)
Lemma guard_reads_bit : forall w k, (0 <? N.land w (2 ^ k)) = N.testbit w k.
Proof.
  intros w k. rewrite land_pow2. destruct (N.testbit w k).
  - apply N.ltb_lt. apply N.neq_0_lt_0. apply N.pow_nonzero. discriminate.
  - reflexivity.
Qed.

Lemma add_mask_is_setbit : forall w k, N.testbit w k = false -> w + 2 ^ k = N.setbit w k.
Proof.
  intros w k H. rewrite N.setbit_spec'.
  assert (L : N.land w (2 ^ k) = 0) by (rewrite land_pow2, H; reflexivity).
  rewrite N.add_nocarry_lxor by exact L. apply N.lxor_lor. exact L.
Qed.

Lemma ldiff_pow2_set : forall w k, N.testbit w k = true -> N.ldiff (2 ^ k) w = 0.
Proof.
  intros w k H. apply N.bits_inj. intro j. rewrite N.ldiff_spec, N.pow2_bits_eqb, N.bits_0.
  destruct (N.eqb_spec k j) as [-> | _]; [rewrite H|]; reflexivity.
Qed.

Lemma sub_mask_is_clearbit : forall w k, N.testbit w k = true -> w - 2 ^ k = N.clearbit w k.
Proof.
  intros w k H. rewrite N.clearbit_spec'. apply N.sub_nocarry_ldiff. apply ldiff_pow2_set. exact H.
Qed.

Lemma setbit_lt64 : forall w k, lt64 w -> k < 64 -> lt64 (N.setbit w k).
Proof.
  intros w k Hw Hk. unfold lt64 in *. rewrite two64_pow in *. apply lt_pow2_of_bits. intros j Hj.
  rewrite N.setbit_eqb. rewrite (testbit_high w 64 j Hw Hj).
  replace (k =? j) with false; [reflexivity|]. symmetry. apply N.eqb_neq. lia.
Qed.

Lemma clearbit_lt64 : forall w k, lt64 w -> lt64 (N.clearbit w k).
Proof.
  intros w k Hw. unfold lt64 in *. rewrite two64_pow in *. apply lt_pow2_of_bits. intros j Hj.
  rewrite N.clearbit_eqb. rewrite (testbit_high w 64 j Hw Hj). reflexivity.
Qed.

(* uint64 addition / subtraction of the mask, as the code does them behind its guard *)
Lemma add64_mask : forall w k, lt64 w -> k < 64 -> N.testbit w k = false -> add64 w (2 ^ k) = N.setbit w k.
Proof.
  intros w k Hw Hk Hb. unfold add64. rewrite add_mask_is_setbit by exact Hb.
  apply N.mod_small. apply setbit_lt64; assumption.
Qed.

Lemma sub64_mask : forall w k, lt64 w -> N.testbit w k = true -> sub64 w (2 ^ k) = N.clearbit w k.
Proof.
  intros w k Hw Hb. unfold sub64.
  assert (Hle : 2 ^ k <= w) by (apply N.ldiff_le, ldiff_pow2_set; exact Hb).
  replace (w + two64 - 2 ^ k) with ((w - 2 ^ k) + 1 * two64) by lia.
  rewrite N.mod_add by discriminate.
  rewrite sub_mask_is_clearbit by exact Hb. apply N.mod_small. apply clearbit_lt64. exact Hw.
Qed.

(* the kernel lemma of DESIGN section 8/C09: what setValueUnchecked does to one word *)
Definition word_as_written (w : N) (off : N) (v : bool) : N :=
  let mask := N.shiftl 1 off in
  if Bool.eqb (0 <? N.land w mask) v then w                  (* if entry.value == value { return } *)
  else if v then add64 w mask else sub64 w mask.

Lemma word_as_written_refines : forall w off v, lt64 w -> off < 64 ->
  word_as_written w off v = if v then N.setbit w off else N.clearbit w off.
Proof.
  intros w off v Hw Hoff. unfold word_as_written. cbv zeta. rewrite N.shiftl_1_l, guard_reads_bit.
  destruct (N.testbit w off) eqn:Hb; destruct v; cbn [Bool.eqb].
  - apply N.bits_inj. intro j. rewrite N.setbit_eqb. destruct (N.eqb_spec off j) as [<- | _]; [rewrite Hb|]; reflexivity.
  - apply sub64_mask; assumption.
  - apply add64_mask; assumption.
  - apply N.bits_inj. intro j. rewrite N.clearbit_eqb. destruct (N.eqb_spec off j) as [<- | _]; [rewrite Hb|rewrite andb_true_r]; reflexivity.
Qed.

(* ------------------------------------------------------------------------------------------ *)
(** * B. the word array as a bit vector *)

Local Open Scope nat_scope.

Lemma quot_of_nat : forall k, Z.quot (Z.of_nat k) 64 = Z.of_nat (k / 64).
Proof.
  intro k. rewrite Z.quot_div_nonneg by lia. change 64%Z with (Z.of_nat 64). symmetry. apply Nat2Z.inj_div.
Qed.

Lemma rem_of_nat : forall k, Z.rem (Z.of_nat k) 64 = Z.of_nat (k mod 64).
Proof.
  intro k. rewrite Z.rem_mod_nonneg by lia. change 64%Z with (Z.of_nat 64). symmetry. apply Nat2Z.inj_mod.
Qed.

Lemma to_N_of_nat : forall k, Z.to_N (Z.of_nat k) = N.of_nat k.
Proof. intro k. apply N2Z.inj. rewrite Z2N.id by lia. rewrite nat_N_Z. reflexivity. Qed.

Lemma mask_of_nat : forall k, mask_of (Z.of_nat k) = (2 ^ N.of_nat (k mod 64))%N.
Proof.
  intro k. unfold mask_of. cbv zeta. rewrite rem_of_nat.
  destruct (Z.ltb_spec (Z.of_nat (k mod 64)) 0) as [H | _]; [lia|].
  rewrite to_N_of_nat. apply N.shiftl_1_l.
Qed.

Lemma off_lt_64 : forall k, (N.of_nat (k mod 64) < 64)%N.
Proof. intro k. pose proof (Nat.mod_upper_bound k 64). lia. Qed.

Lemma derive_detail_nat : forall ws k w, nth_error ws (k / 64) = Some w ->
  derive_detail ws (Z.of_nat k)
  = Ok (mk_detail (k / 64) (2 ^ N.of_nat (k mod 64))%N (N.testbit w (N.of_nat (k mod 64)))).
Proof.
  intros ws k w H. unfold derive_detail. cbv zeta. rewrite quot_of_nat.
  destruct (Z.ltb_spec (Z.of_nat (k / 64)) 0) as [Hn | _]; [lia|].
  rewrite Nat2Z.id, H, mask_of_nat, guard_reads_bit. reflexivity.
Qed.

Lemma nth_error_nth_lt : forall (ws : list N) i, i < List.length ws -> nth_error ws i = Some (nth i ws 0%N).
Proof.
  induction ws as [|w ws IH]; intros i Hi; cbn in *; [lia|]. destruct i; [reflexivity|]. apply IH. lia.
Qed.

Lemma set_nth_ok : forall {A} (l : list A) k v, k < List.length l ->
  exists l', set_nth k v l = Ok l' /\ List.length l' = List.length l
             /\ forall j d, nth j l' d = if Nat.eqb j k then v else nth j l d.
Proof.
  intros A l. induction l as [|x l IH]; intros k v Hk; cbn in Hk; [lia|].
  destruct k as [|k].
  - exists (v :: l). cbn. split; [reflexivity|]. split; [reflexivity|]. intros [|j] d; reflexivity.
  - destruct (IH k v) as [l' [E [L Hn]]]; [lia|]. exists (x :: l'). cbn. rewrite E. cbn.
    split; [reflexivity|]. split; [rewrite L; reflexivity|]. intros [|j] d; cbn; [reflexivity|]. apply Hn.
Qed.

Lemma set_nth_panic : forall {A} (l : list A) k v, List.length l <= k -> set_nth k v l = Panic.
Proof.
  intros A l. induction l as [|x l IH]; intros k v Hk; [destruct k; reflexivity|].
  cbn [List.length] in Hk. destruct k as [|k]; [lia|]. cbn [set_nth]. rewrite IH by lia. reflexivity.
Qed.

Definition all_lt64 (ws : list N) : Prop := Forall lt64 ws.

Lemma nth_lt64 : forall ws i, all_lt64 ws -> lt64 (nth i ws 0%N).
Proof.
  intros ws i H. destruct (Nat.lt_ge_cases i (List.length ws)) as [L | G].
  - apply (proj1 (Forall_forall _ _) H). apply nth_In. exact L.
  - rewrite nth_overflow by exact G. reflexivity.
Qed.

Lemma all_lt64_of_nth : forall ws, (forall i, lt64 (nth i ws 0%N)) -> all_lt64 ws.
Proof.
  intros ws H. apply Forall_forall. intros x Hx. destruct (In_nth _ _ 0%N Hx) as [i [_ <-]]. apply H.
Qed.

(* j = 64 * (j / 64) + j mod 64, and positions are determined by (word, offset) *)
Lemma pos_eq_iff : forall j k, (j / 64 = k / 64 /\ j mod 64 = k mod 64) <-> j = k.
Proof.
  intros j k. split; [|intros ->; split; reflexivity]. intros [Hd Hm].
  rewrite (Nat.div_mod j 64), (Nat.div_mod k 64) by lia. rewrite Hd, Hm. reflexivity.
Qed.

(* setValueUnchecked on an index inside the word array: only bit k changes, and it becomes v *)
Lemma set_value_unchecked_spec : forall ws k v, all_lt64 ws -> k < 64 * List.length ws ->
  exists ws', set_value_unchecked ws (Z.of_nat k) v = Ok ws'
    /\ List.length ws' = List.length ws /\ all_lt64 ws'
    /\ nth (k / 64) ws' 0%N = (if v then N.setbit (nth (k / 64) ws 0%N) (N.of_nat (k mod 64))
                                else N.clearbit (nth (k / 64) ws 0%N) (N.of_nat (k mod 64)))
    /\ forall j, bit_at ws' j = if Nat.eqb j k then v else bit_at ws j.
Proof.
  intros ws k v Hlt Hk.
  assert (Hi : k / 64 < List.length ws) by (apply Nat.div_lt_upper_bound; lia).
  set (w := nth (k / 64) ws 0%N). set (off := N.of_nat (k mod 64)).
  assert (Hw : lt64 w) by (apply nth_lt64; exact Hlt).
  assert (Hoff : (off < 64)%N) by apply off_lt_64.
  pose proof (word_as_written_refines w off v Hw Hoff) as Hr.
  unfold word_as_written in Hr. cbv zeta in Hr. rewrite N.shiftl_1_l, guard_reads_bit in Hr.
  unfold set_value_unchecked. rewrite (derive_detail_nat ws k w) by (apply nth_error_nth_lt; exact Hi).
  cbn [res_bind d_value d_index d_mask]. fold off.
  assert (Hbits : forall w', w' = (if v then N.setbit w off else N.clearbit w off) ->
            forall j, N.testbit w' (N.of_nat (j mod 64)) = if Nat.eqb (j mod 64) (k mod 64) then v else N.testbit w (N.of_nat (j mod 64))).
  { intros w' -> j. unfold off. destruct v.
    - rewrite N.setbit_eqb. destruct (Nat.eqb_spec (j mod 64) (k mod 64)) as [-> | Hne].
      + rewrite N.eqb_refl. reflexivity.
      + replace (N.of_nat (k mod 64) =? N.of_nat (j mod 64))%N with false; [reflexivity|].
        symmetry. apply N.eqb_neq. lia.
    - rewrite N.clearbit_eqb. destruct (Nat.eqb_spec (j mod 64) (k mod 64)) as [-> | Hne].
      + rewrite N.eqb_refl, andb_false_r. reflexivity.
      + replace (N.of_nat (k mod 64) =? N.of_nat (j mod 64))%N with false; [apply andb_true_r|].
        symmetry. apply N.eqb_neq. lia. }
  destruct (Bool.eqb (N.testbit w off) v) eqn:Hg.
  - (* the guard returns early: nothing is written *)
    exists ws. split; [reflexivity|]. split; [reflexivity|]. split; [exact Hlt|]. split; [exact Hr|].
    intro j. unfold bit_at. destruct (Nat.eqb_spec j k) as [-> | Hne].
    + fold w. fold off. apply eqb_prop. exact Hg.
    + destruct (Nat.eq_dec (j / 64) (k / 64)) as [Hd | Hd]; [|reflexivity].
      rewrite Hd. fold w. rewrite (Hbits w Hr j).
      destruct (Nat.eqb_spec (j mod 64) (k mod 64)) as [Hm | _]; [|reflexivity].
      exfalso. apply Hne. apply pos_eq_iff. split; assumption.
  - rewrite (nth_error_nth_lt ws (k / 64) Hi). fold w.
    destruct (set_nth_ok ws (k / 64) (if v then add64 w (2 ^ off) else sub64 w (2 ^ off)) Hi) as [ws' [E [L Hn]]].
    exists ws'. split; [exact E|]. split; [exact L|].
    assert (Hnew : nth (k / 64) ws' 0%N = if v then N.setbit w off else N.clearbit w off).
    { rewrite Hn, Nat.eqb_refl. exact Hr. }
    split.
    { apply all_lt64_of_nth. intro i. rewrite Hn. destruct (Nat.eqb i (k / 64)).
      - rewrite Hr. destruct v; [apply setbit_lt64|apply clearbit_lt64]; assumption.
      - apply nth_lt64. exact Hlt. }
    split; [exact Hnew|].
    intro j. unfold bit_at. destruct (Nat.eq_dec (j / 64) (k / 64)) as [Hd | Hd].
    + rewrite Hd, Hnew. rewrite (Hbits _ eq_refl j). fold w.
      destruct (Nat.eqb_spec (j mod 64) (k mod 64)) as [Hm | Hm]; destruct (Nat.eqb_spec j k) as [Hjk | Hjk]; try reflexivity.
      * exfalso. apply Hjk. apply pos_eq_iff. split; assumption.
      * exfalso. apply Hm. rewrite Hjk. reflexivity.
    + rewrite Hn. replace (Nat.eqb (j / 64) (k / 64)) with false by (symmetry; apply Nat.eqb_neq; exact Hd).
      destruct (Nat.eqb_spec j k) as [Hjk | _]; [|reflexivity]. exfalso. apply Hd. rewrite Hjk. reflexivity.
Qed.

(* two word arrays with the same bits are the same *)
Lemma words_ext : forall ws1 ws2, List.length ws1 = List.length ws2 -> all_lt64 ws1 -> all_lt64 ws2 ->
  (forall j, j < 64 * List.length ws1 -> bit_at ws1 j = bit_at ws2 j) -> ws1 = ws2.
Proof.
  intros ws1 ws2 HL H1 H2 Hb. apply (nth_ext ws1 ws2 0%N 0%N HL). intros i Hi.
  apply N.bits_inj. intro b. destruct (N.lt_ge_cases b 64) as [Lb | Gb].
  - specialize (Hb (64 * i + N.to_nat b)). unfold bit_at in Hb.
    assert (Hq : (64 * i + N.to_nat b) / 64 = i).
    { rewrite Nat.mul_comm, Nat.div_add_l by lia. rewrite Nat.div_small by lia. lia. }
    assert (Hm : (64 * i + N.to_nat b) mod 64 = N.to_nat b).
    { rewrite Nat.add_comm, Nat.mul_comm, Nat.mod_add by lia. apply Nat.mod_small. lia. }
    rewrite Hq, Hm, N2Nat.id in Hb. apply Hb. lia.
  - rewrite (testbit_high _ 64 b (nth_lt64 ws1 i H1) Gb), (testbit_high _ 64 b (nth_lt64 ws2 i H2) Gb). reflexivity.
Qed.

Lemma bit_at_overflow : forall ws j, 64 * List.length ws <= j -> bit_at ws j = false.
Proof.
  intros ws j H. unfold bit_at. rewrite nth_overflow; [apply N.bits_0|].
  apply Nat.div_le_lower_bound; lia.
Qed.

(* ------------------------------------------------------------------------------------------ *)
(** * C. the representation invariant; SetValue / Value / build on bit vectors *)

Definition wf (a : archive) : Prop :=
  List.length (a_words a) = nwords (a_size a)
  /\ all_lt64 (a_words a)
  /\ forall j, a_size a <= j -> bit_at (a_words a) j = false.

Lemma nwords_bounds : forall n, n <= 64 * nwords n /\ 64 * nwords n < n + 64.
Proof.
  intro n. unfold nwords. pose proof (Nat.div_mod (n + 63) 64). pose proof (Nat.mod_upper_bound (n + 63) 64). lia.
Qed.

Lemma wfb_iff : forall a, wfb a = true <-> wf a.
Proof.
  intro a. unfold wfb, wf. rewrite !andb_true_iff, Nat.eqb_eq, forallb_forall, forallb_forall.
  split.
  - intros [[HL Hlt] Hz]. split; [exact HL|]. split.
    + apply Forall_forall. intros w Hw. apply N.ltb_lt. apply Hlt. exact Hw.
    + intros j Hj. destruct (Nat.lt_ge_cases j (64 * List.length (a_words a))) as [L | G].
      * apply negb_true_iff. apply Hz. apply in_seq. lia.
      * apply bit_at_overflow. exact G.
  - intros [HL [Hlt Hz]]. split; [split; [exact HL|]|].
    + intros w Hw. apply N.ltb_lt. apply (proj1 (Forall_forall _ _) Hlt). exact Hw.
    + intros j Hj. apply in_seq in Hj. apply negb_true_iff. apply Hz. lia.
Qed.

Lemma nth_repeat0 : forall n i, nth i (repeat 0%N n) 0%N = 0%N.
Proof. induction n as [|n IH]; intros [|i]; cbn; auto. Qed.

Lemma new_archive_wf : forall n, wf (new_archive n).
Proof.
  intro n. unfold wf, new_archive. cbn [a_words a_size]. split; [apply repeat_length|]. split.
  - apply Forall_forall. intros w Hw. apply repeat_spec in Hw. subst w. reflexivity.
  - intros j _. unfold bit_at. rewrite nth_repeat0. apply N.bits_0.
Qed.

Lemma size_in_words : forall a k, wf a -> k < a_size a -> k < 64 * List.length (a_words a).
Proof. intros a k [HL _] Hk. rewrite HL. pose proof (nwords_bounds (a_size a)). lia. Qed.

Lemma set_value_spec : forall a k v, wf a -> k < a_size a ->
  exists a', set_value a (Z.of_nat k) v = Ok a' /\ wf a' /\ a_size a' = a_size a /\ a_memo a' = EmptyString
    /\ forall j, bit_at (a_words a') j = if Nat.eqb j k then v else bit_at (a_words a) j.
Proof.
  intros a k v Hwf Hk. pose proof (size_in_words a k Hwf Hk) as Hkw. destruct Hwf as [HL [Hlt Hz]].
  destruct (set_value_unchecked_spec (a_words a) k v Hlt Hkw) as [ws' [E [L' [Hlt' [_ Hb]]]]].
  unfold set_value. destruct (Z.leb_spec (Z.of_nat (a_size a)) (Z.of_nat k)) as [Hc | _]; [lia|].
  rewrite E. cbn [res_bind]. eexists. split; [reflexivity|]. cbn [a_words a_size a_memo].
  split; [|split; [reflexivity|split; [reflexivity|exact Hb]]].
  unfold wf. cbn [a_words a_size]. split; [rewrite L'; exact HL|]. split; [exact Hlt'|].
  intros j Hj. rewrite Hb. destruct (Nat.eqb_spec j k) as [-> | _]; [lia|]. apply Hz. exact Hj.
Qed.

Lemma set_value_out_of_range : forall a i v, (Z.of_nat (a_size a) <= i)%Z -> set_value a i v = Panic.
Proof. intros a i v H. unfold set_value. destruct (Z.leb_spec (Z.of_nat (a_size a)) i); [reflexivity|lia]. Qed.

Lemma value_spec : forall a k, wf a -> k < a_size a -> value a (Z.of_nat k) = Ok (bit_at (a_words a) k).
Proof.
  intros a k Hwf Hk. pose proof (size_in_words a k Hwf Hk) as Hkw.
  assert (Hi : k / 64 < List.length (a_words a)) by (apply Nat.div_lt_upper_bound; lia).
  unfold value. destruct (Z.leb_spec (Z.of_nat (a_size a)) (Z.of_nat k)) as [Hc | _]; [lia|].
  rewrite (derive_detail_nat _ k _ (nth_error_nth_lt _ _ Hi)). reflexivity.
Qed.

Lemma value_out_of_range : forall a i, (Z.of_nat (a_size a) <= i)%Z -> value a i = Panic.
Proof. intros a i H. unfold value. destruct (Z.leb_spec (Z.of_nat (a_size a)) i); [reflexivity|lia]. Qed.

Lemma bits_length : forall a, List.length (bits a) = a_size a.
Proof. intro a. unfold bits. rewrite map_length, seq_length. reflexivity. Qed.

Lemma bits_nth : forall a j, j < a_size a -> nth j (bits a) false = bit_at (a_words a) j.
Proof.
  intros a j Hj. unfold bits.
  rewrite (nth_indep _ false (bit_at (a_words a) 0)) by (rewrite map_length, seq_length; exact Hj).
  rewrite map_nth, seq_nth by exact Hj. reflexivity.
Qed.

(* the bits determine the words *)
Lemma wf_bits_inj : forall a b, wf a -> wf b -> a_size a = a_size b -> bits a = bits b -> a_words a = a_words b.
Proof.
  intros a b [HLa [Hlta Hza]] [HLb [Hltb Hzb]] Hs Hb. apply words_ext; try assumption.
  - rewrite HLa, HLb, Hs. reflexivity.
  - intros j _. destruct (Nat.lt_ge_cases j (a_size a)) as [L | G].
    + rewrite <- (bits_nth a j L), Hb. apply bits_nth. rewrite <- Hs. exact L.
    + rewrite Hza by exact G. symmetry. apply Hzb. rewrite <- Hs. exact G.
Qed.

Lemma build_from_spec : forall bs a i, wf a -> i + List.length bs <= a_size a -> a_memo a = EmptyString ->
  exists a', build_from a i bs = Ok a' /\ wf a' /\ a_size a' = a_size a /\ a_memo a' = EmptyString
    /\ forall j, bit_at (a_words a') j
                 = if (i <=? j) && (j <? i + List.length bs) then nth (j - i) bs false else bit_at (a_words a) j.
Proof.
  induction bs as [|b bs IH]; intros a i Hwf Hi Hm.
  - exists a. cbn [build_from]. split; [reflexivity|]. split; [exact Hwf|]. split; [reflexivity|]. split; [exact Hm|].
    intro j. cbn [List.length]. destruct (Nat.leb_spec i j); destruct (Nat.ltb_spec j (i + 0)); try reflexivity; lia.
  - cbn [List.length] in Hi. destruct (set_value_spec a i b Hwf) as [a1 [E1 [Hwf1 [Hs1 [Hm1 Hb1]]]]]; [lia|].
    destruct (IH a1 (S i) Hwf1) as [a' [E' [Hwf' [Hs' [Hm' Hb']]]]]; [lia|exact Hm1|].
    exists a'. cbn [build_from]. rewrite E1. cbn [res_bind]. split; [exact E'|]. split; [exact Hwf'|].
    split; [lia|]. split; [exact Hm'|]. intro j. rewrite Hb'. cbn [List.length].
    destruct (Nat.leb_spec (S i) j) as [L1 | L1]; destruct (Nat.ltb_spec j (S i + List.length bs)) as [L2 | L2]; cbn [andb].
    + destruct (Nat.leb_spec i j); [|lia]. destruct (Nat.ltb_spec j (i + S (List.length bs))); [|lia]. cbn [andb].
      replace (j - i) with (S (j - S i)) by lia. reflexivity.
    + rewrite Hb1. destruct (Nat.eqb_spec j i); [lia|].
      destruct (Nat.leb_spec i j); destruct (Nat.ltb_spec j (i + S (List.length bs))); cbn [andb]; try reflexivity; lia.
    + rewrite Hb1. destruct (Nat.eqb_spec j i) as [-> | Hne].
      * rewrite Nat.leb_refl. destruct (Nat.ltb_spec i (i + S (List.length bs))); [|lia]. cbn [andb].
        rewrite Nat.sub_diag. reflexivity.
      * destruct (Nat.leb_spec i j); [lia|]. reflexivity.
    + rewrite Hb1. destruct (Nat.eqb_spec j i); [lia|].
      destruct (Nat.leb_spec i j); [|reflexivity]. destruct (Nat.ltb_spec j (i + S (List.length bs))); [lia|]. reflexivity.
Qed.

(* ModelCompressor.compressActions: New(len) then SetValue(index, flag) in order *)
Lemma build_spec : forall bs, exists a, build bs = Ok a /\ wf a /\ a_size a = List.length bs
  /\ a_memo a = EmptyString /\ bits a = bs.
Proof.
  intro bs. destruct (build_from_spec bs (new_archive (List.length bs)) 0 (new_archive_wf _)) as [a [E [Hwf [Hs [Hm Hb]]]]];
    [cbn; lia|reflexivity|].
  exists a. split; [exact E|]. split; [exact Hwf|]. cbn [a_size new_archive] in Hs. split; [exact Hs|]. split; [exact Hm|].
  apply (nth_ext _ _ false false); [rewrite bits_length; exact Hs|].
  intros j Hj. rewrite bits_length in Hj. rewrite bits_nth by exact Hj. rewrite Hb.
  destruct (Nat.leb_spec 0 j); [|lia]. destruct (Nat.ltb_spec j (0 + List.length bs)); [|lia]. cbn [andb].
  rewrite Nat.sub_0_r. reflexivity.
Qed.

(* ------------------------------------------------------------------------------------------ *)
(** * D. the text: %X, strings.Split, strconv.ParseUint *)

Local Open Scope N_scope.

Lemma digit_val_hex_digit : forall d, d < 16 -> digit_val (hex_digit d) = Some d.
Proof.
  intros d Hd.
  assert (H : forallb (fun k => match digit_val (hex_digit k) with Some k' => k' =? k | None => false end)
                      [0;1;2;3;4;5;6;7;8;9;10;11;12;13;14;15] = true) by (vm_compute; reflexivity).
  rewrite forallb_forall in H.
  assert (Hin : In d [0;1;2;3;4;5;6;7;8;9;10;11;12;13;14;15]).
  { destruct d as [|p]; [left; reflexivity|].
    do 16 (try (destruct p as [p|p|]; try lia)); cbn; tauto. }
  specialize (H d Hin). destruct (digit_val (hex_digit d)) as [k'|]; [|discriminate].
  apply N.eqb_eq in H. subst. reflexivity.
Qed.

Definition colon : ascii := ":"%char.

Lemma hex_digit_not_colon : forall d, Ascii.eqb (hex_digit d) colon = false.
Proof.
  intro d. unfold hex_digit. destruct d as [|p]; [reflexivity|].
  do 5 (try (destruct p as [p|p|]; try reflexivity)).
Qed.

Fixpoint has_colon (s : string) : bool :=
  match s with EmptyString => false | String c s' => Ascii.eqb c colon || has_colon s' end.

Lemma has_colon_app : forall s t, has_colon (s ++ t) = has_colon s || has_colon t.
Proof. induction s as [|c s IH]; intro t; cbn; [reflexivity|]. rewrite IH, orb_assoc. reflexivity. Qed.

(* one step of ParseUint's loop *)
Definition parse_step (c : ascii) (n : N) : option N :=
  match digit_val c with
  | None => None
  | Some d => if cutoff <=? n then None
              else let n1 := n * 16 + d in if max_u64 <? n1 then None else Some n1
  end.

Definition obind {A B} (o : option A) (f : A -> option B) : option B :=
  match o with Some a => f a | None => None end.

Lemma parse_loop_cons : forall c s n, parse_loop n (String c s) = obind (parse_step c n) (fun n1 => parse_loop n1 s).
Proof.
  intros c s n. cbn [parse_loop]. unfold parse_step. destruct (digit_val c) as [d|]; [|reflexivity].
  destruct (cutoff <=? n); [reflexivity|]. cbv zeta. destruct (max_u64 <? n * 16 + d); reflexivity.
Qed.

Lemma parse_loop_snoc : forall s c n,
  parse_loop n (s ++ String c EmptyString) = obind (parse_loop n s) (parse_step c).
Proof.
  induction s as [|x s IH]; intros c n.
  - cbn [append]. rewrite parse_loop_cons. cbn [parse_loop obind]. destruct (parse_step c n); reflexivity.
  - cbn [append]. rewrite !parse_loop_cons. destruct (parse_step x n) as [n1|]; cbn [obind]; [apply IH|reflexivity].
Qed.

Lemma hex_digits_unfold : forall f n,
  hex_digits (S f) n = String.append (if n / 16 =? 0 then EmptyString else hex_digits f (n / 16))
                                     (String (hex_digit (n mod 16)) EmptyString).
Proof. reflexivity. Qed.

Lemma parse_hex_digits : forall f n, n < 16 ^ N.of_nat f -> lt64 n -> parse_loop 0 (hex_digits f n) = Some n.
Proof.
  induction f as [|f IH]; intros n Hn H64.
  - cbn in Hn. assert (n = 0) by lia. subst. reflexivity.
  - rewrite hex_digits_unfold, parse_loop_snoc.
    assert (Hpre : parse_loop 0 (if n / 16 =? 0 then EmptyString else hex_digits f (n / 16)) = Some (n / 16)).
    { destruct (N.eqb_spec (n / 16) 0) as [E | _]; [rewrite E; reflexivity|].
      apply IH.
      - apply N.div_lt_upper_bound; [discriminate|]. rewrite Nat2N.inj_succ, N.pow_succ_r' in Hn. exact Hn.
      - unfold lt64 in *. pose proof (N.div_le_upper_bound n 16 n). assert (n / 16 <= n) by (apply N.div_le_upper_bound; lia). lia. }
    rewrite Hpre. cbn [obind]. unfold parse_step.
    rewrite digit_val_hex_digit by (apply N.mod_lt; discriminate).
    assert (Hq : n / 16 < cutoff).
    { apply N.div_lt_upper_bound; [discriminate|]. unfold lt64, two64 in H64. unfold cutoff. lia. }
    destruct (N.leb_spec cutoff (n / 16)) as [Hc | _]; [lia|]. cbv zeta.
    assert (Hn1 : n / 16 * 16 + n mod 16 = n) by (rewrite N.mul_comm; symmetry; apply N.div_mod; discriminate).
    rewrite Hn1. destruct (N.ltb_spec max_u64 n) as [Hm | _]; [unfold lt64, two64, max_u64 in *; lia|]. reflexivity.
Qed.

Lemma hex_digits_nonempty : forall f n, string_is_empty (hex_digits (S f) n) = false.
Proof.
  intros f n. rewrite hex_digits_unfold.
  destruct (if n / 16 =? 0 then EmptyString else hex_digits f (n / 16)); reflexivity.
Qed.

Lemma hex_digits_no_colon : forall f n, has_colon (hex_digits f n) = false.
Proof.
  induction f as [|f IH]; intro n; [reflexivity|].
  rewrite hex_digits_unfold, has_colon_app. cbn [has_colon]. rewrite hex_digit_not_colon. cbn [orb].
  destruct (n / 16 =? 0); [reflexivity|]. rewrite IH. reflexivity.
Qed.

(* ParseUint(%X of w, 16, 64) = w *)
Lemma parse_hex_upper : forall w, lt64 w -> parse_uint_hex64 (hex_upper w) = Some w.
Proof.
  intros w Hw. unfold parse_uint_hex64, hex_upper. rewrite hex_digits_nonempty.
  apply parse_hex_digits; [|exact Hw]. exact Hw.
Qed.

Lemma hex_upper_no_colon : forall w, has_colon (hex_upper w) = false.
Proof. intro w. apply hex_digits_no_colon. Qed.

Lemma parse_loop_bound : forall s n v, n <= max_u64 -> parse_loop n s = Some v -> v <= max_u64.
Proof.
  induction s as [|c s IH]; intros n v Hn H.
  - cbn in H. injection H as <-. exact Hn.
  - rewrite parse_loop_cons in H. unfold parse_step in H. destruct (digit_val c) as [d|]; [|discriminate].
    destruct (cutoff <=? n); [discriminate|]. cbv zeta in H.
    destruct (N.ltb_spec max_u64 (n * 16 + d)) as [|Hle]; [discriminate|]. cbn [obind] in H. apply (IH _ _ Hle H).
Qed.

Lemma parse_uint_lt64 : forall s v, parse_uint_hex64 s = Some v -> lt64 v.
Proof.
  intros s v H. unfold parse_uint_hex64 in H. destruct (string_is_empty s); [discriminate|].
  apply parse_loop_bound in H; [|unfold max_u64; lia]. unfold lt64, two64, max_u64 in *. lia.
Qed.

(* strings.Split on ':' *)
Lemma split_colon_nonempty : forall s, split_colon s <> [].
Proof.
  induction s as [|c s IH]; cbn; [discriminate|]. destruct (Ascii.eqb c ":"); [discriminate|].
  destruct (split_colon s); [congruence|discriminate].
Qed.

Lemma split_no_colon : forall s, has_colon s = false -> split_colon s = [s].
Proof.
  induction s as [|c s IH]; intro H; [reflexivity|]. cbn in H. apply orb_false_iff in H. destruct H as [Hc Hs].
  cbn [split_colon]. fold colon. rewrite Hc, (IH Hs). reflexivity.
Qed.

Lemma split_app_colon : forall s t, has_colon s = false ->
  split_colon (s ++ String colon t) = s :: split_colon t.
Proof.
  induction s as [|c s IH]; intros t H.
  - cbn. reflexivity.
  - cbn in H. apply orb_false_iff in H. destruct H as [Hc Hs]. cbn [append split_colon]. fold colon.
    rewrite Hc, (IH t Hs). reflexivity.
Qed.

Lemma append_empty_r : forall s, (s ++ EmptyString)%string = s.
Proof. induction s as [|c s IH]; cbn; [reflexivity|]. rewrite IH. reflexivity. Qed.

Lemma split_encode_tail : forall r w,
  split_colon (hex_upper w ++ encode_from true r) = hex_upper w :: map hex_upper r.
Proof.
  induction r as [|w2 r IH]; intro w.
  - cbn [encode_from map]. rewrite append_empty_r. apply split_no_colon, hex_upper_no_colon.
  - cbn [encode_from map]. change (":" ++ hex_upper w2 ++ encode_from true r)%string
      with (String colon (hex_upper w2 ++ encode_from true r)).
    rewrite split_app_colon by apply hex_upper_no_colon. rewrite IH. reflexivity.
Qed.

(* splitting an encoding gives back the words' texts (at least one word) *)
Lemma split_encode_words : forall ws, ws <> [] -> split_colon (encode_words ws) = map hex_upper ws.
Proof.
  intros [|w r] H; [congruence|]. unfold encode_words. cbn [encode_from].
  change (EmptyString ++ hex_upper w ++ encode_from true r)%string with (hex_upper w ++ encode_from true r)%string.
  apply split_encode_tail.
Qed.

(* ------------------------------------------------------------------------------------------ *)
(** * E. Decode *)

Local Open Scope nat_scope.

Definition parses (e : string) : bool := match parse_uint_hex64 e with Some _ => true | None => false end.

(* parseEntriesIntoArrayValues (fixed): all entries parse, or nothing is stored *)
Lemma parse_all_spec : forall es,
  match parse_all es with
  | Some vs => forallb parses es = true /\ map Some vs = map parse_uint_hex64 es
               /\ List.length vs = List.length es /\ all_lt64 vs
  | None => forallb parses es = false
  end.
Proof.
  induction es as [|e es IH]; cbn [parse_all forallb map].
  - repeat split. constructor.
  - assert (Hp : parses e = match parse_uint_hex64 e with Some _ => true | None => false end) by reflexivity.
    rewrite Hp. clear Hp. destruct (parse_uint_hex64 e) as [v|] eqn:Ev; [|reflexivity].
    destruct (parse_all es) as [vs|]; cbn [option_map andb].
    + destruct IH as [Hf [Hm [Hl Hlt]]]. split; [exact Hf|]. split; [cbn [map]; rewrite Hm; reflexivity|].
      split; [cbn; rewrite Hl; reflexivity|]. constructor; [exact (parse_uint_lt64 _ _ Ev)|exact Hlt].
    + exact IH.
Qed.

Lemma copy_words_same_length : forall dst src, List.length src = List.length dst -> copy_words dst src = src.
Proof.
  intros dst src H. unfold copy_words. rewrite <- H, firstn_all, H, skipn_all. apply app_nil_r.
Qed.

Lemma zero_from_spec : forall count ws i, all_lt64 ws -> i + count <= 64 * List.length ws ->
  exists ws', zero_from ws (Z.of_nat i) count = Ok ws' /\ List.length ws' = List.length ws /\ all_lt64 ws'
    /\ forall j, bit_at ws' j = if (i <=? j) && (j <? i + count) then false else bit_at ws j.
Proof.
  induction count as [|c IH]; intros ws i Hlt Hi.
  - exists ws. cbn [zero_from]. repeat split; try assumption. intro j.
    destruct (Nat.leb_spec i j); destruct (Nat.ltb_spec j (i + 0)); try reflexivity; lia.
  - destruct (set_value_unchecked_spec ws i false Hlt) as [ws1 [E1 [L1 [Hlt1 [_ Hb1]]]]]; [lia|].
    destruct (IH ws1 (S i) Hlt1) as [ws' [E' [L' [Hlt' Hb']]]]; [rewrite L1; lia|].
    exists ws'. cbn [zero_from]. rewrite E1. cbn [res_bind].
    replace (Z.of_nat i + 1)%Z with (Z.of_nat (S i)) by lia.
    split; [exact E'|]. split; [lia|]. split; [exact Hlt'|]. intro j. rewrite Hb', Hb1.
    destruct (Nat.leb_spec (S i) j); destruct (Nat.ltb_spec j (S i + c)); destruct (Nat.eqb_spec j i);
      destruct (Nat.leb_spec i j); destruct (Nat.ltb_spec j (i + S c)); cbn [andb]; try reflexivity; lia.
Qed.

Lemma zero_out_unused_spec : forall n ws, all_lt64 ws -> n <= 64 * List.length ws ->
  exists ws', zero_out_unused n ws = Ok ws' /\ List.length ws' = List.length ws /\ all_lt64 ws'
    /\ forall j, bit_at ws' j = if j <? n then bit_at ws j else false.
Proof.
  intros n ws Hlt Hn. unfold zero_out_unused.
  destruct (zero_from_spec (List.length ws * 64 - n) ws n Hlt) as [ws' [E [L [Hlt' Hb]]]]; [lia|].
  exists ws'. split; [exact E|]. split; [exact L|]. split; [exact Hlt'|]. intro j. rewrite Hb.
  destruct (Nat.leb_spec n j); destruct (Nat.ltb_spec j (n + (List.length ws * 64 - n))); destruct (Nat.ltb_spec j n);
    cbn [andb]; try reflexivity; try lia.
  apply bit_at_overflow. lia.
Qed.

Definition decode_accepts (nw : nat) (s : string) : bool :=
  Nat.eqb (List.length (split_colon s)) nw && forallb parses (split_colon s).

(* A rejected text leaves the archive EXACTLY as it was -- words, memo, everything (any archive, any text) *)
Lemma decode_rejected_unchanged : forall a s,
  decode_accepts (List.length (a_words a)) s = false -> decode a s = Ok (a, false).
Proof.
  intros a s Hr. unfold decode, decode_accepts in *. cbv zeta.
  destruct (Nat.eqb (List.length (split_colon s)) (List.length (a_words a))); cbn [negb andb] in *; [|reflexivity].
  pose proof (parse_all_spec (split_colon s)) as P. destruct (parse_all (split_colon s)); [|reflexivity].
  destruct P as [Hf _]. congruence.
Qed.

(* Decode of ANY text into a well-formed archive: never panics, keeps the invariant, accepts exactly the texts
   with one parsable entry per word; what it then holds are the parsed words cut to the size *)
Lemma decode_spec : forall a s, wf a ->
  exists a', decode a s = Ok (a', decode_accepts (List.length (a_words a)) s)
    /\ wf a' /\ a_size a' = a_size a
    /\ (decode_accepts (List.length (a_words a)) s = true ->
          a_memo a' = EmptyString
          /\ exists vs, map Some vs = map parse_uint_hex64 (split_colon s)
                        /\ forall j, j < a_size a -> bit_at (a_words a') j = bit_at vs j)
    /\ (decode_accepts (List.length (a_words a)) s = false -> a' = a).
Proof.
  intros a s Hwf. destruct (decode_accepts (List.length (a_words a)) s) eqn:Hacc.
  - pose proof Hwf as [HL [Hlt Hz]]. unfold decode, decode_accepts in *. cbv zeta.
    apply andb_true_iff in Hacc. destruct Hacc as [Hc Hf]. rewrite Hc. cbn [negb]. apply Nat.eqb_eq in Hc.
    pose proof (parse_all_spec (split_colon s)) as P. destruct (parse_all (split_colon s)) as [vs|]; [|congruence].
    destruct P as [_ [Hm [Hl Hltv]]]. rewrite copy_words_same_length by lia.
    destruct (zero_out_unused_spec (a_size a) vs Hltv) as [ws2 [E2 [L2 [Hlt2 Hb2]]]].
    { rewrite Hl, Hc, HL. apply nwords_bounds. }
    rewrite E2. cbn [res_bind]. eexists. split; [reflexivity|]. cbn [a_words a_size a_memo].
    split; [|split; [reflexivity|split; [|discriminate]]].
    + unfold wf. cbn [a_words a_size]. split; [lia|]. split; [exact Hlt2|].
      intros j Hj. rewrite Hb2. destruct (Nat.ltb_spec j (a_size a)); [lia|reflexivity].
    + intros _. split; [reflexivity|]. exists vs. split; [exact Hm|]. intros j Hj. rewrite Hb2.
      destruct (Nat.ltb_spec j (a_size a)); [reflexivity|lia].
  - exists a. rewrite (decode_rejected_unchanged a s Hacc). split; [reflexivity|]. split; [exact Hwf|].
    split; [reflexivity|]. split; [discriminate|reflexivity].
Qed.

(* ------------------------------------------------------------------------------------------ *)
(** * F. round trip, canonicity *)

Lemma wf_words_nonempty : forall a, wf a -> 1 <= a_size a -> a_words a <> [].
Proof.
  intros a [HL _] Hn E. rewrite E in HL. cbn [List.length] in HL. pose proof (nwords_bounds (a_size a)). lia.
Qed.

Lemma map_Some_inj : forall {A} (l1 l2 : list A), map Some l1 = map Some l2 -> l1 = l2.
Proof.
  intros A. induction l1 as [|x l1 IH]; intros [|y l2] H; try discriminate; [reflexivity|].
  cbn in H. injection H as -> H. f_equal. apply IH. exact H.
Qed.

Lemma parse_map_hex : forall ws, all_lt64 ws -> map parse_uint_hex64 (map hex_upper ws) = map Some ws.
Proof.
  intros ws H. induction H as [|w ws Hw _ IH]; [reflexivity|]. cbn [map]. rewrite parse_hex_upper by exact Hw.
  rewrite IH. reflexivity.
Qed.

Lemma accepts_own_encoding : forall ws, ws <> [] -> all_lt64 ws ->
  decode_accepts (List.length ws) (encode_words ws) = true.
Proof.
  intros ws Hne Hlt. unfold decode_accepts. rewrite split_encode_words by exact Hne. rewrite map_length, Nat.eqb_refl.
  cbn [andb]. apply forallb_forall. intros e He. apply in_map_iff in He. destruct He as [w [<- Hw]].
  unfold parses. rewrite parse_hex_upper; [reflexivity|]. apply (proj1 (Forall_forall _ _) Hlt). exact Hw.
Qed.

(* Decoding the encoding of [a] into ANY archive [b] of the same size (whatever b held, whatever its memo)
   makes b's words equal to a's.  Sizes >= 1, no upper bound. *)
Lemma decode_encoding : forall a b, wf a -> wf b -> a_size a = a_size b -> 1 <= a_size a ->
  decode b (encode_words (a_words a)) = Ok (mk_archive (a_size b) (a_words a) EmptyString, true).
Proof.
  intros a b Hwa Hwb Hs Hn. pose proof Hwa as [HLa [Hlta Hza]]. pose proof Hwb as [HLb _].
  assert (HLab : List.length (a_words b) = List.length (a_words a)) by (rewrite HLa, HLb, Hs; reflexivity).
  destruct (decode_spec b (encode_words (a_words a)) Hwb) as [b' [E [Hwb' [Hs' [Hacc _]]]]].
  rewrite HLab in *. rewrite (accepts_own_encoding _ (wf_words_nonempty a Hwa Hn) Hlta) in *.
  destruct (Hacc eq_refl) as [Hm [vs [Hvs Hb]]]. rewrite E. f_equal. f_equal.
  rewrite split_encode_words in Hvs by (apply wf_words_nonempty; assumption).
  rewrite parse_map_hex in Hvs by exact Hlta. apply map_Some_inj in Hvs. subst vs.
  assert (Hw : a_words b' = a_words a).
  { apply wf_bits_inj; try assumption; [lia|].
    apply (nth_ext _ _ false false); [rewrite !bits_length; lia|]. intros j Hj. rewrite bits_length in Hj.
    rewrite !bits_nth by lia. apply Hb. lia. }
  destruct b' as [sz ws m]. cbn in *. subst. reflexivity.
Qed.

Lemma encoding_fresh : forall a, a_memo a = EmptyString -> encoding a
  = (mk_archive (a_size a) (a_words a) (encode_words (a_words a)), encode_words (a_words a)).
Proof. intros a H. unfold encoding. rewrite H. reflexivity. Qed.

(* canonicity: on well-formed archives of one size, equal encodings <-> equal bits *)
Lemma encode_words_inj : forall a b, wf a -> wf b -> a_size a = a_size b ->
  encode_words (a_words a) = encode_words (a_words b) -> a_words a = a_words b.
Proof.
  intros a b Hwa Hwb Hs He. destruct (Nat.eq_dec (a_size a) 0) as [Hz | Hnz].
  - destruct Hwa as [HLa _], Hwb as [HLb _]. rewrite <- Hs, Hz in HLb. rewrite Hz in HLa. cbn in HLa, HLb.
    destruct (a_words a); [|discriminate]. destruct (a_words b); [reflexivity|discriminate].
  - pose proof (decode_encoding a b Hwa Hwb Hs ltac:(lia)) as E1.
    pose proof (decode_encoding b b Hwb Hwb eq_refl ltac:(lia)) as E2.
    rewrite He, E2 in E1. injection E1 as E1. symmetry. exact E1.
Qed.

Lemma canonical : forall a b, wf a -> wf b -> a_size a = a_size b ->
  (encode_words (a_words a) = encode_words (a_words b) <-> bits a = bits b).
Proof.
  intros a b Hwa Hwb Hs. split.
  - intro He. unfold bits. rewrite (encode_words_inj a b Hwa Hwb Hs He), Hs. reflexivity.
  - intro Hb. rewrite (wf_bits_inj a b Hwa Hwb Hs Hb). reflexivity.
Qed.

(* ---- the statements in terms of bit vectors built the way crem builds them ---- *)

Definition encode_bits (bs : list bool) : res string :=
  do a <- build bs; Ok (snd (encoding a)).

Lemma encode_bits_total : forall bs, exists a, build bs = Ok a /\ encode_bits bs = Ok (encode_words (a_words a))
  /\ wf a /\ a_size a = List.length bs /\ bits a = bs.
Proof.
  intro bs. destruct (build_spec bs) as [a [E [Hwf [Hs [Hm Hb]]]]]. exists a. split; [exact E|].
  unfold encode_bits. rewrite E. cbn [res_bind]. rewrite encoding_fresh by exact Hm. cbn [snd].
  split; [reflexivity|]. split; [exact Hwf|]. split; assumption.
Qed.

Lemma roundtrip_bits : forall bs s, bs <> [] -> encode_bits bs = Ok s ->
  forall b, wf b -> a_size b = List.length bs ->
  exists b', decode b s = Ok (b', true) /\ bits b' = bs /\ wf b' /\ a_size b' = List.length bs /\ a_memo b' = EmptyString.
Proof.
  intros bs s Hne He b Hwb Hsb. destruct (encode_bits_total bs) as [a [_ [E [Hwa [Hsa Hba]]]]].
  rewrite E in He. injection He as <-.
  assert (Hn : 1 <= a_size a) by (rewrite Hsa; destruct bs; [congruence|cbn; lia]).
  rewrite (decode_encoding a b Hwa Hwb) by lia. rewrite Hsb, <- Hsa.
  exists (mk_archive (a_size a) (a_words a) EmptyString). split; [reflexivity|].
  split; [exact Hba|]. split; [|split; reflexivity].
  destruct Hwa as [HLa [Hlta Hza]]. unfold wf. cbn [a_words a_size]. repeat split; assumption.
Qed.

Lemma canonical_bits : forall b1 b2 s1 s2, List.length b1 = List.length b2 ->
  encode_bits b1 = Ok s1 -> encode_bits b2 = Ok s2 -> (s1 = s2 <-> b1 = b2).
Proof.
  intros b1 b2 s1 s2 HL E1 E2.
  destruct (encode_bits_total b1) as [a1 [_ [F1 [Hw1 [Hs1 Hb1]]]]].
  destruct (encode_bits_total b2) as [a2 [_ [F2 [Hw2 [Hs2 Hb2]]]]].
  rewrite F1 in E1. rewrite F2 in E2. injection E1 as <-. injection E2 as <-.
  rewrite (canonical a1 a2 Hw1 Hw2) by lia. rewrite Hb1, Hb2. reflexivity.
Qed.

(* ------------------------------------------------------------------------------------------ *)
(** * G. histories: the invariant and the memo *)

(* a negative index passes the only check the code makes ([entryIndex >= size]); what happens then *)
Lemma set_value_unchecked_negative : forall ws i v, all_lt64 ws -> (i < 0)%Z ->
  set_value_unchecked ws i v = Panic \/ set_value_unchecked ws i v = Ok ws.
Proof.
  intros ws i v Hlt Hi. unfold set_value_unchecked, derive_detail. cbv zeta.
  destruct (Z.ltb_spec (Z.quot i 64) 0) as [Hq | Hq]; [left; reflexivity|].
  pose proof (Z.quot_rem' i 64) as Hqr. pose proof (Z.rem_bound_pos_neg i 64 ltac:(lia) ltac:(lia)) as Hr.
  assert (Hq0 : Z.quot i 64 = 0%Z) by lia. rewrite Hq0. cbn [Z.to_nat].
  destruct ws as [|w r]; [left; reflexivity|]. cbn [nth_error res_bind d_value d_index d_mask].
  assert (Hm : mask_of i = 0%N).
  { unfold mask_of. cbv zeta. destruct (Z.ltb_spec (Z.rem i 64) 0); [reflexivity|lia]. }
  rewrite Hm, N.land_0_r. cbn [N.ltb N.compare]. change (0 <? 0)%N with false.
  destruct v; cbn [Bool.eqb]; [|right; reflexivity].
  cbn [nth_error set_nth]. right. unfold add64. rewrite N.add_0_r, N.mod_small; [reflexivity|].
  inversion Hlt; assumption.
Qed.

Lemma step_wf : forall a o, wf a -> wf (step a o) /\ a_size (step a o) = a_size a.
Proof.
  intros a o Hwf. destruct o as [i b | | s]; cbn [step].
  - destruct (Z.le_gt_cases (Z.of_nat (a_size a)) i) as [Hge | Hlt].
    { rewrite set_value_out_of_range by exact Hge. split; [exact Hwf|reflexivity]. }
    destruct (Z.lt_ge_cases i 0) as [Hneg | Hpos].
    + unfold set_value. destruct (Z.leb_spec (Z.of_nat (a_size a)) i); [lia|].
      destruct Hwf as [HL [Hl Hz]].
      destruct (set_value_unchecked_negative (a_words a) i b Hl Hneg) as [-> | ->]; cbn [res_bind].
      * split; [repeat split; assumption|reflexivity].
      * split; [repeat split; assumption|reflexivity].
    + destruct (set_value_spec a (Z.to_nat i) b Hwf) as [a' [E [Hwf' [Hs' _]]]]; [lia|].
      rewrite Z2Nat.id in E by lia. rewrite E. split; assumption.
  - unfold encoding. destruct (string_is_empty (a_memo a)); cbn [fst]; (split; [|reflexivity]).
    + destruct Hwf as [HL [Hl Hz]]. repeat split; assumption.
    + exact Hwf.
  - destruct (decode_spec a s Hwf) as [a' [E [Hwf' [Hs' _]]]]. rewrite E. split; assumption.
Qed.

Lemma run_wf : forall ops a, wf a -> wf (run a ops) /\ a_size (run a ops) = a_size a.
Proof.
  induction ops as [|o ops IH]; intros a Hwf; [split; [exact Hwf|reflexivity]|].
  unfold run. cbn [fold_left]. destruct (step_wf a o Hwf) as [H1 H2].
  destruct (IH (step a o) H1) as [H3 H4]. unfold run in H3, H4. split; [exact H3|]. rewrite H4. exact H2.
Qed.

(* the memo is absent or it is the encoding of the words the archive holds now *)
Definition memo_ok (a : archive) : Prop :=
  a_memo a = EmptyString \/ a_memo a = encode_words (a_words a).

Lemma string_is_empty_iff : forall s, string_is_empty s = true <-> s = EmptyString.
Proof. intros [|c s]; cbn; split; congruence. Qed.

Lemma memo_okb_iff : forall a, memo_okb a = true <-> memo_ok a.
Proof.
  intro a. unfold memo_okb, memo_ok. rewrite orb_true_iff, string_is_empty_iff, String.eqb_eq. reflexivity.
Qed.

Lemma encoding_sound : forall a, memo_ok a -> snd (encoding a) = encode_words (a_words a) /\ memo_ok (fst (encoding a))
  /\ a_words (fst (encoding a)) = a_words a.
Proof.
  intros a Hm. unfold encoding. destruct (string_is_empty (a_memo a)) eqn:E; cbn [fst snd a_words a_memo].
  - split; [reflexivity|]. split; [right; reflexivity|reflexivity].
  - split; [|split; [exact Hm|reflexivity]]. destruct Hm as [Hm | Hm]; [|exact Hm].
    rewrite Hm in E. discriminate.
Qed.

Lemma step_memo : forall a o, wf a -> memo_ok a -> memo_ok (step a o).
Proof.
  intros a o Hwf Hm. destruct o as [i b | | s]; cbn [step].
  - unfold set_value. destruct (Z.of_nat (a_size a) <=? i)%Z; [exact Hm|].
    destruct (set_value_unchecked (a_words a) i b); cbn [res_bind]; [left; reflexivity|exact Hm].
  - apply encoding_sound. exact Hm.
  - destruct (decode_spec a s Hwf) as [a' [E [_ [_ [Hacc Hrej]]]]]. rewrite E.
    destruct (decode_accepts (List.length (a_words a)) s).
    + left. apply (Hacc eq_refl).
    + rewrite (Hrej eq_refl). exact Hm.
Qed.

Lemma run_memo : forall ops a, wf a -> memo_ok a -> memo_ok (run a ops).
Proof.
  induction ops as [|o ops IH]; intros a Hwf Hm; [exact Hm|].
  unfold run. cbn [fold_left]. destruct (step_wf a o Hwf) as [H1 _].
  apply (IH (step a o) H1). apply step_memo; assumption.
Qed.

(* memo soundness over histories: after ANY sequence of SetValue (any index, any value), Encoding() and Decode (any
   text, accepted or rejected) on a new archive of ANY size, what Encoding() answers is the encoding of the bits
   held at that moment *)
Lemma cache_sound : forall n ops,
  let a := run (new_archive n) ops in
  snd (encoding a) = encode_words (a_words a) /\ wf a /\ a_size a = n.
Proof.
  intros n ops a. destruct (run_wf ops (new_archive n) (new_archive_wf n)) as [Hwf Hs].
  split; [|split; [exact Hwf|exact Hs]].
  apply encoding_sound. apply run_memo; [apply new_archive_wf|left; reflexivity].
Qed.

(* ------------------------------------------------------------------------------------------ *)
(** * H. the closed form: what New + SetValue builds is the little-endian packing of the bits *)

Lemma testbit_N_of_bits : forall l i, N.testbit (N_of_bits l) (N.of_nat i) = nth i l false.
Proof.
  induction l as [|b l IH]; intro i; cbn [N_of_bits nth].
  - rewrite N.bits_0. destruct i; reflexivity.
  - rewrite N.add_comm. destruct i as [|i].
    + apply N.testbit_0_r.
    + rewrite Nat2N.inj_succ, N.testbit_succ_r. apply IH.
Qed.

Lemma N_of_bits_lt : forall l, (N_of_bits l < 2 ^ N.of_nat (List.length l))%N.
Proof.
  induction l as [|b l IH]; cbn [N_of_bits List.length]; [reflexivity|].
  rewrite Nat2N.inj_succ, N.pow_succ_r'. destruct b; cbn [N.b2n]; lia.
Qed.

Lemma nth_firstn_lt : forall {A} n (l : list A) i d, i < n -> nth i (firstn n l) d = nth i l d.
Proof.
  intros A n. induction n as [|n IH]; intros l i d Hi; [lia|]. destruct l as [|x l]; [reflexivity|].
  destruct i as [|i]; [reflexivity|]. cbn [firstn nth]. apply IH. lia.
Qed.

Lemma nth_skipn_add : forall {A} k (l : list A) i d, nth i (skipn k l) d = nth (k + i) l d.
Proof.
  intros A k. induction k as [|k IH]; intros l i d; [reflexivity|]. destruct l as [|x l].
  - cbn [skipn]. destruct i; destruct (S k + _); reflexivity.
  - cbn [skipn]. rewrite IH. reflexivity.
Qed.

Lemma nth_map_seq : forall {A} (f : nat -> A) m k d, k < m -> nth k (map f (seq 0 m)) d = f k.
Proof.
  intros A f m k d Hk. rewrite (nth_indep _ d (f 0)) by (rewrite map_length, seq_length; exact Hk).
  rewrite (map_nth f (seq 0 m) 0 k), seq_nth by exact Hk. reflexivity.
Qed.

Lemma words_of_bits_nth : forall bs k, k < nwords (List.length bs) ->
  nth k (words_of_bits bs) 0%N = N_of_bits (firstn 64 (skipn (64 * k) bs)).
Proof.
  intros bs k Hk. unfold words_of_bits. apply (nth_map_seq (fun k => N_of_bits (firstn 64 (skipn (64 * k) bs)))). exact Hk.
Qed.

Lemma bit_at_words_of_bits : forall bs j, bit_at (words_of_bits bs) j = nth j bs false.
Proof.
  intros bs j. unfold bit_at. destruct (Nat.lt_ge_cases (j / 64) (nwords (List.length bs))) as [L | G].
  - rewrite words_of_bits_nth by exact L. rewrite testbit_N_of_bits.
    rewrite nth_firstn_lt by (apply Nat.mod_upper_bound; lia). rewrite nth_skipn_add.
    rewrite <- Nat.div_mod by lia. reflexivity.
  - rewrite nth_overflow by (unfold words_of_bits; rewrite map_length, seq_length; exact G).
    rewrite N.bits_0. symmetry. apply nth_overflow.
    pose proof (nwords_bounds (List.length bs)). pose proof (Nat.div_mod j 64 ltac:(lia)). lia.
Qed.

Lemma of_bits_wf : forall bs, wf (of_bits bs).
Proof.
  intro bs. unfold wf, of_bits. cbn [a_words a_size]. split; [|split].
  - unfold words_of_bits. rewrite map_length, seq_length. reflexivity.
  - apply all_lt64_of_nth. intro i. destruct (Nat.lt_ge_cases i (nwords (List.length bs))) as [L | G].
    + rewrite words_of_bits_nth by exact L. unfold lt64. rewrite two64_pow.
      apply N.lt_le_trans with (2 ^ N.of_nat (List.length (firstn 64 (skipn (64 * i) bs))))%N; [apply N_of_bits_lt|].
      apply N.pow_le_mono_r; [discriminate|]. pose proof (firstn_le_length 64 (skipn (64 * i) bs)). lia.
    + rewrite nth_overflow by (unfold words_of_bits; rewrite map_length, seq_length; exact G). reflexivity.
  - intros j Hj. rewrite bit_at_words_of_bits. apply nth_overflow. exact Hj.
Qed.

Lemma of_bits_bits : forall bs, bits (of_bits bs) = bs.
Proof.
  intro bs. apply (nth_ext _ _ false false); [rewrite bits_length; reflexivity|].
  intros j Hj. rewrite bits_length in Hj. rewrite bits_nth by exact Hj. apply bit_at_words_of_bits.
Qed.

Lemma build_is_of_bits : forall bs, build bs = Ok (of_bits bs).
Proof.
  intro bs. destruct (build_spec bs) as [a [E [Hwf [Hs [Hm Hb]]]]]. rewrite E. f_equal.
  assert (Hw : a_words a = a_words (of_bits bs)).
  { apply wf_bits_inj; [exact Hwf|apply of_bits_wf|exact Hs|]. rewrite of_bits_bits. exact Hb. }
  destruct a as [sz ws m]. cbn in *. subst. reflexivity.
Qed.

(* DESIGN 8/C09 in its planned form *)
Lemma roundtrip_of_bits : forall bs, bs <> [] ->
  decode (new_archive (List.length bs)) (snd (encoding (of_bits bs))) = Ok (of_bits bs, true).
Proof.
  intros bs Hne. rewrite encoding_fresh by reflexivity. cbn [snd].
  rewrite (decode_encoding (of_bits bs) (new_archive (List.length bs)) (of_bits_wf bs) (new_archive_wf _)).
  - reflexivity.
  - reflexivity.
  - cbn [a_size of_bits]. destruct bs; [congruence|cbn; lia].
Qed.

Lemma canonical_of_bits : forall b1 b2, List.length b1 = List.length b2 ->
  (snd (encoding (of_bits b1)) = snd (encoding (of_bits b2)) <-> b1 = b2).
Proof.
  intros b1 b2 HL. rewrite !encoding_fresh by reflexivity. cbn [snd].
  rewrite (canonical (of_bits b1) (of_bits b2) (of_bits_wf b1) (of_bits_wf b2) HL). rewrite !of_bits_bits. reflexivity.
Qed.

(* ------------------------------------------------------------------------------------------ *)
(** * I. packaged statements used by Properties/C09.v *)

Lemma out_of_range_panics : forall a i v, (Z.of_nat (a_size a) <= i)%Z ->
  set_value a i v = Panic /\ value a i = Panic.
Proof. intros a i v H. split; [exact (set_value_out_of_range a i v H)|exact (value_out_of_range a i H)]. Qed.

Lemma of_bits_wf_bits : forall bs, wf (of_bits bs) /\ bits (of_bits bs) = bs.
Proof. intro bs. split; [exact (of_bits_wf bs)|exact (of_bits_bits bs)]. Qed.

Lemma reachable_wf : forall n ops, wf (run (new_archive n) ops) /\ a_size (run (new_archive n) ops) = n.
Proof. intros n ops. exact (run_wf ops (new_archive n) (new_archive_wf n)). Qed.

Lemma size0_not_roundtrip : decode (new_archive 0) (snd (encoding (of_bits []))) = Ok (new_archive 0, false).
Proof. vm_compute. reflexivity. Qed.

(* regression of the defect repaired by fix C09-1 (the former witness of a stale memo): a Decode rejected at its
   second entry stores nothing, so the memoised text is still the encoding of what the archive holds *)
Lemma rejected_decode_regression :
  let a := run (new_archive 65) [OpEncode; OpDecode "1:zz"; OpEncode] in
  snd (encoding a) = "0:0"%string /\ encode_words (a_words a) = "0:0"%string /\ a_words a = [0%N; 0%N].
Proof. vm_compute. repeat split; reflexivity. Qed.

Lemma build_packing : forall bs, build bs = Ok (of_bits bs) /\ wf (of_bits bs) /\ bits (of_bits bs) = bs.
Proof. intro bs. exact (conj (build_is_of_bits bs) (of_bits_wf_bits bs)). Qed.
