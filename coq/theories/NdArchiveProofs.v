(* Lemmas about the archive model (C05).  Structure:
   1. booleans <-> propositions (action keys, vectors, dominance);
   2. a pure (Panic-free) mirror of the model and the link "on equal dimensions the model never
      panics and equals the mirror";
   3. what one attempt / one forced store does (refusal, eviction, presence);
   4. the invariant over all Offer/OfferForce sequences;
   5. Pareto-front equality over all Offer sequences;
   6. members are offers (values are evaluations); the self-check; refutation witnesses. *)
From Coq Require Import List QArith Bool Arith Lia.
From Crem Require Import Base.Res Dominance DominanceProofs NdArchive.
Import ListNotations.

(* ---------- 1. booleans ---------- *)

Lemma acts_eqb_iff x : forall y, acts_eqb x y = true <-> x = y.
Proof.
  induction x as [|a x IH]; intros [|b y]; simpl; try (split; [discriminate|discriminate]).
  - split; reflexivity.
  - destruct (Bool.eqb a b) eqn:E.
    + apply eqb_prop in E. subst b. rewrite IH. split; [intros ->; reflexivity|intro H; injection H; auto].
    + split; [discriminate|]. intro H. injection H as -> _. rewrite eqb_reflx in E. discriminate.
Qed.

Lemma acts_eqb_refl x : acts_eqb x x = true.
Proof. apply acts_eqb_iff. reflexivity. Qed.

Lemma acts_eqb_false_iff x y : acts_eqb x y = false <-> x <> y.
Proof.
  split.
  - intros H E. apply acts_eqb_iff in E. congruence.
  - intro H. destruct (acts_eqb x y) eqn:E; [|reflexivity]. apply acts_eqb_iff in E. contradiction.
Qed.

Lemma vec_eqb_iff x : forall y, vec_eqb x y = true <-> vec_eq x y.
Proof.
  unfold vec_eq.
  induction x as [|a x IH]; intros [|b y]; simpl.
  - split; [constructor|reflexivity].
  - split; [discriminate|intro H; inversion H].
  - split; [discriminate|intro H; inversion H].
  - destruct (Qeq_bool a b) eqn:E.
    + apply Qeq_bool_iff in E. rewrite IH. split.
      * intro H. constructor; assumption.
      * intro H. inversion H; subst. assumption.
    + split; [discriminate|]. intro H. inversion H; subst.
      assert (Qeq_bool a b = true) by (apply Qeq_bool_iff; assumption). congruence.
Qed.

Lemma vec_eq_refl x : vec_eq x x.
Proof. unfold vec_eq. induction x; constructor; [reflexivity|assumption]. Qed.

Lemma vec_eq_sym x y : vec_eq x y -> vec_eq y x.
Proof. unfold vec_eq. induction 1; constructor; [symmetry|]; assumption. Qed.

Lemma all_le_l_eq x : forall y, all_le_l x y = all_le_b x y.
Proof.
  (* after unfolding [&&] the two fixpoints are the same term *)
  induction x as [|a x IH]; intros [|b y]; simpl; try reflexivity.
Qed.

Lemma some_lt_l_eq x : forall y, some_lt_l x y = some_lt_b x y.
Proof.
  induction x as [|a x IH]; intros [|b y]; simpl; try reflexivity.
Qed.

Lemma domb_pareto_lt_b x y : domb x y = pareto_lt_b (e_vec x) (e_vec y).
Proof.
  unfold domb, pareto_lt_b. rewrite all_le_l_eq, some_lt_l_eq.
  destruct (all_le_b (e_vec x) (e_vec y)); reflexivity.
Qed.

Lemma pareto_lt_b_iff' x y : pareto_lt_b x y = true <-> pareto_lt x y.
Proof.
  split.
  - intro H. assert (Hl : length x = length y).
    { unfold pareto_lt_b in H. apply andb_true_iff in H. destruct H as [H _].
      apply all_le_b_iff in H. apply all_le_length. exact H. }
    apply pareto_lt_b_iff; assumption.
  - intro H. assert (Hl : length x = length y) by (apply all_le_length; apply H).
    apply pareto_lt_b_iff; assumption.
Qed.

Lemma domb_iff x y : domb x y = true <-> dom x y.
Proof. rewrite domb_pareto_lt_b. apply pareto_lt_b_iff'. Qed.

Lemma domb_false_iff x y : domb x y = false <-> ~ dom x y.
Proof.
  split.
  - intros H D. apply domb_iff in D. congruence.
  - intro H. destruct (domb x y) eqn:E; [|reflexivity]. apply domb_iff in E. contradiction.
Qed.

Lemma dominates_domb x y : length (e_vec x) = length (e_vec y) ->
  dominates (e_vec x) (e_vec y) = Ok (domb x y).
Proof.
  intro Hl. destruct (dominates_total _ _ Hl) as [b Hb]. rewrite Hb. f_equal.
  destruct b.
  - symmetry. apply domb_iff. apply dominates_iff_pareto; assumption.
  - symmetry. apply domb_false_iff. apply dominates_false_iff; assumption.
Qed.

Lemma dom_irrefl x : ~ dom x x.
Proof. apply pareto_irrefl. Qed.

Lemma dom_trans x y z : dom x y -> dom y z -> dom x z.
Proof. apply pareto_trans. Qed.

Lemma dom_asym x y : dom x y -> ~ dom y x.
Proof. apply pareto_asym. Qed.

Lemma vec_eq_all_le x y : vec_eq x y -> all_le x y.
Proof. apply all_le_refl_eq. Qed.

Lemma pareto_compat_l x x' y : vec_eq x x' -> pareto_lt x y -> pareto_lt x' y.
Proof.
  intros He [Ha Hs].
  assert (Hx : all_le x' x) by (apply vec_eq_all_le, vec_eq_sym, He).
  split.
  - eapply all_le_trans; eassumption.
  - eapply all_le_some_lt_trans; eassumption.
Qed.

Lemma pareto_compat_r x y y' : vec_eq y y' -> pareto_lt x y -> pareto_lt x y'.
Proof.
  intros He [Ha Hs].
  assert (Hy : all_le y y') by (apply vec_eq_all_le, He).
  split.
  - eapply all_le_trans; eassumption.
  - eapply some_lt_all_le_trans; eassumption.
Qed.

Lemma vec_eq_not_dom x y : vec_eq (e_vec x) (e_vec y) -> ~ dom x y.
Proof. intros He. apply (pareto_irrefl_eq _ _ He). Qed.

(* ---------- list helpers ---------- *)

Lemma nodup_snoc {A} (l : list A) x : NoDup l -> ~ In x l -> NoDup (l ++ [x]).
Proof.
  induction l as [|a l IH]; intros Hn Hx; simpl.
  - constructor; [intros []|constructor].
  - inversion Hn as [|? ? Ha Hl]; subst. constructor.
    + intro Hin. apply in_app_or in Hin. destruct Hin as [Hin|[Hin|[]]].
      * contradiction.
      * subst. apply Hx. left. reflexivity.
    + apply IH; [assumption|]. intro. apply Hx. right. assumption.
Qed.

Lemma nodup_map_filter {A B} (f : A -> B) (p : A -> bool) l :
  NoDup (map f l) -> NoDup (map f (filter p l)).
Proof.
  induction l as [|a l IH]; simpl; intro H; [constructor|].
  inversion H as [|? ? Ha Hl]; subst.
  destruct (p a); simpl.
  - constructor; [|apply IH; assumption].
    intro Hin. apply Ha. apply in_map_iff in Hin. destruct Hin as [x [Hx Hin]].
    apply filter_In in Hin. apply in_map_iff. exists x. tauto.
  - apply IH; assumption.
Qed.

Lemma filter_noex {A} (p : A -> bool) l :
  existsb p l = false -> filter (fun m => negb (p m)) l = l.
Proof.
  induction l as [|a l IH]; simpl; intro H; [reflexivity|].
  apply orb_false_iff in H. destruct H as [Ha Hl]. rewrite Ha. simpl. f_equal. apply IH. assumption.
Qed.

Lemma in_removelast {A} (l : list A) x : In x (removelast l) -> In x l.
Proof.
  induction l as [|a l IH]; simpl; [tauto|].
  destruct l as [|b l]; [intros []|].
  intros [H|H]; [left; assumption|right; apply IH; assumption].
Qed.

Lemma in_firstn {A} k (l : list A) x : In x (firstn k l) -> In x l.
Proof.
  revert l. induction k as [|k IH]; intros [|a l]; simpl; try tauto.
  intros [H|H]; [left; assumption|right; apply IH; assumption].
Qed.

Lemma forallb_firstn {A} (f : A -> bool) k l : forallb f l = true -> forallb f (firstn k l) = true.
Proof.
  intro H. apply forallb_forall. intros x Hx. apply in_firstn in Hx.
  rewrite forallb_forall in H. apply H. assumption.
Qed.

(* ---------- 2. pure mirror ---------- *)

Fixpoint scan_b (a : archive) (c : entry) : sres :=
  match a with
  | [] => CanBeStored
  | m :: a' =>
      if domb m c then RejectedWithStoredEntryDominanceDetected
      else if acts_eqb (e_acts m) (e_acts c) then RejectedWithDuplicateEntryDetected
      else scan_b a' c
  end.

Definition keep_undominated (a : archive) (c : entry) : archive :=
  filter (fun m => negb (domb c m)) a.
Definition keep_nondominating (a : archive) (c : entry) : archive :=
  filter (fun m => negb (domb m c)) a.

Definition attempt_b (a : archive) (c : entry) : sres * archive :=
  match scan_b a c with
  | CanBeStored =>
      let any := existsb (fun m => domb c m) a in
      (if any then StoredReplacingDominatedEntries else StoredWithNoDominanceDetected,
       (if any then keep_undominated a c else a) ++ [c])
  | s => (s, a)
  end.

Definition force_b (a : archive) (c : entry) : sres * archive :=
  (StoredForcingDominatingStateRemoval, keep_nondominating a c ++ [c]).

Definition step_b (a : archive) (o : op) : list sres * archive :=
  match o with
  | Offer c => let r := attempt_b a c in ([fst r], snd r)
  | OfferForce c =>
      let r := attempt_b a c in
      match fst r with
      | RejectedWithStoredEntryDominanceDetected =>
          let f := force_b (snd r) c in ([fst r; fst f], snd f)
      | _ => ([fst r], snd r)
      end
  | ForceRaw c => let f := force_b a c in ([fst f], snd f)
  end.

Fixpoint run_b_from (a : archive) (ops : list op) : archive :=
  match ops with
  | [] => a
  | o :: ops' => run_b_from (snd (step_b a o)) ops'
  end.

Definition dim_ok (n : nat) (a : list entry) : Prop := forall m, In m a -> length (e_vec m) = n.

Lemma same_dim_b_iff n cs : same_dim_b n cs = true <-> dim_ok n cs.
Proof.
  unfold same_dim_b, dim_ok. rewrite forallb_forall.
  split; intros H m Hm; specialize (H m Hm); [apply Nat.eqb_eq|apply Nat.eqb_eq]; assumption.
Qed.

Lemma dim_ok_cons n m a : dim_ok n (m :: a) <-> length (e_vec m) = n /\ dim_ok n a.
Proof.
  unfold dim_ok. split.
  - intro H. split; [apply H; left; reflexivity|intros x Hx; apply H; right; assumption].
  - intros [Hm Ha] x [Hx|Hx]; [subst x; assumption|apply Ha; assumption].
Qed.

Lemma dim_ok_app n a b : dim_ok n (a ++ b) <-> dim_ok n a /\ dim_ok n b.
Proof.
  unfold dim_ok. split.
  - intro H. split; intros x Hx; apply H; apply in_or_app; [left|right]; assumption.
  - intros [Ha Hb] x Hx. apply in_app_or in Hx. destruct Hx; [apply Ha|apply Hb]; assumption.
Qed.

Lemma dim_ok_filter n p a : dim_ok n a -> dim_ok n (filter p a).
Proof. intros H x Hx. apply filter_In in Hx. apply H. tauto. Qed.

Lemma cba_link n a c : dim_ok n a -> length (e_vec c) = n ->
  cannot_be_archived a c = Ok (scan_b a c).
Proof.
  intros Ha Hc. induction a as [|m a IH]; simpl; [reflexivity|].
  apply dim_ok_cons in Ha. destruct Ha as [Hm Ha].
  rewrite dominates_domb by congruence. simpl.
  destruct (domb m c); [reflexivity|].
  destruct (acts_eqb (e_acts m) (e_acts c)); [reflexivity|]. apply IH. assumption.
Qed.

Lemma evict_link n a c : dim_ok n a -> length (e_vec c) = n ->
  evict_dominated a c = Ok (existsb (fun m => domb c m) a, keep_undominated a c).
Proof.
  intros Ha Hc. induction a as [|m a IH]; simpl; [reflexivity|].
  apply dim_ok_cons in Ha. destruct Ha as [Hm Ha].
  rewrite dominates_domb by congruence. simpl. rewrite (IH Ha). simpl.
  unfold keep_undominated. simpl. destruct (domb c m); reflexivity.
Qed.

Lemma drop_link n a c : dim_ok n a -> length (e_vec c) = n ->
  drop_dominating a c = Ok (keep_nondominating a c).
Proof.
  intros Ha Hc. induction a as [|m a IH]; simpl; [reflexivity|].
  apply dim_ok_cons in Ha. destruct Ha as [Hm Ha].
  rewrite dominates_domb by congruence. simpl. rewrite (IH Ha). simpl.
  unfold keep_nondominating. simpl. destruct (domb m c); reflexivity.
Qed.

Lemma attempt_link n a c : dim_ok n a -> length (e_vec c) = n ->
  attempt a c = Ok (attempt_b a c).
Proof.
  intros Ha Hc. unfold attempt, attempt_b. rewrite (cba_link n) by assumption. simpl.
  destruct (scan_b a c); try reflexivity.
  rewrite (evict_link n) by assumption. simpl. reflexivity.
Qed.

Lemma force_link n a c : dim_ok n a -> length (e_vec c) = n ->
  force a c = Ok (force_b a c).
Proof.
  intros Ha Hc. unfold force, force_b. rewrite (drop_link n) by assumption. reflexivity.
Qed.

Lemma attempt_b_dim n a c : dim_ok n a -> length (e_vec c) = n -> dim_ok n (snd (attempt_b a c)).
Proof.
  intros Ha Hc. unfold attempt_b.
  destruct (scan_b a c); simpl; try assumption.
  apply dim_ok_app. split.
  - destruct (existsb _ a); [apply dim_ok_filter|]; assumption.
  - intros x [Hx|[]]. subst x. assumption.
Qed.

Lemma force_b_dim n a c : dim_ok n a -> length (e_vec c) = n -> dim_ok n (snd (force_b a c)).
Proof.
  intros Ha Hc. unfold force_b. simpl. apply dim_ok_app. split.
  - apply dim_ok_filter. assumption.
  - intros x [Hx|[]]. subst x. assumption.
Qed.

Lemma step_link n a o : dim_ok n a -> length (e_vec (cand_of o)) = n ->
  step a o = Ok (step_b a o) /\ dim_ok n (snd (step_b a o)).
Proof.
  intros Ha Hc. destruct o as [c|c|c]; simpl in *.
  - rewrite (attempt_link n) by assumption. simpl. split; [reflexivity|]. apply attempt_b_dim; assumption.
  - rewrite (attempt_link n) by assumption. simpl.
    pose proof (attempt_b_dim n a c Ha Hc) as Hd.
    destruct (fst (attempt_b a c)); simpl; try (split; [reflexivity|assumption]).
    rewrite (force_link n) by assumption. simpl. split; [reflexivity|]. apply force_b_dim; assumption.
  - rewrite (force_link n) by assumption. simpl. split; [reflexivity|]. apply force_b_dim; assumption.
Qed.

Lemma run_link n : forall ops a, dim_ok n a -> dim_ok n (cands ops) ->
  run_from a ops = Ok (run_b_from a ops) /\ dim_ok n (run_b_from a ops).
Proof.
  induction ops as [|o ops IH]; intros a Ha Hops; simpl.
  - split; [reflexivity|assumption].
  - unfold cands in Hops. simpl in Hops. apply dim_ok_cons in Hops. destruct Hops as [Ho Hops].
    destruct (step_link n a o Ha Ho) as [Hs Hd]. rewrite Hs. simpl. apply IH; assumption.
Qed.

Lemma dim_ok_nil n : dim_ok n [].
Proof. intros x []. Qed.

Lemma run_total n ops : same_dim_b n (cands ops) = true -> run ops = Ok (run_b_from [] ops).
Proof.
  intro H. apply same_dim_b_iff in H. apply (run_link n); [apply dim_ok_nil|assumption].
Qed.

Lemma run_total_ex n ops : same_dim_b n (cands ops) = true -> exists a, run ops = Ok a.
Proof. intro H. eexists. exact (run_total n ops H). Qed.

(* ---------- 3. one attempt, one forced store ---------- *)

Lemma scan_b_range a c :
  scan_b a c = CanBeStored \/ scan_b a c = RejectedWithStoredEntryDominanceDetected
  \/ scan_b a c = RejectedWithDuplicateEntryDetected.
Proof.
  induction a as [|m a IH]; simpl; [left; reflexivity|].
  destruct (domb m c); [right; left; reflexivity|].
  destruct (acts_eqb _ _); [right; right; reflexivity|exact IH].
Qed.

Lemma scan_b_can a c : scan_b a c = CanBeStored <->
  (forall m, In m a -> ~ dom m c /\ e_acts m <> e_acts c).
Proof.
  induction a as [|m a IH]; simpl.
  - split; [intros _ x []|reflexivity].
  - destruct (domb m c) eqn:D.
    + split; [discriminate|]. intro H. destruct (H m (or_introl eq_refl)) as [Hd _].
      apply domb_iff in D. contradiction.
    + destruct (acts_eqb (e_acts m) (e_acts c)) eqn:E.
      * split; [discriminate|]. intro H. destruct (H m (or_introl eq_refl)) as [_ Hn].
        apply acts_eqb_iff in E. contradiction.
      * rewrite IH. split.
        -- intros H x [Hx|Hx]; [subst x|apply H; assumption].
           split; [apply domb_false_iff; assumption|apply acts_eqb_false_iff; assumption].
        -- intros H x Hx. apply H. right. assumption.
Qed.

Lemma scan_b_dom a c : scan_b a c = RejectedWithStoredEntryDominanceDetected ->
  exists m, In m a /\ dom m c.
Proof.
  induction a as [|m a IH]; simpl; [discriminate|].
  destruct (domb m c) eqn:D.
  - intros _. exists m. split; [left; reflexivity|apply domb_iff; assumption].
  - destruct (acts_eqb _ _); [discriminate|].
    intro H. destruct (IH H) as [x [Hx Hd]]. exists x. split; [right|]; assumption.
Qed.

Lemma scan_b_dup a c : scan_b a c = RejectedWithDuplicateEntryDetected ->
  exists m, In m a /\ e_acts m = e_acts c.
Proof.
  induction a as [|m a IH]; simpl; [discriminate|].
  destruct (domb m c); [discriminate|].
  destruct (acts_eqb (e_acts m) (e_acts c)) eqn:E.
  - intros _. exists m. split; [left; reflexivity|apply acts_eqb_iff; assumption].
  - intro H. destruct (IH H) as [x [Hx Hd]]. exists x. split; [right|]; assumption.
Qed.

(* first-match order, exactly: the verdict is decided by the first entry that dominates the
   candidate or carries its action set; dominance is tested first on that entry *)
Lemma scan_b_first_match a c s : scan_b a c = s -> s <> CanBeStored ->
  exists a1 m a2, a = a1 ++ m :: a2
    /\ (forall x, In x a1 -> ~ dom x c /\ e_acts x <> e_acts c)
    /\ ((s = RejectedWithStoredEntryDominanceDetected /\ dom m c)
        \/ (s = RejectedWithDuplicateEntryDetected /\ ~ dom m c /\ e_acts m = e_acts c)).
Proof.
  revert s. induction a as [|m a IH]; simpl; intros s Hs Hne; [congruence|].
  destruct (domb m c) eqn:D.
  - exists [], m, a. split; [reflexivity|]. split; [intros x []|].
    left. split; [congruence|apply domb_iff; assumption].
  - destruct (acts_eqb (e_acts m) (e_acts c)) eqn:E.
    + exists [], m, a. split; [reflexivity|]. split; [intros x []|].
      right. split; [congruence|]. split; [apply domb_false_iff; assumption|apply acts_eqb_iff; assumption].
    + destruct (IH s Hs Hne) as [a1 [x [a2 [Ha [Hpre Hx]]]]].
      exists (m :: a1), x, a2. split; [simpl; congruence|]. split; [|exact Hx].
      intros y [Hy|Hy]; [subst y|apply Hpre; assumption].
      split; [apply domb_false_iff; assumption|apply acts_eqb_false_iff; assumption].
Qed.

Definition is_stored (s : sres) : bool :=
  match s with StoredReplacingDominatedEntries | StoredWithNoDominanceDetected => true | _ => false end.

Lemma attempt_b_stored a c : scan_b a c = CanBeStored ->
  attempt_b a c =
    (if existsb (fun m => domb c m) a then StoredReplacingDominatedEntries else StoredWithNoDominanceDetected,
     keep_undominated a c ++ [c]).
Proof.
  intro H. unfold attempt_b. rewrite H.
  destruct (existsb (fun m => domb c m) a) eqn:E; [reflexivity|].
  unfold keep_undominated. rewrite filter_noex by assumption. reflexivity.
Qed.

Lemma attempt_b_refused a c : scan_b a c <> CanBeStored -> attempt_b a c = (scan_b a c, a).
Proof.
  intro H. unfold attempt_b. destruct (scan_b a c); try reflexivity. congruence.
Qed.

Lemma attempt_b_cases a c :
  (scan_b a c = CanBeStored /\ is_stored (fst (attempt_b a c)) = true
     /\ snd (attempt_b a c) = keep_undominated a c ++ [c])
  \/ (scan_b a c <> CanBeStored /\ attempt_b a c = (scan_b a c, a) /\ is_stored (scan_b a c) = false).
Proof.
  destruct (scan_b_range a c) as [H|[H|H]].
  - left. rewrite (attempt_b_stored a c H). simpl. split; [assumption|]. split; [|reflexivity].
    destruct (existsb _ a); reflexivity.
  - right. split; [congruence|]. split; [apply attempt_b_refused; congruence|rewrite H; reflexivity].
  - right. split; [congruence|]. split; [apply attempt_b_refused; congruence|rewrite H; reflexivity].
Qed.

Lemma keep_undominated_in a c m : In m (keep_undominated a c) <-> In m a /\ ~ dom c m.
Proof.
  unfold keep_undominated. rewrite filter_In, negb_true_iff, domb_false_iff. reflexivity.
Qed.

Lemma keep_nondominating_in a c m : In m (keep_nondominating a c) <-> In m a /\ ~ dom m c.
Proof.
  unfold keep_nondominating. rewrite filter_In, negb_true_iff, domb_false_iff. reflexivity.
Qed.

(* --- statements on the real (res) model, for any archive of the right dimension --- *)

Lemma attempt_refusal_reason n a c s a' :
  same_dim_b n a = true -> length (e_vec c) = n -> attempt a c = Ok (s, a') ->
  (s = RejectedWithStoredEntryDominanceDetected -> a' = a /\ exists m, In m a /\ dom m c) /\
  (s = RejectedWithDuplicateEntryDetected -> a' = a /\ exists m, In m a /\ e_acts m = e_acts c) /\
  (is_stored s = true -> forall m, In m a -> ~ dom m c /\ e_acts m <> e_acts c) /\
  (is_stored s = true \/ s = RejectedWithStoredEntryDominanceDetected \/ s = RejectedWithDuplicateEntryDetected).
Proof.
  intros Ha Hc H. apply same_dim_b_iff in Ha. rewrite (attempt_link n) in H by assumption.
  injection H as H. destruct (attempt_b_cases a c) as [[Hs [Hst Hsnd]]|[Hs [Heq Hst]]].
  - rewrite H in Hst, Hsnd. simpl in Hst, Hsnd.
    split; [intro; subst s; discriminate|]. split; [intro; subst s; discriminate|].
    split; [intros _; apply scan_b_can; assumption|left; assumption].
  - rewrite Heq in H. injection H as H1 H2. subst s a'.
    split; [intro E; split; [reflexivity|apply scan_b_dom; assumption]|].
    split; [intro E; split; [reflexivity|apply scan_b_dup; assumption]|].
    split; [intro E; congruence|].
    destruct (scan_b_range a c) as [E|[E|E]]; [contradiction|right; left; assumption|right; right; assumption].
Qed.

Lemma attempt_first_match n a c s a' :
  same_dim_b n a = true -> length (e_vec c) = n -> attempt a c = Ok (s, a') -> is_stored s = false ->
  exists a1 m a2, a = a1 ++ m :: a2
    /\ (forall x, In x a1 -> ~ dom x c /\ e_acts x <> e_acts c)
    /\ ((s = RejectedWithStoredEntryDominanceDetected /\ dom m c)
        \/ (s = RejectedWithDuplicateEntryDetected /\ ~ dom m c /\ e_acts m = e_acts c)).
Proof.
  intros Ha Hc H Hns. apply same_dim_b_iff in Ha. rewrite (attempt_link n) in H by assumption.
  injection H as H. destruct (attempt_b_cases a c) as [[Hs [Hst Hsnd]]|[Hs [Heq Hst]]].
  - rewrite H in Hst. simpl in Hst. congruence.
  - rewrite Heq in H. injection H as H1 H2. subst s a'.
    apply scan_b_first_match; [reflexivity|assumption].
Qed.

Lemma attempt_eviction_reason n a c s a' :
  same_dim_b n a = true -> length (e_vec c) = n -> attempt a c = Ok (s, a') -> is_stored s = true ->
  a' = filter (fun m => negb (domb c m)) a ++ [c]
  /\ (forall m, In m a -> (In m (filter (fun m => negb (domb c m)) a) <-> ~ dom c m))
  /\ (s = StoredReplacingDominatedEntries <-> exists m, In m a /\ dom c m).
Proof.
  intros Ha Hc H Hst. apply same_dim_b_iff in Ha. rewrite (attempt_link n) in H by assumption.
  injection H as H. destruct (attempt_b_cases a c) as [[Hs [_ Hsnd]]|[Hs [Heq Hns]]].
  - split; [rewrite H in Hsnd; exact Hsnd|]. split.
    + intros m Hm. pose proof (keep_undominated_in a c m) as K. unfold keep_undominated in K. tauto.
    + rewrite (attempt_b_stored a c Hs) in H. injection H as H1 _.
      destruct (existsb (fun m => domb c m) a) eqn:E.
      * split; [intros _|intros _; congruence].
        apply existsb_exists in E. destruct E as [m [Hm D]]. exists m. split; [assumption|apply domb_iff; assumption].
      * split; [intro; congruence|].
        intros [m [Hm D]]. apply domb_iff in D.
        assert (existsb (fun m => domb c m) a = true) by (apply existsb_exists; exists m; tauto). congruence.
  - rewrite Heq in H. injection H as H1 _. subst s. congruence.
Qed.

Lemma force_exact n a c s a' :
  same_dim_b n a = true -> length (e_vec c) = n -> force a c = Ok (s, a') ->
  s = StoredForcingDominatingStateRemoval
  /\ a' = filter (fun m => negb (domb m c)) a ++ [c]
  /\ (forall m, In m a -> (In m (filter (fun m => negb (domb m c)) a) <-> ~ dom m c)).
Proof.
  intros Ha Hc H. apply same_dim_b_iff in Ha. rewrite (force_link n) in H by assumption.
  injection H as H1 H2. split; [congruence|]. split; [symmetry; exact H2|].
  intros m Hm. pose proof (keep_nondominating_in a c m) as K. unfold keep_nondominating in K. tauto.
Qed.

Lemma attempt_stored_present n a c s a' :
  same_dim_b n a = true -> length (e_vec c) = n -> attempt a c = Ok (s, a') -> is_stored s = true ->
  In c a' /\ last a' c = c /\ (forall m, In m a' -> In m a \/ m = c).
Proof.
  intros Ha Hc H Hst.
  destruct (attempt_eviction_reason n a c s a' Ha Hc H Hst) as [E _]. subst a'.
  split; [apply in_or_app; right; left; reflexivity|]. split; [apply last_last|].
  intros m Hm. apply in_app_or in Hm. destruct Hm as [Hm|[Hm|[]]]; [left|right; congruence].
  apply filter_In in Hm. tauto.
Qed.

Lemma force_stored_present n a c s a' :
  same_dim_b n a = true -> length (e_vec c) = n -> force a c = Ok (s, a') ->
  In c a' /\ last a' c = c /\ (forall m, In m a' -> In m a \/ m = c).
Proof.
  intros Ha Hc H. destruct (force_exact n a c s a' Ha Hc H) as [_ [E _]]. subst a'.
  split; [apply in_or_app; right; left; reflexivity|]. split; [apply last_last|].
  intros m Hm. apply in_app_or in Hm. destruct Hm as [Hm|[Hm|[]]]; [left|right; congruence].
  apply filter_In in Hm. tauto.
Qed.

(* ---------- 4. the invariant over all Offer / OfferForce sequences ---------- *)

(* [cs]: any list containing every candidate ever offered (used for [consistent]) *)
Definition inv (cs : list entry) (a : archive) : Prop :=
  nondominated a /\ dup_free a /\ incl a cs.

Lemma inv_nil cs : inv cs [].
Proof.
  split; [intros m1 m2 []|]. split; [constructor|intros m []].
Qed.

Lemma inv_store cs a c : inv cs a -> In c cs -> scan_b a c = CanBeStored ->
  inv cs (keep_undominated a c ++ [c]).
Proof.
  intros [Hnd [Hdf Hin]] Hc Hs. pose proof (proj1 (scan_b_can a c) Hs) as Hcan.
  split; [|split].
  - intros m1 m2 H1 H2 D. apply in_app_or in H1. apply in_app_or in H2.
    destruct H1 as [H1|[H1|[]]]; destruct H2 as [H2|[H2|[]]].
    + apply keep_undominated_in in H1. apply keep_undominated_in in H2. apply (Hnd m1 m2); tauto.
    + subst m2. apply keep_undominated_in in H1. destruct (Hcan m1 (proj1 H1)). contradiction.
    + subst m1. apply keep_undominated_in in H2. tauto.
    + subst m1 m2. apply (dom_irrefl _ D).
  - unfold dup_free. rewrite map_app. simpl. apply nodup_snoc.
    + apply nodup_map_filter. exact Hdf.
    + intro Hi. apply in_map_iff in Hi. destruct Hi as [m [He Hm]]. apply keep_undominated_in in Hm.
      destruct (Hcan m (proj1 Hm)) as [_ Hne]. contradiction.
  - intros m Hm. apply in_app_or in Hm. destruct Hm as [Hm|[Hm|[]]].
    + apply keep_undominated_in in Hm. apply Hin. tauto.
    + subst m. assumption.
Qed.

(* a forced store keeps the invariant when it follows a "rejected, dominated" verdict;
   this is where [consistent] is needed *)
Lemma inv_force cs a c : consistent cs -> inv cs a -> In c cs ->
  (exists b, In b a /\ dom b c) -> inv cs (keep_nondominating a c ++ [c]).
Proof.
  intros Hcons [Hnd [Hdf Hin]] Hc [b [Hb Hbc]].
  split; [|split].
  - intros m1 m2 H1 H2 D. apply in_app_or in H1. apply in_app_or in H2.
    destruct H1 as [H1|[H1|[]]]; destruct H2 as [H2|[H2|[]]].
    + apply keep_nondominating_in in H1. apply keep_nondominating_in in H2. apply (Hnd m1 m2); tauto.
    + subst m2. apply keep_nondominating_in in H1. tauto.
    + subst m1. apply keep_nondominating_in in H2.
      apply (Hnd b m2 Hb (proj1 H2)). eapply dom_trans; eassumption.
    + subst m1 m2. apply (dom_irrefl _ D).
  - unfold dup_free. rewrite map_app. simpl. apply nodup_snoc.
    + apply nodup_map_filter. exact Hdf.
    + intro Hi. apply in_map_iff in Hi. destruct Hi as [m [He Hm]]. apply keep_nondominating_in in Hm.
      destruct Hm as [Hm _].
      assert (Hv : vec_eq (e_vec c) (e_vec m)).
      { apply Hcons; [assumption|apply Hin; assumption|symmetry; assumption]. }
      apply (Hnd b m Hb Hm). unfold dom in *. eapply pareto_compat_r; eassumption.
  - intros m Hm. apply in_app_or in Hm. destruct Hm as [Hm|[Hm|[]]].
    + apply keep_nondominating_in in Hm. apply Hin. tauto.
    + subst m. assumption.
Qed.

Lemma inv_step cs a o : inv cs a -> In (cand_of o) cs -> is_raw o = false ->
  (consistent cs \/ is_offer o = true) -> inv cs (snd (step_b a o)).
Proof.
  intros Hinv Hc Hraw Hor. destruct o as [c|c|c]; simpl in *; try discriminate.
  - destruct (scan_b_range a c) as [E|[E|E]].
    + rewrite (attempt_b_stored a c E). simpl. apply inv_store; assumption.
    + rewrite attempt_b_refused by congruence. simpl. assumption.
    + rewrite attempt_b_refused by congruence. simpl. assumption.
  - destruct Hor as [Hcons|Hf]; [|discriminate].
    destruct (scan_b_range a c) as [E|[E|E]].
    + rewrite (attempt_b_stored a c E). simpl.
      destruct (existsb (fun m => domb c m) a); simpl; apply inv_store; assumption.
    + rewrite attempt_b_refused by congruence. rewrite E. simpl.
      apply inv_force; try assumption. apply scan_b_dom. assumption.
    + rewrite attempt_b_refused by congruence. rewrite E. simpl. assumption.
Qed.

Lemma inv_run cs : forall ops a, inv cs a -> incl (cands ops) cs -> no_raw_b ops = true ->
  (consistent cs \/ no_force_b ops = true) -> inv cs (run_b_from a ops).
Proof.
  induction ops as [|o ops IH]; intros a Hinv Hincl Hraw Hor; simpl; [assumption|].
  unfold no_raw_b in Hraw. simpl in Hraw. apply andb_true_iff in Hraw. destruct Hraw as [Ho Hraw].
  apply negb_true_iff in Ho.
  apply IH.
  - apply inv_step; try assumption.
    + apply Hincl. left. reflexivity.
    + destruct Hor as [Hc|Hf]; [left; assumption|right].
      unfold no_force_b in Hf. simpl in Hf. apply andb_true_iff in Hf. tauto.
  - intros x Hx. apply Hincl. right. assumption.
  - exact Hraw.
  - destruct Hor as [Hc|Hf]; [left; assumption|right].
    unfold no_force_b in Hf. simpl in Hf. apply andb_true_iff in Hf. tauto.
Qed.

Lemma consistent_b_iff cs : consistent_b cs = true <-> consistent cs.
Proof.
  unfold consistent_b, consistent. rewrite forallb_forall. split.
  - intros H x y Hx Hy He. specialize (H x Hx). rewrite forallb_forall in H. specialize (H y Hy).
    assert (A : acts_eqb (e_acts x) (e_acts y) = true) by (apply acts_eqb_iff; assumption).
    rewrite A in H. apply vec_eqb_iff. assumption.
  - intros H x Hx. apply forallb_forall. intros y Hy.
    destruct (acts_eqb (e_acts x) (e_acts y)) eqn:A; [|reflexivity].
    apply vec_eqb_iff. apply H; try assumption. apply acts_eqb_iff. assumption.
Qed.

Lemma consistent_incl cs cs' : incl cs' cs -> consistent cs -> consistent cs'.
Proof. intros Hi Hc x y Hx Hy. apply Hc; apply Hi; assumption. Qed.

Lemma cands_firstn_incl k ops : incl (cands (firstn k ops)) (cands ops).
Proof.
  intros x Hx. unfold cands in *. apply in_map_iff in Hx. destruct Hx as [o [Ho Hin]].
  apply in_map_iff. exists o. split; [assumption|]. eapply in_firstn. eassumption.
Qed.

Lemma same_dim_firstn n k ops : same_dim_b n (cands ops) = true -> same_dim_b n (cands (firstn k ops)) = true.
Proof.
  intro H. apply same_dim_b_iff. apply same_dim_b_iff in H. intros m Hm. apply H.
  eapply cands_firstn_incl. eassumption.
Qed.

(* the invariant after EVERY operation (every prefix of the sequence) *)
Lemma invariant_every_prefix n ops :
  same_dim_b n (cands ops) = true -> no_raw_b ops = true ->
  (consistent_b (cands ops) = true \/ no_force_b ops = true) ->
  forall k a, run (firstn k ops) = Ok a -> nondominated a /\ dup_free a /\ incl a (cands ops).
Proof.
  intros Hd Hraw Hor k a Hrun.
  rewrite (run_total n) in Hrun by (apply same_dim_firstn; assumption).
  injection Hrun as Hrun. subst a.
  assert (I : inv (cands ops) (run_b_from [] (firstn k ops))).
  { apply inv_run.
    - apply inv_nil.
    - apply cands_firstn_incl.
    - apply forallb_firstn. assumption.
    - destruct Hor as [Hc|Hf]; [left; apply consistent_b_iff; assumption|right; apply forallb_firstn; assumption]. }
  exact I.
Qed.

Lemma firstn_all_ops (ops : list op) : firstn (length ops) ops = ops.
Proof. apply firstn_all. Qed.

Lemma invariant_final n ops a :
  same_dim_b n (cands ops) = true -> no_raw_b ops = true ->
  (consistent_b (cands ops) = true \/ no_force_b ops = true) ->
  run ops = Ok a -> nondominated a /\ dup_free a.
Proof.
  intros Hd Hraw Hor Hrun. rewrite <- (firstn_all_ops ops) in Hrun.
  destruct (invariant_every_prefix n ops Hd Hraw Hor _ _ Hrun) as [H1 [H2 _]]. split; assumption.
Qed.

(* ---------- 5. without forced stores the archive is the Pareto front of the offers ---------- *)

Definition J (offers : list entry) (a : archive) : Prop :=
  incl a offers
  /\ (forall o m, In o offers -> In m a -> ~ dom o m)
  /\ (forall o, In o offers ->
        (exists m, In m a /\ dom m o) \/ (exists m, In m a /\ e_acts m = e_acts o)).

Lemma J_nil : J [] [].
Proof. split; [intros x []|]. split; [intros o m []|intros o []]. Qed.

Lemma in_snoc {A} (l : list A) c x : In x (l ++ [c]) <-> In x l \/ x = c.
Proof.
  split.
  - intro H. apply in_app_or in H. destruct H as [H|[H|[]]]; [left; assumption|right; congruence].
  - intros [H| ->]; apply in_or_app; [left; assumption|right; left; reflexivity].
Qed.

Lemma J_offer offers a c : consistent (offers ++ [c]) -> J offers a ->
  J (offers ++ [c]) (snd (attempt_b a c)).
Proof.
  intros Hcons [Hi [Hii Hiii]].
  assert (Hoff : forall x, In x offers -> In x (offers ++ [c])) by (intros; apply in_snoc; left; assumption).
  assert (Hcin : In c (offers ++ [c])) by (apply in_snoc; right; reflexivity).
  assert (Hvec : forall x y, In x (offers ++ [c]) -> In y (offers ++ [c]) -> e_acts x = e_acts y ->
                             vec_eq (e_vec x) (e_vec y)) by exact Hcons.
  destruct (scan_b_range a c) as [E|[E|E]].
  - (* stored *)
    rewrite (attempt_b_stored a c E). simpl.
    pose proof (proj1 (scan_b_can a c) E) as Hcan.
    (* no earlier offer dominates c *)
    assert (Hnoc : forall o, In o offers -> ~ dom o c).
    { intros o Ho D. destruct (Hiii o Ho) as [[m [Hm Dm]]|[m [Hm Em]]].
      - apply (proj1 (Hcan m Hm)). eapply dom_trans; eassumption.
      - apply (proj1 (Hcan m Hm)).
        assert (V : vec_eq (e_vec o) (e_vec m)).
        { apply Hvec; [apply Hoff; assumption|apply Hoff; apply Hi; assumption|symmetry; assumption]. }
        unfold dom in *. eapply pareto_compat_l; eassumption. }
    split; [|split].
    + intros m Hm. apply in_snoc in Hm. destruct Hm as [Hm| ->]; [|assumption].
      apply keep_undominated_in in Hm. apply Hoff. apply Hi. tauto.
    + intros o m Ho Hm. apply in_snoc in Ho. apply in_snoc in Hm.
      destruct Ho as [Ho| ->]; destruct Hm as [Hm| ->].
      * apply keep_undominated_in in Hm. apply Hii; tauto.
      * apply Hnoc. assumption.
      * apply keep_undominated_in in Hm. tauto.
      * apply dom_irrefl.
    + intros o Ho. apply in_snoc in Ho. destruct Ho as [Ho| ->].
      * destruct (Hiii o Ho) as [[m [Hm Dm]]|[m [Hm Em]]].
        -- destruct (domb c m) eqn:Dc.
           ++ apply domb_iff in Dc. left. exists c. split; [apply in_snoc; right; reflexivity|].
              eapply dom_trans; eassumption.
           ++ apply domb_false_iff in Dc. left. exists m. split; [|assumption].
              apply in_snoc. left. apply keep_undominated_in. tauto.
        -- destruct (domb c m) eqn:Dc.
           ++ apply domb_iff in Dc. left. exists c. split; [apply in_snoc; right; reflexivity|].
              assert (V : vec_eq (e_vec m) (e_vec o)).
              { apply Hvec; [apply Hoff; apply Hi; assumption|apply Hoff; assumption|assumption]. }
              unfold dom in *. eapply pareto_compat_r; eassumption.
           ++ apply domb_false_iff in Dc. right. exists m. split; [|assumption].
              apply in_snoc. left. apply keep_undominated_in. tauto.
      * right. exists c. split; [apply in_snoc; right; reflexivity|reflexivity].
  - (* refused: dominated by a member *)
    rewrite attempt_b_refused by congruence. simpl.
    destruct (scan_b_dom a c E) as [b [Hb Dbc]].
    split; [|split].
    + intros m Hm. apply Hoff. apply Hi. assumption.
    + intros o m Ho Hm. apply in_snoc in Ho. destruct Ho as [Ho| ->].
      * apply Hii; assumption.
      * intro D. apply (Hii b m (Hi b Hb) Hm). eapply dom_trans; eassumption.
    + intros o Ho. apply in_snoc in Ho. destruct Ho as [Ho| ->].
      * apply Hiii. assumption.
      * left. exists b. split; assumption.
  - (* refused: a member has the same action set (hence, by consistency, the same vector) *)
    rewrite attempt_b_refused by congruence. simpl.
    destruct (scan_b_dup a c E) as [b [Hb Ebc]].
    assert (V : vec_eq (e_vec c) (e_vec b)).
    { apply Hvec; [assumption|apply Hoff; apply Hi; assumption|symmetry; assumption]. }
    split; [|split].
    + intros m Hm. apply Hoff. apply Hi. assumption.
    + intros o m Ho Hm. apply in_snoc in Ho. destruct Ho as [Ho| ->].
      * apply Hii; assumption.
      * intro D. apply (Hii b m (Hi b Hb) Hm). unfold dom in *. eapply pareto_compat_l; eassumption.
    + intros o Ho. apply in_snoc in Ho. destruct Ho as [Ho| ->].
      * apply Hiii. assumption.
      * right. exists b. split; assumption.
Qed.

Lemma J_run : forall ops pre a, J pre a -> consistent (pre ++ cands ops) -> no_force_b ops = true ->
  J (pre ++ cands ops) (run_b_from a ops).
Proof.
  induction ops as [|o ops IH]; intros pre a HJ Hcons Hnf; simpl.
  - unfold cands. simpl. rewrite app_nil_r. assumption.
  - unfold no_force_b in Hnf. simpl in Hnf. apply andb_true_iff in Hnf. destruct Hnf as [Ho Hnf].
    destruct o as [c|c|c]; try discriminate. simpl.
    unfold cands in *. simpl in *.
    replace (pre ++ c :: map cand_of ops) with ((pre ++ [c]) ++ map cand_of ops)
      by (rewrite <- app_assoc; reflexivity).
    apply IH.
    + apply J_offer; [|assumption].
      eapply consistent_incl; [|exact Hcons].
      intros x Hx. apply in_snoc in Hx. apply in_or_app. destruct Hx as [Hx| ->]; [left; assumption|right; left; reflexivity].
    + rewrite <- app_assoc. exact Hcons.
    + exact Hnf.
Qed.

Lemma pareto_front_in cs c : In c (pareto_front cs) <-> In c cs /\ forall o, In o cs -> ~ dom o c.
Proof.
  unfold pareto_front. rewrite filter_In, negb_true_iff. split.
  - intros [Hc He]. split; [assumption|]. intros o Ho D.
    assert (existsb (fun o => domb o c) cs = true)
      by (apply existsb_exists; exists o; split; [assumption|apply domb_iff; assumption]).
    congruence.
  - intros [Hc Hn]. split; [assumption|].
    destruct (existsb (fun o => domb o c) cs) eqn:E; [|reflexivity].
    apply existsb_exists in E. destruct E as [o [Ho D]]. apply domb_iff in D. exfalso. exact (Hn o Ho D).
Qed.

Lemma J_front cs a : consistent cs -> J cs a -> front_eq a cs.
Proof.
  intros Hcons [Hi [Hii Hiii]]. split.
  - intros m Hm. apply pareto_front_in. split; [apply Hi; assumption|].
    intros o Ho. apply Hii; assumption.
  - intros c Hc. apply pareto_front_in in Hc. destruct Hc as [Hc Hn].
    destruct (Hiii c Hc) as [[m [Hm D]]|[m [Hm E]]].
    + exfalso. exact (Hn m (Hi m Hm) D).
    + exists m. split; [assumption|]. split; [assumption|].
      apply Hcons; [apply Hi; assumption|assumption|assumption].
Qed.

Lemma front_every_prefix n ops :
  same_dim_b n (cands ops) = true -> consistent_b (cands ops) = true -> no_force_b ops = true ->
  forall k a, run (firstn k ops) = Ok a -> front_eq a (cands (firstn k ops)).
Proof.
  intros Hd Hc Hnf k a Hrun.
  rewrite (run_total n) in Hrun by (apply same_dim_firstn; assumption).
  injection Hrun as Hrun. subst a.
  apply consistent_b_iff in Hc.
  assert (Hck : consistent (cands (firstn k ops)))
    by (eapply consistent_incl; [apply cands_firstn_incl|exact Hc]).
  apply J_front; [assumption|].
  apply (J_run (firstn k ops) [] []).
  - apply J_nil.
  - exact Hck.
  - apply forallb_firstn. assumption.
Qed.

Lemma front_final n ops a :
  same_dim_b n (cands ops) = true -> consistent_b (cands ops) = true -> no_force_b ops = true ->
  run ops = Ok a -> front_eq a (cands ops).
Proof.
  intros Hd Hc Hnf Hrun. rewrite <- (firstn_all_ops ops) in Hrun.
  pose proof (front_every_prefix n ops Hd Hc Hnf _ _ Hrun) as H.
  rewrite firstn_all_ops in H. exact H.
Qed.

(* ---------- 6a. members are offers; values are evaluations ---------- *)

Lemma step_b_incl a o : incl (snd (step_b a o)) (a ++ [cand_of o]).
Proof.
  assert (A : forall c, incl (snd (attempt_b a c)) (a ++ [c])).
  { intros c m Hm. destruct (attempt_b_cases a c) as [[_ [_ Hs]]|[_ [He _]]].
    - rewrite Hs in Hm. apply in_snoc in Hm. apply in_snoc. destruct Hm as [Hm|Hm]; [left|right; assumption].
      apply keep_undominated_in in Hm. tauto.
    - rewrite He in Hm. simpl in Hm. apply in_snoc. left. assumption. }
  assert (F : forall a0 c, incl (snd (force_b a0 c)) (a0 ++ [c])).
  { intros a0 c m Hm. simpl in Hm. apply in_snoc in Hm. apply in_snoc. destruct Hm as [Hm|Hm]; [left|right; assumption].
    apply keep_nondominating_in in Hm. tauto. }
  destruct o as [c|c|c]; simpl.
  - apply A.
  - destruct (scan_b_range a c) as [E|[E|E]].
    + pose proof (A c) as Ac. rewrite (attempt_b_stored a c E) in *. simpl in *.
      destruct (existsb (fun m => domb c m) a); simpl; exact Ac.
    + rewrite attempt_b_refused by congruence. rewrite E. simpl. apply (F a c).
    + rewrite attempt_b_refused by congruence. rewrite E. simpl. intros m Hm. apply in_snoc. left. assumption.
  - apply (F a c).
Qed.

Lemma run_b_incl : forall ops a, incl (run_b_from a ops) (a ++ cands ops).
Proof.
  induction ops as [|o ops IH]; intros a m Hm; simpl in *.
  - unfold cands. simpl. rewrite app_nil_r. assumption.
  - apply IH in Hm. apply in_app_or in Hm. unfold cands. simpl. apply in_or_app.
    destruct Hm as [Hm|Hm].
    + apply step_b_incl in Hm. apply in_snoc in Hm. destruct Hm as [Hm| ->]; [left; assumption|right; left; reflexivity].
    + right. right. assumption.
Qed.

Lemma members_are_offers n ops a : same_dim_b n (cands ops) = true -> run ops = Ok a ->
  forall m, In m a -> In m (cands ops).
Proof.
  intros Hd Hrun m Hm. rewrite (run_total n) in Hrun by assumption. injection Hrun as <-.
  apply run_b_incl in Hm. exact Hm.
Qed.

Section Eval.
  Variable eval : list bool -> list Q.

  Lemma eval_cands_shape ks m : In m (cands (eval_ops eval ks)) -> e_vec m = eval (e_acts m).
  Proof.
    unfold cands, eval_ops. rewrite map_map. intro H. apply in_map_iff in H.
    destruct H as [[f s] [He _]]. subst m. unfold eval_op. simpl. destruct f; reflexivity.
  Qed.

  Lemma eval_consistent ks : consistent (cands (eval_ops eval ks)).
  Proof.
    intros x y Hx Hy He. rewrite (eval_cands_shape ks x Hx), (eval_cands_shape ks y Hy), He.
    apply vec_eq_refl.
  Qed.

  Lemma eval_no_raw ks : no_raw_b (eval_ops eval ks) = true.
  Proof.
    unfold no_raw_b, eval_ops. apply forallb_forall. intros o Ho. apply in_map_iff in Ho.
    destruct Ho as [[f s] [He _]]. subst o. unfold eval_op. simpl. destruct f; reflexivity.
  Qed.

  Lemma eval_stream_invariant n ks :
    same_dim_b n (cands (eval_ops eval ks)) = true ->
    forall k a, run (firstn k (eval_ops eval ks)) = Ok a ->
      (forall m, In m a -> e_vec m = eval (e_acts m)) /\ nondominated a /\ dup_free a.
  Proof.
    intros Hd k a Hrun.
    assert (Hc : consistent_b (cands (eval_ops eval ks)) = true)
      by (apply consistent_b_iff; apply eval_consistent).
    destruct (invariant_every_prefix n _ Hd (eval_no_raw ks) (or_introl Hc) k a Hrun) as [H1 [H2 H3]].
    split; [|split; assumption].
    intros m Hm. apply (eval_cands_shape ks). apply H3. assumption.
  Qed.
End Eval.

(* ---------- 6b. the archive's own self-check ---------- *)

Lemma dominance_present_link x y : length (e_vec x) = length (e_vec y) ->
  dominance_present (e_vec x) (e_vec y) = Ok (domb x y || domb y x).
Proof.
  intro Hl. unfold dominance_present. rewrite dominates_domb by assumption. simpl.
  destruct (domb x y); [reflexivity|]. rewrite dominates_domb by (symmetry; assumption). reflexivity.
Qed.

Lemma any_dominance_present_link n x ds : length (e_vec x) = n -> dim_ok n ds ->
  any_dominance_present x ds = Ok (existsb (fun d => domb x d || domb d x) ds).
Proof.
  intros Hx Hd. induction ds as [|d ds IH]; simpl; [reflexivity|].
  apply dim_ok_cons in Hd. destruct Hd as [Hd Hds].
  rewrite dominance_present_link by congruence. simpl.
  destruct (domb x d || domb d x); [reflexivity|]. apply IH. assumption.
Qed.

Lemma nd_scan_true n a : dim_ok n a -> nondominated a -> nd_scan a = Ok true.
Proof.
  induction a as [|x rest IH]; intros Hd Hnd; simpl; [reflexivity|].
  apply dim_ok_cons in Hd. destruct Hd as [Hx Hrest].
  rewrite (any_dominance_present_link n).
  - assert (E : existsb (fun d => domb x d || domb d x) (removelast rest) = false).
    { destruct (existsb _ (removelast rest)) eqn:E; [|reflexivity].
      apply existsb_exists in E. destruct E as [d [Hdin Hdd]]. apply in_removelast in Hdin.
      apply orb_true_iff in Hdd. exfalso. destruct Hdd as [D|D]; apply domb_iff in D.
      - apply (Hnd x d); [left; reflexivity|right; assumption|assumption].
      - apply (Hnd d x); [right; assumption|left; reflexivity|assumption]. }
    rewrite E. simpl. apply IH; [assumption|].
    intros m1 m2 H1 H2. apply Hnd; right; assumption.
  - assumption.
  - intros d Hdin. apply Hrest. apply in_removelast. assumption.
Qed.

Lemma self_check_sound n a : same_dim_b n a = true -> nondominated a -> is_non_dominant a = Ok true.
Proof.
  intros Hd Hnd. apply same_dim_b_iff in Hd. destruct a as [|x rest]; [reflexivity|].
  change (nd_scan (x :: rest) = Ok true). apply (nd_scan_true n); assumption.
Qed.

Lemma self_check_never_fails n ops :
  same_dim_b n (cands ops) = true -> no_raw_b ops = true ->
  (consistent_b (cands ops) = true \/ no_force_b ops = true) ->
  forall k a, run (firstn k ops) = Ok a -> is_non_dominant a = Ok true.
Proof.
  intros Hd Hraw Hor k a Hrun.
  destruct (invariant_every_prefix n ops Hd Hraw Hor k a Hrun) as [Hnd [_ Hin]].
  apply (self_check_sound n); [|assumption].
  apply same_dim_b_iff. apply same_dim_b_iff in Hd. intros m Hm. apply Hd. apply Hin. assumption.
Qed.

(* the self-check skips the archive's last entry: it can say "non-dominant" when the last entry is
   dominated (or dominates) -- it does not establish the invariant *)
Lemma self_check_incomplete :
  exists a, same_dim_b 1 a = true /\ is_non_dominant a = Ok true /\ ~ nondominated a.
Proof.
  exists [mkE [1#1] [true]; mkE [0#1] [false]].
  split; [reflexivity|]. split; [vm_compute; reflexivity|].
  intro H. apply (H (mkE [0#1] [false]) (mkE [1#1] [true])); simpl; auto.
  apply domb_iff. vm_compute. reflexivity.
Qed.

(* ---------- 6c. boolean mirrors used by the correspondence check ---------- *)

Lemma nondominated_b_iff a : nondominated_b a = true <-> nondominated a.
Proof.
  unfold nondominated_b, nondominated. rewrite forallb_forall. split.
  - intros H m1 m2 H1 H2. specialize (H m1 H1). rewrite forallb_forall in H. specialize (H m2 H2).
    apply negb_true_iff in H. apply domb_false_iff. assumption.
  - intros H m1 H1. apply forallb_forall. intros m2 H2. apply negb_true_iff. apply domb_false_iff.
    apply H; assumption.
Qed.

Lemma dup_free_b_iff a : dup_free_b a = true <-> dup_free a.
Proof.
  unfold dup_free. induction a as [|m a IH]; simpl.
  - split; [constructor|reflexivity].
  - rewrite andb_true_iff, negb_true_iff, IH. split.
    + intros [He Hn]. constructor; [|assumption]. intro Hin. apply in_map_iff in Hin.
      destruct Hin as [m' [Hm' Hin]].
      assert (existsb (fun m' => acts_eqb (e_acts m) (e_acts m')) a = true).
      { apply existsb_exists. exists m'. split; [assumption|]. apply acts_eqb_iff. symmetry. assumption. }
      congruence.
    + intro H. inversion H as [|? ? Hni Hnd]; subst. split; [|assumption].
      destruct (existsb _ a) eqn:E; [|reflexivity]. exfalso. apply Hni.
      apply existsb_exists in E. destruct E as [m' [Hin He]]. apply acts_eqb_iff in He.
      apply in_map_iff. exists m'. split; [symmetry; assumption|assumption].
Qed.

Lemma entry_eqb_iff x y : entry_eqb x y = true <-> entry_equiv x y.
Proof.
  unfold entry_eqb, entry_equiv. destruct (acts_eqb (e_acts x) (e_acts y)) eqn:E.
  - apply acts_eqb_iff in E. rewrite vec_eqb_iff. tauto.
  - apply acts_eqb_false_iff in E. split; [discriminate|tauto].
Qed.

Lemma front_eq_b_complete a cs : front_eq a cs -> front_eq_b a cs = true.
Proof.
  intros [H1 H2]. unfold front_eq_b, subset_b. apply andb_true_iff. split; apply forallb_forall.
  - intros m Hm. apply existsb_exists. exists m. split; [apply H1; assumption|].
    apply entry_eqb_iff. split; [reflexivity|apply vec_eq_refl].
  - intros c Hc. destruct (H2 c Hc) as [m [Hm [He Hv]]]. apply existsb_exists. exists m.
    split; [assumption|]. apply entry_eqb_iff. split; [symmetry; assumption|apply vec_eq_sym; assumption].
Qed.

(* ---------- 6d. why the hypotheses are there ---------- *)

(* Without [consistent] a forced store can leave two members with the same action set. *)
Lemma needs_consistency_dup :
  exists ops, same_dim_b 2 (cands ops) = true /\ no_raw_b ops = true
    /\ consistent_b (cands ops) = false
    /\ exists a, run ops = Ok a /\ ~ dup_free a.
Proof.
  exists [Offer (mkE [3#1; 0#1] [false; true]);
          Offer (mkE [0#1; 5#1] [true; false]);
          OfferForce (mkE [4#1; 1#1] [true; false])].
  split; [reflexivity|]. split; [reflexivity|]. split; [vm_compute; reflexivity|].
  eexists. split; [vm_compute; reflexivity|].
  intro H. unfold dup_free in H. simpl in H. inversion H as [|? ? Hn _]. apply Hn. left. reflexivity.
Qed.

(* Without [consistent] the archive of an Offer-only stream need not be the Pareto front:
   a Pareto-optimal candidate is refused as a "duplicate" of a different vector. *)
Lemma needs_consistency_front :
  exists ops, same_dim_b 2 (cands ops) = true /\ no_force_b ops = true
    /\ consistent_b (cands ops) = false
    /\ exists a, run ops = Ok a /\ ~ front_eq a (cands ops).
Proof.
  exists [Offer (mkE [0#1; 1#1] [true]); Offer (mkE [1#1; 0#1] [true])].
  split; [reflexivity|]. split; [reflexivity|]. split; [vm_compute; reflexivity|].
  eexists. split; [vm_compute; reflexivity|].
  intro H. apply front_eq_b_complete in H. vm_compute in H. discriminate.
Qed.

(* A forced store in an arbitrary state (not after a "rejected, dominated" verdict) breaks the
   invariant even on consistent streams: [force] neither removes the members the candidate
   dominates nor tests for a duplicate action set. *)
Lemma raw_force_breaks_invariant :
  (exists ops, same_dim_b 2 (cands ops) = true /\ consistent_b (cands ops) = true
     /\ exists a, run ops = Ok a /\ ~ nondominated a)
  /\ (exists ops, same_dim_b 2 (cands ops) = true /\ consistent_b (cands ops) = true
     /\ exists a, run ops = Ok a /\ ~ dup_free a).
Proof.
  split.
  - exists [Offer (mkE [1#1; 1#1] [true]); ForceRaw (mkE [0#1; 0#1] [false])].
    split; [reflexivity|]. split; [vm_compute; reflexivity|].
    eexists. split; [vm_compute; reflexivity|].
    intro H. apply nondominated_b_iff in H. vm_compute in H. discriminate.
  - exists [Offer (mkE [1#1; 1#1] [true]); ForceRaw (mkE [1#1; 1#1] [true])].
    split; [reflexivity|]. split; [vm_compute; reflexivity|].
    eexists. split; [vm_compute; reflexivity|].
    intro H. apply dup_free_b_iff in H. vm_compute in H. discriminate.
Qed.
