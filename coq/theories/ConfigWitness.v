(* C19 — proofs of the witnesses and examples of Properties/C19.v that need more than a computation. *)
From Coq Require Import List ZArith QArith String Bool Arith Floats Lia.
From Crem Require Import Base.Res Base.Fl Params Saver AnnealLoop Catchment Limits LimitsProofs ConfigLoops Config ConfigSpec ConfigProofs ConfigRef.
Import ListNotations.
Open Scope string_scope.
Open Scope list_scope.

Definition rejected_is_error_statement : Prop :=
  forall F T E c, tables_ok T = true -> nodupb (map fst (c_annealer_params c)) = true -> nodupb (map fst (c_model_params c)) = true ->
    load F c <> Crash /\ forall l, load F c = Done l -> interpret F T E l <> Crash.

(* the one panic left in interpretation: the multi-objective dumb model is constructed with initial values outside math.RoundFloat's
   range (the oracle [e_round_ok]; listed finding of C18, reproduced there on the real code) *)
Definition env_round_fails : env :=
  mkEnv (e_fs ref_env) (e_data ref_env) (e_out_is_file ref_env) (e_out_usable ref_env) (e_profile_dir_ok ref_env) (e_profile_ok ref_env)
        (e_excel ref_env) (fun _ => false) (e_file_creatable ref_env) (e_cwd ref_env) (e_data_files ref_env).

Lemma rejected_is_error_refuted : ~ rejected_is_error_statement.
Proof.
  intro H.
  destruct (H ref_facts ref_tables env_round_fails (doc "P" "Suppapitnarm" [] "MultiObjectiveDumbModel" [])
              ltac:(vm_compute; reflexivity) ltac:(vm_compute; reflexivity) ltac:(vm_compute; reflexivity)) as [_ H2].
  refine (H2 _ ltac:(vm_compute; reflexivity) _). vm_compute. reflexivity.
Qed.

Definition accepted_runs_statement : Prop :=
  forall F T E c l sc choices T0 a, facts_ok F = true -> tables_ok T = true ->
    load F c = Done l -> interpret F T E l = Done sc -> choices_ok sc choices ->
    exists summaries, run_model E sc choices T0 a = Completed summaries /\ List.length summaries = Z.to_nat (l_run_number l).

(* what is left after the series C19-3 .. C19-13 is the run-time environment: here an output directory that does not exist yet
   (so the interpreter has nothing to object to) and cannot be created when the first run finishes -- the saver panics *)
Definition env_out_uncreatable : env :=
  mkEnv (e_fs ref_env) (e_data ref_env) (fun _ => false) (fun _ => false) (e_profile_dir_ok ref_env) (e_profile_ok ref_env)
        (e_excel ref_env) (e_round_ok ref_env) (e_file_creatable ref_env) (e_cwd ref_env) (e_data_files ref_env).

Lemma accepted_runs_refuted : ~ accepted_runs_statement.
Proof.
  intro H.
  pose (c := doc "P" "Suppapitnarm" [("MaximumIterations", VInt 3)] "DumbModel" []).
  destruct (load ref_facts c) as [l| |] eqn:L; try (vm_compute in L; discriminate).
  destruct (interpret ref_facts ref_tables env_out_uncreatable l) as [sc| |] eqn:I;
    try (vm_compute in L; inversion L; subst; vm_compute in I; discriminate).
  destruct (H ref_facts ref_tables env_out_uncreatable c l sc (fun _ => ref_choice) 1%float 1%float
              ltac:(vm_compute; reflexivity) ltac:(vm_compute; reflexivity) L I) as (s & R & _).
  - vm_compute in L. inversion L; subst. vm_compute in I. inversion I; subst. exact Logic.I.
  - vm_compute in L. inversion L; subst. vm_compute in I. inversion I; subst. vm_compute in R. discriminate.
Qed.

(* ... and, in a perfectly usable environment, one class of CONFIGURATIONS (listed finding): the dumb model's InitialObjectiveValue
   is only required to be a decimal; beyond MaxFloat64 / 1000 math.RoundFloat panics in the first proposal / in the saver *)
Definition dumb_beyond_range : config :=
  doc "P" "Suppapitnarm" [("MaximumIterations", VInt 3)] "DumbModel" [("InitialObjectiveValue", VFloat (Base.Fl.fl 1 1020))].

Lemma accepted_runs_refuted_in_a_usable_environment :
  exists l sc, load ref_facts dumb_beyond_range = Done l /\ interpret ref_facts ref_tables ref_env l = Done sc /\
               e_out_usable ref_env (s_out_path sc) = true /\
               run_model ref_env sc (fun _ => ref_choice) 1%float 1%float = RunCrash.
Proof.
  destruct (load ref_facts dumb_beyond_range) as [l| |] eqn:L; try (vm_compute in L; discriminate).
  destruct (interpret ref_facts ref_tables ref_env l) as [sc| |] eqn:I;
    try (vm_compute in L; inversion L; subst; vm_compute in I; discriminate).
  exists l, sc. split; [reflexivity|]. split; [exact I|].
  vm_compute in L. inversion L; subst. vm_compute in I. inversion I; subst. split; vm_compute; reflexivity.
Qed.

Lemma rr2_fair : fairk 2 2 (rr 2).
Proof.
  change (rr 2) with (([0; 1] ++ [0; 1]) ++ [])%nat.
  rewrite <- app_assoc. constructor; [intros i Hi; destruct i as [|[|i]]; simpl; auto; lia|].
  constructor; [intros i Hi; destruct i as [|[|i]]; simpl; auto; lia|constructor].
Qed.

Lemma ref_choice_ok : choice_ok (with_limit ref_d0 (Some (VIC, 1100 # 1))) ref_choice.
Proof.
  split; [reflexivity|]. split; [exact rr2_fair|].
  cbn [ref_choice ch_iters repeat].
  repeat (apply Forall_cons; [split; [reflexivity|exact rr2_fair]|]). apply Forall_nil.
Qed.

Definition d_1100 : dataset := with_limit ref_d0 (Some (VIC, 1100 # 1)).      (* attainable and binding: the two actions cost 1250 *)
Definition d_5000 : dataset := with_limit ref_d0 (Some (VIC, 5000 # 1)).      (* admits everything *)

(* with every action already in the target state the UNFIXED loop consumes picks for ever ... *)
Lemma unfixed_loop_spins : forall d dir s a picks,
  (forall i, (i < nactions d)%nat -> st_active s i = dir) -> picks_ok d picks = true ->
  rand_loop_old d dir picks (S a) true s = LOutOfPicks.
Proof.
  intros d dir s a picks Hall. induction picks as [|i ps IH]; intro Hp; [reflexivity|].
  simpl in Hp. apply andb_true_iff in Hp as [Hi Hps]. apply Nat.ltb_lt in Hi.
  cbn [rand_loop_old negb]. rewrite (Hall i Hi), eqb_reflx. exact (IH Hps).
Qed.

(* ... the fixed one returns at once *)
Lemma fixed_loop_returns : forall d dir s a picks, all_target d s dir = true ->
  rand_loop_fx d dir picks (S a) true s = LOk s.
Proof. intros d dir s a picks H. destruct picks; cbn [rand_loop_fx negb]; rewrite H; reflexivity. Qed.
