(* C13 — executable model of the round trip  explorer summary -> CSV -> engine.

   Transcribed from /repo (as it is now: after the D8 / D15 fixes, b0400cb "CellString returns the cell's text
   verbatim", 43fcffa "POST /solutions clears the solution pool", ac75323 / 09c7c9e / af8065d (400 for too few columns,
   unknown variable column, non-numeric As-Is cell), c235143 (label lookup scans every row)):
     internal/pkg/annealing/solution/set/encoding/csv/Marshaler.go   summaryToCsvString, deriveHeaders, joinAttributes
     internal/pkg/scenario/Saver.go                                   row order (As-Is first), labels, notes
     cmd/cremengine/engine/api/v1solutionSetHandler.go                v1PostSolutionsHandler, deriveSolutionsRequestTable,
                                                                      verifySolutionSummaryMatchesScenario, updateSolutionSummary
     cmd/cremengine/engine/api/v1solutionHandler.go                   v1GetSolutionHandler, solutionSetTableContainsEntry,
                                                                      getSolutionDetail
     cmd/cremengine/engine/api/SolutionPool.go                        HasSolution, AddSolution, Solution
     cmd/cremengine/engine/api/MuxSupport.go                          encodingPresentInSolutionSummaryParetoFront
     cmd/cremengine/engine/api/v1modelHandler.go                      PATCH /model {Encoding}: reInitialiseModelWithEncoding
   on top of the table model CsvTable.v (ParseCsvTextIntoTable, Cell, CellFloat64, CellString).

   Outside the model (trusted / other properties): encoding/csv (the marshalled text of csv-safe fields is read back
   as exactly those fields), strconv/fmt (GoCast.v), BooleanArchive Decode/Encoding (C09) — the engine's pool entry is
   modelled by the encoding TEXT handed to AddSolution (it is also what the response shows as attribute "Encoding");
   [recode e] stands for Encoding(Decode e) of the scenario's model (None = Decode error).
   Every unchecked index / type assertion / nil dereference of the Go code is [Panic].  No proofs in this file. *)
From Coq Require Import List String Ascii QArith ZArith Bool Arith.
From Crem Require Import Base.Res CsvTable GoCast.
From Crem Require BoolArchive.        (* C09's model of BooleanArchive: only split_colon / parse_uint_hex64 are used here *)
Import ListNotations.
Local Open Scope string_scope.
Local Open Scope nat_scope.

(* ---------- the explorer side: what the marshaller writes ---------- *)

(* one solution.Summary: Id, the "%.3f" texts of its variables, Actions (the encoding), Note *)
Record srow := mkRow {
  r_label : string;
  r_values : list string;
  r_enc : string;
  r_note : string }.

Definition row_fields (r : srow) : list string := r_label r :: r_values r ++ [r_enc r; r_note r].

(* deriveHeaders *)
Definition header_fields (names : list string) : list string := "Solution" :: names ++ ["Actions"; "Summary"].

(* the records the csv reader returns for the marshalled text (fields are csv-safe: no comma, quote, CR, LF,
   no leading blank) *)
Definition marshal_records (names : list string) (sm : list srow) : list (list string) :=
  header_fields names :: map row_fields sm.

(* summaryToCsvString: fields joined by ", ", one "\n" after every line *)
Fixpoint join (sep : string) (l : list string) : string :=
  match l with
  | [] => ""
  | [x] => x
  | x :: l' => x ++ sep ++ join sep l'
  end.
Definition newline : string := String (ascii_of_nat 10) EmptyString.
Definition marshal_text (names : list string) (sm : list srow) : string :=
  String.concat "" (map (fun r => join ", " r ++ newline) (marshal_records names sm)).

(* "%.3f" of a value: sign, integer digits, '.', three digits — as characters *)
Record vtext := mkV { v_neg : bool; v_int : list ascii; v_frac : list ascii }.
Definition vtext_string (v : vtext) : string :=
  string_of_list_ascii ((if v_neg v then ["-"%char] else []) ++ v_int v ++ "."%char :: v_frac v).
Definition vtext_ok (v : vtext) : bool :=
  forallb is_digit (v_int v) && negb (Nat.eqb (List.length (v_int v)) 0) && forallb is_digit (v_frac v).

(* ---------- the engine side ---------- *)

(* BooleanArchive.Decode(s) on an archive of [nw] words returns no error: strings.Split(s, ":") has nw entries and
   every entry passes strconv.ParseUint(entry, 16, 64) (BoolArchive.v; Decode stores nothing otherwise, ee825ef) *)
Definition actions_decodable (nw : nat) (s : string) : bool :=
  Nat.eqb (List.length (BoolArchive.split_colon s)) nw
  && forallb (fun e => match BoolArchive.parse_uint_hex64 e with Some _ => true | None => false end)
             (BoolArchive.split_colon s).

Section Engine.
  Variable nw : nat.                           (* words of the scenario's action archive: ceil(actions / 64) *)
  Variable cast : caster.
  Variable fmt : num -> string.
  Variable asis : list (string * num).         (* decision variables of the scenario's as-is model, by name *)
  Variable recode : string -> option string.   (* Encoding(Decode e) on the scenario's model; None = Decode error *)

  Definition is_hexcolon (c : ascii) : bool :=
    let n := nat_of_ascii c in
    ((48 <=? n) && (n <=? 57)) || ((65 <=? n) && (n <=? 70)) || ((97 <=? n) && (n <=? 102)) || (n =? 58).

  (* regexp ^[0-9A-Fa-f:]*$ *)
  Definition actions_pattern_ok (s : string) : bool := forallb is_hexcolon (chars s).

  (* sequential evaluation with Go's control flow *)
  Fixpoint all_res (l : list (res bool)) : res bool :=          (* no early exit: errors are accumulated *)
    match l with
    | [] => Ok true
    | r :: l' => do b <- r; do bs <- all_res l'; Ok (b && bs)
    end.
  Fixpoint all_res_early (l : list (res bool)) : res bool :=    (* return at the first failure *)
    match l with
    | [] => Ok true
    | r :: l' => do b <- r; if b then all_res_early l' else Ok false
    end.
  Fixpoint any_res_early (l : list (res bool)) : res bool :=    (* return true at the first hit *)
    match l with
    | [] => Ok false
    | r :: l' => do b <- r; if b then Ok true else any_res_early l'
    end.

  (* deriveSolutionsRequestTable: the three mandatory headings (headerLength >= 3 has been checked) *)
  Definition header_checks (h : list string) : res bool :=
    do h0 <- index h 0;                                          (* Header()[0] *)
    do ha <- index h (List.length h - 2);                        (* Header()[headerLength-2] *)
    do hs <- index h (List.length h - 1);
    Ok (String.eqb h0 "Solution" && String.eqb ha "Actions" && String.eqb hs "Summary").

  (* the per-cell switch on the heading of the column *)
  Definition validate_cell (t : table) (col row : nat) : res bool :=
    do v <- cell t col row;
    do heading <- index (header t) col;
    if String.eqb heading "Solution" || String.eqb heading "Summary" then
      Ok (match v with VStr _ => true | _ => false end)
    else if String.eqb heading "Actions" then
      do s <- cell_string fmt t col row; Ok (actions_pattern_ok s)
    else
      Ok (match v with VNum _ => true | _ => false end).

  (* None = answered 400 *)
  Definition derive_request_table (c : csv_result) : res (option table) :=
    do l <- parse_csv_text_into_table cast c;
    match l with
    | Rejected => Ok None
    | Loaded t =>
      if List.length (header t) <? 3 then Ok None                (* "needs at least the 'Solution', 'Actions' and 'Summary' columns" *)
      else
      do hc <- header_checks (header t);
      do dims <- column_and_row_size t;
      let '(cols, rows) := dims in
      (* rows 1.. only ("if rowIndex > 0"), columns 1.. *)
      do ok <- all_res (flat_map (fun row => map (fun col => validate_cell t col row) (seq 1 (cols - 1)))
                                 (seq 1 (rows - 1)));
      Ok (if hc && ok then Some t else None)
    end.

  Fixpoint assoc {A} (k : string) (l : list (string * A)) : option A :=
    match l with
    | [] => None
    | (k', a) :: l' => if String.eqb k k' then Some a else assoc k l'
    end.

  (* float64 == on the values the cells / the model carry (exact decimal values stand for their nearest doubles:
     assumption A-FLOAT of DESIGN section 3 — distinct 3-decimal grid values below 2^53/1000 are distinct doubles) *)
  Definition signed (neg : bool) (a : Q) : Q := if neg then Qopp a else a.
  Definition num_feq (x y : num) : bool :=
    match x, y with
    | Fin n1 a1, Fin n2 a2 => Qeq_bool (signed n1 a1) (signed n2 a2)
    | Inf n1, Inf n2 => Bool.eqb n1 n2
    | _, _ => false
    end.

  (* verifySolutionSummaryMatchesScenario: every row labelled As-Is must carry the as-is model's values; false = 400 *)
  Definition verify_asis_row (t : table) (row : nat) : res bool :=
    all_res_early (map (fun col =>
        do name <- index (header t) col;                         (* Header()[colIndex] *)
        do v <- cell t col row;                                  (* Cell(colIndex,rowIndex).(float64) with ", ok" *)
        match v with
        | VNum x =>
          match assoc name asis with
          | None => Ok false                                     (* not a decision variable of the scenario: 400 *)
          | Some m => Ok (num_feq x m)
          end
        | _ => Ok false                                          (* As-Is value is not a number: 400 *)
        end) (seq 1 (List.length asis))).

  Definition verify_summary (t : table) : res bool :=
    do dims <- column_and_row_size t;
    if fst dims <? List.length asis + 3 then Ok false            (* no column for each decision variable: 400 *)
    else
    (* every Actions cell (As-Is row included) must decode on a scratch compression of the as-is model;
       the first one that does not: 400 *)
    do decodable <- all_res_early (map (fun row =>
        do e <- cell_string fmt t (fst dims - 2) row; Ok (actions_decodable nw e)) (seq 0 (snd dims)));
    if negb decodable then Ok false
    else
    all_res_early (map (fun row =>
        do l <- cell_string fmt t 0 row;
        if String.eqb l "As-Is" then verify_asis_row t row else Ok true) (seq 0 (snd dims))).

  (* engine state relevant here *)
  Record state := mkState {
    s_table : option table;                         (* m.solutionSetTable *)
    s_pool : list (string * (string * string)) }.   (* m.solutionPool.cache without the permanent As-Is entry:
                                                       label -> (encoding text decoded into the model, summary) *)

  Inductive status := S200 | S400 | S404.

  (* POST /api/v1/solutions (scenario loaded, content type csv) *)
  Definition post_solutions (st : state) (c : csv_result) : res (status * state) :=
    do ot <- derive_request_table c;
    match ot with
    | None => Ok (S400, st)
    | Some t =>
      do ok <- verify_summary t;
      if ok then Ok (S200, mkState (Some t) [])                 (* updateSolutionSummary: solutionPool.Clear() *)
      else Ok (S400, st)
    end.

  (* solutionSetTableContainsEntry *)
  Definition contains_entry (t : table) (label : string) : res bool :=
    do dims <- column_and_row_size t;
    any_res_early (map (fun row => do l <- cell_string fmt t 0 row; Ok (String.eqb l label)) (seq 0 (snd dims))).

  (* getSolutionDetail: every row; None = nil *)
  Fixpoint first_detail (t : table) (cols : nat) (label : string) (rows : list nat) : res (option (string * string)) :=
    match rows with
    | [] => Ok None
    | row :: rows' =>
      do l <- cell_string fmt t 0 row;
      if String.eqb l label then
        if cols <? 2 then Panic                                  (* colSize-2 wraps around: cells[row][huge] *)
        else
          do e <- cell_string fmt t (cols - 2) row;
          do s <- cell_string fmt t (cols - 1) row;
          Ok (Some (e, s))
      else first_detail t cols label rows'
    end.

  Definition get_solution_detail (t : table) (label : string) : res (option (string * string)) :=
    do dims <- column_and_row_size t;
    first_detail t (fst dims) label (seq 0 (snd dims)).

  Inductive found :=
  | NotFound                                         (* 404 *)
  | AsIsSolution                                     (* the permanent pool entry: the as-is model *)
  | Decoded (encoding summary : string).             (* a model decoded from [encoding], attributes Encoding/Summary *)

  (* GET /api/v1/solutions/<label> (scenario loaded) *)
  Definition get_solution (st : state) (label : string) : res (found * state) :=
    match s_table st with
    | None => Ok (NotFound, st)
    | Some t =>
      do present <- contains_entry t label;
      if negb present then Ok (NotFound, st)
      else if String.eqb label "As-Is" then Ok (AsIsSolution, st)           (* HasSolution(AsIs) always *)
      else
        match assoc label (s_pool st) with
        | Some (e, s) => Ok (Decoded e s, st)                               (* cached *)
        | None =>
          do d <- get_solution_detail t label;
          match d with
          | None => Panic                                                   (* detail.encoding on a nil pointer *)
          | Some (e, s) => Ok (Decoded e s, mkState (s_table st) ((label, (e, s)) :: s_pool st))
          end
        end
    end.

  (* encodingPresentInSolutionSummaryParetoFront: every row from 1 on is looked at (no early exit) *)
  Fixpoint front_scan (t : table) (cols : nat) (e : string) (rows : list nat) : res bool :=
    match rows with
    | [] => Ok false
    | row :: rows' =>
      do s <- (if cols <? 2 then Panic else cell_string fmt t (cols - 2) row);   (* colSize-2 wraps around *)
      do rest <- front_scan t cols e rows';
      Ok (String.eqb e s || rest)
    end.

  (* PATCH /api/v1/model {"Encoding": e} -> attribute ParetoFrontMember of the model.
     None = 400 (Decode error); Some None = no solution set loaded, attribute untouched. *)
  Definition pareto_member (st : state) (e : string) : res (option (option bool)) :=
    match recode e with
    | None => Ok None
    | Some e' =>
      match s_table st with
      | None => Ok (Some None)
      | Some t =>
        do dims <- column_and_row_size t;
        do hits <- front_scan t (fst dims) e' (seq 1 (snd dims - 1));
        Ok (Some (Some hits))
      end
    end.

End Engine.

(* ---------- well-formedness of a summary, as booleans over the caster/formatter MODEL ---------- *)

Definition is_text (s : string) : bool := match go_cast s with Some TText => true | _ => false end.
Definition is_number (s : string) : bool := match go_cast s with Some (TNum _) => true | _ => false end.

Definition reserved_heading (s : string) : bool :=
  String.eqb s "Solution" || String.eqb s "Summary" || String.eqb s "Actions".

Definition row_shape_ok (nvars : nat) (r : srow) : bool :=
  Nat.eqb (List.length (r_values r)) nvars
  && is_text (r_note r)
  && forallb is_number (r_values r)
  && forallb is_hexcolon (chars (r_enc r)).

(* ... and its Actions text decodes into the scenario's action archive (true of every encoding the explorer's
   compressor writes for that scenario: SummaryProofs.explorer_encoding_decodable, from C09) *)
Definition row_ok (nw nvars : nat) (r : srow) : bool :=
  actions_decodable nw (r_enc r) && row_shape_ok nvars r.

Fixpoint nodup_labels (l : list string) : bool :=
  match l with
  | [] => true
  | x :: l' => negb (existsb (String.eqb x) l') && nodup_labels l'
  end.

(* the as-is row carries the values of the engine's as-is model *)
Definition asis_values_match (asis : list (string * num)) (r : srow) : bool :=
  Nat.eqb (List.length (r_values r)) (List.length asis)
  && forallb (fun p => match go_cast (fst p) with
                       | Some (TNum x) => num_feq x (snd (snd p))
                       | _ => false end) (combine (r_values r) asis).

(* everything the theorems need about a summary *)
Definition wf_summary (nw : nat) (asis : list (string * num)) (sm : list srow) : bool :=
  match sm with
  | [] => false
  | r0 :: rest =>
    String.eqb (r_label r0) "As-Is" && asis_values_match asis r0
    && forallb (row_ok nw (List.length asis)) sm
    && nodup_labels (map r_label sm)
    && forallb (fun p => negb (reserved_heading (fst p))) asis
    && nodup_labels (map fst asis)
  end.

(* the same without the decodability of the Actions texts *)
Definition wf_summary_shape (asis : list (string * num)) (sm : list srow) : bool :=
  match sm with
  | [] => false
  | r0 :: rest =>
    String.eqb (r_label r0) "As-Is" && asis_values_match asis r0
    && forallb (row_shape_ok (List.length asis)) sm
    && nodup_labels (map r_label sm)
    && forallb (fun p => negb (reserved_heading (fst p))) asis
    && nodup_labels (map fst asis)
  end.

Definition fresh : state := mkState None [].
