(* Correspondence checker for the catchment model: evaluated with vm_compute on the data sets and
   walks the harness ran against the real Go model (gen/cases_C01*.v, C02, C10, C11).  No proofs. *)
From Coq Require Import List ZArith QArith Bool Arith.
From Crem Require Import Base.Fl Catchment.
Import ListNotations.
Open Scope Z_scope.

Fixpoint assoc_ctx (l : list (Z * ctx)) (pu : Z) : ctx :=
  match l with
  | [] => ctx0
  | (k, x) :: l' => if k =? pu then x else assoc_ctx l' pu
  end.

Definition base_of (sed pn dn : list (Z * ctx)) : pk -> Z -> ctx :=
  fun k pu => match k with PSed => assoc_ctx sed pu | PPN => assoc_ctx pn pu | PDN => assoc_ctx dn pu end.

(* ---- equality of observables ---- *)
Fixpoint zlist_eqb (a b : list Z) : bool :=
  match a, b with
  | [], [] => true
  | x :: a', y :: b' => (x =? y) && zlist_eqb a' b'
  | _, _ => false
  end.
Fixpoint blist_eqb (a b : list bool) : bool :=
  match a, b with
  | [], [] => true
  | x :: a', y :: b' => Bool.eqb x y && blist_eqb a' b'
  | _, _ => false
  end.
Definition vobs_eqb (a b : vobs) : bool := (o_total a =? o_total b) && zlist_eqb (o_vals a) (o_vals b).
Fixpoint vobs_list_eqb (a b : list vobs) : bool :=
  match a, b with
  | [], [] => true
  | x :: a', y :: b' => vobs_eqb x y && vobs_list_eqb a' b'
  | _, _ => false
  end.
Definition obs_eqb (a b : obs) : bool := blist_eqb (o_active a) (o_active b) && vobs_list_eqb (o_vars a) (o_vars b).

(* ---- approximate equality of hidden float attributes (relative 1e-9, absolute 1e-12) ---- *)
Definition Qabs' (q : Q) : Q := if Qle_bool 0 q then q else (- q)%Q.
Definition qapprox (a b : Q) : bool :=
  let diff := Qabs' (a - b)%Q in
  let mag := (Qabs' a + Qabs' b)%Q in
  Qle_bool diff ((1 # 1000000000) * mag + (1 # 1000000000000))%Q.
Definition ctx_approx (x y : ctx) : bool :=
  qapprox (veg x) (veg y) && qapprox (rip x) (rip y) && qapprox (gul x) (gul y) &&
  qapprox (hill x) (hill y) && qapprox (wet x) (wet y) && qapprox (aux x) (aux y).

Definition all_pk : list pk := [PSed; PPN; PDN].
Definition attrs_of_state (s : state) (k : pk) : Z -> ctx :=
  match k with PSed => v_attrs (st_sed s) | PPN => v_attrs (st_pn s) | PDN => v_attrs (st_dn s) end.

(* hidden attributes of a model state against the exported ones: per variable, per unit (d_pus order) *)
Definition attrs_match (d : dataset) (s : state) (exported : list (list ctx)) : bool :=
  forallb (fun kc => let '(k, row) := kc in
             forallb (fun pc => let '(pu, x) := pc in ctx_approx (attrs_of_state s k pu) x)
                     (combine (d_pus d) row) && Nat.eqb (length row) (length (d_pus d)))
          (combine all_pk exported) && Nat.eqb (length exported) 3.

(* the data set's own base attributes already carry every action's ORIGINAL constants
   (the initial-state half of the C01 invariant; violated by defect D1 before its repair) *)
Definition base_consistent (d : dataset) : bool :=
  forallb (fun k => forallb (fun pu => ctx_approx (canon_attrs d k none_active pu) (d_base_attrs d k pu)) (d_pus d)) all_pk.

(* ---- walks ---- *)
Record walk := mkWalk { w_ops : list op; w_obs : list obs; w_final_attrs : list (list ctx) }.

Fixpoint first_bad (d : dataset) (s : state) (ops : list op) (expected : list obs) (n : nat) : option nat * state :=
  match ops, expected with
  | [], [] => (None, s)
  | o :: ops', e :: exp' =>
      let s' := step d s o in
      if obs_eqb (obs_of d s') e then first_bad d s' ops' exp' (S n) else (Some n, s')
  | _, _ => (Some n, s)
  end.

(* result of one walk: None = agrees at every step and in the final hidden attributes;
   Some k = first disagreeing step (k = number of ops: hidden attributes disagree at the end) *)
Definition check_walk (d : dataset) (w : walk) : option nat :=
  if negb (wf_history d (w_ops w)) then Some 0%nat else
  match first_bad d (fresh d) (w_ops w) (w_obs w) 0 with
  | (Some k, _) => Some k
  | (None, s) => if attrs_match d s (w_final_attrs w) then None else Some (length (w_ops w))
  end.

Record dcase := mkDCase { dc_data : dataset; dc_init : obs; dc_walks : list walk }.

(* per data set: [wf; base consistent; initial observables agree] and the per-walk results *)
Definition check_dcase (c : dcase) : (bool * bool * bool) * list (option nat) :=
  let d := dc_data c in
  ((wf_dataset d, base_consistent d, obs_eqb (obs_of d (fresh d)) (dc_init c)),
   map (check_walk d) (dc_walks c)).

Definition dcase_ok (r : (bool * bool * bool) * list (option nat)) : bool :=
  let '((a, b, c), l) := r in a && b && c && forallb (fun o => match o with None => true | Some _ => false end) l.

(* mismatch codes for the orchestrator: 0 = wf_dataset false, 1 = base attributes inconsistent with the
   actions' original constants, 2 = initial observables differ, 10 + w = walk w disagrees *)
Fixpoint walk_codes (l : list (option nat)) (w : nat) : list nat :=
  match l with
  | [] => []
  | None :: l' => walk_codes l' (S w)
  | Some _ :: l' => (10 + w)%nat :: walk_codes l' (S w)
  end.
Definition codes (r : (bool * bool * bool) * list (option nat)) : list nat :=
  let '((a, b, c), l) := r in
  (if a then [] else [0%nat]) ++ (if b then [] else [1%nat]) ++ (if c then [] else [2%nat]) ++ walk_codes l 0.

(* ---- (state, action, decision) transactions: C02 / C10 / C11 ---- *)
Record txcase := mkTx {
  tx_limit : option (vk * Q);
  tx_bits : list bool; tx_i : nat; tx_dec : nat;   (* 0 accept, 1 revert, 2 accept then revert *)
  tx_before : obs; tx_during : obs; tx_changes : list Z;
  tx_valid : bool; tx_quote : option Z;
  tx_after : obs; tx_state_valid : bool
}.

Definition opt_z_eqb (a b : option Z) : bool :=
  match a, b with Some x, Some y => x =? y | None, None => true | _, _ => false end.

Definition check_tx (d0 : dataset) (c : txcase) : bool :=
  let d := with_limit d0 (tx_limit c) in
  let s0 := synchronise d (fresh d) (tx_bits c) in
  let s1 := propose d s0 (tx_i c) in
  let s2 := match tx_dec c with 0%nat => accept s1 | 1%nat => revert s1 | _ => revert (accept s1) end in
  Nat.ltb (tx_i c) (nactions d) && Nat.leb (length (tx_bits c)) (nactions d) &&
  obs_eqb (obs_of d s0) (tx_before c) &&
  obs_eqb (obs_of d s1) (tx_during c) &&
  zlist_eqb (map (fun k => cmd_change (v_cmd (var s1 k))) all_vk) (tx_changes c) &&
  Bool.eqb (change_is_valid d s1) (tx_valid c) &&
  opt_z_eqb (rejection_quote d s1) (tx_quote c) &&
  obs_eqb (obs_of d s2) (tx_after c) &&
  Bool.eqb (state_is_valid d s2) (tx_state_valid c).

Fixpoint tx_mismatches (d : dataset) (l : list txcase) (n : nat) : list nat :=
  match l with
  | [] => []
  | c :: l' => if check_tx d c then tx_mismatches d l' (S n) else n :: tx_mismatches d l' (S n)
  end.
