(* C08 — lemmas about CloneIndep.v.  Everything Qed-closed, no axioms. *)
From Coq Require Import List NArith ZArith QArith Bool Arith Lia.
From Crem Require Import Base.Res CloneIndep.
Import ListNotations.
Local Open Scope nat_scope.

(* ------------------------------------------------------------------ *)
(* memory                                                               *)

Definition agree (f : list loc) (m1 m2 : mem) : Prop := forall l, In l f -> m1 l = m2 l.

Lemma agree_refl : forall f m, agree f m m.
Proof. intros f m l _. reflexivity. Qed.

Lemma agree_view : forall f m1 m2, agree f m1 m2 -> view f m1 = view f m2.
Proof. intros f m1 m2 H. unfold view. apply map_ext_in. exact H. Qed.

Lemma upd_agree : forall g m1 m2 l v, agree g m1 m2 -> agree g (upd m1 l v) (upd m2 l v).
Proof.
  intros g m1 m2 l v H l' Hin. unfold upd. destruct (N.eqb l' l); [reflexivity | apply H; exact Hin].
Qed.

(* writing the same values to the same locations preserves agreement on ANY set *)
Lemma write_agree : forall f vs g m1 m2, agree g m1 m2 -> agree g (write f vs m1) (write f vs m2).
Proof.
  induction f as [| l f IH]; intros vs g m1 m2 H; cbn [write].
  - exact H.
  - destruct vs as [| v vs]; [exact H |]. apply IH. apply upd_agree. exact H.
Qed.

Lemma write_outside : forall f vs m l, ~ In l f -> write f vs m l = m l.
Proof.
  induction f as [| l0 f IH]; intros vs m l Hn; cbn [write].
  - reflexivity.
  - destruct vs as [| v vs]; [reflexivity |].
    rewrite IH by (intro Hc; apply Hn; right; exact Hc).
    unfold upd. destruct (N.eqb l l0) eqn:E; [| reflexivity].
    apply N.eqb_eq in E. exfalso. apply Hn. left. symmetry. exact E.
Qed.

(* ------------------------------------------------------------------ *)
(* footprint disjointness                                               *)

Lemma memb_In : forall l f, memb l f = true <-> In l f.
Proof.
  intros l f. unfold memb. rewrite existsb_exists. split.
  - intros [x [Hin E]]. apply N.eqb_eq in E. subst x. exact Hin.
  - intros Hin. exists l. split; [exact Hin | apply N.eqb_refl].
Qed.

Lemma disjointb_spec : forall f g, disjointb f g = true -> forall l, In l f -> ~ In l g.
Proof.
  intros f g H l Hf Hg. unfold disjointb in H. rewrite forallb_forall in H.
  specialize (H l Hf). apply memb_In in Hg. rewrite Hg in H. discriminate H.
Qed.

Lemma pairwise_nth_lt : forall fs i j, pairwise_disjointb fs = true -> i < j -> j < length fs ->
  disjointb (nth i fs []) (nth j fs []) = true.
Proof.
  induction fs as [| f fs IH]; intros i j H Hij Hj; cbn [length] in Hj; [lia |].
  cbn [pairwise_disjointb] in H. apply andb_true_iff in H. destruct H as [Hf Hrest].
  destruct j as [| j]; [lia |]. destruct i as [| i]; cbn [nth].
  - rewrite forallb_forall in Hf. apply Hf. apply nth_In. lia.
  - apply IH; [exact Hrest | lia | lia].
Qed.

Lemma pairwise_disjoint_nth : forall fs i j, pairwise_disjointb fs = true ->
  i < length fs -> j < length fs -> i <> j ->
  forall l, In l (nth i fs []) -> ~ In l (nth j fs []).
Proof.
  intros fs i j H Hi Hj Hne l Hin Hin'.
  destruct (Nat.lt_ge_cases i j) as [Hlt | Hge].
  - exact (disjointb_spec _ _ (pairwise_nth_lt fs i j H Hlt Hj) l Hin Hin').
  - assert (Hlt : j < i) by lia.
    exact (disjointb_spec _ _ (pairwise_nth_lt fs j i H Hlt Hi) l Hin' Hin).
Qed.

Lemma fp_nth : forall P i, nth i (map fp P) [] = fp (nth i P idle_prog).
Proof. intros P i. change (@nil loc) with (fp idle_prog). apply map_nth. Qed.

Lemma progs_disjoint : forall P i j, pairwise_disjointb (map fp P) = true ->
  i < length P -> j < length P -> i <> j ->
  forall l, In l (fp (prog_of P i)) -> ~ In l (fp (prog_of P j)).
Proof.
  intros P i j H Hi Hj Hne l. unfold prog_of. rewrite <- !fp_nth.
  apply pairwise_disjoint_nth; try assumption; rewrite map_length; assumption.
Qed.

(* ------------------------------------------------------------------ *)
(* trace projections                                                    *)

Lemma events_of_app : forall i t1 t2, events_of i (t1 ++ t2) = events_of i t1 ++ events_of i t2.
Proof.
  intros i t1 t2. induction t1 as [| e t1 IH]; cbn [app events_of]; [reflexivity |].
  destruct e; try exact IH. destruct (Nat.eqb i0 i); [cbn [app]; f_equal |]; exact IH.
Qed.

Lemma events_of_run_same : forall i evs, events_of i (map (TRun i) evs) = evs.
Proof.
  intros i evs. induction evs as [| e evs IH]; cbn [map events_of]; [reflexivity |].
  rewrite Nat.eqb_refl. f_equal. exact IH.
Qed.

Lemma events_of_run_other : forall i j evs, j <> i -> events_of i (map (TRun j) evs) = [].
Proof.
  intros i j evs Hne. induction evs as [| e evs IH]; cbn [map events_of]; [reflexivity |].
  destruct (Nat.eqb j i) eqn:E; [apply Nat.eqb_eq in E; contradiction | exact IH].
Qed.

Lemma count_app : forall f t1 t2, count f (t1 ++ t2) = count f t1 + count f t2.
Proof. intros f t1 t2. unfold count. rewrite filter_app, app_length. reflexivity. Qed.

Lemma count_runs : forall f i evs, (forall e, f (TRun i e) = false) -> count f (map (TRun i) evs) = 0.
Proof.
  intros f i evs H. unfold count. induction evs as [| e evs IH]; cbn [map filter]; [reflexivity |].
  rewrite H. exact IH.
Qed.

(* ------------------------------------------------------------------ *)
(* countp                                                               *)

Definition b2n (b : bool) : nat := if b then 1 else 0.

Lemma countp_b2n : forall q f n, countp q f (S n) = b2n (q (f n)) + countp q f n.
Proof. reflexivity. Qed.

Lemma countp_le : forall q f n, countp q f n <= n.
Proof. intros q f n. induction n as [| n IH]; cbn [countp]; [lia |]. destruct (q (f n)); lia. Qed.

Lemma countp_updr_ge : forall q f i r n, n <= i -> countp q (updr f i r) n = countp q f n.
Proof.
  intros q f i r n. induction n as [| n IH]; intros Hle; cbn [countp]; [reflexivity |].
  rewrite IH by lia. unfold updr. destruct (Nat.eqb n i) eqn:E; [apply Nat.eqb_eq in E; lia | reflexivity].
Qed.

Lemma countp_updr : forall q f i r n, i < n ->
  countp q (updr f i r) n + b2n (q (f i)) = countp q f n + b2n (q r).
Proof.
  intros q f i r n. induction n as [| n IH]; intros Hlt; [lia |].
  cbn [countp]. fold (b2n (q (updr f i r n))). fold (b2n (q (f n))).
  destruct (Nat.eq_dec i n) as [-> | Hne].
  - rewrite countp_updr_ge by lia. unfold updr at 1. rewrite Nat.eqb_refl. lia.
  - assert (Hi : i < n) by lia. specialize (IH Hi).
    unfold updr at 1. destruct (Nat.eqb n i) eqn:E; [apply Nat.eqb_eq in E; lia |]. lia.
Qed.

Lemma countp_full : forall q f n, countp q f n = n -> forall i, i < n -> q (f i) = true.
Proof.
  intros q f n. induction n as [| n IH]; intros H i Hi; [lia |].
  cbn [countp] in H. pose proof (countp_le q f n) as Hle.
  destruct (q (f n)) eqn:E; [| lia].
  destruct (Nat.eq_dec i n) as [-> | Hne]; [exact E |]. apply IH; lia.
Qed.

Lemma countp_pos : forall q f n i, i < n -> q (f i) = true -> 1 <= countp q f n.
Proof.
  intros q f n. induction n as [| n IH]; intros i Hi Hq; [lia |]. cbn [countp].
  destruct (Nat.eq_dec i n) as [-> | Hne]; [rewrite Hq; lia |].
  assert (1 <= countp q f n) by (apply (IH i); [lia | exact Hq]). lia.
Qed.

Lemma countp_lt : forall q f n i, i < n -> q (f i) = false -> countp q f n < n.
Proof.
  intros q f n. induction n as [| n IH]; intros i Hi Hq; [lia |]. cbn [countp].
  destruct (Nat.eq_dec i n) as [-> | Hne].
  - rewrite Hq. pose proof (countp_le q f n). lia.
  - assert (countp q f n < n) by (apply (IH i); [lia | exact Hq]). destruct (q (f n)); lia.
Qed.

Lemma countp_zero : forall q f n, (forall i, i < n -> q (f i) = false) -> countp q f n = 0.
Proof.
  intros q f n. induction n as [| n IH]; intros H; [reflexivity |]. cbn [countp].
  rewrite (H n) by lia. rewrite IH; [reflexivity |]. intros i Hi. apply H. lia.
Qed.

Lemma countp_impl : forall q1 q2 f n, (forall r, q1 r = true -> q2 r = true) -> countp q1 f n <= countp q2 f n.
Proof.
  intros q1 q2 f n H. induction n as [| n IH]; cbn [countp]; [lia |].
  destruct (q1 (f n)) eqn:E1; [rewrite (H _ E1); lia | destruct (q2 (f n)); lia].
Qed.

(* ------------------------------------------------------------------ *)
(* solo execution                                                       *)

Lemma solo_not_going_stable : forall p ch m0 k,
  so_status (solo p ch m0 k) <> Going -> solo p ch m0 (S k) = solo p ch m0 k.
Proof.
  intros p ch m0 k H. cbn [solo]. unfold solo_step.
  destruct (so_status (solo p ch m0 k)); [contradiction | reflexivity | reflexivity].
Qed.

Lemma solo_stable : forall p ch m0 k k', so_status (solo p ch m0 k) <> Going -> k <= k' ->
  solo p ch m0 k' = solo p ch m0 k.
Proof.
  intros p ch m0 k k' H Hle. induction Hle as [| k' Hle IH]; [reflexivity |].
  rewrite solo_not_going_stable; [exact IH | rewrite IH; exact H].
Qed.

Lemma solo_going_before : forall p ch m0 k k', so_status (solo p ch m0 k') = Going -> k <= k' ->
  so_status (solo p ch m0 k) = Going.
Proof.
  intros p ch m0 k k' H Hle.
  destruct (so_status (solo p ch m0 k)) eqn:E; [reflexivity | |];
    rewrite (solo_stable p ch m0 k k') in H by (try rewrite E; try discriminate; exact Hle);
    rewrite E in H; discriminate H.
Qed.

(* the events of a run only ever grow *)
Lemma solo_events_prefix : forall p ch m0 k, exists more,
  so_events (solo p ch m0 (S k)) = so_events (solo p ch m0 k) ++ more.
Proof.
  intros p ch m0 k. cbn [solo]. unfold solo_step.
  destruct (so_status (solo p ch m0 k)).
  - destruct (lstep p k _ _) as [[[vs evs] fin] |]; cbn [so_events].
    + exists evs. reflexivity.
    + exists []. rewrite app_nil_r. reflexivity.
  - exists []. rewrite app_nil_r. reflexivity.
  - exists []. rewrite app_nil_r. reflexivity.
Qed.

Lemma solo_events_prefix_le : forall p ch m0 k k', k <= k' -> exists more,
  so_events (solo p ch m0 k') = so_events (solo p ch m0 k) ++ more.
Proof.
  intros p ch m0 k k' Hle. induction Hle as [| k' Hle [more IH]].
  - exists []. rewrite app_nil_r. reflexivity.
  - destruct (solo_events_prefix p ch m0 k') as [more' H]. exists (more ++ more').
    rewrite H, IH, app_assoc. reflexivity.
Qed.

(* ------------------------------------------------------------------ *)
(* non-interference invariant                                           *)

Section NonInterference.
  Variable P : list prog.
  Variable c : nat.
  Variable ch : nat -> nat -> choice.
  Variable m0 : mem.
  Hypothesis Hdisj : pairwise_disjointb (map fp P) = true.

  (* what must hold of run i: memory m, its record r, its events evs, crash flag, loop counter *)
  Definition run_ok (i : nat) (m : mem) (r : rrec) (evs : list event) (cr : bool) (nx : nat) : Prop :=
    let so := solo (prog_of P i) (ch i) m0 (pc r) in
    evs = so_events so /\
    agree (fp (prog_of P i)) m (so_mem so) /\
    (nx <= i -> ph r = Idle) /\
    (ph r = Idle -> pc r = 0) /\
    (ph r = Running -> cr = false -> so_status so = Going) /\
    (ph r = Ran \/ ph r = Released \/ ph r = Finished -> so_status so = Fin).

  Definition ni_inv (s : state) : Prop :=
    forall i, i < R P -> run_ok i (smem s) (runs s i) (events_of i (trace s)) (crashed s) (next s).

  Lemma ni_init : ni_inv (init_state m0).
  Proof.
    intros i Hi. unfold run_ok. cbn.
    split; [reflexivity |]. split; [intros l _; reflexivity |]. split; [reflexivity |].
    split; [reflexivity |]. split; [intros H; discriminate H |].
    intros [H | [H | H]]; discriminate H.
  Qed.

  Lemma run_ok_phase : forall i m r evs cr nx ph',
    run_ok i m r evs cr nx -> ph r <> Idle -> ph r <> Running -> ph' <> Idle -> ph' <> Running ->
    run_ok i m (mkR ph' (pc r)) evs cr nx.
  Proof.
    intros i m r evs cr nx ph' (He & Ha & Hn & Hi & Hr & Hf) H1 H2 H3 H4. unfold run_ok. cbn [pc ph].
    refine (conj _ (conj _ (conj _ (conj _ (conj _ _))))).
    - exact He.
    - exact Ha.
    - intros Hle. exfalso. apply H1. apply Hn. exact Hle.
    - intros E. contradiction.
    - intros E. contradiction.
    - intros _. apply Hf. destruct (ph r); try contradiction; auto.
  Qed.

  Ltac split6 := refine (conj _ (conj _ (conj _ (conj _ (conj _ _))))).

  Lemma ni_step : forall s a, ni_inv s -> ni_inv (step P c ch s a).
  Proof.
    intros s a Hinv. unfold step.
    destruct (crashed s || wgpanic s) eqn:Ecw; [exact Hinv |].
    apply orb_false_iff in Ecw. destruct Ecw as [Ecr Ewg].
    destruct a as [| i].
    - (* main *)
      unfold step_main. destruct (returned s); [exact Hinv |].
      destruct (Nat.ltb (next s) (R P)) eqn:Enx.
      + destruct (Nat.ltb (inflight s) c); [| exact Hinv].
        apply Nat.ltb_lt in Enx.
        intros j Hj. cbn [smem runs trace crashed next].
        rewrite events_of_app. cbn [events_of]. rewrite app_nil_r.
        specialize (Hinv j Hj). unfold updr.
        destruct (Nat.eqb j (next s)) eqn:E.
        * apply Nat.eqb_eq in E. subst j.
          destruct Hinv as (He & Ha & Hn & Hi & Hr & Hf).
          assert (Hidle : ph (runs s (next s)) = Idle) by (apply Hn; lia).
          assert (Hpc : pc (runs s (next s)) = 0) by (apply Hi; exact Hidle).
          unfold run_ok in *. cbn [pc ph]. rewrite Hpc in He, Ha.
          split6.
          -- exact He.
          -- exact Ha.
          -- intros Hle. lia.
          -- intros Hc. discriminate Hc.
          -- intros _ _. reflexivity.
          -- intros [Hc | [Hc | Hc]]; discriminate Hc.
        * apply Nat.eqb_neq in E.
          destruct Hinv as (He & Ha & Hn & Hi & Hr & Hf). unfold run_ok.
          split6; try assumption. intros Hle. apply Hn. lia.
      + destruct (Nat.eqb (ndone s) (R P)); [| exact Hinv].
        intros j Hj. cbn [smem runs trace crashed next].
        rewrite events_of_app. cbn [events_of]. rewrite app_nil_r. exact (Hinv j Hj).
    - (* a run *)
      unfold step_run. destruct (Nat.ltb i (R P)) eqn:Ei; [| exact Hinv].
      apply Nat.ltb_lt in Ei.
      pose proof (Hinv i Ei) as Hi0. destruct Hi0 as (He & Ha & Hn & Hid & Hr & Hf).
      destruct (ph (runs s i)) eqn:Eph.
      + exact Hinv.
      + (* Running: one step of the run's own code *)
        specialize (Hr eq_refl Ecr).
        destruct (lstep (prog_of P i) (pc (runs s i)) (view (fp (prog_of P i)) (smem s)) (ch i (pc (runs s i))))
          as [[[vs evs] fin] |] eqn:El.
        * intros j Hj. cbn [smem runs trace crashed next].
          rewrite events_of_app. unfold updr.
          destruct (Nat.eqb j i) eqn:E.
          -- apply Nat.eqb_eq in E. subst j. rewrite events_of_run_same.
             unfold run_ok. cbn [pc ph solo]. unfold solo_step. rewrite Hr.
             rewrite <- (agree_view _ _ _ Ha). rewrite El. cbn [so_events so_mem so_status].
             split6.
             ++ rewrite He. reflexivity.
             ++ apply write_agree. exact Ha.
             ++ intros Hle. exfalso. assert (Hc : Running = Idle) by (apply Hn; exact Hle).
                discriminate Hc.
             ++ destruct fin; intros Hc; discriminate Hc.
             ++ destruct fin; [intros Hc; discriminate Hc | reflexivity].
             ++ destruct fin; [reflexivity | intros [Hc | [Hc | Hc]]; discriminate Hc].
          -- apply Nat.eqb_neq in E. rewrite (events_of_run_other j i evs) by (intro Hc; apply E; symmetry; exact Hc).
             rewrite app_nil_r.
             destruct (Hinv j Hj) as (He' & Ha' & Hn' & Hid' & Hr' & Hf'). unfold run_ok.
             split6; try assumption.
             intros l Hl. rewrite write_outside; [apply Ha'; exact Hl |].
             apply (progs_disjoint P j i Hdisj Hj Ei E l Hl).
        * (* the run panics: the process terminates *)
          intros j Hj. cbn [smem runs trace crashed next]. unfold updr.
          destruct (Nat.eqb j i) eqn:E.
          -- apply Nat.eqb_eq in E. subst j.
             unfold run_ok. cbn [pc ph solo]. unfold solo_step. rewrite Hr.
             rewrite <- (agree_view _ _ _ Ha). rewrite El. cbn [so_events so_mem so_status].
             split6.
             ++ exact He.
             ++ exact Ha.
             ++ intros Hle. exfalso. assert (Hc : Running = Idle) by (apply Hn; exact Hle).
                discriminate Hc.
             ++ intros Hc; discriminate Hc.
             ++ intros _ Hc; discriminate Hc.
             ++ intros [Hc | [Hc | Hc]]; discriminate Hc.
          -- destruct (Hinv j Hj) as (He' & Ha' & Hn' & Hid' & Hr' & Hf'). unfold run_ok.
             split6; try assumption. intros _ Hc. discriminate Hc.
      + (* Ran: release the slot *)
        destruct (inflight s) as [| n]; [exact Hinv |].
        intros j Hj. cbn [smem runs trace crashed next].
        rewrite events_of_app. cbn [events_of]. rewrite app_nil_r. unfold updr.
        destruct (Nat.eqb j i) eqn:E; [| exact (Hinv j Hj)].
        apply Nat.eqb_eq in E. subst j.
        apply run_ok_phase; [exact (Hinv i Ei) | | | |]; try rewrite Eph; discriminate.
      + (* Released: WaitGroup.Done *)
        destruct (Nat.ltb (ndone s) (R P)).
        * intros j Hj. cbn [smem runs trace crashed next].
          rewrite events_of_app. cbn [events_of]. rewrite app_nil_r. unfold updr.
          destruct (Nat.eqb j i) eqn:E; [| exact (Hinv j Hj)].
          apply Nat.eqb_eq in E. subst j.
          apply run_ok_phase; [exact (Hinv i Ei) | | | |]; try rewrite Eph; discriminate.
        * exact Hinv.
      + exact Hinv.
  Qed.

  Lemma ni_exec : forall sch s, ni_inv s -> ni_inv (exec P c ch sch s).
  Proof.
    induction sch as [| a sch IH]; intros s H; [exact H |].
    cbn [exec fold_left]. apply IH. apply ni_step. exact H.
  Qed.
End NonInterference.

(* ------------------------------------------------------------------ *)
(* the runner's counting argument (semaphore + WaitGroup)               *)

Definition past_release (r : rrec) : bool := match ph r with Released | Finished => true | _ => false end.

Section Counting.
  Variable P : list prog.
  Variable c : nat.
  Variable ch : nat -> nat -> choice.

  Definition tr_ok (i : nat) (r : rrec) (t : list tev) : Prop :=
    count (is_spawn i) t = b2n (not_idle r) /\
    count (is_release i) t = b2n (past_release r) /\
    count (is_done i) t = b2n (is_finished r).

  Definition cnt_inv (s : state) : Prop :=
    next s <= R P /\
    (forall i, i < R P -> not_idle (runs s i) = Nat.ltb i (next s)) /\
    inflight s = countp occupying (runs s) (R P) /\
    inflight s <= c /\
    ndone s = countp is_finished (runs s) (R P) /\
    wgpanic s = false /\
    (returned s = true -> next s = R P /\ ndone s = R P) /\
    (forall i, i < R P -> tr_ok i (runs s i) (trace s)).

  Lemma cnt_init : cnt_inv (init_state (fun _ => 0%Q)) /\ forall m0, cnt_inv (init_state m0).
  Proof.
    assert (H : forall m0, cnt_inv (init_state m0)).
    { intros m0. unfold cnt_inv, init_state. cbn [next runs inflight ndone wgpanic returned trace].
      split; [lia |]. split; [intros i Hi; reflexivity |].
      split; [symmetry; apply countp_zero; intros; reflexivity |].
      split; [lia |].
      split; [symmetry; apply countp_zero; intros; reflexivity |].
      split; [reflexivity |]. split; [intros Hc; discriminate Hc |].
      intros i Hi. unfold tr_ok. cbn. auto. }
    split; [apply H | exact H].
  Qed.

  Lemma tr_ok_append_other : forall i r t e,
    is_spawn i e = false -> is_release i e = false -> is_done i e = false ->
    tr_ok i r t -> tr_ok i r (t ++ [e]).
  Proof.
    intros i r t e H1 H2 H3 (A & B & C). unfold tr_ok. rewrite !count_app. unfold count at 2 4 6.
    cbn [filter]. rewrite H1, H2, H3. cbn [length]. lia.
  Qed.

  Lemma tr_ok_runs : forall i r t j evs, tr_ok i r t -> tr_ok i r (t ++ map (TRun j) evs).
  Proof.
    intros i r t j evs (A & B & C). unfold tr_ok. rewrite !count_app.
    rewrite !count_runs by (intros; reflexivity). lia.
  Qed.

  Lemma count_single : forall f e, count f [e] = b2n (f e).
  Proof. intros f e. unfold count. cbn [filter]. destruct (f e); reflexivity. Qed.

  Lemma tr_ok_after : forall i r r' t e, tr_ok i r t ->
    b2n (not_idle r') = b2n (not_idle r) + b2n (is_spawn i e) ->
    b2n (past_release r') = b2n (past_release r) + b2n (is_release i e) ->
    b2n (is_finished r') = b2n (is_finished r) + b2n (is_done i e) ->
    tr_ok i r' (t ++ [e]).
  Proof.
    intros i r r' t e (A & B & C) H1 H2 H3. unfold tr_ok. rewrite !count_app, !count_single. lia.
  Qed.

  Lemma cnt_step : forall s a, cnt_inv s -> cnt_inv (step P c ch s a).
  Proof.
    intros s a Hinv. unfold step.
    destruct (crashed s || wgpanic s) eqn:Ecw; [exact Hinv |].
    pose proof Hinv as Hinv0.
    destruct Hinv as (Hnx & Hni & Hfl & Hflc & Hnd & Hwg & Hret & Htr).
    destruct a as [| i].
    - unfold step_main. destruct (returned s) eqn:Eret; [exact Hinv0 |].
      destruct (Nat.ltb (next s) (R P)) eqn:Enx.
      + destruct (Nat.ltb (inflight s) c) eqn:Efl; [| exact Hinv0].
        apply Nat.ltb_lt in Enx. apply Nat.ltb_lt in Efl.
        assert (Hold : not_idle (runs s (next s)) = false).
        { rewrite Hni by exact Enx. apply Nat.ltb_irrefl. }
        assert (Hph : ph (runs s (next s)) = Idle).
        { unfold not_idle in Hold. destruct (ph (runs s (next s))); try discriminate Hold. reflexivity. }
        set (r' := mkR Running 0).
        unfold cnt_inv. cbn [next runs inflight ndone wgpanic returned trace].
        split; [lia |]. split.
        { intros i Hi. unfold updr. destruct (Nat.eqb i (next s)) eqn:E.
          - apply Nat.eqb_eq in E. subst i. unfold not_idle. cbn [ph]. symmetry. apply Nat.ltb_lt. lia.
          - apply Nat.eqb_neq in E. rewrite Hni by exact Hi.
            destruct (Nat.ltb_spec i (next s)); destruct (Nat.ltb_spec i (S (next s))); try reflexivity; lia. }
        split.
        { pose proof (countp_updr occupying (runs s) (next s) r' (R P) Enx) as Hc.
          replace (occupying (runs s (next s))) with false in Hc by (unfold occupying; rewrite Hph; reflexivity).
          replace (occupying r') with true in Hc by reflexivity. cbn [b2n] in Hc. lia. }
        split; [lia |]. split.
        { pose proof (countp_updr is_finished (runs s) (next s) r' (R P) Enx) as Hc.
          replace (is_finished (runs s (next s))) with false in Hc by (unfold is_finished; rewrite Hph; reflexivity).
          replace (is_finished r') with false in Hc by reflexivity. cbn [b2n] in Hc. lia. }
        split; [exact Hwg |]. split; [intros Hc; discriminate Hc |].
        intros i Hi. specialize (Htr i Hi). unfold updr.
        destruct (Nat.eqb i (next s)) eqn:E.
        * apply Nat.eqb_eq in E. subst i.
          apply (tr_ok_after _ _ _ _ _ Htr); unfold not_idle, past_release, is_finished;
            rewrite Hph; cbn [ph r' is_spawn is_release is_done]; try rewrite Nat.eqb_refl; reflexivity.
        * apply tr_ok_append_other; try reflexivity; [| exact Htr].
          cbn [is_spawn]. rewrite Nat.eqb_sym. exact E.
      + destruct (Nat.eqb (ndone s) (R P)) eqn:End; [| exact Hinv0].
        apply Nat.eqb_eq in End. apply Nat.ltb_ge in Enx.
        unfold cnt_inv. cbn [next runs inflight ndone wgpanic returned trace].
        split; [exact Hnx |]. split; [exact Hni |]. split; [exact Hfl |]. split; [exact Hflc |].
        split; [exact Hnd |]. split; [exact Hwg |]. split; [intros _; split; lia |].
        intros j Hj. specialize (Htr j Hj). apply tr_ok_append_other; try reflexivity; exact Htr.
    - unfold step_run. destruct (Nat.ltb i (R P)) eqn:Ei; [| exact Hinv0].
      apply Nat.ltb_lt in Ei.
      destruct (ph (runs s i)) eqn:Eph.
      + exact Hinv0.
      + (* Running *)
        destruct (lstep (prog_of P i) (pc (runs s i)) (view (fp (prog_of P i)) (smem s)) (ch i (pc (runs s i))))
          as [[[vs evs] fin] |] eqn:El.
        * set (r' := mkR (if fin then Ran else Running) (S (pc (runs s i)))).
          assert (Hocc : occupying r' = true) by (unfold occupying, r'; destruct fin; reflexivity).
          assert (Hnf : is_finished r' = false) by (unfold is_finished, r'; destruct fin; reflexivity).
          assert (Hnid : not_idle r' = true) by (unfold not_idle, r'; destruct fin; reflexivity).
          assert (Hpr : past_release r' = false) by (unfold past_release, r'; destruct fin; reflexivity).
          unfold cnt_inv. cbn [next runs inflight ndone wgpanic returned trace].
          split; [exact Hnx |]. split.
          { intros j Hj. unfold updr. destruct (Nat.eqb j i) eqn:E; [| apply Hni; exact Hj].
            apply Nat.eqb_eq in E. subst j. rewrite Hnid. rewrite <- Hni by exact Ei.
            unfold not_idle. rewrite Eph. reflexivity. }
          split.
          { pose proof (countp_updr occupying (runs s) i r' (R P) Ei) as Hc.
            rewrite Hocc in Hc.
            replace (occupying (runs s i)) with true in Hc by (unfold occupying; rewrite Eph; reflexivity).
            cbn [b2n] in Hc. lia. }
          split; [exact Hflc |]. split.
          { pose proof (countp_updr is_finished (runs s) i r' (R P) Ei) as Hc.
            rewrite Hnf in Hc.
            replace (is_finished (runs s i)) with false in Hc by (unfold is_finished; rewrite Eph; reflexivity).
            cbn [b2n] in Hc. lia. }
          split; [exact Hwg |]. split; [exact Hret |].
          intros j Hj. apply tr_ok_runs. specialize (Htr j Hj). unfold updr.
          destruct (Nat.eqb j i) eqn:E; [| exact Htr].
          apply Nat.eqb_eq in E. subst j. destruct Htr as (A & B & C). unfold tr_ok.
          rewrite Hnid, Hpr, Hnf. unfold not_idle, past_release, is_finished in A, B, C.
          rewrite Eph in A, B, C. auto.
        * set (r' := mkR Running (S (pc (runs s i)))).
          unfold cnt_inv. cbn [next runs inflight ndone wgpanic returned trace].
          split; [exact Hnx |]. split.
          { intros j Hj. unfold updr. destruct (Nat.eqb j i) eqn:E; [| apply Hni; exact Hj].
            apply Nat.eqb_eq in E. subst j. rewrite <- Hni by exact Ei.
            unfold not_idle. rewrite Eph. reflexivity. }
          split.
          { pose proof (countp_updr occupying (runs s) i r' (R P) Ei) as Hc.
          replace (occupying (runs s i)) with true in Hc by (unfold occupying; rewrite Eph; reflexivity).
          replace (occupying r') with true in Hc by reflexivity. cbn [b2n] in Hc. lia. }
          split; [exact Hflc |]. split.
          { pose proof (countp_updr is_finished (runs s) i r' (R P) Ei) as Hc.
          replace (is_finished (runs s i)) with false in Hc by (unfold is_finished; rewrite Eph; reflexivity).
          replace (is_finished r') with false in Hc by reflexivity. cbn [b2n] in Hc. lia. }
          split; [exact Hwg |]. split; [exact Hret |].
          intros j Hj. specialize (Htr j Hj). unfold updr.
          destruct (Nat.eqb j i) eqn:E; [| exact Htr].
          apply Nat.eqb_eq in E. subst j. destruct Htr as (A & B & C). unfold tr_ok.
          unfold not_idle, past_release, is_finished in *. rewrite Eph in A, B, C. cbn [ph r']. auto.
      + (* Ran *)
        destruct (inflight s) as [| n] eqn:Efl; [exact Hinv0 |].
        set (r' := mkR Released (pc (runs s i))).
        unfold cnt_inv. cbn [next runs inflight ndone wgpanic returned trace].
        split; [exact Hnx |]. split.
        { intros j Hj. unfold updr. destruct (Nat.eqb j i) eqn:E; [| apply Hni; exact Hj].
          apply Nat.eqb_eq in E. subst j. rewrite <- Hni by exact Ei.
          unfold not_idle. rewrite Eph. reflexivity. }
        split.
        { pose proof (countp_updr occupying (runs s) i r' (R P) Ei) as Hc.
          replace (occupying (runs s i)) with true in Hc by (unfold occupying; rewrite Eph; reflexivity).
          replace (occupying r') with false in Hc by reflexivity. cbn [b2n] in Hc. lia. }
        split; [lia |]. split.
        { pose proof (countp_updr is_finished (runs s) i r' (R P) Ei) as Hc.
          replace (is_finished (runs s i)) with false in Hc by (unfold is_finished; rewrite Eph; reflexivity).
          replace (is_finished r') with false in Hc by reflexivity. cbn [b2n] in Hc. lia. }
        split; [exact Hwg |]. split; [exact Hret |].
        intros j Hj. specialize (Htr j Hj). unfold updr.
        destruct (Nat.eqb j i) eqn:E.
        * apply Nat.eqb_eq in E. subst j.
          apply (tr_ok_after _ _ _ _ _ Htr); unfold not_idle, past_release, is_finished;
            rewrite Eph; cbn [ph r' is_spawn is_release is_done]; try rewrite Nat.eqb_refl; reflexivity.
        * apply tr_ok_append_other; try reflexivity; [| exact Htr].
          cbn [is_release]. rewrite Nat.eqb_sym. exact E.
      + (* Released *)
        assert (Hlt : ndone s < R P).
        { rewrite Hnd. apply (countp_lt is_finished (runs s) (R P) i Ei).
          unfold is_finished. rewrite Eph. reflexivity. }
        apply Nat.ltb_lt in Hlt. rewrite Hlt. apply Nat.ltb_lt in Hlt.
        set (r' := mkR Finished (pc (runs s i))).
        unfold cnt_inv. cbn [next runs inflight ndone wgpanic returned trace].
        split; [exact Hnx |]. split.
        { intros j Hj. unfold updr. destruct (Nat.eqb j i) eqn:E; [| apply Hni; exact Hj].
          apply Nat.eqb_eq in E. subst j. rewrite <- Hni by exact Ei.
          unfold not_idle. rewrite Eph. reflexivity. }
        split.
        { pose proof (countp_updr occupying (runs s) i r' (R P) Ei) as Hc.
          replace (occupying (runs s i)) with false in Hc by (unfold occupying; rewrite Eph; reflexivity).
          replace (occupying r') with false in Hc by reflexivity. cbn [b2n] in Hc. lia. }
        split; [exact Hflc |]. split.
        { pose proof (countp_updr is_finished (runs s) i r' (R P) Ei) as Hc.
          replace (is_finished (runs s i)) with false in Hc by (unfold is_finished; rewrite Eph; reflexivity).
          replace (is_finished r') with true in Hc by reflexivity. cbn [b2n] in Hc. lia. }
        split; [exact Hwg |]. split.
        { intros Hr. specialize (Hret Hr). lia. }
        intros j Hj. specialize (Htr j Hj). unfold updr.
        destruct (Nat.eqb j i) eqn:E.
        * apply Nat.eqb_eq in E. subst j.
          apply (tr_ok_after _ _ _ _ _ Htr); unfold not_idle, past_release, is_finished;
            rewrite Eph; cbn [ph r' is_spawn is_release is_done]; try rewrite Nat.eqb_refl; reflexivity.
        * apply tr_ok_append_other; try reflexivity; [| exact Htr].
          cbn [is_done]. rewrite Nat.eqb_sym. exact E.
      + exact Hinv0.
  Qed.

  Lemma cnt_exec : forall sch s, cnt_inv s -> cnt_inv (exec P c ch sch s).
  Proof.
    induction sch as [| a sch IH]; intros s H; [exact H |].
    cbn [exec fold_left]. apply IH. apply cnt_step. exact H.
  Qed.
End Counting.

(* ------------------------------------------------------------------ *)
(* top-level statements about arbitrary schedules                       *)

Lemma countp_ltb : forall q f n k, (forall i, i < n -> q (f i) = Nat.ltb i k) -> countp q f n = Nat.min n k.
Proof.
  intros q f n k. induction n as [| n IH]; intros H; [reflexivity |].
  cbn [countp]. rewrite IH by (intros i Hi; apply H; lia). rewrite (H n) by lia.
  destruct (Nat.ltb_spec n k); lia.
Qed.

Lemma countp_all : forall q f n, (forall i, i < n -> q (f i) = true) -> countp q f n = n.
Proof.
  intros q f n. induction n as [| n IH]; intros H; [reflexivity |].
  cbn [countp]. rewrite (H n) by lia. rewrite IH; [reflexivity |]. intros i Hi. apply H. lia.
Qed.

Lemma countp_pos_ex : forall q f n, 0 < countp q f n -> exists i, i < n /\ q (f i) = true.
Proof.
  intros q f n. induction n as [| n IH]; intros H; [cbn in H; lia |].
  cbn [countp] in H. destruct (q (f n)) eqn:E.
  - exists n. split; [lia | exact E].
  - destruct (IH H) as [i [Hi Hq]]. exists i. split; [lia | exact Hq].
Qed.

Lemma noninterference : forall P c ch m0 sch,
  pairwise_disjointb (map fp P) = true ->
  forall i, i < length P ->
  let s := exec P c ch sch (init_state m0) in
  let p := nth i P idle_prog in
  let so := solo p (ch i) m0 (pc (runs s i)) in
  events_of i (trace s) = so_events so /\
  (forall l, In l (fp p) -> smem s l = so_mem so l) /\
  view (fp p) (smem s) = view (fp p) (so_mem so) /\
  (ph (runs s i) = Idle -> pc (runs s i) = 0) /\
  (ph (runs s i) = Running -> crashed s = false -> so_status so = Going) /\
  (ph (runs s i) = Ran \/ ph (runs s i) = Released \/ ph (runs s i) = Finished -> so_status so = Fin).
Proof.
  intros P c ch m0 sch Hd i Hi s p so.
  pose proof (ni_exec P c ch m0 Hd sch (init_state m0) (ni_init P ch m0) i Hi) as H.
  destruct H as (He & Ha & Hn & Hid & Hr & Hf).
  split; [exact He |]. split; [exact Ha |]. split; [apply agree_view; exact Ha |].
  split; [exact Hid |]. split; [exact Hr | exact Hf].
Qed.

Lemma runner_counting : forall P c ch m0 sch,
  let s := exec P c ch sch (init_state m0) in
  inflight s <= c /\
  countp occupying (runs s) (length P) = inflight s /\
  countp is_running (runs s) (length P) <= c /\
  next s <= length P /\
  countp not_idle (runs s) (length P) = next s /\
  countp is_finished (runs s) (length P) = ndone s /\
  ndone s <= next s /\
  wgpanic s = false /\
  (forall i, i < length P ->
     count (is_spawn i) (trace s) = (if not_idle (runs s i) then 1 else 0) /\
     count (is_release i) (trace s) = (if past_release (runs s i) then 1 else 0) /\
     count (is_done i) (trace s) = (if is_finished (runs s i) then 1 else 0)) /\
  (returned s = true -> next s = length P /\ ndone s = length P /\ inflight s = 0).
Proof.
  intros P c ch m0 sch s.
  pose proof (cnt_exec P c ch sch (init_state m0) (proj2 (cnt_init P c) m0)) as H.
  fold s in H. destruct H as (Hnx & Hni & Hfl & Hflc & Hnd & Hwg & Hret & Htr). unfold R in *.
  assert (Hspawned : countp not_idle (runs s) (length P) = next s).
  { rewrite (countp_ltb not_idle (runs s) (length P) (next s) Hni). lia. }
  assert (Hdn : ndone s <= next s).
  { rewrite Hnd, <- Hspawned. apply countp_impl. intros r. unfold is_finished, not_idle. destruct (ph r); auto. }
  split; [exact Hflc |]. split; [symmetry; exact Hfl |]. split.
  { rewrite Hfl in Hflc. eapply Nat.le_trans; [| exact Hflc]. apply countp_impl.
    intros r. unfold is_running, occupying. destruct (ph r); auto. }
  split; [exact Hnx |]. split; [exact Hspawned |]. split; [symmetry; exact Hnd |].
  split; [exact Hdn |]. split; [exact Hwg |]. split; [exact Htr |].
  intros Hr. destruct (Hret Hr) as [H1 H2]. split; [exact H1 |]. split; [exact H2 |].
  rewrite Hfl. apply countp_zero. intros i Hi.
  assert (Hf : is_finished (runs s i) = true).
  { apply (countp_full is_finished (runs s) (length P)); [lia | exact Hi]. }
  unfold is_finished in Hf. unfold occupying. destruct (ph (runs s i)); try discriminate Hf. reflexivity.
Qed.

(* when runWaitGroup.Wait() has returned, every run was started once, ran its complete solo
   execution, and finished once *)
Lemma complete_runs : forall P c ch m0 sch,
  pairwise_disjointb (map fp P) = true ->
  let s := exec P c ch sch (init_state m0) in
  returned s = true ->
  forall i, i < length P ->
  let p := nth i P idle_prog in
  let k := pc (runs s i) in
  ph (runs s i) = Finished /\
  so_status (solo p (ch i) m0 k) = Fin /\
  (forall k', k <= k' -> solo p (ch i) m0 k' = solo p (ch i) m0 k) /\
  events_of i (trace s) = so_events (solo p (ch i) m0 k) /\
  view (fp p) (smem s) = view (fp p) (so_mem (solo p (ch i) m0 k)) /\
  count (is_spawn i) (trace s) = 1 /\ count (is_release i) (trace s) = 1 /\ count (is_done i) (trace s) = 1.
Proof.
  intros P c ch m0 sch Hd s Hr i Hi p k.
  destruct (runner_counting P c ch m0 sch) as (_ & _ & _ & _ & _ & Hfin & _ & _ & Htr & Hret).
  fold s in Hfin, Htr, Hret. destruct (Hret Hr) as (_ & Hdone & _).
  assert (Hf : is_finished (runs s i) = true).
  { apply (countp_full is_finished (runs s) (length P)); [lia | exact Hi]. }
  assert (Hph : ph (runs s i) = Finished).
  { unfold is_finished in Hf. destruct (ph (runs s i)); try discriminate Hf. reflexivity. }
  destruct (noninterference P c ch m0 sch Hd i Hi) as (He & _ & Hv & _ & _ & Hfn).
  fold s in He, Hv, Hfn. fold p in He, Hv, Hfn. fold k in He, Hv, Hfn.
  assert (Hst : so_status (solo p (ch i) m0 k) = Fin) by (apply Hfn; right; right; exact Hph).
  split; [exact Hph |]. split; [exact Hst |]. split.
  { intros k' Hle. apply solo_stable; [rewrite Hst; discriminate | exact Hle]. }
  split; [exact He |]. split; [exact Hv |].
  destruct (Htr i Hi) as (A & B & C). unfold not_idle, past_release in A, B. rewrite Hph in A, B. rewrite Hf in C.
  auto.
Qed.

Lemma disabled_stutters : forall P c ch s a, enabled P c s a = false -> step P c ch s a = s.
Proof.
  intros P c ch s a H. unfold step, enabled in *.
  destruct (crashed s || wgpanic s); [reflexivity |].
  destruct a as [| i].
  - unfold step_main. destruct (returned s); [reflexivity |].
    destruct (Nat.ltb (next s) (R P)); rewrite H; reflexivity.
  - unfold step_run. destruct (Nat.ltb i (R P)); [| reflexivity]. cbn [andb] in H.
    destruct (ph (runs s i)); try discriminate H; try reflexivity.
    apply negb_false_iff in H. apply Nat.eqb_eq in H. rewrite H. reflexivity.
Qed.

Definition active (r : rrec) : bool := match ph r with Running | Ran | Released => true | _ => false end.

(* no deadlock: with at least one slot, as long as the scenario has neither returned nor
   crashed some goroutine can move *)
Lemma progress : forall P c ch m0 sch, 1 <= c ->
  let s := exec P c ch sch (init_state m0) in
  crashed s = false -> returned s = false -> exists a, enabled P c s a = true.
Proof.
  intros P c ch m0 sch Hc s Hcr Hret.
  pose proof (cnt_exec P c ch sch (init_state m0) (proj2 (cnt_init P c) m0)) as H.
  fold s in H. destruct H as (Hnx & Hni & Hfl & Hflc & Hnd & Hwg & _ & _).
  destruct (Nat.eq_dec (countp active (runs s) (R P)) 0) as [Hz | Hnz].
  - (* nobody is between spawn and Done *)
    assert (Hna : forall i, i < R P -> active (runs s i) = false).
    { intros i Hi. destruct (active (runs s i)) eqn:E; [| reflexivity].
      pose proof (countp_pos active (runs s) (R P) i Hi E). lia. }
    assert (Hfl0 : inflight s = 0).
    { rewrite Hfl. apply countp_zero. intros i Hi. specialize (Hna i Hi).
      unfold active in Hna. unfold occupying. destruct (ph (runs s i)); try discriminate Hna; reflexivity. }
    exists AMain. unfold enabled. rewrite Hcr, Hwg, Hret. cbn [orb].
    destruct (Nat.ltb (next s) (R P)) eqn:Enx.
    + apply Nat.ltb_lt. lia.
    + apply Nat.ltb_ge in Enx. apply Nat.eqb_eq. rewrite Hnd. apply countp_all.
      intros i Hi. specialize (Hna i Hi). specialize (Hni i Hi).
      assert (Hlt : Nat.ltb i (next s) = true) by (apply Nat.ltb_lt; lia). rewrite Hlt in Hni.
      unfold active in Hna. unfold not_idle in Hni. unfold is_finished.
      destruct (ph (runs s i)); try discriminate Hna; try discriminate Hni; reflexivity.
  - destruct (countp_pos_ex active (runs s) (R P)) as [i [Hi Ha]]; [lia |].
    exists (ARun i). unfold enabled. rewrite Hcr, Hwg. cbn [orb].
    apply Nat.ltb_lt in Hi. rewrite Hi. cbn [andb]. apply Nat.ltb_lt in Hi.
    unfold active in Ha. destruct (ph (runs s i)) eqn:Eph; try discriminate Ha; try reflexivity.
    apply negb_true_iff. apply Nat.eqb_neq.
    assert (1 <= countp occupying (runs s) (R P)).
    { apply (countp_pos occupying (runs s) (R P) i Hi). unfold occupying. rewrite Eph. reflexivity. }
    lia.
Qed.

(* ------------------------------------------------------------------ *)
(* the annealing run                                                    *)

Lemma count_tag_app : forall t a b, count_tag t (a ++ b) = count_tag t a + count_tag t b.
Proof. intros t a b. unfold count_tag. rewrite filter_app, app_length. reflexivity. Qed.

Section Anneal.
  Variable fresh : bool.
  Variable T0 cf : Q.
  Variable N : nat.
  Variable tloc base : loc.
  Variable ch : nat -> choice.
  Variable m0 : mem.

  Let p := anneal_prog fresh T0 cf N tloc base.

  (* control flow depends on the step index only *)
  Lemma anneal_going : forall k, k <= N + 1 ->
    so_status (solo p ch m0 k) = Going /\
    count_tag tagFinishedAnnealing (so_events (solo p ch m0 k)) = 0 /\
    count_tag tagStartedAnnealing (so_events (solo p ch m0 k)) = (if Nat.eqb k 0 then 0 else 1) /\
    count_tag tagStartedIteration (so_events (solo p ch m0 k)) = pred k.
  Proof.
    unfold p. induction k as [| k IH]; intros Hle.
    - cbn. auto.
    - destruct IH as (Hs & Hf & Ha & Hi); [lia |].
      cbn [solo]. unfold solo_step. rewrite Hs. cbn [lstep anneal_prog]. unfold anneal_lstep.
      destruct k as [| k'].
      + cbn [so_status so_events]. rewrite !count_tag_app, Hf, Ha, Hi. cbn. auto.
      + assert (Hleb : Nat.leb (S k') N = true) by (apply Nat.leb_le; lia). rewrite Hleb.
        cbn [so_status so_events]. rewrite !count_tag_app, Hf, Ha, Hi. cbn. repeat split; lia.
  Qed.

  Lemma anneal_fin :
    so_status (solo p ch m0 (N + 2)) = Fin /\
    count_tag tagFinishedAnnealing (so_events (solo p ch m0 (N + 2))) = 1 /\
    count_tag tagStartedAnnealing (so_events (solo p ch m0 (N + 2))) = 1 /\
    count_tag tagStartedIteration (so_events (solo p ch m0 (N + 2))) = N.
  Proof.
    destruct (anneal_going (N + 1)) as (Hs & Hf & Ha & Hi); [lia |]. unfold p in *.
    replace (N + 2) with (S (N + 1)) by lia.
    cbn [solo]. unfold solo_step. rewrite Hs. cbn [lstep anneal_prog]. unfold anneal_lstep.
    replace (N + 1) with (S N) in * by lia.
    assert (Hleb : Nat.leb (S N) N = false) by (apply Nat.leb_gt; lia). rewrite Hleb.
    cbn [so_status so_events]. rewrite !count_tag_app, Hf, Ha, Hi. cbn. repeat split; lia.
  Qed.

  Lemma anneal_status : forall k, so_status (solo p ch m0 k) = if Nat.leb (N + 2) k then Fin else Going.
  Proof.
    intros k. destruct (Nat.leb_spec (N + 2) k) as [Hle | Hlt].
    - rewrite (solo_stable p ch m0 (N + 2) k); [apply anneal_fin | | exact Hle].
      destruct anneal_fin as (Hs & _). rewrite Hs. discriminate.
    - apply anneal_going. lia.
  Qed.

  (* the first event of the run, whatever the memory held before: StartedAnnealing *)
  Lemma anneal_first_event : forall k, 1 <= k -> exists rest,
    so_events (solo p ch m0 k) =
      (tagStartedAnnealing, [if fresh then T0 else m0 tloc; 0%Q]) :: rest.
  Proof.
    intros k Hk. destruct (solo_events_prefix_le p ch m0 1 k Hk) as [more H].
    exists more. rewrite H. reflexivity.
  Qed.
End Anneal.

Lemma fixed_fp_view : forall i (x y z : val) (m : mem),
  view [clone_base i; (clone_base i + 1)%N; (clone_base i + 2)%N]
       (write [clone_base i; (clone_base i + 1)%N; (clone_base i + 2)%N] [x; y; z] m) = [x; y; z].
Proof.
  intros i x y z m. unfold view, write, upd. cbn [map].
  rewrite !N.eqb_refl.
  assert (E1 : N.eqb (clone_base i) (clone_base i + 1) = false) by (apply N.eqb_neq; lia).
  assert (E2 : N.eqb (clone_base i) (clone_base i + 2) = false) by (apply N.eqb_neq; lia).
  assert (E3 : N.eqb (clone_base i + 1) (clone_base i + 2) = false) by (apply N.eqb_neq; lia).
  rewrite E1, E2, E3. reflexivity.
Qed.

(* second and third event of a clone after the fix: iteration 1 at T0 with an empty archive *)
Lemma fixed_first_iteration : forall T0 cf N i ch m0 k, 1 <= N -> 2 <= k -> exists rest,
  so_events (solo (fixed_prog T0 cf N i) ch m0 k) =
    (tagStartedAnnealing, [T0; 0%Q]) :: (tagStartedIteration, [(0 + 1)%Q; T0; 0%Q]) :: rest.
Proof.
  intros T0 cf N i ch m0 k HN Hk.
  destruct (solo_events_prefix_le (fixed_prog T0 cf N i) ch m0 2 k Hk) as [more H].
  rewrite H. clear H.
  change (solo (fixed_prog T0 cf N i) ch m0 2)
    with (solo_step (fixed_prog T0 cf N i) ch 1 (solo_step (fixed_prog T0 cf N i) ch 0 (mkSolo m0 [] Going))).
  unfold solo_step at 2. cbn [so_status fixed_prog anneal_prog lstep anneal_lstep so_mem so_events fp app].
  unfold solo_step. cbn [so_status fixed_prog anneal_prog lstep so_mem so_events fp].
  rewrite fixed_fp_view. unfold anneal_lstep.
  assert (Hleb : Nat.leb 1 N = true) by (apply Nat.leb_le; lia). rewrite Hleb.
  cbn [nth_val nth so_events app]. eexists. reflexivity.
Qed.

Lemma fixed_progs_length : forall T0 cf N R, length (fixed_progs T0 cf N R) = R.
Proof. intros. unfold fixed_progs. rewrite map_length, seq_length. reflexivity. Qed.

Lemma fixed_progs_nth : forall T0 cf N R i, i < R -> nth i (fixed_progs T0 cf N R) idle_prog = fixed_prog T0 cf N i.
Proof.
  intros T0 cf N R i Hi. unfold fixed_progs.
  rewrite (nth_indep _ idle_prog (fixed_prog T0 cf N 0)) by (rewrite map_length, seq_length; exact Hi).
  rewrite (map_nth (fixed_prog T0 cf N) (seq 0 R) 0 i). rewrite seq_nth by exact Hi. reflexivity.
Qed.

Lemma fixed_fp_disjoint : forall i j, i <> j ->
  disjointb [clone_base i; (clone_base i + 1)%N; (clone_base i + 2)%N]
            [clone_base j; (clone_base j + 1)%N; (clone_base j + 2)%N] = true.
Proof.
  intros i j Hne. unfold disjointb, memb, clone_base. cbn [forallb existsb].
  repeat match goal with |- context [N.eqb ?a ?b] =>
    let E := fresh "E" in assert (E : N.eqb a b = false) by (apply N.eqb_neq; lia); rewrite E; clear E end.
  reflexivity.
Qed.

Lemma fixed_progs_disjoint_from : forall T0 cf N n start,
  pairwise_disjointb (map fp (map (fixed_prog T0 cf N) (seq start n))) = true.
Proof.
  intros T0 cf N n. induction n as [| n IH]; intros start; [reflexivity |].
  cbn [seq map pairwise_disjointb]. apply andb_true_iff. split; [| apply IH].
  apply forallb_forall. intros f Hf. apply in_map_iff in Hf. destruct Hf as [q [Hq Hin]].
  apply in_map_iff in Hin. destruct Hin as [j [Hj Hin]]. apply in_seq in Hin. subst q f.
  cbn [fixed_prog anneal_prog fp]. apply fixed_fp_disjoint. lia.
Qed.

Lemma fixed_progs_disjoint : forall T0 cf N R, pairwise_disjointb (map fp (fixed_progs T0 cf N R)) = true.
Proof. intros. apply fixed_progs_disjoint_from. Qed.

(* ------------------------------------------------------------------ *)
(* R annealing clones under the runner, any interleaving                *)

Definition full_trace (T0 cf : Q) (N : nat) (i : nat) (ch : nat -> choice) (m0 : mem) : list event :=
  so_events (solo (fixed_prog T0 cf N i) ch m0 (N + 2)).

Lemma fixed_runs_prefix : forall T0 cf N R c ch m0 sch i, i < R ->
  let s := exec (fixed_progs T0 cf N R) c ch sch (init_state m0) in
  exists more, full_trace T0 cf N i (ch i) m0 = events_of i (trace s) ++ more.
Proof.
  intros T0 cf N R c ch m0 sch i Hi s.
  assert (Hi' : i < length (fixed_progs T0 cf N R)) by (rewrite fixed_progs_length; exact Hi).
  destruct (noninterference _ c ch m0 sch (fixed_progs_disjoint T0 cf N R) i Hi') as (He & _).
  fold s in He. rewrite fixed_progs_nth in He by exact Hi. rewrite He. unfold full_trace.
  destruct (Nat.le_ge_cases (pc (runs s i)) (N + 2)) as [Hle | Hge].
  - apply solo_events_prefix_le. exact Hle.
  - exists []. rewrite app_nil_r. f_equal. symmetry. apply solo_stable; [| exact Hge].
    unfold fixed_prog. rewrite anneal_status. rewrite Nat.leb_refl. discriminate.
Qed.

Lemma fixed_runs_complete : forall T0 cf N R c ch m0 sch,
  let s := exec (fixed_progs T0 cf N R) c ch sch (init_state m0) in
  returned s = true -> forall i, i < R ->
  events_of i (trace s) = full_trace T0 cf N i (ch i) m0 /\
  count (is_spawn i) (trace s) = 1 /\ count (is_done i) (trace s) = 1.
Proof.
  intros T0 cf N R c ch m0 sch s Hr i Hi.
  assert (Hi' : i < length (fixed_progs T0 cf N R)) by (rewrite fixed_progs_length; exact Hi).
  destruct (complete_runs _ c ch m0 sch (fixed_progs_disjoint T0 cf N R) Hr i Hi')
    as (_ & Hst & Hstab & He & _ & Hsp & _ & Hdn).
  fold s in Hst, Hstab, He, Hsp, Hdn. rewrite fixed_progs_nth in Hst, Hstab, He by exact Hi.
  split; [| split; [exact Hsp | exact Hdn]].
  rewrite He. unfold full_trace. f_equal.
  destruct (Nat.le_ge_cases (pc (runs s i)) (N + 2)) as [Hle | Hge].
  - symmetry. apply Hstab. exact Hle.
  - apply solo_stable; [| exact Hge].
    unfold fixed_prog. rewrite anneal_status. rewrite Nat.leb_refl. discriminate.
Qed.

Lemma full_trace_shape : forall T0 cf N i ch m0,
  (exists rest, full_trace T0 cf N i ch m0 = (tagStartedAnnealing, [T0; 0%Q]) :: rest) /\
  (1 <= N -> exists rest, full_trace T0 cf N i ch m0 =
       (tagStartedAnnealing, [T0; 0%Q]) :: (tagStartedIteration, [(0 + 1)%Q; T0; 0%Q]) :: rest) /\
  count_tag tagStartedAnnealing (full_trace T0 cf N i ch m0) = 1 /\
  count_tag tagStartedIteration (full_trace T0 cf N i ch m0) = N /\
  count_tag tagFinishedAnnealing (full_trace T0 cf N i ch m0) = 1.
Proof.
  intros T0 cf N i ch m0. unfold full_trace, fixed_prog.
  destruct (anneal_fin true T0 cf N (clone_base i) (clone_base i) ch m0) as (_ & Hf & Ha & Hi).
  split; [apply (anneal_first_event true); lia |].
  split; [intros HN; apply (fixed_first_iteration T0 cf N i ch m0 (N + 2)); lia |].
  auto.
Qed.

(* ------------------------------------------------------------------ *)
(* the shared-coolant shape (D4 before its fix), by computation         *)

Definition d4_T0 : Q := 100 # 1.
Definition d4_cf : Q := 19 # 20.
Definition d4_N : nat := 3.
Definition d4_progs : list prog := shared_progs d4_T0 d4_cf d4_N 2.
Definition d4_ch : nat -> nat -> choice := fun _ _ => 1%Z.
Definition d4_m0 : mem := upd (fun _ => 0%Q) shared_tloc d4_T0.
Definition d4_final : state := exec d4_progs 1 d4_ch (sequential 2 d4_N) (init_state d4_m0).

Lemma shared_coolant_refuted :
  pairwise_disjointb (map fp d4_progs) = false /\
  returned d4_final = true /\
  first_with tagStartedAnnealing (events_of 0 (trace d4_final)) = Some [d4_T0; 0%Q] /\
  first_with tagStartedAnnealing (events_of 1 (trace d4_final)) = Some [(d4_T0 * d4_cf * d4_cf * d4_cf)%Q; 0%Q] /\
  ~ (d4_T0 * d4_cf * d4_cf * d4_cf == d4_T0)%Q /\
  first_with tagStartedAnnealing
    (so_events (solo (nth 1 d4_progs idle_prog) (d4_ch 1) d4_m0 (pc (runs d4_final 1)))) = Some [d4_T0; 0%Q] /\
  events_of 1 (trace d4_final) <> so_events (solo (nth 1 d4_progs idle_prog) (d4_ch 1) d4_m0 (pc (runs d4_final 1))).
Proof.
  split; [vm_compute; reflexivity |]. split; [vm_compute; reflexivity |].
  split; [vm_compute; reflexivity |]. split; [vm_compute; reflexivity |].
  split; [intro H; vm_compute in H; discriminate H |].
  split; [vm_compute; reflexivity |].
  intro H. vm_compute in H. discriminate H.
Qed.

(* c = 0 (which Runner.WithMaximumConcurrentRuns refuses) would deadlock at once *)
Lemma zero_slots_deadlock : forall P m0 a, 1 <= length P -> enabled P 0 (init_state m0) a = false.
Proof.
  intros P m0 a HP. unfold enabled, init_state. cbn [crashed wgpanic returned next inflight runs ph orb].
  destruct a as [| i].
  - assert (H : Nat.ltb 0 (R P) = true) by (apply Nat.ltb_lt; unfold R; lia). rewrite H. reflexivity.
  - apply andb_false_r.
Qed.

(* ------------------------------------------------------------------ *)
(* termination: every schedule of enabled actions is bounded            *)

Lemma sumr_ext : forall f g n, (forall i, i < n -> f i = g i) -> sumr f n = sumr g n.
Proof.
  intros f g n. induction n as [| n IH]; intros H; [reflexivity |].
  cbn [sumr]. rewrite (H n) by lia. rewrite IH; [reflexivity |]. intros i Hi. apply H. lia.
Qed.

Lemma sumr_update : forall f g n i, i < n -> (forall j, j < n -> j <> i -> f j = g j) ->
  sumr f n + g i = sumr g n + f i.
Proof.
  intros f g n. induction n as [| n IH]; intros i Hi H; [lia |].
  cbn [sumr]. destruct (Nat.eq_dec i n) as [-> | Hne].
  - rewrite (sumr_ext f g n) by (intros j Hj; apply H; lia). lia.
  - rewrite (H n) by lia. assert (Hi' : i < n) by lia.
    specialize (IH i Hi' (fun j Hj Hji => H j (Nat.lt_lt_succ_r _ _ Hj) Hji)). lia.
Qed.

Section Termination.
  Variable P : list prog.
  Variable c : nat.
  Variable ch : nat -> nat -> choice.
  Variable m0 : mem.
  Variable bound : nat -> nat.   (* run i finishes (or panics) within [bound i] steps when run alone *)
  Hypothesis Hdisj : pairwise_disjointb (map fp P) = true.
  Hypothesis Hbound : forall i, i < R P -> so_status (solo (prog_of P i) (ch i) m0 (bound i)) <> Going.

  Definition rem (i : nat) (r : rrec) : nat :=
    match ph r with
    | Idle => bound i + 3
    | Running => (bound i - pc r) + 2
    | Ran => 2
    | Released => 1
    | Finished => 0
    end.

  Definition mu (s : state) : nat :=
    (R P - next s) + b2n (negb (returned s)) + sumr (fun i => rem i (runs s i)) (R P).

  Lemma going_lt_bound : forall i k, i < R P -> so_status (solo (prog_of P i) (ch i) m0 k) = Going -> k < bound i.
  Proof.
    intros i k Hi Hg. destruct (Nat.lt_ge_cases k (bound i)) as [Hlt | Hge]; [exact Hlt |].
    exfalso. apply (Hbound i Hi). apply (solo_going_before _ _ _ (bound i) k Hg Hge).
  Qed.

  Lemma mu_updr : forall s i r', i < R P ->
    sumr (fun j => rem j (updr (runs s) i r' j)) (R P) + rem i (runs s i) =
    sumr (fun j => rem j (runs s j)) (R P) + rem i r'.
  Proof.
    intros s i r' Hi.
    assert (H : sumr (fun j => rem j (updr (runs s) i r' j)) (R P) + rem i (runs s i) =
                sumr (fun j => rem j (runs s j)) (R P) + rem i (updr (runs s) i r' i)).
    { apply (sumr_update (fun j => rem j (updr (runs s) i r' j)) (fun j => rem j (runs s j)) (R P) i Hi).
      intros j Hj Hne. unfold updr. destruct (Nat.eqb j i) eqn:E; [apply Nat.eqb_eq in E; contradiction | reflexivity]. }
    unfold updr at 2 in H. rewrite Nat.eqb_refl in H. exact H.
  Qed.

  Lemma mu_updr' : forall s i r' a b, i < R P -> rem i (runs s i) = a -> rem i r' = b ->
    sumr (fun j => rem j (updr (runs s) i r' j)) (R P) + a = sumr (fun j => rem j (runs s j)) (R P) + b.
  Proof. intros s i r' a b Hi <- <-. apply mu_updr. exact Hi. Qed.

  Lemma mu_step : forall s a, ni_inv P ch m0 s -> cnt_inv P c s ->
    enabled P c s a = true -> mu (step P c ch s a) < mu s.
  Proof.
    intros s a Hni Hcnt Hen. unfold enabled in Hen. unfold step.
    destruct (crashed s || wgpanic s) eqn:Ecw; [discriminate Hen |].
    apply orb_false_iff in Ecw. destruct Ecw as [Ecr Ewg].
    destruct Hcnt as (Hnx & Hnid & Hfl & Hflc & Hnd & _ & _ & _).
    destruct a as [| i].
    - unfold step_main. destruct (returned s) eqn:Eret; [discriminate Hen |].
      destruct (Nat.ltb (next s) (R P)) eqn:Enx.
      + rewrite Hen. apply Nat.ltb_lt in Enx.
        assert (Hph : ph (runs s (next s)) = Idle).
        { pose proof (Hnid (next s) Enx) as H. rewrite Nat.ltb_irrefl in H.
          unfold not_idle in H. destruct (ph (runs s (next s))); try discriminate H. reflexivity. }
        unfold mu. cbn [next returned runs].
        assert (Hm := mu_updr' s (next s) (mkR Running 0) (bound (next s) + 3) (bound (next s) - 0 + 2) Enx ltac:(unfold rem; rewrite Hph; reflexivity) eq_refl).
        rewrite Eret. cbn [negb b2n]. lia.
      + rewrite Hen. unfold mu. cbn [next returned runs]. rewrite Eret. cbn [negb b2n]. lia.
    - apply andb_true_iff in Hen. destruct Hen as [Hi Hen]. unfold step_run. rewrite Hi.
      apply Nat.ltb_lt in Hi.
      destruct (Hni i Hi) as (_ & Ha & _ & _ & Hr & _).
      destruct (ph (runs s i)) eqn:Eph; try discriminate Hen.
      + (* Running *)
        specialize (Hr eq_refl Ecr). pose proof (going_lt_bound i _ Hi Hr) as Hlt.
        destruct (lstep (prog_of P i) (pc (runs s i)) (view (fp (prog_of P i)) (smem s)) (ch i (pc (runs s i))))
          as [[[vs evs] fin] |].
        * unfold mu. cbn [next returned runs].
          destruct fin.
          { assert (Hm := mu_updr' s i (mkR Ran (S (pc (runs s i)))) (bound i - pc (runs s i) + 2) (2) Hi ltac:(unfold rem; rewrite Eph; reflexivity) eq_refl). lia. }
          { assert (Hm := mu_updr' s i (mkR Running (S (pc (runs s i)))) (bound i - pc (runs s i) + 2) (bound i - S (pc (runs s i)) + 2) Hi ltac:(unfold rem; rewrite Eph; reflexivity) eq_refl). lia. }
        * unfold mu. cbn [next returned runs].
          assert (Hm := mu_updr' s i (mkR Running (S (pc (runs s i)))) (bound i - pc (runs s i) + 2) (bound i - S (pc (runs s i)) + 2) Hi ltac:(unfold rem; rewrite Eph; reflexivity) eq_refl). lia.
      + (* Ran *)
        apply negb_true_iff in Hen. apply Nat.eqb_neq in Hen.
        destruct (inflight s) as [| n]; [contradiction |].
        unfold mu. cbn [next returned runs].
        assert (Hm := mu_updr' s i (mkR Released (pc (runs s i))) (2) (1) Hi ltac:(unfold rem; rewrite Eph; reflexivity) eq_refl). lia.
      + (* Released *)
        assert (Hlt : ndone s < R P).
        { rewrite Hnd. apply (countp_lt is_finished (runs s) (R P) i Hi). unfold is_finished. rewrite Eph. reflexivity. }
        apply Nat.ltb_lt in Hlt. rewrite Hlt.
        unfold mu. cbn [next returned runs].
        assert (Hm := mu_updr' s i (mkR Finished (pc (runs s i))) (1) (0) Hi ltac:(unfold rem; rewrite Eph; reflexivity) eq_refl). lia.
  Qed.

  Lemma mu_exec : forall sch s, ni_inv P ch m0 s -> cnt_inv P c s ->
    enabled_run P c ch sch s = true -> length sch + mu (exec P c ch sch s) <= mu s.
  Proof.
    induction sch as [| a sch IH]; intros s Hni Hcnt Hen; cbn [length exec fold_left]; [lia |].
    cbn [enabled_run] in Hen. apply andb_true_iff in Hen. destruct Hen as [Ha Hrest].
    pose proof (mu_step s a Hni Hcnt Ha) as Hlt.
    specialize (IH (step P c ch s a) (ni_step P c ch m0 Hdisj s a Hni) (cnt_step P c ch s a Hcnt) Hrest).
    change (fold_left (step P c ch) sch (step P c ch s a)) with (exec P c ch sch (step P c ch s a)). lia.
  Qed.

  (* a crash is always some run's own solo panic *)
  Lemma crash_step : forall s a, ni_inv P ch m0 s ->
    (crashed s = true -> exists i, i < R P /\ so_status (solo (prog_of P i) (ch i) m0 (pc (runs s i))) = Crashed) ->
    crashed (step P c ch s a) = true ->
    exists i, i < R P /\ so_status (solo (prog_of P i) (ch i) m0 (pc (runs (step P c ch s a) i))) = Crashed.
  Proof.
    intros s a Hni Hold. unfold step.
    destruct (crashed s || wgpanic s) eqn:Ecw; [exact Hold |].
    apply orb_false_iff in Ecw. destruct Ecw as [Ecr Ewg].
    destruct a as [| i].
    - unfold step_main. destruct (returned s); [exact Hold |].
      destruct (Nat.ltb (next s) (R P)).
      + destruct (Nat.ltb (inflight s) c); [| exact Hold]. cbn [crashed]. intros Hc. rewrite Ecr in Hc. discriminate Hc.
      + destruct (Nat.eqb (ndone s) (R P)); [| exact Hold]. cbn [crashed]. intros Hc. rewrite Ecr in Hc. discriminate Hc.
    - unfold step_run. destruct (Nat.ltb i (R P)) eqn:Ei; [| exact Hold]. apply Nat.ltb_lt in Ei.
      destruct (Hni i Ei) as (_ & Ha & _ & _ & Hr & _).
      destruct (ph (runs s i)) eqn:Eph; try exact Hold.
      + specialize (Hr eq_refl Ecr).
        destruct (lstep (prog_of P i) (pc (runs s i)) (view (fp (prog_of P i)) (smem s)) (ch i (pc (runs s i))))
          as [[[vs evs] fin] |] eqn:El.
        * cbn [crashed]. intros Hc. rewrite Ecr in Hc. discriminate Hc.
        * intros _. exists i. split; [exact Ei |]. cbn [runs]. unfold updr. rewrite Nat.eqb_refl. cbn [pc solo].
          unfold solo_step. rewrite Hr. rewrite <- (agree_view _ _ _ Ha). rewrite El. reflexivity.
      + destruct (inflight s); [exact Hold |]. cbn [crashed]. intros Hc. rewrite Ecr in Hc. discriminate Hc.
      + destruct (Nat.ltb (ndone s) (R P)); cbn [crashed]; intros Hc; rewrite Ecr in Hc; discriminate Hc.
  Qed.

  Lemma crash_exec : forall sch s, ni_inv P ch m0 s ->
    (crashed s = true -> exists i, i < R P /\ so_status (solo (prog_of P i) (ch i) m0 (pc (runs s i))) = Crashed) ->
    crashed (exec P c ch sch s) = true ->
    exists i, i < R P /\ so_status (solo (prog_of P i) (ch i) m0 (pc (runs (exec P c ch sch s) i))) = Crashed.
  Proof.
    induction sch as [| a sch IH]; intros s Hni Hold; [exact Hold |].
    cbn [exec fold_left]. apply IH; [apply ni_step; assumption |]. apply crash_step; assumption.
  Qed.
End Termination.

Lemma mu_init : forall P bound m0,
  mu P bound (init_state m0) = length P + 1 + sumr (fun i => bound i + 3) (length P).
Proof.
  intros P bound m0. unfold mu, init_state, R. cbn [next returned runs negb b2n]. rewrite Nat.sub_0_r.
  rewrite (sumr_ext _ (fun i => bound i + 3)); [lia |]. intros i Hi. reflexivity.
Qed.

Lemma schedules_bounded : forall P c ch m0 bound sch,
  pairwise_disjointb (map fp P) = true ->
  (forall i, i < length P -> so_status (solo (nth i P idle_prog) (ch i) m0 (bound i)) <> Going) ->
  enabled_run P c ch sch (init_state m0) = true ->
  length sch <= length P + 1 + sumr (fun i => bound i + 3) (length P).
Proof.
  intros P c ch m0 bound sch Hd Hb Hen.
  pose proof (mu_exec P c ch m0 bound Hd Hb sch (init_state m0) (ni_init P ch m0) (proj2 (cnt_init P c) m0) Hen) as H.
  rewrite mu_init in H. lia.
Qed.

Lemma maximal_returns_or_crashes : forall P c ch m0 sch, 1 <= c ->
  let s := exec P c ch sch (init_state m0) in
  (forall a, enabled P c s a = false) -> returned s = true \/ crashed s = true.
Proof.
  intros P c ch m0 sch Hc s Hmax.
  destruct (crashed s) eqn:Ecr; [right; reflexivity |].
  destruct (returned s) eqn:Eret; [left; reflexivity |].
  destruct (progress P c ch m0 sch Hc Ecr Eret) as [a Ha]. rewrite Hmax in Ha. discriminate Ha.
Qed.

Lemma crash_is_a_solo_panic : forall P c ch m0 sch,
  pairwise_disjointb (map fp P) = true ->
  let s := exec P c ch sch (init_state m0) in
  crashed s = true ->
  exists i, i < length P /\ so_status (solo (nth i P idle_prog) (ch i) m0 (pc (runs s i))) = Crashed.
Proof.
  intros P c ch m0 sch Hd s Hc.
  apply (crash_exec P c ch m0 Hd sch (init_state m0) (ni_init P ch m0)); [| exact Hc].
  cbn [crashed init_state]. intros H. discriminate H.
Qed.

(* the annealing clones: no panics, N + 2 steps each: every maximal schedule ends with the
   scenario returned, after at most R * (N + 6) + 1 actions *)
Lemma sumr_const : forall k n, sumr (fun _ => k) n = n * k.
Proof. intros k n. induction n as [| n IH]; cbn [sumr]; [reflexivity |]. rewrite IH. lia. Qed.

Lemma annealing_scenario_returns : forall T0 cf N R c ch m0 sch, 1 <= c ->
  let P := fixed_progs T0 cf N R in
  let s := exec P c ch sch (init_state m0) in
  enabled_run P c ch sch (init_state m0) = true ->
  length sch <= R * (N + 6) + 1 /\
  crashed s = false /\
  ((forall a, enabled P c s a = false) -> returned s = true).
Proof.
  intros T0 cf N R c ch m0 sch Hc P s Hen.
  assert (Hd : pairwise_disjointb (map fp P) = true) by apply fixed_progs_disjoint.
  assert (Hlen : length P = R) by apply fixed_progs_length.
  assert (Hst : forall i k, i < R -> so_status (solo (nth i P idle_prog) (ch i) m0 k) <> Crashed).
  { intros i k Hi. unfold P. rewrite fixed_progs_nth by exact Hi. unfold fixed_prog.
    rewrite anneal_status. destruct (Nat.leb (N + 2) k); discriminate. }
  assert (Hcr : crashed s = false).
  { destruct (crashed s) eqn:E; [| reflexivity].
    destruct (crash_is_a_solo_panic P c ch m0 sch Hd E) as [i [Hi Hs]]. fold s in Hs.
    rewrite Hlen in Hi. exfalso. exact (Hst i _ Hi Hs). }
  split; [| split; [exact Hcr |]].
  - pose proof (schedules_bounded P c ch m0 (fun _ => N + 2) sch Hd) as H.
    rewrite Hlen, sumr_const in H.
    assert (Hb : forall i, i < R -> so_status (solo (nth i P idle_prog) (ch i) m0 (N + 2)) <> Going).
    { intros i Hi. unfold P. rewrite fixed_progs_nth by exact Hi. unfold fixed_prog.
      rewrite anneal_status, Nat.leb_refl. discriminate. }
    specialize (H Hb Hen). lia.
  - intros Hmax. destruct (maximal_returns_or_crashes P c ch m0 sch Hc Hmax) as [H | H]; [exact H |].
    fold s in H. rewrite Hcr in H. discriminate H.
Qed.
