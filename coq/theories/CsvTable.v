(* C20 (and the table layer of C13) — executable model of crem's CSV table loader.

   Transcribed from /repo (as it is now, i.e. after the D15 fixes and b0400cb "tables loaded from CSV remember each
   cell's text"):
     internal/pkg/dataset/csv/CsvDataSet.go   ParseCsvTextIntoTable, deriveTableFromRecords,
                                              deriveContextFromRecords, assignTableHeaders, assignTableContent
     internal/pkg/dataset/tables/baseTable.go SetColumnAndRowSize, ColumnAndRowSize, Cell, CellFloat64, CellString
     internal/pkg/dataset/tables/CsvTable.go  Header, SetCellText, CellString (the remembered text, verbatim)
     pkg/strings/BaseCaster.go                Cast  (number first, then boolean, else the string itself)

   Trusted oracles (NOT modelled here): encoding/csv (text -> records; with FieldsPerRecord = 0 every
   record has as many fields as the first one, otherwise ReadAll returns an error) and strconv/fmt.
   The model therefore starts from what the csv reader returned ([csv_result]) and takes the caster as a
   function [string -> tag] (what BaseCaster.Cast did with that field) and the float formatter of
   fmt.Sprintf("%v", float64) as a function [num -> string].  GoCast.v models both on a restricted alphabet.

   Failure behaviour is explicit: every unchecked slice index / failed type assertion of the Go code is [Panic].
   No proofs in this file. *)
From Coq Require Import List String QArith Bool Arith.
From Crem Require Import Base.Res.
Import ListNotations.

(* A float64 as the caster produces it: sign and magnitude of a finite value (the magnitude is the EXACT
   rational the harness exports; -0.0 is [Fin true 0]), or +-Inf, or NaN ("inf", "nan" are valid ParseFloat input). *)
Inductive num :=
| Fin (neg : bool) (a : Q)
| Inf (neg : bool)
| NaN.

(* What BaseCaster.Cast (WithNumbersAsFloats) returned for a field. *)
Inductive tag :=
| TNum (x : num)      (* strconv.ParseFloat(s, 64) succeeded: float64 *)
| TBool (b : bool)    (* else strconv.ParseBool(s) succeeded: bool *)
| TText.              (* else the string itself *)

(* interface{} stored in a cell *)
Inductive cellv :=
| VNum (x : num)
| VBool (b : bool)
| VStr (s : string).

Definition caster := string -> tag.

(* csv.toBaseType *)
Definition to_base (cast : caster) (s : string) : cellv :=
  match cast s with
  | TNum x => VNum x
  | TBool b => VBool b
  | TText => VStr s
  end.

(* tables.CsvTableImpl: header + baseTable{colNum, cells [row][col]} + text (map (col,row) -> the field the cell was
   parsed from; modelled as a [row][col] list: SetCellText is only ever called next to SetCell) *)
Record table := mkTable {
  t_header : list string;
  t_colnum : nat;
  t_cells : list (list cellv);
  t_text : list (list string) }.

(* assignTableContent, inner loop: for colIndex < colSize: records[rowIndex][colIndex] — index out of range
   (Panic) when the record is shorter than the header; extra fields are silently ignored. *)
Fixpoint take_cast (cast : caster) (n : nat) (r : list string) : res (list cellv) :=
  match n with
  | O => Ok []
  | S n' =>
    match r with
    | [] => Panic                       (* context.records[rowIndex][colIndex] *)
    | f :: r' => do cs <- take_cast cast n' r'; Ok (to_base cast f :: cs)
    end
  end.

(* assignTableContent, outer loop over records[1..rowSize] *)
Fixpoint rows_cast (cast : caster) (n : nat) (rows : list (list string)) : res (list (list cellv)) :=
  match rows with
  | [] => Ok []
  | r :: rows' => do c <- take_cast cast n r; do cs <- rows_cast cast n rows'; Ok (c :: cs)
  end.

(* deriveTableFromRecords = deriveContextFromRecords; assignTableHeaders; assignTableContent.
   deriveContextFromRecords: rowSize = uint(len(records)) - 1 ; colSize = uint(len(records[0])) — for zero
   records the subtraction wraps and records[0] panics. *)
Definition derive_table (cast : caster) (recs : list (list string)) : res table :=
  match recs with
  | [] => Panic                                        (* inputRecords[0] *)
  | h :: rows =>
    do cs <- rows_cast cast (List.length h) rows;
    (* SetCellText(colIndex, rowIndex-1, records[rowIndex][colIndex]) for the same indices as SetCell *)
    Ok (mkTable h (List.length h) cs (map (firstn (List.length h)) rows))
  end.

(* What encoding/csv's ReadAll handed back. *)
Inductive csv_result :=
| CsvError                                   (* readError != nil *)
| CsvRecords (recs : list (list string)).

Inductive load :=
| Loaded (t : table)       (* table added to the data set, Errors() == nil *)
| Rejected.                (* an error was added to the data set, no table *)

(* DataSet.ParseCsvTextIntoTable *)
Definition parse_csv_text_into_table (cast : caster) (c : csv_result) : res load :=
  match c with
  | CsvError => Ok Rejected
  | CsvRecords [] => Ok Rejected                       (* "parsing csv text: no header row" *)
  | CsvRecords recs => do t <- derive_table cast recs; Ok (Loaded t)
  end.

(* The guarantee of encoding/csv with FieldsPerRecord = 0: all records as long as the first. *)
Definition rectangular (recs : list (list string)) : bool :=
  match recs with
  | [] => true
  | h :: rows => forallb (fun r => Nat.eqb (List.length r) (List.length h)) rows
  end.

(* ---- accessors (baseTable.go) ---- *)

Definition header (t : table) : list string := t_header t.

(* ColumnAndRowSize: (bt.colNum, len(bt.cells)) — no indexing any more (fix 601f635). *)
Definition column_and_row_size (t : table) : res (nat * nat) :=
  Ok (t_colnum t, List.length (t_cells t)).

Definition index {A} (l : list A) (i : nat) : res A :=
  match nth_error l i with Some a => Ok a | None => Panic end.

(* Cell(col,row) = bt.cells[row][col] *)
Definition cell (t : table) (col row : nat) : res cellv :=
  do r <- index (t_cells t) row; index r col.

(* CellFloat64 = bt.cells[row][col].(float64) *)
Definition cell_float64 (t : table) (col row : nat) : res num :=
  do v <- cell t col row;
  match v with VNum x => Ok x | _ => Panic end.

(* baseTable.CellString: string -> itself; float64 -> Sprintf("%v"); anything else -> "" *)
Definition base_cell_string (fmt : num -> string) (t : table) (col row : nat) : res string :=
  do v <- cell t col row;
  match v with
  | VStr s => Ok s
  | VNum x => Ok (fmt x)
  | VBool _ => Ok EmptyString
  end.

(* CsvTableImpl.CellString: the remembered text of the cell if there is one, else baseTable.CellString *)
Definition cell_string (fmt : num -> string) (t : table) (col row : nat) : res string :=
  match nth_error (t_text t) row with
  | Some r =>
    match nth_error r col with
    | Some s => Ok s
    | None => base_cell_string fmt t col row
    end
  | None => base_cell_string fmt t col row
  end.

(* ---- helpers for stating faithfulness ---- *)

Definition field (recs : list (list string)) (col row : nat) : string :=
  nth col (nth row (tl recs) []) EmptyString.

Definition is_tbool (g : tag) : bool := match g with TBool _ => true | _ => false end.
Definition is_tnum (g : tag) : bool := match g with TNum _ => true | _ => false end.

(* no data field is one of the literals strconv.ParseBool accepts without being a number *)
Definition no_bool_field (cast : caster) (recs : list (list string)) : bool :=
  forallb (fun r => forallb (fun f => negb (is_tbool (cast f))) r) (tl recs).
