(* Model of pkg/archive/BooleanArchive.go (C09), transcribed AS WRITTEN.

   Go                                   here
   ----------------------------------   -------------------------------------------------
   BooleanArchive{size,archiveArray,    archive {a_size; a_words; a_memo}
                  encoding}             (detailCache is a scratch field that is fully
                                         rewritten by deriveDetail before every read: it
                                         carries no state between calls and is not modelled)
   New(size)                            new_archive      (size = len(actions) >= 0: a [nat])
   archiveSize                          nwords           (int(math.Ceil(float64(n)/64)), exact below 2^53)
   deriveDetail                         derive_detail
   setValueUnchecked                    set_value_unchecked   (w + mask / w - mask on uint64)
   SetValue / Value                     set_value / value     (only [entryIndex >= size] is checked!)
   Encoding / uInt64toHex               encoding / hex_upper  (memoised in a_memo)
   Decode                               decode                (parses all entries, then stores: fix C09-1)
   zeroOutUnusedArrayEntries            zero_out_unused
   resetCache                           (a_memo := "")
   IsEquivalentTo                       is_equivalent_to

   Indices are Go [int]s: modelled as [Z], because the code checks only the
   upper bound.  What the code then does with a negative index is transcribed:
     -63..-1 : arrayIndex = i/64 = 0 (Go division truncates towards zero),
               byteOffset = uint(i%64) = 2^64-|i%64| >= 64, so mask = uint64(1<<byteOffset) = 0:
               Value answers false, SetValue changes nothing (but still resets the memo);
               with an empty word array (size 0) the access archiveArray[0] panics;
     <= -64  : arrayIndex < 0, runtime panic (index out of range).
   No proofs in this file (it must keep running when a proof breaks). *)
From Coq Require Import List NArith ZArith String Ascii Bool.
From Crem Require Import Base.Res.
Import ListNotations.
Local Open Scope N_scope.

Definition two64 : N := 18446744073709551616.        (* 2^64 *)
Definition max_u64 : N := 18446744073709551615.      (* 1<<64 - 1 *)

(* uint64 arithmetic wraps *)
Definition add64 (a b : N) : N := (a + b) mod two64.
Definition sub64 (a b : N) : N := (a + two64 - b) mod two64.      (* for a, b < 2^64 *)

Record archive := mk_archive { a_size : nat; a_words : list N; a_memo : string }.

(* archiveSize: int(math.Ceil(float64(entriesNeeded) / 64)) *)
Definition nwords (n : nat) : nat := Nat.div (n + 63) 64%nat.

Definition new_archive (n : nat) : archive := mk_archive n (repeat 0 (nwords n)) EmptyString.

Record detail := mk_detail { d_index : nat; d_mask : N; d_value : bool }.

(* uint64(1 << byteOffset) with byteOffset = uint(entryIndex % 64): a shift count >= 64 gives 0 *)
Definition mask_of (i : Z) : N :=
  let off := Z.rem i 64 in
  if (off <? 0)%Z then 0 else N.shiftl 1 (Z.to_N off).

Definition derive_detail (ws : list N) (i : Z) : res detail :=
  let ai := Z.quot i 64 in
  if (ai <? 0)%Z then Panic                                   (* negative slice index *)
  else match nth_error ws (Z.to_nat ai) with
       | None => Panic                                        (* index out of range *)
       | Some w => Ok (mk_detail (Z.to_nat ai) (mask_of i) (0 <? N.land w (mask_of i)))
       end.

(* l[k] = v  (index out of range = runtime panic) *)
Fixpoint set_nth {A} (k : nat) (v : A) (ws : list A) : res (list A) :=
  match ws, k with
  | [], _ => Panic
  | _ :: r, O => Ok (v :: r)
  | w :: r, S k' => res_map (cons w) (set_nth k' v r)
  end.

Definition set_value_unchecked (ws : list N) (i : Z) (v : bool) : res (list N) :=
  do d <- derive_detail ws i;
  if Bool.eqb (d_value d) v then Ok ws
  else match nth_error ws (d_index d) with
       | None => Panic
       | Some w => set_nth (d_index d) (if v then add64 w (d_mask d) else sub64 w (d_mask d)) ws
       end.

Definition set_value (a : archive) (i : Z) (v : bool) : res archive :=
  if (Z.of_nat (a_size a) <=? i)%Z then Panic                 (* panic(errors.New("index out of range")) *)
  else do ws <- set_value_unchecked (a_words a) i v;
       Ok (mk_archive (a_size a) ws EmptyString).             (* resetCache, even when nothing changed *)

Definition value (a : archive) (i : Z) : res bool :=
  if (Z.of_nat (a_size a) <=? i)%Z then Panic
  else res_map d_value (derive_detail (a_words a) i).

(* ---- fmt.Sprintf("%X", uint64): upper case, no padding, "0" for zero ---- *)

Definition hex_digit (d : N) : ascii :=
  match d with
  | 0 => "0" | 1 => "1" | 2 => "2" | 3 => "3" | 4 => "4" | 5 => "5" | 6 => "6" | 7 => "7"
  | 8 => "8" | 9 => "9" | 10 => "A" | 11 => "B" | 12 => "C" | 13 => "D" | 14 => "E" | _ => "F"
  end%char.

Fixpoint hex_digits (fuel : nat) (n : N) : string :=
  match fuel with
  | O => EmptyString
  | S f => String.append (if n / 16 =? 0 then EmptyString else hex_digits f (n / 16))
                         (String (hex_digit (n mod 16)) EmptyString)
  end.

(* 16 hex digits suffice for a uint64 *)
Definition hex_upper (w : N) : string := hex_digits 16 w.

(* for index, entry := range a.archiveArray { builder.AddIf(index > 0, ":").Add(uInt64toHex(entry)) } *)
Fixpoint encode_from (index_gt_0 : bool) (ws : list N) : string :=
  match ws with
  | [] => EmptyString
  | w :: r => ((if index_gt_0 then ":" else "") ++ hex_upper w ++ encode_from true r)%string
  end.

Definition encode_words (ws : list N) : string := encode_from false ws.

Definition string_is_empty (s : string) : bool := match s with EmptyString => true | _ => false end.

(* Encoding(): returns the memo when it is not "", otherwise computes and memoises *)
Definition encoding (a : archive) : archive * string :=
  if string_is_empty (a_memo a)
  then let s := encode_words (a_words a) in (mk_archive (a_size a) (a_words a) s, s)
  else (a, a_memo a).

(* ---- strings.Split(encoding, ":") : never the empty list ---- *)
Fixpoint split_colon (s : string) : list string :=
  match s with
  | EmptyString => [EmptyString]
  | String c s' =>
      if Ascii.eqb c ":"%char then EmptyString :: split_colon s'
      else match split_colon s' with
           | [] => [String c EmptyString]      (* unreachable *)
           | h :: t => String c h :: t
           end
  end.

(* ---- strconv.ParseUint(s, 16, 64) ----
   base given explicitly: no prefix, no sign, no underscore; digits 0-9, and lower(c) = c|0x20 in
   'a'..'z' gives 10..35, rejected when >= base; "" is a syntax error; overflow is a range error
   (cutoff = maxUint64/16 + 1 = 2^60).  Both error kinds are one [None] here (Decode only tests != nil). *)
Definition digit_val (c : ascii) : option N :=
  let n := N_of_ascii c in
  if (48 <=? n) && (n <=? 57) then Some (n - 48)
  else let l := N.lor n 32 in
       if (97 <=? l) && (l <=? 122)
       then (let d := l - 97 + 10 in if 16 <=? d then None else Some d)
       else None.

Definition cutoff : N := 1152921504606846976.                 (* 2^60 *)

Fixpoint parse_loop (n : N) (s : string) : option N :=
  match s with
  | EmptyString => Some n
  | String c s' =>
      match digit_val c with
      | None => None
      | Some d =>
          if cutoff <=? n then None                            (* n*base overflows *)
          else let n1 := n * 16 + d in
               if max_u64 <? n1 then None                      (* n1 < n || n1 > maxVal *)
               else parse_loop n1 s'
      end
  end.

Definition parse_uint_hex64 (s : string) : option N :=
  if string_is_empty s then None else parse_loop 0 s.

(* parseEntriesIntoArrayValues (after fix C09-1): every entry is parsed into a temporary slice first; the
   first bad entry returns the error with NOTHING stored; only when all parse does copy(archiveArray, parsed)
   run.  [copy] copies min(len dst, len src) elements (the two lengths are equal here: Decode has checked
   the entry count). *)
Fixpoint parse_all (entries : list string) : option (list N) :=
  match entries with
  | [] => Some []
  | e :: es =>
      match parse_uint_hex64 e with
      | None => None
      | Some v => option_map (cons v) (parse_all es)
      end
  end.

Definition copy_words (dst src : list N) : list N :=
  (firstn (List.length dst) src ++ skipn (List.length src) dst)%list.

(* for indexToClear := size; indexToClear <= len*64-1; indexToClear++ { setValueUnchecked(indexToClear, false) } *)
Fixpoint zero_from (ws : list N) (i : Z) (count : nat) : res (list N) :=
  match count with
  | O => Ok ws
  | S c => do ws' <- set_value_unchecked ws i false; zero_from ws' (i + 1)%Z c
  end.

Definition zero_out_unused (n : nat) (ws : list N) : res (list N) :=
  zero_from ws (Z.of_nat n) (List.length ws * 64 - n)%nat.

(* Decode: (new state, true) = nil error; (the SAME state, false) = error returned *)
Definition decode (a : archive) (s : string) : res (archive * bool) :=
  let entries := split_colon s in
  if negb (Nat.eqb (List.length entries) (List.length (a_words a))) then Ok (a, false)      (* wrong number of entries *)
  else match parse_all entries with
       | None => Ok (a, false)                                                   (* parse error: nothing stored *)
       | Some vs =>
           do ws' <- zero_out_unused (a_size a) (copy_words (a_words a) vs);
           Ok (mk_archive (a_size a) ws' EmptyString, true)
       end.

(* IsEquivalentTo: sizes, then  for index := range a.archiveArray { a[index] != b[index] -> false } *)
Fixpoint words_equal (x y : list N) : res bool :=
  match x, y with
  | [], _ => Ok true
  | u :: x', v :: y' => if u =? v then words_equal x' y' else Ok false
  | _ :: _, [] => Panic
  end.

Definition is_equivalent_to (a b : archive) : res bool :=
  if negb (Nat.eqb (a_size a) (a_size b)) then Ok false else words_equal (a_words a) (a_words b).

(* ---- abstraction to bit lists ---- *)

Definition bit_at (ws : list N) (i : nat) : bool :=
  N.testbit (nth (Nat.div i 64) ws 0) (N.of_nat (Nat.modulo i 64)).

Definition bits (a : archive) : list bool := map (bit_at (a_words a)) (seq 0 (a_size a)).

(* the archive holding a given bit list: bit i of the little-endian number, cut into 64-bit words *)
Fixpoint N_of_bits (l : list bool) : N :=
  match l with
  | [] => 0
  | b :: l' => N.b2n b + 2 * N_of_bits l'
  end.

(* word k holds bits 64k .. 64k+63 *)
Definition words_of_bits (bs : list bool) : list N :=
  map (fun k => N_of_bits (firstn 64 (skipn (64 * k) bs))) (seq 0 (nwords (List.length bs))).

Definition of_bits (bs : list bool) : archive := mk_archive (List.length bs) (words_of_bits bs) EmptyString.

(* the way crem itself builds it (ModelCompressor.compressActions): New(len) then SetValue(index, b) in order *)
Fixpoint build_from (a : archive) (i : nat) (bs : list bool) : res archive :=
  match bs with
  | [] => Ok a
  | b :: r => do a' <- set_value a (Z.of_nat i) b; build_from a' (S i) r
  end.
Definition build (bs : list bool) : res archive := build_from (new_archive (List.length bs)) 0 bs.

(* ---- internal/pkg/model/archive/ModelCompressor.go, on the activation flags of a model's action list ----
   compressActions:  New(len(actions)); for index, action := range actions { SetValue(index, action.IsActive()) }
   Decompress:       for index := 0; index < Actions.Len(); index++ { model.SetManagementAction(index, Actions.Value(index)) }
   CoreModel.SetManagementAction(index, value): if actions[index].IsActive() != value { SetActivation(index, value) }
   (actions[index] beyond the model's action list is a runtime panic). *)
Definition compress_actions (active : list bool) : res archive := build active.

Definition set_management_action (m : list bool) (index : nat) (v : bool) : res (list bool) :=
  match nth_error m index with
  | None => Panic
  | Some cur => if Bool.eqb cur v then Ok m else set_nth index v m
  end.

Fixpoint decompress_from (a : archive) (index count : nat) (m : list bool) : res (list bool) :=
  match count with
  | O => Ok m
  | S c => do v <- value a (Z.of_nat index);
           do m' <- set_management_action m index v;
           decompress_from a (S index) c m'
  end.

Definition decompress (a : archive) (m : list bool) : res (list bool) := decompress_from a 0 (a_size a) m.

(* well-formedness (the representation invariant), as a boolean *)
Definition wfb (a : archive) : bool :=
  Nat.eqb (List.length (a_words a)) (nwords (a_size a))
  && forallb (fun w => w <? two64) (a_words a)
  && forallb (fun i => negb (bit_at (a_words a) i)) (seq (a_size a) (List.length (a_words a) * 64 - a_size a)%nat).

(* the memo is absent or true *)
Definition memo_okb (a : archive) : bool :=
  string_is_empty (a_memo a) || String.eqb (a_memo a) (encode_words (a_words a)).

(* ---- operation sequences (used by the theorems over histories and by the correspondence) ---- *)
Inductive op :=
| OpSet (i : Z) (b : bool)
| OpEncode
| OpDecode (s : string).

(* a panicking / failing call leaves what the Go code leaves (SetValue panics before writing) *)
Definition step (a : archive) (o : op) : archive :=
  match o with
  | OpSet i b => match set_value a i b with Ok a' => a' | Panic => a end
  | OpEncode => fst (encoding a)
  | OpDecode s => match decode a s with Ok (a', _) => a' | Panic => a end
  end.

Definition run (a : archive) (ops : list op) : archive := fold_left step ops a.
