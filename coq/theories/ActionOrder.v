(* Model of the ordering of management actions (C09, "portable" clause):
   internal/pkg/model/action/ModelManagementActions.go

     func (ma ManagementActions) Less(i, j int) bool {
         if ma[i].PlanningUnit() < ma[j].PlanningUnit() { return true }
         if ma[i].PlanningUnit() == ma[j].PlanningUnit() {
             if ma[i].Type() < ma[j].Type() { return true }
         }
         return false
     }

   PlanningUnit() is a planningunit.Id (uint64): [N].  Type() is a Go string; [<] on Go strings is
   the byte-wise lexicographic order: [str_ltb].  CoreModel.observeActions gathers the actions of the
   four groups (each built by ranging over a Go map, i.e. in an order that changes from one
   construction to the next) and then calls sort.Sort with this Less.  sort.Sort is modelled, not
   verified (DESIGN section 6): [sort_actions] is an insertion sort; ActionOrderProofs shows that on
   lists with distinct keys ANY correct sort returns the same list, which is why the choice of
   algorithm does not matter and why the result does not depend on the map iteration order.
   No proofs in this file. *)
From Coq Require Import List NArith String Ascii Bool.
Import ListNotations.
Local Open Scope N_scope.

Definition key : Type := (N * string)%type.      (* (planning unit, action type) *)

Fixpoint str_ltb (a b : string) : bool :=
  match a, b with
  | _, EmptyString => false
  | EmptyString, String _ _ => true
  | String x a', String y b' =>
      if N_of_ascii x <? N_of_ascii y then true
      else if N_of_ascii x =? N_of_ascii y then str_ltb a' b'
      else false
  end.

Definition less (a b : key) : bool :=
  if fst a <? fst b then true
  else if fst a =? fst b then str_ltb (snd a) (snd b)
  else false.

Section Sort.
  Context {A : Type} (key_of : A -> key).

  Fixpoint insert (x : A) (l : list A) : list A :=
    match l with
    | [] => [x]
    | y :: l' => if less (key_of y) (key_of x) then y :: insert x l' else x :: y :: l'
    end.

  Fixpoint sort_actions (l : list A) : list A :=
    match l with
    | [] => []
    | x :: l' => insert x (sort_actions l')
    end.
End Sort.
