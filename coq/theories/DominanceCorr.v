(* Correspondence checker for C17: evaluated by vm_compute on gen/cases_C17.v. *)
From Coq Require Import List QArith Bool.
From Crem Require Import Base.Res Dominance.
Import ListNotations.

Inductive obs3 := OT | OF | OP.   (* true | false | panicked *)

Definition obs_of (r : res bool) : obs3 :=
  match r with Ok true => OT | Ok false => OF | Panic => OP end.

Definition obs3_eqb (a b : obs3) : bool :=
  match a, b with OT, OT | OF, OF | OP, OP => true | _, _ => false end.

Record case := mk {
  cx : list Q; cy : list Q;
  c_dom : obs3; c_by : obs3; c_nod : obs3; c_cmp : bool }.

Definition check_case (c : case) : bool :=
  obs3_eqb (obs_of (dominates (cx c) (cy c))) (c_dom c)
  && obs3_eqb (obs_of (is_dominated_by (cx c) (cy c))) (c_by c)
  && obs3_eqb (obs_of (no_dominance_present (cx c) (cy c))) (c_nod c)
  && Bool.eqb (is_comparable (cx c) (cy c)) (c_cmp c)
  (* and, on comparable vectors, the model agrees with the executable spec *)
  && (if is_comparable (cx c) (cy c)
      then obs3_eqb (obs_of (dominates (cx c) (cy c)))
                    (if pareto_lt_b (cx c) (cy c) then OT else OF)
      else true).

Fixpoint mismatches_from (i : nat) (cs : list case) : list nat :=
  match cs with
  | [] => []
  | c :: cs' => if check_case c then mismatches_from (S i) cs' else i :: mismatches_from (S i) cs'
  end.

Definition mismatches := mismatches_from 0.
