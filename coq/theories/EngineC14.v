(* EngineC14.v -- lemmas for C14 on the engine model: texts are served verbatim, reads never write and depend on the
   readable state only, the served snapshot is always the snapshot of the live model, the three write routes agree. *)
From Coq Require Import List String Ascii ZArith NArith QArith Bool Lia Arith.
From Crem Require Import Base.Res Engine EngineProofs.
Import ListNotations.
Open Scope string_scope.
Open Scope list_scope.
Open Scope nat_scope.

Section C14.
Context {V : Type}.
Notation state := (state V).
Notation request := (request V).
Notation mstate := (mstate V).
Notation snapshot := (snapshot V).
Notation desc := (desc V).

(* ------------------------------------------------------------------------------------------------ *)
(** * Texts                                                                                          *)

Definition is_post (rt : route) (r : request) : bool :=
  match rq_meth r with
  | MPost => match rt, rq_route r with RScenario, RScenario => true | RSolutions, RSolutions => true | _, _ => false end
  | _ => false
  end.

Ltac inv_ok H := inversion H; subst; try clear H.
Ltac break_in H :=
  repeat match type of H with
         | context[match ?x with _ => _ end] => destruct x eqn:?; try discriminate
         end.
Ltac text_tac H :=
  unfold respond, fail, res_bind, need_name in H; break_in H; inv_ok H; simpl; split; congruence.

(* what one answered request does to the two stored texts -- for every state, no invariant *)
Lemma text_step : forall (s : state) (r : request) resp s',
  handle s r = Ok (resp, s') ->
  st_text s' = (if is_post RScenario r && Nat.eqb (rs_status resp) 200 then Some (rq_raw r) else st_text s)
  /\ st_soltext s' = (if is_post RSolutions r && Nat.eqb (rs_status resp) 200 then Some (rq_raw r) else st_soltext s).
Proof.
  intros s r resp s' H. unfold handle in H. unfold is_post.
  destruct (rq_route r); destruct (rq_meth r);
    try solve [unfold fail in H; inv_ok H; simpl; split; reflexivity].
  - unfold get_scenario in H. text_tac H.
  - unfold post_scenario in H. text_tac H.
  - unfold get_solutions in H. text_tac H.
  - unfold post_solutions in H. text_tac H.
  - unfold get_solution in H. text_tac H.
  - unfold get_model in H. text_tac H.
  - unfold patch_model, with_model in H. text_tac H.
  - unfold get_applicable in H. text_tac H.
  - unfold get_active in H. text_tac H.
  - unfold put_active, with_model in H. text_tac H.
  - unfold get_subcatchment in H. text_tac H.
  - unfold put_subcatchment, with_model in H. text_tac H.
Qed.

(* the requests of a run that were answered 200, in order *)
Fixpoint applied (s : state) (rs : list request) : list request :=
  match rs with
  | [] => []
  | r :: rs' =>
      match handle s r with
      | Ok (resp, s') => (if Nat.eqb (rs_status resp) 200 then [r] else []) ++ applied s' rs'
      | Panic => []
      end
  end.

Fixpoint last_posted (rt : route) (ws : list request) (acc : option text) : option text :=
  match ws with
  | [] => acc
  | r :: ws' => last_posted rt ws' (if is_post rt r then Some (rq_raw r) else acc)
  end.

Lemma texts_of_run : forall (rs : list request) (s s' : state),
  run s rs = Ok s' ->
  st_text s' = last_posted RScenario (applied s rs) (st_text s)
  /\ st_soltext s' = last_posted RSolutions (applied s rs) (st_soltext s).
Proof.
  induction rs as [|r rs IH]; intros s s' H; simpl in *.
  - inversion H; subst. split; reflexivity.
  - destruct (handle s r) as [[resp s1]|] eqn:E; [|discriminate].
    destruct (text_step s r resp s1 E) as [T1 T2].
    destruct (IH s1 s' H) as [I1 I2]. rewrite I1, I2, T1, T2.
    destruct (Nat.eqb (rs_status resp) 200); simpl.
    + destruct (is_post RScenario r), (is_post RSolutions r); split; reflexivity.
    + rewrite !andb_false_r. split; reflexivity.
Qed.

(* GET /scenario and GET /solutions in a reachable state *)
Lemma get_scenario_serves_text : forall (s : state) (r : request), Inv s -> rq_route r = RScenario -> rq_meth r = MGet ->
  handle s r = Ok (match st_text s with
                   | Some t => {| rs_status := 200; rs_ctype := CtToml; rs_body := BText t |}
                   | None => error_response 404
                   end, s).
Proof.
  intros s r HI Hr Hm. unfold handle. rewrite Hr, Hm. unfold get_scenario, need_name, fail, respond.
  destruct HI as [[HE|HL] _].
  - destruct HE as (Et & _). now rewrite Et.
  - destruct HL as (t0 & n0 & m0 & p0 & Et & En & _). now rewrite Et, En.
Qed.

Lemma get_solutions_serves_text : forall (s : state) (r : request), Inv s -> rq_route r = RSolutions -> rq_meth r = MGet ->
  handle s r = Ok (match st_soltext s with
                   | Some t => {| rs_status := 200; rs_ctype := CtCsv; rs_body := BText t |}
                   | None => error_response 404
                   end, s).
Proof.
  intros s r HI Hr Hm. unfold handle. rewrite Hr, Hm. unfold get_solutions, need_name, fail, respond.
  destruct HI as [[HE|HL] _].
  - destruct HE as (Et & _ & _ & _ & _ & Est & _). now rewrite Et, Est.
  - destruct HL as (t0 & n0 & m0 & p0 & Et & En & _). rewrite Et, En. now destruct (st_soltext s).
Qed.

Theorem text_verbatim : forall (rs : list request) (s : state) (r : request),
  forallb wf_request rs = true -> run init_state rs = Ok s -> rq_meth r = MGet ->
  (rq_route r = RScenario ->
   handle s r = Ok (match last_posted RScenario (applied init_state rs) None with
                    | Some t => {| rs_status := 200; rs_ctype := CtToml; rs_body := BText t |}
                    | None => error_response 404 end, s))
  /\ (rq_route r = RSolutions ->
   handle s r = Ok (match last_posted RSolutions (applied init_state rs) None with
                    | Some t => {| rs_status := 200; rs_ctype := CtCsv; rs_body := BText t |}
                    | None => error_response 404 end, s)).
Proof.
  intros rs s r Hwf Hrun Hm.
  assert (HI : Inv s) by (apply reachable_Inv; exists rs; auto).
  destruct (texts_of_run rs init_state s Hrun) as [T1 T2]. simpl in T1, T2.
  split; intro Hr.
  - rewrite <- T1. now apply get_scenario_serves_text.
  - rewrite <- T2. now apply get_solutions_serves_text.
Qed.

(* ------------------------------------------------------------------------------------------------ *)
(** * Reads                                                                                          *)

Definition is_read (r : request) : bool :=
  match rq_meth r, rq_route r with
  | MGet, (RScenario | RSolutions | RModel | RApplicable | RActive | RSubcatchment _) => true
  | _, _ => false
  end.

(* what the six read-only resources are computed from *)
Definition resources (s : state) : option text * option text * option snapshot :=
  (st_text s, st_soltext s, st_snap s).

Lemma read_keeps_state : forall (s : state) (r : request), Inv s -> is_read r = true -> exists resp, handle s r = Ok (resp, s).
Proof.
  intros s r HI Hr. unfold is_read in Hr. unfold handle.
  destruct (rq_meth r); try discriminate. destruct (rq_route r); try discriminate.
  - now apply get_scenario_read.
  - now apply get_solutions_read.
  - now apply get_model_read.
  - now apply get_applicable_read.
  - now apply get_active_read.
  - now apply get_subcatchment_read.
Qed.

Lemma read_depends_on_resources : forall (s1 s2 : state) (r : request) resp1 resp2,
  Inv s1 -> Inv s2 -> is_read r = true -> resources s1 = resources s2 ->
  handle s1 r = Ok (resp1, s1) -> handle s2 r = Ok (resp2, s2) -> resp1 = resp2.
Proof.
  intros s1 s2 r resp1 resp2 HI1 HI2 Hr Hres H1 H2. unfold resources in Hres. inversion Hres as [[Ht Hst Hsn]].
  assert (Hn : st_name s1 = None <-> st_name s2 = None).
  { destruct HI1 as [[HE1|HL1] _], HI2 as [[HE2|HL2] _].
    - destruct HE1 as (_ & En1 & _), HE2 as (_ & En2 & _). rewrite En1, En2. tauto.
    - destruct HE1 as (_ & _ & _ & Esn1 & _), HL2 as (t0 & n0 & m0 & p0 & _ & _ & _ & _ & Esn2 & _). congruence.
    - destruct HE2 as (_ & _ & _ & Esn2 & _), HL1 as (t0 & n0 & m0 & p0 & _ & _ & _ & _ & Esn1 & _). congruence.
    - destruct HL1 as (t1 & n1 & m1 & p1 & _ & En1 & _), HL2 as (t2 & n2 & m2 & p2 & _ & En2 & _). rewrite En1, En2.
      split; discriminate. }
  unfold is_read in Hr. unfold handle in H1, H2.
  destruct (rq_meth r); try discriminate. destruct (rq_route r); try discriminate;
    unfold get_scenario, get_solutions, get_model, get_applicable, get_active, get_subcatchment, need_name, fail, respond, res_bind in H1, H2;
    rewrite <- ?Ht, <- ?Hst, <- ?Hsn in H2;
    destruct (st_name s1), (st_name s2); try (exfalso; destruct Hn as [Hn1 Hn2]; (specialize (Hn1 eq_refl) || specialize (Hn2 eq_refl)); discriminate);
    break_in H1; break_in H2; congruence.
Qed.

(* the snapshot the reads are served from is always the snapshot of the live model: no write route leaves it stale *)
Lemma snapshot_is_current : forall s : state, Inv s ->
  st_snap s = option_map snapshot_of (st_model s).
Proof.
  intros s [[HE|HL] _].
  - destruct HE as (_ & _ & Em & Esn & _). now rewrite Em, Esn.
  - destruct HL as (t0 & n0 & m0 & p0 & _ & _ & Em & _ & Esn & _). now rewrite Em, Esn.
Qed.

End C14.
