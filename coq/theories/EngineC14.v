(* EngineC14.v -- lemmas for C14 on the engine model: texts are served verbatim, reads never write and depend on the
   readable state only, the served snapshot is always the snapshot of the live model, the three write routes agree. *)
From Coq Require Import List String Ascii ZArith NArith QArith Bool Lia Arith.
From Crem Require Import Base.Res Engine EngineProofs.
Import ListNotations.
Open Scope string_scope.
Open Scope list_scope.
Open Scope nat_scope.

Section C14.
Context {V : Type}.
Notation state := (state V).
Notation request := (request V).
Notation mstate := (mstate V).
Notation snapshot := (snapshot V).
Notation desc := (desc V).

(* ------------------------------------------------------------------------------------------------ *)
(** * Texts                                                                                          *)

Definition is_post (rt : route) (r : request) : bool :=
  match rq_meth r with
  | MPost => match rt, rq_route r with RScenario, RScenario => true | RSolutions, RSolutions => true | _, _ => false end
  | _ => false
  end.

Ltac inv_ok H := inversion H; subst; try clear H.
Ltac break_in H :=
  repeat match type of H with
         | context[match ?x with _ => _ end] => destruct x eqn:?; try discriminate
         end.
Ltac text_tac H :=
  unfold respond, fail, res_bind, need_name in H; break_in H; inv_ok H; simpl; split; congruence.

(* what one answered request does to the two stored texts -- for every state, no invariant *)
Lemma text_step : forall (s : state) (r : request) resp s',
  handle s r = Ok (resp, s') ->
  st_text s' = (if is_post RScenario r && Nat.eqb (rs_status resp) 200 then Some (rq_raw r) else st_text s)
  /\ st_soltext s' = (if is_post RSolutions r && Nat.eqb (rs_status resp) 200 then Some (rq_raw r)
                      else if is_post RScenario r && Nat.eqb (rs_status resp) 200 then None   (* the summary of the replaced scenario is forgotten *)
                      else st_soltext s).
Proof.
  intros s r resp s' H. unfold handle in H. unfold is_post.
  destruct (rq_route r); destruct (rq_meth r);
    try solve [unfold fail in H; inv_ok H; simpl; split; reflexivity].
  - unfold get_scenario in H. text_tac H.
  - unfold post_scenario in H. text_tac H.
  - unfold get_solutions in H. text_tac H.
  - unfold post_solutions in H. text_tac H.
  - unfold get_solution in H. text_tac H.
  - unfold get_model in H. text_tac H.
  - unfold patch_model, with_model in H. text_tac H.
  - unfold get_applicable in H. text_tac H.
  - unfold get_active in H. text_tac H.
  - unfold put_active, with_model in H. text_tac H.
  - unfold get_subcatchment in H. text_tac H.
  - unfold put_subcatchment, with_model in H. text_tac H.
Qed.

(* the requests of a run that were answered 200, in order *)
Fixpoint applied (s : state) (rs : list request) : list request :=
  match rs with
  | [] => []
  | r :: rs' =>
      match handle s r with
      | Ok (resp, s') => (if Nat.eqb (rs_status resp) 200 then [r] else []) ++ applied s' rs'
      | Panic => []
      end
  end.

(* the text a stored-text resource holds after the successful requests [ws]: the body of the last POST to it; a
   successful POST /scenario also forgets the solutions text (it belonged to the scenario being replaced) *)
Definition forgets (rt : route) (r : request) : bool :=
  match rt with RSolutions => is_post RScenario r | _ => false end.
Fixpoint last_posted (rt : route) (ws : list request) (acc : option text) : option text :=
  match ws with
  | [] => acc
  | r :: ws' => last_posted rt ws' (if is_post rt r then Some (rq_raw r) else if forgets rt r then None else acc)
  end.

Lemma texts_of_run : forall (rs : list request) (s s' : state),
  run s rs = Ok s' ->
  st_text s' = last_posted RScenario (applied s rs) (st_text s)
  /\ st_soltext s' = last_posted RSolutions (applied s rs) (st_soltext s).
Proof.
  induction rs as [|r rs IH]; intros s s' H; simpl in *.
  - inversion H; subst. split; reflexivity.
  - destruct (handle s r) as [[resp s1]|] eqn:E; [|discriminate].
    destruct (text_step s r resp s1 E) as [T1 T2].
    destruct (IH s1 s' H) as [I1 I2]. rewrite I1, I2, T1, T2.
    destruct (Nat.eqb (rs_status resp) 200); simpl.
    + destruct (is_post RScenario r), (is_post RSolutions r); split; reflexivity.
    + rewrite !andb_false_r. split; reflexivity.
Qed.

(* GET /scenario and GET /solutions in a reachable state *)
Lemma get_scenario_serves_text : forall (s : state) (r : request), Inv s -> rq_route r = RScenario -> rq_meth r = MGet ->
  handle s r = Ok (match st_text s with
                   | Some t => {| rs_status := 200; rs_ctype := CtToml; rs_body := BText t |}
                   | None => error_response 404
                   end, s).
Proof.
  intros s r HI Hr Hm. unfold handle. rewrite Hr, Hm. unfold get_scenario, need_name, fail, respond.
  destruct HI as [[HE|HL] _].
  - destruct HE as (Et & _). now rewrite Et.
  - destruct HL as (t0 & n0 & m0 & p0 & Et & En & _). now rewrite Et, En.
Qed.

Lemma get_solutions_serves_text : forall (s : state) (r : request), Inv s -> rq_route r = RSolutions -> rq_meth r = MGet ->
  handle s r = Ok (match st_soltext s with
                   | Some t => {| rs_status := 200; rs_ctype := CtCsv; rs_body := BText t |}
                   | None => error_response 404
                   end, s).
Proof.
  intros s r HI Hr Hm. unfold handle. rewrite Hr, Hm. unfold get_solutions, need_name, fail, respond.
  destruct HI as [[HE|HL] _].
  - destruct HE as (Et & _ & _ & _ & _ & Est & _). now rewrite Et, Est.
  - destruct HL as (t0 & n0 & m0 & p0 & Et & En & _). rewrite Et, En. now destruct (st_soltext s).
Qed.

Theorem text_verbatim : forall (rs : list request) (s : state) (r : request),
  forallb wf_request rs = true -> run init_state rs = Ok s -> rq_meth r = MGet ->
  (rq_route r = RScenario ->
   handle s r = Ok (match last_posted RScenario (applied init_state rs) None with
                    | Some t => {| rs_status := 200; rs_ctype := CtToml; rs_body := BText t |}
                    | None => error_response 404 end, s))
  /\ (rq_route r = RSolutions ->
   handle s r = Ok (match last_posted RSolutions (applied init_state rs) None with
                    | Some t => {| rs_status := 200; rs_ctype := CtCsv; rs_body := BText t |}
                    | None => error_response 404 end, s)).
Proof.
  intros rs s r Hwf Hrun Hm.
  assert (HI : Inv s) by (apply reachable_Inv; exists rs; auto).
  destruct (texts_of_run rs init_state s Hrun) as [T1 T2]. simpl in T1, T2.
  split; intro Hr.
  - rewrite <- T1. now apply get_scenario_serves_text.
  - rewrite <- T2. now apply get_solutions_serves_text.
Qed.

(* ------------------------------------------------------------------------------------------------ *)
(** * Reads                                                                                          *)

Definition is_read (r : request) : bool :=
  match rq_meth r, rq_route r with
  | MGet, (RScenario | RSolutions | RModel | RApplicable | RActive | RSubcatchment _) => true
  | _, _ => false
  end.

(* what the six read-only resources are computed from *)
Definition resources (s : state) : option text * option text * option snapshot :=
  (st_text s, st_soltext s, st_snap s).

Lemma read_keeps_state : forall (s : state) (r : request), Inv s -> is_read r = true -> exists resp, handle s r = Ok (resp, s).
Proof.
  intros s r HI Hr. unfold is_read in Hr. unfold handle.
  destruct (rq_meth r); try discriminate. destruct (rq_route r); try discriminate.
  - now apply get_scenario_read.
  - now apply get_solutions_read.
  - now apply get_model_read.
  - now apply get_applicable_read.
  - now apply get_active_read.
  - now apply get_subcatchment_read.
Qed.

Lemma read_depends_on_resources : forall (s1 s2 : state) (r : request) resp1 resp2,
  Inv s1 -> Inv s2 -> is_read r = true -> resources s1 = resources s2 ->
  handle s1 r = Ok (resp1, s1) -> handle s2 r = Ok (resp2, s2) -> resp1 = resp2.
Proof.
  intros s1 s2 r resp1 resp2 HI1 HI2 Hr Hres H1 H2. unfold resources in Hres. inversion Hres as [[Ht Hst Hsn]].
  assert (Hn : st_name s1 = None <-> st_name s2 = None).
  { destruct HI1 as [[HE1|HL1] _], HI2 as [[HE2|HL2] _].
    - destruct HE1 as (_ & En1 & _), HE2 as (_ & En2 & _). rewrite En1, En2. tauto.
    - destruct HE1 as (_ & _ & _ & Esn1 & _), HL2 as (t0 & n0 & m0 & p0 & _ & _ & _ & _ & Esn2 & _). congruence.
    - destruct HE2 as (_ & _ & _ & Esn2 & _), HL1 as (t0 & n0 & m0 & p0 & _ & _ & _ & _ & Esn1 & _). congruence.
    - destruct HL1 as (t1 & n1 & m1 & p1 & _ & En1 & _), HL2 as (t2 & n2 & m2 & p2 & _ & En2 & _). rewrite En1, En2.
      split; discriminate. }
  unfold is_read in Hr. unfold handle in H1, H2.
  destruct (rq_meth r); try discriminate. destruct (rq_route r); try discriminate;
    unfold get_scenario, get_solutions, get_model, get_applicable, get_active, get_subcatchment, need_name, fail, respond, res_bind in H1, H2;
    rewrite <- ?Ht, <- ?Hst, <- ?Hsn in H2;
    destruct (st_name s1), (st_name s2); try (exfalso; destruct Hn as [Hn1 Hn2]; (specialize (Hn1 eq_refl) || specialize (Hn2 eq_refl)); discriminate);
    break_in H1; break_in H2; congruence.
Qed.

(* the snapshot the reads are served from is always the snapshot of the live model: no write route leaves it stale *)
Lemma snapshot_is_current : forall s : state, Inv s ->
  st_snap s = option_map snapshot_of (st_model s).
Proof.
  intros s [[HE|HL] _].
  - destruct HE as (_ & _ & Em & Esn & _). now rewrite Em, Esn.
  - destruct HL as (t0 & n0 & m0 & p0 & _ & _ & Em & _ & Esn & _). now rewrite Em, Esn.
Qed.

(* ------------------------------------------------------------------------------------------------ *)
(** * Attribute lists seen through [a_value] (what a client can look up)                             *)

Fixpoint a_count (a : attrs) (n : string) : nat :=
  match a with [] => 0 | (k, _) :: a' => (if String.eqb k n then 1 else 0) + a_count a' n end.
(* an engine-derived name is tidy in a list: it does not occur, or occurs once with a non-null value *)
Definition tidy (a : attrs) (n : string) : Prop := a_count a n = 0 \/ (a_count a n = 1 /\ a_value a n <> ANull).

Lemma count0_value : forall a n, a_count a n = 0 -> a_value a n = ANull.
Proof.
  induction a as [|[k v] a IH]; intros n H; simpl in *; [reflexivity|].
  destruct (String.eqb k n); [discriminate|]. now apply IH.
Qed.

Lemma value_replace : forall a n v k,
  a_value (a_replace a n v) k = if String.eqb k n then (if Nat.eqb (a_count a n) 0 then ANull else v) else a_value a k.
Proof.
  induction a as [|[k0 v0] a IH]; intros n v k; simpl.
  - now destruct (String.eqb k n).
  - destruct (String.eqb k0 n) eqn:E0; simpl.
    + apply String.eqb_eq in E0; subst k0. rewrite (String.eqb_sym n k).
      destruct (String.eqb k n) eqn:E; [reflexivity|]. rewrite IH, E. reflexivity.
    + destruct (String.eqb k0 k) eqn:E1.
      * apply String.eqb_eq in E1; subst k0. now rewrite E0.
      * rewrite IH. reflexivity.
Qed.

Lemma count_replace : forall a n v k, a_count (a_replace a n v) k = a_count a k.
Proof.
  induction a as [|[k0 v0] a IH]; intros n v k; simpl; [reflexivity|].
  destruct (String.eqb k0 n); simpl; now rewrite IH.
Qed.

Lemma value_add : forall a n v k,
  a_value (a_add a n v) k = if Nat.eqb (a_count a k) 0 then (if String.eqb n k then v else ANull) else a_value a k.
Proof.
  unfold a_add. induction a as [|[k0 v0] a IH]; intros n v k; simpl; [reflexivity|].
  destruct (String.eqb k0 k) eqn:E; simpl; [reflexivity|]. apply IH.
Qed.

Lemma count_add : forall a n v k, a_count (a_add a n v) k = a_count a k + (if String.eqb n k then 1 else 0).
Proof.
  unfold a_add. induction a as [|[k0 v0] a IH]; intros n v k; simpl; [lia|]. rewrite IH. lia.
Qed.

(* the effect of one update on what can be looked up *)
Definition upd (a a' : attrs) (n : string) (v : aval) : Prop :=
  (forall k, a_value a' k = if String.eqb k n then v else a_value a k)
  /\ (forall k, a_count a' k = if String.eqb k n then (if is_null v then 0 else 1) else a_count a k).

Lemma ca_replace_upd : forall a n v, tidy a n -> is_null v = false -> upd a (ca_replace a n v) n v.
Proof.
  intros a n v Ht Hv. unfold ca_replace, a_has.
  destruct Ht as [H0|[H1 Hnn]].
  - rewrite (count0_value a n H0). simpl. split; intro k.
    + rewrite value_add. destruct (String.eqb k n) eqn:E.
      * apply String.eqb_eq in E; subst. now rewrite H0, String.eqb_refl.
      * rewrite (String.eqb_sym n k), E. destruct (Nat.eqb (a_count a k) 0) eqn:C; [|reflexivity].
        apply Nat.eqb_eq in C. now rewrite (count0_value a k C).
    + rewrite count_add, Hv. rewrite (String.eqb_sym n k). destruct (String.eqb k n) eqn:E; [|lia].
      apply String.eqb_eq in E; subst. lia.
  - destruct (a_value a n) eqn:Ev; try congruence; simpl; (split; intro k;
      [ rewrite value_replace, H1; reflexivity
      | rewrite count_replace, Hv; destruct (String.eqb k n) eqn:E; [apply String.eqb_eq in E; subst; exact H1|reflexivity] ]).
Qed.

Lemma remove_last_count : forall a n r, remove_last a n = Some r -> a_count a n >= 1.
Proof.
  induction a as [|[k1 v1] a IHa]; intros n r E; simpl in *; [discriminate|].
  destruct (remove_last a n) eqn:E2; [specialize (IHa _ _ E2); destruct (String.eqb k1 n); lia|].
  destruct (String.eqb k1 n); [lia|discriminate].
Qed.

Lemma remove_last_facts : forall a n r, remove_last a n = Some r ->
  (forall k, a_count r k = a_count a k - (if String.eqb n k then 1 else 0))
  /\ (forall k, String.eqb n k = false -> a_value r k = a_value a k).
Proof.
  induction a as [|[k0 v0] a IH]; intros n r H; simpl in H; [discriminate|].
  destruct (remove_last a n) as [r0|] eqn:E.
  - inversion H; subst. destruct (IH n r0 E) as [C Vv]. split; intros k.
    + simpl. rewrite C. destruct (String.eqb n k) eqn:E1; [|lia].
      apply String.eqb_eq in E1; subst k. pose proof (remove_last_count a n r0 E). lia.
    + intro Hk. simpl. destruct (String.eqb k0 k); [reflexivity|]. now apply Vv.
  - destruct (String.eqb k0 n) eqn:E0; [|discriminate]. inversion H; subst. apply String.eqb_eq in E0; subst k0.
    split; intros k.
    + simpl. destruct (String.eqb n k); lia.
    + intro Hk. simpl. now rewrite Hk.
Qed.

Lemma ca_remove_upd : forall a n r, tidy a n -> ca_remove a n = Ok r -> upd a r n ANull.
Proof.
  intros a n r Ht H. unfold ca_remove, a_has in H.
  destruct Ht as [H0|[H1 Hnn]].
  - rewrite (count0_value a n H0) in H. simpl in H. inversion H; subst. split; intro k; simpl.
    + destruct (String.eqb k n) eqn:E; [|reflexivity]. apply String.eqb_eq in E; subst. now apply count0_value.
    + destruct (String.eqb k n) eqn:E; [|reflexivity]. apply String.eqb_eq in E; subst. exact H0.
  - destruct (a_value a n) eqn:Ev; try congruence; simpl in H; unfold a_remove in H;
      destruct (remove_last a n) as [r0|] eqn:E; try discriminate; inversion H; subst;
      destruct (remove_last_facts a n r E) as [C Vv]; (split; intro k; simpl;
      [ destruct (String.eqb k n) eqn:E1;
        [ apply String.eqb_eq in E1; subst; apply count0_value; rewrite C, String.eqb_refl; lia
        | apply Vv; now rewrite String.eqb_sym ]
      | rewrite C, (String.eqb_sym n k); destruct (String.eqb k n) eqn:E1; [apply String.eqb_eq in E1; subst; lia|lia] ]).
Qed.

Lemma upd_tidy_other : forall a a' n v k, upd a a' n v -> tidy a k -> tidy a' k.
Proof.
  intros a a' n v k [Hv Hc] Ht. unfold tidy in *. rewrite Hc, Hv.
  destruct (String.eqb k n) eqn:E; [|exact Ht].
  destruct v; simpl; auto; right; split; auto; discriminate.
Qed.

Lemma upd_tidy_self : forall a a' n v, upd a a' n v -> tidy a' n.
Proof.
  intros a a' n v [Hv Hc]. unfold tidy. rewrite Hc, Hv, String.eqb_refl.
  destruct v; simpl; auto; right; split; auto; discriminate.
Qed.

(* ------------------------------------------------------------------------------------------------ *)
(** * deriveExtraModelAttributes seen through [a_value]                                              *)

Definition tidy4 (a : attrs) : Prop :=
  tidy a "Encoding" /\ tidy a "ParetoFrontMember" /\ tidy a "ValidAgainstScenario" /\ tidy a "ValidationErrors".

Definition front_of (tbl : option table) (bits : list bool) : option bool :=
  match tbl with
  | Some t => match encoding_in_front t (encode bits) with Ok f => Some f | Panic => None end
  | None => None
  end.

(* the attribute lookup of a model whose derived attributes were just rewritten for the action set [bits] *)
Definition dview (tbl : option table) (d : desc) (bits : list bool) (base : string -> aval) (k : string) : aval :=
  if String.eqb k "ValidationErrors" then (if d_valid d bits then ANull else AStr (d_errs d bits))
  else if String.eqb k "ValidAgainstScenario" then ABool (d_valid d bits)
  else if String.eqb k "ParetoFrontMember" then (match front_of tbl bits with Some f => ABool f | None => base k end)
  else if String.eqb k "Encoding" then AStr (encode bits)
  else base k.

Lemma dview_idem : forall tbl d b b' base k, tbl_ok tbl -> dview tbl d b (dview tbl d b' base) k = dview tbl d b base k.
Proof.
  intros tbl d b b' base k Ht. unfold dview.
  destruct (String.eqb k "ValidationErrors"); [reflexivity|].
  destruct (String.eqb k "ValidAgainstScenario"); [reflexivity|].
  destruct (String.eqb k "ParetoFrontMember") eqn:E; [|destruct (String.eqb k "Encoding"); reflexivity].
  unfold front_of. destruct tbl as [t|]; [|reflexivity].
  destruct (encoding_in_front_ok t (encode b) (Ht t eq_refl)) as [f Hf]. rewrite Hf. reflexivity.
Qed.

Lemma dview_ext : forall tbl d b base base' k, (forall k, base k = base' k) -> dview tbl d b base k = dview tbl d b base' k.
Proof. intros. unfold dview. rewrite H. reflexivity. Qed.

Lemma derive_tail : forall (d : desc) bits a2 a4,
  (if d_valid d bits then ca_remove (ca_replace a2 "ValidAgainstScenario" (ABool (d_valid d bits))) "ValidationErrors"
   else Ok (ca_replace (ca_replace a2 "ValidAgainstScenario" (ABool (d_valid d bits))) "ValidationErrors" (AStr (d_errs d bits)))) = Ok a4 ->
  tidy a2 "ValidAgainstScenario" -> tidy a2 "ValidationErrors" ->
  (forall k, a_value a4 k = if String.eqb k "ValidationErrors" then (if d_valid d bits then ANull else AStr (d_errs d bits))
                            else if String.eqb k "ValidAgainstScenario" then ABool (d_valid d bits) else a_value a2 k)
  /\ (forall k, tidy a2 k -> tidy a4 k).
Proof.
  intros d bits a2 a4 H T3 T4.
  pose proof (ca_replace_upd a2 "ValidAgainstScenario" (ABool (d_valid d bits)) T3 eq_refl) as U3.
  set (a3 := ca_replace a2 "ValidAgainstScenario" (ABool (d_valid d bits))) in *.
  assert (T4' : tidy a3 "ValidationErrors") by (eapply upd_tidy_other; eauto).
  assert (U4 : upd a3 a4 "ValidationErrors" (if d_valid d bits then ANull else AStr (d_errs d bits))).
  { destruct (d_valid d bits).
    - now apply ca_remove_upd.
    - inversion H; subst. now apply ca_replace_upd. }
  split.
  - intro k. destruct U4 as [Hv4 _]. destruct U3 as [Hv3 _]. rewrite Hv4.
    destruct (String.eqb k "ValidationErrors"); [reflexivity|]. now rewrite Hv3.
  - intros k Hk. eapply upd_tidy_other; [exact U4|]. eapply upd_tidy_other; eauto.
Qed.

Lemma derive_view : forall tbl (m m' : mstate), derive tbl m = Ok m' -> tidy4 (m_attrs m) ->
  (forall k, a_value (m_attrs m') k = dview tbl (m_desc m) (m_bits m) (a_value (m_attrs m)) k)
  /\ (forall k, tidy (m_attrs m) k -> tidy (m_attrs m') k)
  /\ m_desc m' = m_desc m /\ m_id m' = m_id m /\ m_bits m' = m_bits m.
Proof.
  intros tbl m m' H (T1 & T2 & T3 & T4). unfold derive in H.
  pose proof (ca_replace_upd (m_attrs m) "Encoding" (AStr (encode (m_bits m))) T1 eq_refl) as U1.
  set (a1 := ca_replace (m_attrs m) "Encoding" (AStr (encode (m_bits m)))) in *.
  destruct tbl as [t|].
  - unfold res_bind in H.
    destruct (encoding_in_front t (encode (m_bits m))) as [found|] eqn:EF; [|discriminate].
    pose proof (ca_replace_upd a1 "ParetoFrontMember" (ABool found) (upd_tidy_other _ _ _ _ _ U1 T2) eq_refl) as U2.
    set (a2 := ca_replace a1 "ParetoFrontMember" (ABool found)) in *.
    match type of H with match ?e with Ok _ => _ | Panic => _ end = _ => destruct e as [a4|] eqn:E4; [|discriminate] end.
    inversion H; subst m'. simpl.
    destruct (derive_tail (m_desc m) (m_bits m) a2 a4 E4) as [V4 TT4].
    { eapply upd_tidy_other; [exact U2|]. eapply upd_tidy_other; eauto. }
    { eapply upd_tidy_other; [exact U2|]. eapply upd_tidy_other; eauto. }
    split; [|split; [|auto]].
    + intro k. rewrite V4. unfold dview, front_of. rewrite EF.
      destruct (String.eqb k "ValidationErrors"); [reflexivity|].
      destruct (String.eqb k "ValidAgainstScenario"); [reflexivity|].
      destruct U2 as [Hv2 _]. destruct U1 as [Hv1 _]. rewrite Hv2.
      destruct (String.eqb k "ParetoFrontMember"); [reflexivity|]. now rewrite Hv1.
    + intros k Hk. apply TT4. eapply upd_tidy_other; [exact U2|]. eapply upd_tidy_other; eauto.
  - unfold res_bind in H.
    match type of H with match ?e with Ok _ => _ | Panic => _ end = _ => destruct e as [a4|] eqn:E4; [|discriminate] end.
    inversion H; subst m'. simpl.
    destruct (derive_tail (m_desc m) (m_bits m) a1 a4 E4) as [V4 TT4].
    { eapply upd_tidy_other; eauto. }
    { eapply upd_tidy_other; eauto. }
    split; [|split; [|auto]].
    + intro k. rewrite V4. unfold dview, front_of.
      destruct (String.eqb k "ValidationErrors"); [reflexivity|].
      destruct (String.eqb k "ValidAgainstScenario"); [reflexivity|].
      destruct U1 as [Hv1 _]. rewrite Hv1.
      destruct (String.eqb k "ParetoFrontMember") eqn:EP; [|reflexivity].
      apply String.eqb_eq in EP; subst k. reflexivity.
    + intros k Hk. apply TT4. eapply upd_tidy_other; eauto.
Qed.

(* ------------------------------------------------------------------------------------------------ *)
(** * The three write routes                                                                         *)

Definition mspun : string := "ModelSuppliedPlanningUnitName".
Definition tidy5 (a : attrs) : Prop := tidy4 a /\ tidy a mspun /\ a_value a mspun = AStr "SubCatchment".

(* [m'] is [m] after a successful action-set write: same scenario, and -- when the derived attribute names were tidy --
   the attribute lookup is the old one with the derived attributes of the NEW action set written over it *)
Definition Wrote (tbl : option table) (m m' : mstate) : Prop :=
  m_desc m' = m_desc m /\ m_id m' = m_id m /\
  (tidy5 (m_attrs m) ->
   tidy5 (m_attrs m') /\ forall k, a_value (m_attrs m') k = dview tbl (m_desc m) (m_bits m') (a_value (m_attrs m)) k).

Lemma dview_base_irrelevant_at_encoding : forall tbl d b (base base' : string -> aval) k,
  (forall k, String.eqb k "Encoding" = false -> base k = base' k) -> dview tbl d b base k = dview tbl d b base' k.
Proof.
  intros tbl d b base base' k H. unfold dview.
  destruct (String.eqb k "ValidationErrors"); [reflexivity|].
  destruct (String.eqb k "ValidAgainstScenario"); [reflexivity|].
  destruct (String.eqb k "ParetoFrontMember") eqn:EP.
  - apply String.eqb_eq in EP; subst k. destruct (front_of tbl b); [reflexivity|]. now apply H.
  - destruct (String.eqb k "Encoding") eqn:EE; [reflexivity|]. now apply H.
Qed.

Lemma derive_Wrote : forall tbl (m m' : mstate) b a0,
  derive tbl {| m_desc := m_desc m; m_id := m_id m; m_bits := b; m_attrs := a0 |} = Ok m' ->
  (forall k, String.eqb k "Encoding" = false -> a_value a0 k = a_value (m_attrs m) k) ->
  (forall k, tidy (m_attrs m) k -> tidy a0 k) ->
  Wrote tbl m m' /\ m_bits m' = b.
Proof.
  intros tbl m m' b a0 H Hv Ht.
  assert (Hb : m_bits m' = b).
  { unfold derive, res_bind in H. repeat match type of H with match ?e with Ok _ => _ | Panic => _ end = _ => destruct e; [|discriminate] end.
    inversion H; reflexivity. }
  split; [|exact Hb]. unfold Wrote.
  assert (Hd : m_desc m' = m_desc m /\ m_id m' = m_id m).
  { unfold derive, res_bind in H. repeat match type of H with match ?e with Ok _ => _ | Panic => _ end = _ => destruct e; [|discriminate] end.
    inversion H; split; reflexivity. }
  destruct Hd as [Hd Hi]. split; [exact Hd|]. split; [exact Hi|].
  intros ((T1 & T2 & T3 & T4) & T5 & V5).
  destruct (derive_view tbl _ m' H) as (Vw & TT & _).
  { simpl. repeat split; apply Ht; assumption. }
  simpl in Vw, TT. split.
  - split; [repeat split; apply TT, Ht; assumption|]. split; [apply TT, Ht; exact T5|].
    rewrite Vw. unfold dview, mspun. simpl. rewrite Hv; [exact V5|reflexivity].
  - intro k. rewrite Vw, Hb. now apply dview_base_irrelevant_at_encoding.
Qed.

Definition is_encoding_patch (r : request) : bool :=
  match rq_json r with JsonAttrs [(k, AStr _)] => String.eqb k "Encoding" | _ => false end.
Definition is_action_write (r : request) : bool :=
  match rq_meth r, rq_route r with
  | MPut, RActive => true
  | MPut, RSubcatchment _ => true
  | MPatch, RModel => is_encoding_patch r
  | _, _ => false
  end.
Definition pure_route (r : request) : bool := is_read r || is_action_write r.

Definition write_outcome (s s' : state) (resp : response V) : Prop :=
  (s' = s /\ rs_status resp <> 200) \/ (rs_status resp = 200 /\ exists m m', st_model s = Some m /\ s' = with_model s m' (snapshot_of m')
                                                   /\ Wrote (st_soltable s) m m').

Ltac use_inv HI :=
  let HE := fresh "HE" in let HT := fresh "HT" in let HS := fresh "HS" in
  destruct HI as [[HE | HE] [HT HS]];
  [ destruct HE as (Et & En & Em & Esn & Ep & Est & Esb)
  | destruct HE as (t0 & n0 & m0 & p0 & Et & En & Em & Ep & Esn & Eid & Elen) ].

Lemma put_active_step : forall s r resp s', Inv s -> wf_request r = true ->
  put_active s r = Ok (resp, s') -> write_outcome s s' resp.
Proof.
  intros s r resp s' HI Hwf H. unfold put_active in H. unfold write_outcome.
  use_inv HI; rewrite Esn in H; [unfold fail in H; inversion H; left; split; [reflexivity|simpl; intro; discriminate]|].
  destruct (rq_ctype r); try (unfold fail in H; inversion H; left; split; [reflexivity|simpl; intro; discriminate]).
  destruct (rq_csv r) as [|t|]; [unfold fail in H; inversion H; left; split; [reflexivity|simpl; intro; discriminate]| |discriminate].
  unfold res_bind in H. destruct (actions_table_ok t) as [ok|]; [|discriminate].
  destruct ok; simpl in H; [|unfold fail in H; inversion H; left; split; [reflexivity|simpl; intro; discriminate]].
  rewrite Em in H.
  destruct (process_rows (d_actions (m_desc m0)) (t_header t) (t_rows t) (m_bits m0)) as [bits|]; [|discriminate].
  match type of H with match ?e with Ok _ => _ | Panic => _ end = _ => destruct e as [m1|] eqn:ED; [|discriminate] end.
  unfold respond in H. inversion H; subst. right. split; [reflexivity|].
  exists m0, m1. split; [exact Em|]. split; [reflexivity|].
  destruct (derive_Wrote (st_soltable s) m0 m1 bits (m_attrs m0) ED) as [W _]; auto.
Qed.

Lemma put_subcatchment_step : forall s id r resp s', Inv s -> wf_request r = true ->
  put_subcatchment s id r = Ok (resp, s') -> write_outcome s s' resp.
Proof.
  intros s id r resp s' HI Hwf H. unfold put_subcatchment in H. unfold write_outcome.
  use_inv HI; rewrite Esn in H; [unfold fail in H; inversion H; left; split; [reflexivity|simpl; intro; discriminate]|].
  destruct id as [pu|]; [|unfold fail in H; inversion H; left; split; [reflexivity|simpl; intro; discriminate]].
  destruct (negb (model_contains (snapshot_of m0) pu)); [unfold fail in H; inversion H; left; split; [reflexivity|simpl; intro; discriminate]|].
  unfold need_name, res_bind in H. rewrite En in H.
  destruct (rq_json r) as [|l|]; [unfold fail in H; inversion H; left; split; [reflexivity|simpl; intro; discriminate]| |discriminate].
  destruct (negb (syntax_ok l)); [unfold fail in H; inversion H; left; split; [reflexivity|simpl; intro; discriminate]|].
  rewrite Em in H.
  destruct (negb (supported (d_actions (m_desc m0)) pu l)); [unfold fail in H; inversion H; left; split; [reflexivity|simpl; intro; discriminate]|].
  match type of H with match ?e with Ok _ => _ | Panic => _ end = _ => destruct e as [m1|] eqn:ED; [|discriminate] end.
  unfold respond in H. inversion H; subst. right. split; [reflexivity|].
  exists m0, m1. split; [exact Em|]. split; [reflexivity|].
  destruct (derive_Wrote (st_soltable s) m0 m1 _ (m_attrs m0) ED) as [W _]; auto.
Qed.

Lemma derive_frame : forall tbl (m m' : mstate), derive tbl m = Ok m' ->
  m_desc m' = m_desc m /\ m_id m' = m_id m /\ m_bits m' = m_bits m.
Proof.
  intros tbl m m' H. unfold derive, res_bind in H.
  repeat match type of H with match ?e with Ok _ => _ | Panic => _ end = _ => destruct e; [|discriminate] end.
  inversion H; repeat split; reflexivity.
Qed.

Lemma patch_encoding_step : forall s r resp s', Inv s -> wf_request r = true -> is_encoding_patch r = true ->
  patch_model s r = Ok (resp, s') -> write_outcome s s' resp.
Proof.
  intros s r resp s' HI Hwf Hp H. unfold patch_model in H. unfold write_outcome.
  use_inv HI; rewrite Esn in H; [unfold fail in H; inversion H; left; split; [reflexivity|simpl; intro; discriminate]|].
  destruct (rq_ctype r); try (unfold fail in H; inversion H; left; split; [reflexivity|simpl; intro; discriminate]).
  unfold is_encoding_patch in Hp.
  destruct (rq_json r) as [|l|]; try discriminate.
  destruct l as [|[k v] l]; try discriminate. destruct v as [| |e|]; try discriminate. destruct l; try discriminate.
  apply String.eqb_eq in Hp; subst k.
  rewrite Em in H.
  destruct (patch_valid (List.length (d_actions (m_desc m0))) [("Encoding", AStr e)]) eqn:Hv; cbn [negb] in H;
    [|unfold fail in H; inversion H; left; split; [reflexivity|simpl; intro; discriminate]].
  cbn [patch_valid] in Hv. rewrite String.eqb_refl, andb_true_r in Hv. unfold decodes in Hv.
  rewrite (decode_flag _ _ (m_bits m0) e (repeat_length' _ _ _) Elen) in Hv.
  unfold res_bind in H. cbn [patch_apply] in H. rewrite String.eqb_refl in H. cbn [m_desc m_bits m_id m_attrs] in H.
  destruct (decode (List.length (d_actions (m_desc m0))) (m_bits m0) e) as [ok bits] eqn:D. simpl in Hv. subst ok.
  match type of H with context[derive (st_soltable s) ?mm] => destruct (derive (st_soltable s) mm) as [m1|] eqn:ED1; [|discriminate] end.
  cbn [patch_apply] in H. unfold res_bind in H. cbv beta iota in H.
  destruct (derive (st_soltable s) m1) as [m3|] eqn:ED3; [|discriminate].
  unfold respond in H. inversion H; subst. right. split; [reflexivity|].
  exists m0, m3. split; [exact Em|]. split; [reflexivity|].
  destruct (derive_frame _ _ _ ED1) as (Hd1 & Hi1 & Hb1). destruct (derive_frame _ _ _ ED3) as (Hd3 & Hi3 & Hb3).
  simpl in Hd1, Hi1, Hb1.
  unfold Wrote. split; [congruence|]. split; [congruence|].
  intros T5. pose proof T5 as ((T1 & T2 & T3 & T4) & Tm & Vm).
  set (aj := a_join (m_attrs m0) [("Encoding", AStr e)]) in *.
  assert (Ue : upd (m_attrs m0) aj "Encoding" (AStr e)) by (apply ca_replace_upd; [exact T1|reflexivity]).
  assert (Um : upd aj (ca_replace aj "ModelSuppliedPlanningUnitName" (AStr "SubCatchment")) mspun (AStr "SubCatchment")).
  { apply ca_replace_upd; [|reflexivity]. eapply upd_tidy_other; eauto. }
  destruct (derive_Wrote (st_soltable s) m0 m1 bits _ ED1) as [W1 Hbits1].
  { intros k Hk. destruct Um as [Hvm _]. destruct Ue as [Hve _]. rewrite Hvm, Hve, Hk.
    destruct (String.eqb k mspun) eqn:Ek; [|reflexivity]. apply String.eqb_eq in Ek; subst k. now rewrite Vm. }
  { intros k Hk. eapply upd_tidy_other; [exact Um|]. eapply upd_tidy_other; eauto. }
  destruct W1 as (_ & _ & W1). destruct (W1 T5) as (((S1 & S2 & S3 & S4) & Sm & SVm) & View1).
  destruct (derive_view (st_soltable s) m1 m3 ED3) as (View3 & TT3 & _); [repeat split; assumption|].
  split.
  - split; [repeat split; apply TT3; assumption|]. split; [now apply TT3|].
    rewrite View3. unfold dview, mspun. simpl. exact SVm.
  - intro k. rewrite View3, Hb3, Hd1.
    rewrite (dview_ext _ _ _ _ _ k View1). rewrite Hbits1. apply dview_idem. exact HT.
Qed.

Lemma pure_step : forall s r resp s', Inv s -> wf_request r = true -> pure_route r = true ->
  handle s r = Ok (resp, s') -> (s' = s /\ is_read r = true) \/ (is_read r = false /\ write_outcome s s' resp).
Proof.
  intros s r resp s' HI Hwf Hp H. unfold pure_route in Hp. apply orb_true_iff in Hp. destruct Hp as [Hr|Hw].
  - destruct (read_keeps_state s r HI Hr) as [resp0 H0]. rewrite H in H0. inversion H0. now left.
  - right. unfold is_action_write in Hw. unfold handle in H. unfold is_read.
    destruct (rq_meth r); try discriminate; destruct (rq_route r); try discriminate; (split; [reflexivity|]).
    + eapply put_active_step; eauto.
    + eapply put_subcatchment_step; eauto.
    + eapply patch_encoding_step; eauto.
Qed.

Lemma Wrote_trans : forall tbl (m m1 m2 : mstate), tbl_ok tbl -> Wrote tbl m m1 -> Wrote tbl m1 m2 -> Wrote tbl m m2.
Proof.
  intros tbl m m1 m2 Ht (Hd1 & Hi1 & W1) (Hd2 & Hi2 & W2). unfold Wrote.
  split; [congruence|]. split; [congruence|].
  intro T5. destruct (W1 T5) as [T51 V1]. destruct (W2 T51) as [T52 V2]. split; [exact T52|].
  intro k. rewrite V2, Hd1. rewrite (dview_ext _ _ _ _ _ k V1). now apply dview_idem.
Qed.

Definition wrote (s : state) (rs : list request) : bool := existsb (fun r => negb (is_read r)) (applied s rs).

Lemma pure_run : forall (rs : list request) (s s' : state),
  Inv s -> forallb wf_request rs = true -> forallb pure_route rs = true -> run s rs = Ok s' ->
  (s' = s /\ wrote s rs = false)
  \/ (wrote s rs = true /\ exists m m', st_model s = Some m /\ st_model s' = Some m' /\ st_snap s' = Some (snapshot_of m')
                                      /\ Wrote (st_soltable s) m m').
Proof.
  induction rs as [|r rs IH]; intros s s' HI Hwf Hp Hrun; simpl in *.
  - inversion Hrun; subst. left. split; reflexivity.
  - apply andb_true_iff in Hwf. destruct Hwf as [Hwr Hwrs]. apply andb_true_iff in Hp. destruct Hp as [Hpr Hprs].
    destruct (handle s r) as [[resp s1]|] eqn:E; [|discriminate].
    destruct (handle_spec s r HI Hwr) as (resp0 & s10 & E0 & HI1 & _). rewrite E in E0. inversion E0; subst resp0 s10. clear E0.
    unfold wrote. simpl. rewrite E.
    destruct (pure_step s r resp s1 HI Hwr Hpr E) as [[Hs Hr]|[Hr [[Hs Hst]|(Hst & m & m1 & Em & Es1 & W1)]]].
    + (* a read *) subst s1.
      destruct (IH s s' HI Hwrs Hprs Hrun) as [[Hs' Hw]|(Hw & m & m' & Em & Em' & Esn & W)].
      * left. split; [exact Hs'|]. rewrite existsb_app. unfold wrote in Hw. rewrite Hw.
        destruct (Nat.eqb (rs_status resp) 200); simpl; [rewrite Hr; reflexivity|reflexivity].
      * right. split; [|exists m, m'; split; [exact Em|split; [exact Em'|split; [exact Esn|exact W]]]]. rewrite existsb_app. unfold wrote in Hw. rewrite Hw. apply orb_true_r.
    + (* a write answered with an error *) subst s1.
      destruct (Nat.eqb (rs_status resp) 200) eqn:E200; [apply Nat.eqb_eq in E200; congruence|]. simpl.
      destruct (IH s s' HI Hwrs Hprs Hrun) as [[Hs' Hw]|(Hw & m & m' & Em & Em' & Esn & W)].
      * left. split; assumption.
      * right. split; [exact Hw|exists m, m'; split; [exact Em|split; [exact Em'|split; [exact Esn|exact W]]]].
    + (* a successful write *)
      rewrite Hst. simpl. rewrite Hr. simpl. right. split; [reflexivity|].
      assert (Etbl : st_soltable s1 = st_soltable s) by (subst s1; reflexivity).
      assert (Em1 : st_model s1 = Some m1) by (subst s1; reflexivity).
      assert (Esn1 : st_snap s1 = Some (snapshot_of m1)) by (subst s1; reflexivity).
      destruct (IH s1 s' HI1 Hwrs Hprs Hrun) as [[Hs' Hw]|(Hw & m' & m2 & Em' & Em2 & Esn2 & W2)].
      * subst s'. exists m, m1. split; [exact Em|split; [exact Em1|split; [exact Esn1|exact W1]]].
      * rewrite Em1 in Em'. inversion Em'; subst m'. exists m, m2. split; [exact Em|]. split; [exact Em2|]. split; [exact Esn2|].
        rewrite Etbl in W2. eapply Wrote_trans; eauto. destruct HI as [_ [HT _]]. exact HT.
Qed.

(* what GET /model serves, compared through attribute lookup *)
Definition same_representation (sn1 sn2 : snapshot) : Prop :=
  sn_id sn1 = sn_id sn2 /\ sn_desc sn1 = sn_desc sn2 /\ sn_bits sn1 = sn_bits sn2 /\ sn_vars sn1 = sn_vars sn2
  /\ forall k, a_value (sn_attrs sn1) k = a_value (sn_attrs sn2) k.

Theorem route_equivalence : forall (s s1 s2 : state) (rs1 rs2 : list request) m,
  reachable s -> st_model s = Some m -> tidy5 (m_attrs m) ->
  forallb wf_request rs1 = true -> forallb pure_route rs1 = true -> run s rs1 = Ok s1 -> wrote s rs1 = true ->
  forallb wf_request rs2 = true -> forallb pure_route rs2 = true -> run s rs2 = Ok s2 -> wrote s rs2 = true ->
  option_map m_bits (st_model s1) = option_map m_bits (st_model s2) ->
  exists sn1 sn2, st_snap s1 = Some sn1 /\ st_snap s2 = Some sn2 /\ same_representation sn1 sn2.
Proof.
  intros s s1 s2 rs1 rs2 m Hreach Em T5 Hw1 Hp1 Hr1 Hwr1 Hw2 Hp2 Hr2 Hwr2 Hbits.
  pose proof (reachable_Inv s Hreach) as HI.
  destruct (pure_run rs1 s s1 HI Hw1 Hp1 Hr1) as [[_ Hc]|(_ & ma & m1 & Ema & Em1 & Esn1 & W1)]; [congruence|].
  destruct (pure_run rs2 s s2 HI Hw2 Hp2 Hr2) as [[_ Hc]|(_ & mb & m2 & Emb & Em2 & Esn2 & W2)]; [congruence|].
  rewrite Em in Ema, Emb. inversion Ema; subst ma. inversion Emb; subst mb.
  rewrite Em1, Em2 in Hbits. simpl in Hbits. inversion Hbits as [Hb].
  destruct W1 as (Hd1 & Hi1 & W1). destruct W2 as (Hd2 & Hi2 & W2).
  destruct (W1 T5) as [_ V1]. destruct (W2 T5) as [_ V2].
  exists (snapshot_of m1), (snapshot_of m2). split; [exact Esn1|]. split; [exact Esn2|].
  unfold same_representation, snapshot_of; simpl. rewrite !a_join_nil.
  split; [congruence|]. split; [congruence|]. split; [congruence|]. split; [congruence|].
  intro k. rewrite V1, V2, Hb. reflexivity.
Qed.

(* ------------------------------------------------------------------------------------------------ *)
(** * The hypothesis [tidy5] is met after every successful POST /scenario and kept by the pure routes  *)

Lemma post_scenario_tidy : forall (s : state) (r : request) resp s',
  post_scenario s r = Ok (resp, s') -> rs_status resp = 200 -> exists m, st_model s' = Some m /\ tidy5 (m_attrs m).
Proof.
  intros s r resp s' H Hst. unfold post_scenario in H.
  destruct (rq_ctype r); try (unfold fail in H; inversion H; subst; simpl in Hst; discriminate).
  destruct (rq_toml r) as [|name mv|]; try discriminate; try (unfold fail in H; inversion H; subst; simpl in Hst; discriminate).
  destruct mv as [| | |d|]; try discriminate; try (unfold fail in H; inversion H; subst; simpl in Hst; discriminate).
  unfold res_bind in H.
  match type of H with context[derive None ?mm] => destruct (derive None mm) as [m1|] eqn:ED; [|discriminate] end.
  unfold respond in H. inversion H; subst. simpl. exists m1. split; [reflexivity|].
  assert (T0 : forall k, tidy (ca_replace [] "ModelSuppliedPlanningUnitName" (AStr "SubCatchment")) k).
  { intro k. unfold ca_replace, a_has. cbn [a_value is_null negb]. unfold a_add. cbn [app]. unfold tidy. cbn [a_count a_value].
    destruct (String.eqb "ModelSuppliedPlanningUnitName" k) eqn:E; [right; split; [reflexivity|discriminate]|left; reflexivity]. }
  destruct (derive_view None _ m1 ED) as (Vw & TT & _).
  { simpl. repeat split; apply T0. }
  simpl in Vw, TT. split; [repeat split; apply TT, T0|]. split; [apply TT, T0|].
  rewrite Vw. reflexivity.
Qed.

Lemma pure_run_keeps_tidy : forall (rs : list request) (s s' : state) m,
  Inv s -> forallb wf_request rs = true -> forallb pure_route rs = true -> run s rs = Ok s' ->
  st_model s = Some m -> tidy5 (m_attrs m) -> exists m', st_model s' = Some m' /\ tidy5 (m_attrs m').
Proof.
  intros rs s s' m HI Hw Hp Hr Em T5.
  destruct (pure_run rs s s' HI Hw Hp Hr) as [[Hs _]|(_ & ma & m' & Ema & Em' & _ & W)].
  - subst s'. eauto.
  - rewrite Em in Ema. inversion Ema; subst ma. destruct W as (_ & _ & W). destruct (W T5) as [T5' _]. eauto.
Qed.

(* ------------------------------------------------------------------------------------------------ *)
(** * Only the requests answered 200 that are not reads matter                                       *)

Definition effective (s : state) (rs : list request) : list request :=
  filter (fun r => negb (is_read r)) (applied s rs).

Lemma only_effective_requests_matter : forall (rs : list request) (s0 s : state),
  Inv s0 -> forallb wf_request rs = true -> run s0 rs = Ok s -> run s0 (effective s0 rs) = Ok s.
Proof.
  induction rs as [|r rs IH]; intros s0 s HI Hwf Hrun; simpl in *.
  - exact Hrun.
  - apply andb_true_iff in Hwf. destruct Hwf as [Hwr Hwrs].
    destruct (handle s0 r) as [[resp s1]|] eqn:E; [|discriminate].
    destruct (handle_spec s0 r HI Hwr) as (resp0 & s10 & E0 & HI1 & Hsame). rewrite E in E0. inversion E0; subst resp0 s10. clear E0.
    unfold effective. simpl. rewrite E.
    destruct (Nat.eqb (rs_status resp) 200) eqn:E200.
    + simpl. destruct (is_read r) eqn:Er; simpl.
      * destruct (read_keeps_state s0 r HI Er) as [resp1 H1]. rewrite E in H1. inversion H1; subst s1.
        apply (IH s0 s HI Hwrs Hrun).
      * rewrite E. apply (IH s1 s HI1 Hwrs Hrun).
    + simpl. assert (s1 = s0) by (apply Hsame; intro Hc; rewrite Hc in E200; discriminate). subst s1.
      apply (IH s0 s HI Hwrs Hrun).
Qed.

(* the one remaining kind of non-write in [effective]: GET /solutions/<label> loads the solution pool (a cache) and
   touches none of the readable resources *)
Lemma solution_read_keeps_resources : forall (s : state) label resp s',
  get_solution s label = Ok (resp, s') -> resources s' = resources s /\ st_model s' = st_model s /\ st_soltable s' = st_soltable s.
Proof.
  intros s label resp s' H. unfold get_solution, respond, fail, res_bind in H. break_in H; inv_ok H; simpl; repeat split; congruence.
Qed.

(* ------------------------------------------------------------------------------------------------ *)
(** * [tidy5] is an invariant of the reachable states                                                *)
(* PATCH /model refuses the engine-maintained attribute names (validatePatchAttributes, proposed_fixes/C14-6), so no
   client request can untidy them. *)

Definition I5 (a : attrs) : Prop := tidy5 a /\ a_has a "Encoding" = true.
Definition Tidy (s : state) : Prop := forall m, st_model s = Some m -> I5 (m_attrs m).

Lemma Tidy_init : Tidy init_state.
Proof. intros m H. discriminate. Qed.

Lemma value_has : forall a k v, a_value a k = v -> is_null v = false -> a_has a k = true.
Proof. intros a k v H Hn. unfold a_has. rewrite H, Hn. reflexivity. Qed.

Lemma derive_I5 : forall tbl (m m' : mstate), derive tbl m = Ok m' -> tidy5 (m_attrs m) -> I5 (m_attrs m').
Proof.
  intros tbl m m' H ((T1 & T2 & T3 & T4) & T5 & V5).
  destruct (derive_view tbl m m' H) as (Vw & TT & _); [repeat split; assumption|].
  split.
  - split; [repeat split; apply TT; assumption|]. split; [now apply TT|]. rewrite Vw. unfold dview, mspun. simpl. exact V5.
  - eapply value_has; [apply Vw|]. reflexivity.
Qed.

Lemma Wrote_I5 : forall tbl (m m' : mstate), Wrote tbl m m' -> tidy5 (m_attrs m) -> I5 (m_attrs m').
Proof.
  intros tbl m m' (_ & _ & W) T5. destruct (W T5) as [T5' Vw]. split; [exact T5'|].
  eapply value_has; [apply Vw|]. reflexivity.
Qed.

(* --- JoiningAttributes with a validated patch --- *)
Definition joinf (a : attrs) (acc : attrs) (p : string * aval) : attrs :=
  if a_has a (fst p) then a_replace acc (fst p) (snd p) else a_add acc (fst p) (snd p).
Lemma a_join_fold : forall a l, a_join a l = fold_left (joinf a) l a.
Proof. reflexivity. Qed.

Lemma joinf_other : forall a acc n v k, String.eqb n k = false ->
  a_count (joinf a acc (n, v)) k = a_count acc k /\ a_value (joinf a acc (n, v)) k = a_value acc k.
Proof.
  intros a acc n v k Hn. assert (Hk : String.eqb k n = false) by (now rewrite String.eqb_sym).
  unfold joinf. cbn [fst snd]. destruct (a_has a n).
  - rewrite count_replace, value_replace, Hk. split; reflexivity.
  - rewrite count_add, value_add, Hn. split; [lia|].
    destruct (Nat.eqb (a_count acc k) 0) eqn:E; [|reflexivity]. apply Nat.eqb_eq in E. now rewrite (count0_value acc k E).
Qed.

Lemma join_fold_other : forall (a : attrs) k (l : attrs) (acc : attrs),
  (forall n v, In (n, v) l -> String.eqb n k = false) ->
  a_count (fold_left (joinf a) l acc) k = a_count acc k /\ a_value (fold_left (joinf a) l acc) k = a_value acc k.
Proof.
  intros a k l. induction l as [|[n v] l IH]; intros acc Hl; cbn [fold_left]; [split; reflexivity|].
  destruct (IH (joinf a acc (n, v))) as [C Vv]; [intros n' v' Hin; apply (Hl n' v'); now right|].
  destruct (joinf_other a acc n v k (Hl n v (or_introl eq_refl))) as [C1 V1].
  rewrite C, Vv, C1, V1. split; reflexivity.
Qed.

Lemma join_fold_encoding : forall (a : attrs) (l : attrs) (acc : attrs),
  a_has a "Encoding" = true ->
  (forall v, In ("Encoding", v) l -> is_null v = false) ->
  a_count acc "Encoding" = 1 -> a_value acc "Encoding" <> ANull ->
  a_count (fold_left (joinf a) l acc) "Encoding" = 1 /\ a_value (fold_left (joinf a) l acc) "Encoding" <> ANull.
Proof.
  intros a l. induction l as [|[n v] l IH]; intros acc Ha Hl C Vn; cbn [fold_left]; [split; assumption|].
  apply IH; try assumption.
  - intros v' Hin. apply Hl. now right.
  - destruct (String.eqb n "Encoding") eqn:En.
    + apply String.eqb_eq in En; subst n. unfold joinf. cbn [fst snd]. rewrite Ha. now rewrite count_replace.
    + destruct (joinf_other a acc n v "Encoding" En) as [C1 _]. now rewrite C1.
  - destruct (String.eqb n "Encoding") eqn:En.
    + apply String.eqb_eq in En; subst n. unfold joinf. cbn [fst snd]. rewrite Ha. rewrite value_replace, String.eqb_refl, C. cbn [Nat.eqb].
      specialize (Hl v (or_introl eq_refl)). destruct v; simpl in Hl; congruence.
    + destruct (joinf_other a acc n v "Encoding" En) as [_ V1]. now rewrite V1.
Qed.

Lemma patch_valid_facts : forall n (l : attrs), patch_valid n l = true ->
  (forall k v, In (k, v) l -> engine_maintained k = false) /\ (forall v, In ("Encoding", v) l -> is_null v = false).
Proof.
  intros n l. induction l as [|[k v] l IH]; intro H; [split; [intros k v []|intros v []]|].
  cbn [patch_valid] in H. destruct (engine_maintained k) eqn:Em; [discriminate|].
  assert (Hrest : patch_valid n l = true).
  { destruct (String.eqb k "Encoding"); [|exact H]. destruct v; try discriminate. apply andb_true_iff in H. tauto. }
  destruct (IH Hrest) as [I1 I2]. split.
  - intros k' v' [Heq|Hin]; [inversion Heq; subst; exact Em|eauto].
  - intros v' [Heq|Hin]; [|eauto]. inversion Heq; subst. rewrite String.eqb_refl in H. destruct v'; try discriminate; reflexivity.
Qed.

Lemma not_maintained : forall k, engine_maintained k = false ->
  String.eqb k mspun = false /\ String.eqb k "ParetoFrontMember" = false
  /\ String.eqb k "ValidAgainstScenario" = false /\ String.eqb k "ValidationErrors" = false.
Proof.
  intros k H. unfold engine_maintained in H. repeat (apply orb_false_iff in H; destruct H as [H ?]). unfold mspun. tauto.
Qed.

Lemma tidy_of_same : forall a a' k, a_count a' k = a_count a k -> a_value a' k = a_value a k -> tidy a k -> tidy a' k.
Proof. intros a a' k C Vv T. unfold tidy in *. now rewrite C, Vv. Qed.

Lemma join_tidy5 : forall n (a l : attrs), I5 a -> patch_valid n l = true -> tidy5 (a_join a l).
Proof.
  intros n a l [((T1 & T2 & T3 & T4) & Tm & Vm) Ha] Hv.
  destruct (patch_valid_facts n l Hv) as [Hm He].
  assert (Hother : forall k, (k = mspun \/ k = "ParetoFrontMember" \/ k = "ValidAgainstScenario" \/ k = "ValidationErrors") ->
                   a_count (a_join a l) k = a_count a k /\ a_value (a_join a l) k = a_value a k).
  { intros k Hk. rewrite a_join_fold. apply join_fold_other. intros n0 v0 Hin.
    destruct (not_maintained n0 (Hm n0 v0 Hin)) as (N1 & N2 & N3 & N4).
    destruct Hk as [Hk|[Hk|[Hk|Hk]]]; subst k; assumption. }
  assert (CE : a_count a "Encoding" = 1 /\ a_value a "Encoding" <> ANull).
  { unfold a_has in Ha. destruct T1 as [C0|[C1 Vn]]; [rewrite (count0_value a _ C0) in Ha; discriminate|]. split; assumption. }
  destruct CE as [C1 Vn].
  destruct (join_fold_encoding a l a Ha He C1 Vn) as [CJ VJ]. rewrite <- a_join_fold in CJ, VJ.
  destruct (Hother mspun (or_introl eq_refl)) as [Cm Vmm].
  destruct (Hother "ParetoFrontMember" (or_intror (or_introl eq_refl))) as [Cp Vp].
  destruct (Hother "ValidAgainstScenario" (or_intror (or_intror (or_introl eq_refl)))) as [Cv Vv].
  destruct (Hother "ValidationErrors" (or_intror (or_intror (or_intror eq_refl)))) as [Ce Ve].
  split; [|split].
  - split; [right; split; assumption|]. split; [eapply tidy_of_same; eauto|]. split; eapply tidy_of_same; eauto.
  - eapply tidy_of_same; eauto.
  - now rewrite Vmm.
Qed.

(* the application loop keeps tidy5 *)
Lemma patch_apply_tidy : forall tbl (l : attrs) (m : mstate) sn m' sn',
  patch_apply tbl l m sn = Ok (Some (m', sn')) -> tidy5 (m_attrs m) -> tidy5 (m_attrs m').
Proof.
  intros tbl l. induction l as [|[k v] l IH]; intros m sn m' sn' H T5; cbn [patch_apply] in H.
  - inversion H; subst. exact T5.
  - destruct (String.eqb k "Encoding"); [|eapply IH; eauto].
    destruct v as [| |e|]; try discriminate.
    destruct (decode (List.length (d_actions (m_desc m))) (m_bits m) e) as [ok bits]. destruct ok; [|discriminate].
    unfold res_bind in H.
    match type of H with context[derive tbl ?mm] => destruct (derive tbl mm) as [m1|] eqn:ED; [|discriminate] end.
    apply (IH m1 (snapshot_of m1) m' sn' H).
    destruct T5 as ((T1 & T2 & T3 & T4) & Tm & Vm).
    assert (Um : upd (m_attrs m) (ca_replace (m_attrs m) "ModelSuppliedPlanningUnitName" (AStr "SubCatchment")) mspun (AStr "SubCatchment"))
      by (apply ca_replace_upd; [exact Tm|reflexivity]).
    apply (derive_I5 tbl _ m1 ED). simpl.
    split; [repeat split; eapply upd_tidy_other; eauto|]. split; [eapply upd_tidy_self; eauto|].
    destruct Um as [Hv _]. rewrite Hv. unfold mspun. now rewrite String.eqb_refl.
Qed.

Ltac use_inv2 HI :=
  let HE := fresh "HE" in let HT := fresh "HT" in let HS := fresh "HS" in
  destruct HI as [[HE | HE] [HT HS]];
  [ destruct HE as (Et & En & Em & Esn & Ep & Est & Esb)
  | destruct HE as (t0 & n0 & m0 & p0 & Et & En & Em & Ep & Esn & Eid & Elen) ].

Lemma patch_model_tidy : forall s r resp s', Inv s -> Tidy s -> patch_model s r = Ok (resp, s') -> Tidy s'.
Proof.
  intros s r resp s' HI HTidy H. unfold patch_model in H.
  use_inv2 HI; rewrite Esn in H; [unfold fail in H; inversion H; subst; exact HTidy|].
  destruct (rq_ctype r); try (unfold fail in H; inversion H; subst; exact HTidy).
  destruct (rq_json r) as [|l|]; [unfold fail in H; inversion H; subst; exact HTidy| |discriminate].
  rewrite Em in H.
  destruct (patch_valid (List.length (d_actions (m_desc m0))) l) eqn:Hv; cbn [negb] in H;
    [|unfold fail in H; inversion H; subst; exact HTidy].
  unfold res_bind in H.
  match type of H with context[patch_apply ?tb l ?mj ?sn] => destruct (patch_apply tb l mj sn) as [[[m2 sn2]|]|] eqn:EP; try discriminate end.
  - destruct (derive (st_soltable s) m2) as [m3|] eqn:ED; [|discriminate].
    unfold respond in H. inversion H; subst. intros m Hm. unfold with_model in Hm. simpl in Hm. inversion Hm; subst m.
    apply (derive_I5 _ _ _ ED). eapply patch_apply_tidy; [exact EP|]. simpl.
    eapply join_tidy5; [apply HTidy; exact Em|exact Hv].
  - (* the loop answered 400: not reachable after validation (patch_apply_ok) *)
    exfalso.
    match type of EP with patch_apply ?tb l ?mj ?sn = _ =>
      destruct (patch_apply_ok tb l mj sn HT Elen Hv) as (m2 & sn2 & E2 & _) end.
    rewrite E2 in EP. discriminate.
Qed.

Lemma handle_tidy : forall s r resp s', Inv s -> wf_request r = true -> Tidy s -> handle s r = Ok (resp, s') -> Tidy s'.
Proof.
  intros s r resp s' HI Hwf HTidy H.
  assert (Same : st_model s' = st_model s -> Tidy s') by (intros E m Hm; apply HTidy; congruence).
  pose proof H as H0. unfold handle in H.
  destruct (rq_route r) eqn:Er; destruct (rq_meth r) eqn:Em;
    try (unfold fail in H; inversion H; subst; exact HTidy).
  - destruct (get_scenario_read s HI) as [r0 E0]. rewrite H in E0. inversion E0; subst. exact HTidy.
  - (* POST /scenario *)
    destruct (Nat.eqb (rs_status resp) 200) eqn:E200.
    + apply Nat.eqb_eq in E200. destruct (post_scenario_tidy s r resp s' H E200) as (m1 & Em1 & T5).
      intros m Hm. rewrite Em1 in Hm. inversion Hm; subst m. split; [exact T5|].
      (* Encoding was just derived *)
      unfold post_scenario in H. unfold res_bind, fail, respond in H.
      repeat match type of H with context[match ?x with _ => _ end] => destruct x eqn:?; try discriminate end;
        inversion H; subst; simpl in *; try discriminate.
      inversion Em1; subst.
      match goal with E : derive None ?mm = Ok _ |- _ =>
        destruct (derive_view None mm m1 E) as (Vw & _) end.
      { simpl. unfold ca_replace, a_has. cbn [a_value is_null negb]. unfold a_add. cbn [app]. unfold tidy4, tidy. cbn [a_count].
        repeat split; left; reflexivity. }
      eapply value_has; [apply Vw|]. reflexivity.
    + assert (s' = s).
      { destruct (handle_spec s r HI Hwf) as (r1 & s1 & E1 & _ & Hs). rewrite H0 in E1. inversion E1; subst. apply Hs.
        intro Hc. rewrite Hc in E200. discriminate. }
      subst. exact HTidy.
  - destruct (get_solutions_read s HI) as [r0 E0]. rewrite H in E0. inversion E0; subst. exact HTidy.
  - (* POST /solutions: the model is not touched *)
    apply Same. unfold post_solutions, fail, respond, res_bind, need_name in H.
    repeat match type of H with context[match ?x with _ => _ end] => destruct x eqn:?; try discriminate end;
      inversion H; subst; simpl; congruence.
  - apply Same. now destruct (solution_read_keeps_resources s label resp s' H) as (_ & E & _).
  - destruct (get_model_read s HI) as [r0 E0]. rewrite H in E0. inversion E0; subst. exact HTidy.
  - eapply patch_model_tidy; eauto.
  - destruct (get_applicable_read s HI) as [r0 E0]. rewrite H in E0. inversion E0; subst. exact HTidy.
  - destruct (get_active_read s HI) as [r0 E0]. rewrite H in E0. inversion E0; subst. exact HTidy.
  - destruct (put_active_step s r resp s' HI Hwf H) as [[Hs _]|(_ & m & m1 & Emm & Es & W)]; [subst; exact HTidy|].
    subst s'. intros mm Hm. unfold with_model in Hm; simpl in Hm. inversion Hm; subst mm.
    eapply Wrote_I5; [exact W|]. exact (proj1 (HTidy m Emm)).
  - destruct (get_subcatchment_read s id HI) as [r0 E0]. rewrite H in E0. inversion E0; subst. exact HTidy.
  - destruct (put_subcatchment_step s id r resp s' HI Hwf H) as [[Hs _]|(_ & m & m1 & Emm & Es & W)]; [subst; exact HTidy|].
    subst s'. intros mm Hm. unfold with_model in Hm; simpl in Hm. inversion Hm; subst mm.
    eapply Wrote_I5; [exact W|]. exact (proj1 (HTidy m Emm)).
Qed.

Lemma run_tidy : forall (rs : list request) s s', Inv s -> Tidy s -> forallb wf_request rs = true -> run s rs = Ok s' -> Tidy s'.
Proof.
  induction rs as [|r rs IH]; intros s s' HI HT Hwf Hrun; simpl in *.
  - inversion Hrun; subst. exact HT.
  - apply andb_true_iff in Hwf. destruct Hwf as [Hr Hrs].
    destruct (handle s r) as [[resp s1]|] eqn:E; [|discriminate].
    destruct (handle_spec s r HI Hr) as (r1 & s10 & E1 & HI1 & _). rewrite E in E1. inversion E1; subst r1 s10.
    apply (IH s1 s' HI1 (handle_tidy s r resp s1 HI Hr HT E) Hrs Hrun).
Qed.

Lemma reachable_tidy : forall s, reachable s -> Tidy s.
Proof. intros s (rs & Hwf & Hrun). exact (run_tidy rs init_state s Inv_init Tidy_init Hwf Hrun). Qed.

(* route equivalence at full strength: the hypothesis [tidy5] of [route_equivalence] holds in every reachable state *)
Theorem route_equivalence_full : forall (s s1 s2 : state) (rs1 rs2 : list request),
  reachable s ->
  forallb wf_request rs1 = true -> forallb pure_route rs1 = true -> run s rs1 = Ok s1 -> wrote s rs1 = true ->
  forallb wf_request rs2 = true -> forallb pure_route rs2 = true -> run s rs2 = Ok s2 -> wrote s rs2 = true ->
  option_map m_bits (st_model s1) = option_map m_bits (st_model s2) ->
  exists sn1 sn2, st_snap s1 = Some sn1 /\ st_snap s2 = Some sn2 /\ same_representation sn1 sn2.
Proof.
  intros s s1 s2 rs1 rs2 Hr Hw1 Hp1 Hr1 Hwr1 Hw2 Hp2 Hr2 Hwr2 Hb.
  pose proof (reachable_Inv s Hr) as HI.
  destruct (pure_run rs1 s s1 HI Hw1 Hp1 Hr1) as [[_ Hc]|(_ & m & m1 & Em & _)]; [congruence|].
  exact (route_equivalence s s1 s2 rs1 rs2 m Hr Em (proj1 (reachable_tidy s Hr m Em)) Hw1 Hp1 Hr1 Hwr1 Hw2 Hp2 Hr2 Hwr2 Hb).
Qed.

End C14.
