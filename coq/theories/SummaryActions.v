(* C13 — what the engine DOES with an Actions text: the two places where an encoding of a summary row becomes the
   activation flags of a model.  Transcribed from /repo as it is:

     cmd/cremengine/engine/api/SolutionPool.go     AddSolution:
         newModel := referenceModel.DeepClone()
         compressedModel := modelCompressor.Compress(newModel)
         compressedModel.Decode(modelEncoding)                      -- the error value is dropped
         modelCompressor.Decompress(compressedModel, newModel)
     cmd/cremengine/engine/api/v1modelHandler.go   reInitialiseModelWithEncoding (PATCH /model {"Encoding": e}):
         newModel := m.model.DeepClone()
         compressedModel := modelCompressor.Compress(newModel)
         if err := compressedModel.Decode(encoding); err != nil { return err }          -- 400, model untouched
         modelCompressor.Decompress(compressedModel, newModel); m.model = newModel
         deriveExtraModelAttributes -> deriveModelActionEncoding: Compress(m.model).Encoding()   -- attribute Encoding,
         checkEncodingInSolutionSummary(that text)                                                -- ParetoFrontMember

   on top of C09's transcription of BooleanArchive / ModelCompressor (BoolArchive.v, ActionCodec.v).  A model is seen
   through the activation flags of its management-action list (one per action, in the model's action order: C09).
   There is NO hypothesis on the number of actions anywhere: 63, 64, 65, 128 are instances.  No proofs in this file. *)
From Coq Require Import List NArith ZArith String Bool.
From Crem Require Import Base.Res CsvTable GoCast BoolArchive ActionCodec SummaryRoundTrip.
Import ListNotations.

(* SolutionPool.AddSolution: the flags of the pooled model ([ref] = the flags of the pool's reference model) *)
Definition pool_solution_flags (ref : list bool) (e : string) : res (list bool) :=
  do shell <- compress_actions ref;
  do r <- decode shell e;                      (* Decode's verdict [snd r] is not looked at *)
  decompress (fst r) ref.

(* reInitialiseModelWithEncoding + deriveModelActionEncoding: None = Decode error (400, model left as it was);
   Some (flags of the new model, its own Encoding attribute) *)
Definition patch_model (cur : list bool) (e : string) : res (option (list bool * string)) :=
  do r <- transfer_text e cur;
  match r with
  | None => Ok None
  | Some m => do enc <- encoding_of m; Ok (Some (m, enc))
  end.

(* PATCH /model {"Encoding": e} on an engine holding [st] whose model has the flags [cur]:
   None = 400; Some (new flags, new Encoding attribute, ParetoFrontMember: None = no summary loaded, untouched) *)
Definition patch_encoding (fmt : num -> string) (st : state) (cur : list bool) (e : string)
  : res (option (list bool * string * option bool)) :=
  do r <- patch_model cur e;
  match r with
  | None => Ok None
  | Some (m, enc) =>
      (* the membership scan of SummaryRoundTrip.pareto_member, on the text the model re-encodes to *)
      do pm <- pareto_member fmt (fun _ => Some enc) st e;
      Ok (Some (m, enc, match pm with Some member => member | None => None end))
  end.

(* flag lists travel as numbers in the correspondence: element k = bit k *)
Definition flags_of_N (len : nat) (v : N) : list bool := map (fun k => N.testbit v (N.of_nat k)) (seq 0 len).

Fixpoint flags_eqb (x y : list bool) : bool :=
  match x, y with
  | [], [] => true
  | a :: x', b :: y' => Bool.eqb a b && flags_eqb x' y'
  | _, _ => false
  end.
