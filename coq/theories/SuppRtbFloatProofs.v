(* C06 — the float facts behind the schedule and the probability range, via Flocq's bridge between
   Coq's primitive binary64 floats and the IEEE-754 formalisation (PrimFloat.Prim2B).
   [fin x] : x is finite;  [val x] : its real value. *)
From Coq Require Import ZArith NArith Reals List Bool Floats Lia Lra Uint63.
From Flocq Require Import Core BinarySingleNaN PrimFloat.
From Crem Require Import Base.Res SuppRtbFloat.
Import ListNotations.
Local Open Scope R_scope.

Definition fin (x : PrimFloat.float) : Prop := is_finite (Prim2B x) = true.
Definition val (x : PrimFloat.float) : R := B2R (Prim2B x).

Local Existing Instance Hprec.
Local Existing Instance Hmax.
Local Notation rnd := (round radix2 (fexp prec emax) (round_mode mode_NE)).

Local Instance valid_rnd_NE : Valid_rnd (round_mode mode_NE).
Proof. apply valid_rnd_round_mode. Qed.
Local Instance valid_fexp : Valid_exp (fexp prec emax).
Proof. apply fexp_correct. exact Hprec. Qed.

Local Notation bf := (binary_float prec emax).

Lemma rnd_B (b : bf) : rnd (B2R b) = B2R b.
Proof. apply round_generic; [typeclasses eauto | apply generic_format_B2R]. Qed.

Lemma rnd_le x y : x <= y -> rnd x <= rnd y.
Proof. apply round_le; typeclasses eauto. Qed.

Lemma rnd_0 : rnd 0 = 0.
Proof. apply round_0; typeclasses eauto. Qed.

Lemma B_lt_emax (b : bf) : Rabs (B2R b) < bpow radix2 emax.
Proof. apply abs_B2R_lt_emax. Qed.

(* ---- multiplication by a factor in [0,1] shrinks (toward 0) and stays finite ---- *)
Lemma mul_shrinks_B (x f : bf) :
  is_finite x = true -> 0 <= B2R x -> is_finite f = true -> 0 <= B2R f <= 1 ->
  is_finite (Bmult mode_NE x f) = true /\ 0 <= B2R (Bmult mode_NE x f) <= B2R x.
Proof.
  intros Fx Hx Ff [Hf0 Hf1].
  pose proof (Bmult_correct prec emax Hprec Hmax mode_NE x f) as H.
  set (r := rnd (B2R x * B2R f)) in *.
  assert (Hr0 : 0 <= r).
  { rewrite <- rnd_0. apply rnd_le. apply Rmult_le_pos; assumption. }
  assert (Hr1 : r <= B2R x).
  { apply Rle_trans with (rnd (B2R x)); [|rewrite rnd_B; apply Rle_refl].
    apply rnd_le. rewrite <- (Rmult_1_r (B2R x)) at 2. apply Rmult_le_compat_l; assumption. }
  assert (Hlt : Rabs r < bpow radix2 emax).
  { rewrite Rabs_pos_eq by assumption. eapply Rle_lt_trans; [exact Hr1|].
    eapply Rle_lt_trans; [apply Rle_abs | apply (B_lt_emax x)]. }
  rewrite (Rlt_bool_true _ _ Hlt) in H. destruct H as (Hv & Hfin & _).
  rewrite Hv, Hfin, Fx, Ff. auto.
Qed.

Lemma mul_shrinks x f :
  fin x -> 0 <= val x -> fin f -> 0 <= val f <= 1 ->
  fin (x * f)%float /\ 0 <= val (x * f)%float <= val x.
Proof.
  unfold fin, val. rewrite mul_equiv. apply mul_shrinks_B.
Qed.

(* ---- float64(int64) is exact up to 2^53 ---- *)
Lemma int_format z : (Z.abs z <= 2 ^ 53)%Z -> generic_format radix2 (fexp prec emax) (IZR z).
Proof.
  intros Hz.
  destruct (Z.eq_dec (Z.abs z) (2 ^ 53)) as [E|N].
  - assert (Hb : generic_format radix2 (fexp prec emax) (bpow radix2 53)).
    { apply generic_format_bpow. vm_compute. discriminate. }
    change (bpow radix2 53) with (IZR (2 ^ 53)) in Hb.
    destruct (Z.abs_eq_or_opp z) as [A|A]; rewrite A in E.
    + rewrite E. exact Hb.
    + replace z with (- (2 ^ 53))%Z by lia. rewrite opp_IZR. apply generic_format_opp. exact Hb.
  - replace (IZR z) with (F2R (Float radix2 z 0)) by (unfold F2R; simpl; ring).
    apply generic_format_F2R. intros Hz0.
    unfold cexp, fexp.
    assert (Hm : (mag radix2 (F2R (Float radix2 z 0)) <= 53)%Z).
    { apply mag_le_bpow.
      - apply F2R_neq_0. exact Hz0.
      - replace (F2R (Float radix2 z 0)) with (IZR z) by (unfold F2R; simpl; ring).
        rewrite <- abs_IZR. change (bpow radix2 53) with (IZR (2 ^ 53)). apply IZR_lt. lia. }
    unfold emin. change prec with 53%Z. change emax with 1024%Z. lia.
Qed.

Lemma of_int64_exact z : (0 <= z <= 2 ^ 53)%Z -> fin (of_int64 z) /\ val (of_int64 z) = IZR z.
Proof.
  intros Hz. unfold fin, val, of_int64. rewrite of_int63_equiv.
  assert (E : Uint63.to_Z (Uint63.of_Z z) = z).
  { rewrite Uint63.of_Z_spec. apply Z.mod_small. change wB with (2 ^ 63)%Z. lia. }
  rewrite E.
  pose proof (binary_normalize_correct prec emax Hprec Hmax mode_NE z 0 false) as H.
  cbv zeta in H.
  replace (F2R (Float radix2 z 0)) with (IZR z) in H by (unfold F2R; simpl; ring).
  rewrite (round_generic radix2 (fexp prec emax) (round_mode mode_NE) (IZR z)) in H
    by (apply int_format; lia).
  rewrite Rlt_bool_true in H.
  - destruct H as (Hv & Hf & _). auto.
  - rewrite <- abs_IZR. apply Rle_lt_trans with (IZR (2 ^ 53)).
    + apply IZR_le. lia.
    + change (bpow radix2 emax) with (IZR (2 ^ 1024)). apply IZR_lt. reflexivity.
Qed.

(* ---- math.Max on finite arguments, the first of which is not zero ---- *)
Lemma Prim2B_infinity : Prim2B infinity = B754_infinity false.
Proof. rewrite infinity_equiv. apply Prim2B_B2Prim. Qed.

Lemma Prim2B_zero : Prim2B 0%float = B754_zero false.
Proof. change 0%float with zero. rewrite zero_equiv. apply Prim2B_B2Prim. Qed.

Lemma fin_not_pos_inf x : fin x -> is_pos_inf x = false.
Proof.
  unfold fin, is_pos_inf. rewrite eqb_equiv, Prim2B_infinity.
  destruct (Prim2B x) as [s| s | |s m e H]; try discriminate; intros _; destruct s; reflexivity.
Qed.

Lemma fin_not_nan x : fin x -> PrimFloat.is_nan x = false.
Proof.
  unfold fin. rewrite is_nan_equiv.
  destruct (Prim2B x); try discriminate; reflexivity.
Qed.

Lemma go_max_val x y :
  fin x -> fin y -> val x <> 0 ->
  fin (go_max x y) /\ val (go_max x y) = Rmax (val x) (val y).
Proof.
  intros Fx Fy Hx. unfold go_max.
  rewrite (fin_not_pos_inf x Fx), (fin_not_pos_inf y Fy), (fin_not_nan x Fx), (fin_not_nan y Fy).
  cbn [orb].
  assert (E0 : PrimFloat.eqb x 0 = false).
  { rewrite eqb_equiv, Prim2B_zero. rewrite Beqb_correct by (try exact Fx; reflexivity).
    apply Req_bool_false. exact Hx. }
  rewrite E0. cbn [andb].
  rewrite ltb_equiv, Bltb_correct by assumption.
  fold (val x). fold (val y).
  destruct (Rlt_bool_spec (val y) (val x)) as [L|L].
  - split; [exact Fx|]. rewrite Rmax_left; [reflexivity | lra].
  - split; [exact Fy|]. rewrite Rmax_right; [reflexivity | lra].
Qed.

(* ---- uint64(x) = floor x on finite 0 <= x < 2^64 ---- *)
Lemma f2u64_val x :
  fin x -> 0 <= val x < IZR (2 ^ 64) -> f2u64 x = Ok (Z.to_N (Zfloor (val x))).
Proof.
  unfold fin, val, f2u64. rewrite <- B2SF_Prim2B.
  destruct (Prim2B x) as [s| s | |s m e H]; try discriminate; intros _ [H0 H1].
  - cbn. rewrite (Zfloor_IZR 0). reflexivity.
  - cbn [B2SF B2R] in *.
    destruct s.
    { exfalso. apply (Rlt_not_le _ _ (F2R_lt_0 radix2 (Float radix2 (cond_Zopp true (Zpos m)) e) eq_refl)).
      exact H0. }
    cbn [cond_Zopp] in *.
    assert (Hfl : Zfloor (F2R (Float radix2 (Zpos m) e)) =
                  match e with
                  | Z0 => Zpos m
                  | Zpos p => Z.shiftl (Zpos m) (Zpos p)
                  | Zneg p => Z.shiftr (Zpos m) (Zpos p)
                  end).
    { destruct e as [|p|p].
      - unfold F2R; cbn [Fnum Fexp bpow]. rewrite Rmult_1_r. apply Zfloor_IZR.
      - rewrite Z.shiftl_mul_pow2 by lia.
        unfold F2R; cbn [Fnum Fexp]. rewrite <- (IZR_Zpower radix2) by lia.
        rewrite <- mult_IZR. rewrite Zfloor_IZR. reflexivity.
      - rewrite Z.shiftr_div_pow2 by lia.
        unfold F2R; cbn [Fnum Fexp]. 
        change (Zneg p) with (- Zpos p)%Z. rewrite bpow_opp.
        rewrite <- (IZR_Zpower radix2) by lia.
        change (IZR (Zpos m) * / IZR (radix2 ^ Zpos p)) with (IZR (Zpos m) / IZR (radix2 ^ Zpos p)).
        apply Zfloor_div. change (radix_val radix2) with 2%Z. lia. }
    rewrite <- Hfl.
    assert (Hlt : (Zfloor (F2R (Float radix2 (Zpos m) e)) < 2 ^ 64)%Z).
    { apply lt_IZR. eapply Rle_lt_trans; [apply Zfloor_lb | exact H1]. }
    apply Z.ltb_lt in Hlt. rewrite Hlt. reflexivity.
Qed.

(* ---- the boolean range test on the factor ---- *)
Lemma Prim2B_one : Prim2B 1%float = Bone.
Proof. change 1%float with one. rewrite one_equiv. apply Prim2B_B2Prim. Qed.

Lemma factor_in_range_spec f :
  factor_in_range f = true -> fin f /\ 0 <= val f <= 1.
Proof.
  unfold factor_in_range, fin, val. rewrite !leb_equiv, Prim2B_zero, Prim2B_one.
  intros H. apply andb_prop in H. destruct H as [H0 H1].
  assert (F : is_finite (Prim2B f) = true).
  { destruct (Prim2B f) as [s|s| |s m e Hb]; try reflexivity.
    - destruct s; [discriminate H0 | discriminate H1].
    - discriminate H0. }
  split; [exact F|].
  rewrite Bleb_correct in H0 by (try exact F; reflexivity).
  rewrite Bleb_correct in H1 by (try exact F; reflexivity).
  rewrite Bone_correct in H1. cbn [B2R] in H0.
  destruct (Rle_bool_spec 0 (B2R (Prim2B f))) as [L0|L0]; [|discriminate H0].
  destruct (Rle_bool_spec (B2R (Prim2B f)) 1) as [L1|L1]; [|discriminate H1].
  lra.
Qed.

(* ---- the invariant of the step: finite, between 1 and 2^53 ---- *)
Definition good (s : PrimFloat.float) : Prop := fin s /\ 1 <= val s <= IZR (2 ^ 53).

Lemma good_of_int64 z : exact_int_range z = true -> good (of_int64 z) /\ val (of_int64 z) = IZR z.
Proof.
  unfold exact_int_range. intros H. apply andb_prop in H. destruct H as [H1 H2].
  apply Z.leb_le in H1. apply Z.leb_le in H2.
  destruct (of_int64_exact z) as [F V]; [lia|].
  split; [|exact V]. split; [exact F|]. rewrite V. split; apply IZR_le; lia.
Qed.

Lemma next_step_good M f s :
  good M -> factor_in_range f = true -> good s ->
  good (next_step M f s) /\ val M <= val (next_step M f s) <= Rmax (val M) (val s).
Proof.
  intros [FM [M1 M2]] Hf [Fs [S1 S2]].
  destruct (factor_in_range_spec f Hf) as [Ff Vf].
  destruct (mul_shrinks s f Fs ltac:(lra) Ff Vf) as [Fp [P0 P1]].
  unfold next_step.
  destruct (go_max_val M (s * f)%float FM Fp ltac:(lra)) as [Fg Vg].
  unfold good. rewrite !Vg. repeat split.
  - exact Fg.
  - eapply Rle_trans; [exact M1 | apply Rmax_l].
  - apply Rmax_lub; lra.
  - apply Rmax_l.
  - apply Rle_max_compat_l. exact P1.
Qed.

Lemma good_countdown s :
  good s -> exists n, f2u64 s = Ok n /\ n = Z.to_N (Zfloor (val s)) /\ (1 <= n < 2 ^ 64)%N.
Proof.
  intros [Fs [S1 S2]].
  assert (H64 : IZR (2 ^ 53) < IZR (2 ^ 64)) by (apply IZR_lt; reflexivity).
  exists (Z.to_N (Zfloor (val s))). split; [apply f2u64_val; [exact Fs | lra]|]. split; [reflexivity|].
  assert (L : (1 <= Zfloor (val s))%Z).
  { rewrite <- (Zfloor_IZR 1). apply Zfloor_le. exact S1. }
  assert (U : (Zfloor (val s) <= 2 ^ 53)%Z).
  { rewrite <- (Zfloor_IZR (2 ^ 53)). apply Zfloor_le. exact S2. }
  split.
  - change 1%N with (Z.to_N 1). apply Z2N.inj_le; lia.
  - change (2 ^ 64)%N with (Z.to_N (2 ^ 64)). apply Z2N.inj_lt; lia.
Qed.

Lemma countdown_mono s t n m :
  good s -> good t -> val s <= val t -> f2u64 s = Ok n -> f2u64 t = Ok m -> (n <= m)%N.
Proof.
  intros Gs Gt Hle Hs Ht.
  destruct (good_countdown s Gs) as (n' & En & Vn & _).
  destruct (good_countdown t Gt) as (m' & Em & Vm & _).
  rewrite Hs in En. rewrite Ht in Em. inversion En; inversion Em; subst.
  apply Z2N.inj_le.
  - rewrite <- (Zfloor_IZR 0). apply Zfloor_le. destruct Gs as [_ [? _]]. lra.
  - rewrite <- (Zfloor_IZR 0). apply Zfloor_le. destruct Gt as [_ [? _]]. lra.
  - apply Zfloor_le. exact Hle.
Qed.

Lemma countdown_of_int z s n :
  (0 <= z)%Z -> good s -> val s = IZR z -> f2u64 s = Ok n -> n = Z.to_N z.
Proof.
  intros Hz Gs V Hs.
  destruct (good_countdown s Gs) as (n' & En & Vn & _).
  rewrite Hs in En. inversion En; subst. rewrite V, Zfloor_IZR. reflexivity.
Qed.

Lemma countdown_ge_int z s n :
  (0 <= z)%Z -> good s -> IZR z <= val s -> f2u64 s = Ok n -> (Z.to_N z <= n)%N.
Proof.
  intros Hz Gs V Hs.
  destruct (good_countdown s Gs) as (n' & En & Vn & _).
  rewrite Hs in En. inversion En; subst.
  apply Z2N.inj_le; [lia | |].
  - rewrite <- (Zfloor_IZR 0). apply Zfloor_le. destruct Gs as [_ [? _]]. lra.
  - rewrite <- (Zfloor_IZR z). apply Zfloor_le. exact V.
Qed.

(* ---- acceptance probabilities stay in [0,1] when every exp value does ---- *)
Definition unit_float (e : PrimFloat.float) : Prop := fin e /\ 0 <= val e <= 1.

Lemma unit_one : unit_float 1%float.
Proof.
  unfold unit_float, fin, val. rewrite Prim2B_one, Bone_correct.
  split; [apply is_finite_Bone | lra].
Qed.

Lemma fold_mul_unit es : forall acc,
  unit_float acc -> Forall unit_float es -> unit_float (fold_left PrimFloat.mul es acc).
Proof.
  induction es as [|e es IH]; intros acc Ha Hes; cbn [fold_left]; [exact Ha|].
  inversion Hes as [|? ? He Hes']; subst.
  apply IH; [|exact Hes'].
  destruct Ha as [Fa [A0 A1]]. destruct He as [Fe Ve].
  destruct (mul_shrinks acc e Fa A0 Fe Ve) as [Fp [P0 P1]].
  split; [exact Fp | lra].
Qed.

Lemma prob_product_unit es : Forall unit_float es -> unit_float (prob_product es).
Proof. intros H. apply fold_mul_unit; [apply unit_one | exact H]. Qed.

Lemma add_bounded (x y : PrimFloat.float) (k : Z) :
  (0 <= k < 2 ^ 53)%Z -> fin x -> 0 <= val x <= IZR k -> unit_float y ->
  fin (x + y)%float /\ 0 <= val (x + y)%float <= IZR (k + 1).
Proof.
  intros Hk Fx [X0 X1] [Fy [Y0 Y1]].
  unfold fin, val in *. rewrite add_equiv.
  pose proof (Bplus_correct prec emax Hprec Hmax mode_NE (Prim2B x) (Prim2B y) Fx Fy) as H.
  set (r := rnd (B2R (Prim2B x) + B2R (Prim2B y))) in *.
  assert (Hr0 : 0 <= r).
  { rewrite <- rnd_0. apply rnd_le. lra. }
  assert (Hr1 : r <= IZR (k + 1)).
  { rewrite <- (round_generic radix2 (fexp prec emax) (round_mode mode_NE) (IZR (k + 1))).
    - apply rnd_le. rewrite plus_IZR. lra.
    - apply int_format. lia. }
  assert (Hlt : Rabs r < bpow radix2 emax).
  { rewrite Rabs_pos_eq by assumption. eapply Rle_lt_trans; [exact Hr1|].
    change (bpow radix2 emax) with (IZR (2 ^ 1024)). apply IZR_lt.
    apply Z.le_lt_trans with (2 ^ 53)%Z; [lia | reflexivity]. }
  rewrite (Rlt_bool_true _ _ Hlt) in H. destruct H as (Hv & Hfin & _).
  rewrite Hv, Hfin. auto.
Qed.

Lemma fold_add_bounded es : forall acc k,
  (0 <= k)%Z -> (k + Z.of_nat (length es) <= 2 ^ 53)%Z ->
  fin acc -> 0 <= val acc <= IZR k -> Forall unit_float es ->
  fin (fold_left PrimFloat.add es acc) /\
  0 <= val (fold_left PrimFloat.add es acc) <= IZR (k + Z.of_nat (length es)).
Proof.
  induction es as [|e es IH]; intros acc k Hk Hlen Fa Va Hes.
  - cbn [fold_left length]. rewrite Z.add_0_r. auto.
  - inversion Hes as [|? ? He Hes']; subst. cbn [fold_left].
    cbn [length] in *. rewrite Nat2Z.inj_succ in *.
    destruct (add_bounded acc e k ltac:(lia) Fa Va He) as [Fp Vp].
    replace (k + Z.succ (Z.of_nat (length es)))%Z with ((k + 1) + Z.of_nat (length es))%Z by lia.
    apply IH; try assumption; lia.
Qed.

Lemma prob_mean_unit es :
  es <> [] -> (Z.of_nat (length es) <= 2 ^ 53)%Z -> Forall unit_float es -> unit_float (prob_mean es).
Proof.
  intros Hne Hlen Hes.
  set (n := Z.of_nat (length es)) in *.
  assert (Hn1 : (1 <= n)%Z).
  { subst n. destruct es; [contradiction | cbn [length]; lia]. }
  destruct (fold_add_bounded es 0%float 0 ltac:(lia) ltac:(fold n; lia)) as [Fs [S0 S1]].
  - unfold fin. rewrite Prim2B_zero. reflexivity.
  - unfold val. rewrite Prim2B_zero. cbn [B2R]. lra.
  - exact Hes.
  - fold n in S1. rewrite Z.add_0_l in S1.
    destruct (of_int64_exact n ltac:(lia)) as [Fn Vn].
    unfold prob_mean, float_of_len. fold n. change (of_uint63 (of_Z n)) with (of_int64 n).
    set (s := fold_left PrimFloat.add es 0%float) in *.
    unfold unit_float, fin, val in *. rewrite div_equiv.
    assert (Hn0 : B2R (Prim2B (of_int64 n)) <> 0).
    { rewrite Vn. apply not_0_IZR. lia. }
    pose proof (Bdiv_correct prec emax Hprec Hmax mode_NE (Prim2B s) (Prim2B (of_int64 n)) Hn0) as H.
    set (r := rnd (B2R (Prim2B s) / B2R (Prim2B (of_int64 n)))) in *.
    assert (Hpos : 0 < IZR n) by (apply IZR_lt; lia).
    assert (Hq0 : 0 <= B2R (Prim2B s) / B2R (Prim2B (of_int64 n))).
    { rewrite Vn. apply Rmult_le_pos; [lra|]. apply Rlt_le, Rinv_0_lt_compat. exact Hpos. }
    assert (Hq1 : B2R (Prim2B s) / B2R (Prim2B (of_int64 n)) <= 1).
    { rewrite Vn. apply Rmult_le_reg_r with (IZR n); [exact Hpos|].
      unfold Rdiv. rewrite Rmult_assoc, Rinv_l by lra. lra. }
    assert (Hr0 : 0 <= r) by (rewrite <- rnd_0; apply rnd_le; exact Hq0).
    assert (Hr1 : r <= 1).
    { rewrite <- (round_generic radix2 (fexp prec emax) (round_mode mode_NE) 1).
      - apply rnd_le. exact Hq1.
      - apply (int_format 1). lia. }
    assert (Hlt : Rabs r < bpow radix2 emax).
    { rewrite Rabs_pos_eq by assumption. eapply Rle_lt_trans; [exact Hr1|].
      change (bpow radix2 emax) with (IZR (2 ^ 1024)). apply IZR_lt. reflexivity. }
    rewrite (Rlt_bool_true _ _ Hlt) in H. destruct H as (Hv & Hfin & _).
    rewrite Hv, Hfin. auto.
Qed.

Lemma accept_prob_unit k es :
  es <> [] -> (Z.of_nat (length es) <= 2 ^ 53)%Z -> Forall unit_float es -> unit_float (accept_prob k es).
Proof.
  intros Hne Hlen Hes. destruct k; cbn [accept_prob].
  - apply prob_product_unit. exact Hes.
  - apply prob_mean_unit; assumption.
Qed.

(* the ideal formula over the reals: for T > 0, exp(-|d|/T) lies in (0,1] *)
Lemma ideal_exp_unit (d T : R) : 0 < T -> 0 < exp (- Rabs d / T) <= 1.
Proof.
  intros HT. split; [apply exp_pos|].
  rewrite <- exp_0.
  assert (H : - Rabs d / T <= 0).
  { unfold Rdiv. rewrite <- Ropp_mult_distr_l. 
    assert (0 <= Rabs d * / T).
    { apply Rmult_le_pos; [apply Rabs_pos | apply Rlt_le, Rinv_0_lt_compat; exact HT]. }
    lra. }
  destruct H as [H|H].
  - apply Rlt_le, exp_increasing. exact H.
  - rewrite H. apply Rle_refl.
Qed.

(* boolean form: the float comparisons 0 <= p and p <= 1 themselves answer true *)
Lemma factor_in_range_complete f : fin f -> 0 <= val f <= 1 -> factor_in_range f = true.
Proof.
  unfold factor_in_range, fin, val. intros F [H0 H1].
  rewrite !leb_equiv, Prim2B_zero, Prim2B_one.
  rewrite Bleb_correct by (try exact F; reflexivity).
  rewrite Bleb_correct by (try exact F; reflexivity).
  rewrite Bone_correct. cbn [B2R].
  rewrite Rle_bool_true by exact H0. rewrite Rle_bool_true by exact H1. reflexivity.
Qed.

Lemma accept_prob_unit_bool k es :
  es <> [] -> (Z.of_nat (length es) <= 2 ^ 53)%Z ->
  forallb factor_in_range es = true -> factor_in_range (accept_prob k es) = true.
Proof.
  intros Hne Hlen Hall.
  destruct (accept_prob_unit k es Hne Hlen) as [F V].
  - rewrite forallb_forall in Hall. apply Forall_forall. intros e He.
    apply factor_in_range_spec. apply Hall. exact He.
  - apply factor_in_range_complete; assumption.
Qed.
