(* C19 — lemmas about Config.v / ConfigLoops.v.  The catchment part composes C01's invariant, C10's exactness and C03's
   lemmas (LimitsProofs); the parameter part composes C18 (ParamsProofs); the loop part C07 (AnnealLoopProofs); the
   naming part C12 (SaverProofs). *)
From Coq Require Import List ZArith QArith String Bool Arith Lia Floats.
From Crem Require Import Base.Res Params ParamsProofs Saver SaverProofs AnnealLoop AnnealLoopProofs
     Catchment CatchmentProofs Limits LimitsProofs ConfigLoops Config ConfigSpec.
Import ListNotations.
Open Scope string_scope.
Open Scope list_scope.

(* ============================================================================================================ *)
(* 1. the randomisation loops after fix C19-1                                                                    *)
(* ============================================================================================================ *)
Section Loops.
  Variable d : dataset.
  Hypothesis Hwf : wf_dataset d = true.
  Let n := nactions d.

  Definition nontarget (dir : bool) (s : state) (i : nat) : bool := negb (Bool.eqb (st_active s i) dir).
  Definition count_nontarget (dir : bool) (s : state) : nat := List.length (filter (nontarget dir s) (seq 0 n)).

  Lemma all_target_spec s dir : all_target d s dir = true <-> forall i, (i < n)%nat -> st_active s i = dir.
  Proof.
    unfold all_target. rewrite forallb_forall. split.
    - intros H i Hi. apply eqb_prop. apply H. apply in_seq. unfold n in Hi. lia.
    - intros H i Hi. apply in_seq in Hi. rewrite (H i) by (unfold n; lia). apply eqb_reflx.
  Qed.

  Lemma count_zero_all_target s dir : count_nontarget dir s = 0%nat -> all_target d s dir = true.
  Proof.
    unfold count_nontarget. intro H. apply all_target_spec. intros i Hi.
    destruct (Bool.eqb (st_active s i) dir) eqn:E; [now apply eqb_prop|].
    assert (In i (filter (nontarget dir s) (seq 0 n))).
    { apply filter_In. split; [apply in_seq; lia|]. unfold nontarget. now rewrite E. }
    destruct (filter (nontarget dir s) (seq 0 n)); [contradiction|discriminate].
  Qed.

  Lemma all_target_false_witness s dir : all_target d s dir = false -> exists i, (i < n)%nat /\ st_active s i <> dir.
  Proof.
    unfold all_target. intro H.
    assert (E : existsb (fun i => negb (Bool.eqb (st_active s i) dir)) (seq 0 (nactions d)) = true).
    { clear -H. induction (seq 0 (nactions d)) as [|x l IH]; simpl in *; [discriminate|].
      destruct (Bool.eqb (st_active s x) dir); simpl in *; [now apply IH|reflexivity]. }
    apply existsb_exists in E as (i & Hi & Hn). exists i. apply in_seq in Hi. split; [unfold n; lia|].
    intro X. rewrite X, eqb_reflx in Hn. discriminate.
  Qed.

  (* flipping exactly one listed element from "counted" to "not counted" *)
  Lemma filter_flip_one (p q : nat -> bool) (i : nat) : forall l, NoDup l -> In i l -> p i = true -> q i = false ->
    (forall j, j <> i -> q j = p j) -> S (List.length (filter q l)) = List.length (filter p l).
  Proof.
    induction l as [|x l IH]; intros Hnd Hin Hp Hq Hsame; [contradiction|].
    inversion Hnd as [|? ? Hx Hnd']; subst. destruct Hin as [->|Hin].
    - simpl. rewrite Hp, Hq. simpl. f_equal.
      assert (E : filter q l = filter p l).
      { apply filter_ext_in. intros j Hj. apply Hsame. intro; subst; contradiction. }
      now rewrite E.
    - simpl. assert (x <> i) by (intro; subst; contradiction). rewrite (Hsame x H).
      destruct (p x); simpl; [f_equal|]; now apply IH.
  Qed.

  Lemma toggle_count s i dir l : (i < n)%nat -> st_active s i <> dir ->
    S (count_nontarget dir (initialising_set d s i dir l)) = count_nontarget dir s.
  Proof.
    intros Hi Hne. unfold count_nontarget. apply (filter_flip_one _ _ i).
    - apply seq_NoDup.
    - apply in_seq. lia.
    - unfold nontarget. destruct (Bool.eqb (st_active s i) dir) eqn:E; [apply eqb_prop in E; contradiction|reflexivity].
    - unfold nontarget. rewrite (initialising_set_active d). rewrite Nat.eqb_refl. now rewrite eqb_reflx.
    - intros j Hj. unfold nontarget. rewrite (initialising_set_active d).
      destruct (Nat.eqb j i) eqn:E; [apply Nat.eqb_eq in E; contradiction|reflexivity].
  Qed.

  Lemma filter_len_le {A} (p : A -> bool) (l : list A) : (List.length (filter p l) <= List.length l)%nat.
  Proof. induction l as [|x l IH]; simpl; [lia|]. destruct (p x); simpl; lia. Qed.

  Lemma count_le_n s dir : (count_nontarget dir s <= n)%nat.
  Proof. unfold count_nontarget. etransitivity; [apply filter_len_le|]. now rewrite seq_length. Qed.

  (* (a) the states the loop returns are within the limit *)
  Lemma rand_loop_fx_valid dir picks : forall attempts valid s s',
    Valid d s -> picks_ok d picks = true ->
    rand_loop_fx d dir picks attempts valid s = LOk s' -> Valid d s'.
  Proof.
    induction picks as [|i ps IH]; intros attempts valid s s' HV Hp Hr.
    - destruct attempts; simpl in Hr.
      + destruct valid; [discriminate|]. inversion Hr; now subst.
      + destruct valid; simpl in Hr; [|inversion Hr; now subst].
        destruct (all_target d s dir); [inversion Hr; now subst|discriminate].
    - simpl in Hp. apply andb_true_iff in Hp as [Hi Hps]. apply Nat.ltb_lt in Hi.
      destruct attempts as [|a'].
      + simpl in Hr. destruct valid; [discriminate|]. inversion Hr; now subst.
      + cbn [rand_loop_fx] in Hr. destruct valid; cbn [negb] in Hr; [|inversion Hr; now subst].
        destruct (all_target d s dir); [inversion Hr; now subst|].
        destruct (Bool.eqb (st_active s i) dir) eqn:E.
        * eapply IH; eauto.
        * assert (Hne : st_active s i <> dir) by (intro X; rewrite X, eqb_reflx in E; discriminate).
          destruct (change_is_valid d (initialising_set d s i dir true)) eqn:C.
          -- eapply IH; [|exact Hps|exact Hr]. now apply (toggle_checked_valid d Hwf).
          -- eapply IH; [|exact Hps|exact Hr]. now apply (toggle_back_valid d Hwf).
  Qed.

  (* (b) a panic means: every action ended up in the target state, and that state is within the limit *)
  Lemma rand_loop_fx_panic dir picks : forall attempts valid s,
    Valid d s -> picks_ok d picks = true -> (count_nontarget dir s <= attempts)%nat ->
    rand_loop_fx d dir picks attempts valid s = LPanic ->
    exists sf, Valid d sf /\ all_target d sf dir = true.
  Proof.
    induction picks as [|i ps IH]; intros attempts valid s HV Hp Hc Hr.
    - destruct attempts; simpl in Hr.
      + destruct valid; [|discriminate]. exists s. split; [assumption|]. apply count_zero_all_target. lia.
      + destruct valid; simpl in Hr; [|discriminate]. destruct (all_target d s dir); discriminate.
    - simpl in Hp. apply andb_true_iff in Hp as [Hi Hps]. apply Nat.ltb_lt in Hi.
      destruct attempts as [|a'].
      + simpl in Hr. destruct valid; [|discriminate]. exists s. split; [assumption|]. apply count_zero_all_target. lia.
      + cbn [rand_loop_fx] in Hr. destruct valid; cbn [negb] in Hr; [|discriminate].
        destruct (all_target d s dir); [discriminate|].
        destruct (Bool.eqb (st_active s i) dir) eqn:E.
        * eapply IH; eauto.
        * assert (Hne : st_active s i <> dir) by (intro X; rewrite X, eqb_reflx in E; discriminate).
          destruct (change_is_valid d (initialising_set d s i dir true)) eqn:C.
          -- eapply IH; [|exact Hps| |exact Hr]; [now apply (toggle_checked_valid d Hwf)|].
             pose proof (toggle_count s i dir true Hi Hne). fold n in Hi. lia.
          -- (* the next round sees valid = false: it cannot panic *)
             destruct a'; destruct ps; simpl in Hr; discriminate.
  Qed.

  (* (c) under a boundedly fair pick list the loop ends *)
  Lemma covers_app_l m pre x : covers m pre -> covers m (x ++ pre).
  Proof. intros H i Hi. apply in_or_app. right. now apply H. Qed.

  Lemma fairk_prepend m k x post : fairk m k post -> fairk m k (x ++ post).
  Proof.
    intro H. destruct H as [l|k pre post Hc Hf]; [constructor|].
    rewrite app_assoc. constructor; [now apply covers_app_l|assumption].
  Qed.

  Lemma rand_loop_fx_ends dir : forall attempts picks valid s,
    fairk n attempts picks -> rand_loop_fx d dir picks attempts valid s <> LOutOfPicks.
  Proof.
    induction attempts as [|a' IHa]; intros picks valid s Hf.
    - destruct picks; simpl; destruct valid; discriminate.
    - inversion Hf as [|k pre post Hc Hf' Hk Hpicks]; subst. clear Hf.
      destruct valid; [|destruct (pre ++ post); simpl; discriminate].
      destruct (all_target d s dir) eqn:A; [destruct (pre ++ post); simpl; rewrite A; discriminate|].
      destruct (all_target_false_witness s dir A) as (w & Hw & Hwn).
      assert (Hin : In w pre) by (apply Hc; exact Hw).
      clear Hc. revert Hin. induction pre as [|x pre IHp]; intro Hin; [contradiction|].
      cbn [app rand_loop_fx negb]. rewrite A.
      destruct (Bool.eqb (st_active s x) dir) eqn:E.
      + apply IHp. destruct Hin as [->|Hin]; [|assumption]. apply eqb_prop in E. contradiction.
      + apply IHa. now apply fairk_prepend.
  Qed.

  (* ---- the extremes ---- *)
  Lemma init_all_active_gen b : forall l s j, (forall i, In i l -> (i < n)%nat) ->
    st_active (fold_left (fun s i => initialising_set d s i b false) l s) j = if existsb (Nat.eqb j) l then b else st_active s j.
  Proof.
    induction l as [|i l IH]; intros s j Hl; simpl; [reflexivity|].
    rewrite IH by (intros; apply Hl; now right).
    rewrite (initialising_set_active d).
    destruct (existsb (Nat.eqb j) l); [now rewrite orb_true_r|]. now rewrite orb_false_r.
  Qed.

  Lemma init_all_active s b j : (j < n)%nat -> st_active (init_all d s b) j = b.
  Proof.
    intro Hj. unfold init_all. rewrite init_all_active_gen by (intros i Hi; apply in_seq in Hi; unfold n; lia).
    replace (existsb (Nat.eqb j) (seq 0 (nactions d))) with true; [reflexivity|].
    symmetry. apply existsb_exists. exists j. split; [apply in_seq; unfold n in Hj; lia|apply Nat.eqb_refl].
  Qed.

  Lemma opposite_extreme_inv : Inv d (opposite_extreme d).
  Proof.
    unfold opposite_extreme. destruct (d_limit d) as [[k m]|]; [|now apply fresh_inv].
    unfold init_all. apply (init_all_inv_gen d Hwf); [now apply fresh_inv|].
    intros i Hi. apply in_seq in Hi. lia.
  Qed.

  (* (d) a binding limit: the loops never panic *)
  Lemma binding_no_panic k m picks s :
    d_limit d = Some (k, m) -> limit_binding d = true -> Valid d s -> picks_ok d picks = true ->
    rand_loop_fx d (loop_dir k) picks n true s <> LPanic.
  Proof.
    intros HL Hb HV Hp Hr.
    destruct (rand_loop_fx_panic (loop_dir k) picks n true s HV Hp (count_le_n s _) Hr) as (sf & HVf & Hall).
    unfold limit_binding in Hb. apply negb_true_iff in Hb.
    assert (Valid d (opposite_extreme d)) as [_ V].
    { apply (valid_of_same_active d sf); [assumption|apply opposite_extreme_inv|].
      intros j Hj. unfold opposite_extreme. rewrite HL. rewrite init_all_active by exact Hj.
      exact (proj1 (all_target_spec sf _) Hall j Hj). }
    congruence.
  Qed.

  Definition limit_fine : Prop :=
    match d_limit d with
    | None => True
    | Some _ => state_is_valid d (start_extreme d) = true /\ limit_binding d = true
    end.

  Lemma randomize_fx_ok picks s : limit_fine -> Valid d s -> picks_ok d picks = true -> fairk n n picks ->
    exists s', randomize_fx d picks s = LOk s' /\ Valid d s'.
  Proof.
    unfold limit_fine, randomize_fx. intros HL HV Hp Hf. destruct (d_limit d) as [[k m]|] eqn:L.
    - destruct HL as [_ Hb].
      destruct (rand_loop_fx d (loop_dir k) picks (nactions d) true s) as [s'| |] eqn:R.
      + exists s'. split; [reflexivity|]. eapply rand_loop_fx_valid; eauto.
      + exfalso. exact (binding_no_panic k m picks s L Hb HV Hp R).
      + exfalso. exact (rand_loop_fx_ends (loop_dir k) n picks true s Hf R).
    - exists s. split; [reflexivity|assumption].
  Qed.

  Lemma start_valid : limit_fine -> Valid d (start_extreme d).
  Proof.
    unfold limit_fine. intro HL. split; [apply (start_extreme_inv d Hwf)|].
    destruct (d_limit d) as [[k m]|] eqn:L; [exact (proj1 HL)|].
    apply (state_is_valid_spec d). intro k. now apply within_nolimit.
  Qed.

  (* ---- one run on the catchment model ---- *)
  Definition CInv (c : cstate) : Prop := Valid d (c_cur c) /\ Inv d (c_pot c).

  Lemma c_init_ok picks0 : limit_fine -> picks_ok d picks0 = true -> fairk n n picks0 ->
    exists c, c_init d picks0 = COk c /\ CInv c.
  Proof.
    intros HL Hp Hf. unfold c_init.
    destruct (randomize_fx_ok picks0 (start_extreme d) HL (start_valid HL) Hp Hf) as (s' & -> & HV).
    eexists. split; [reflexivity|]. split; [exact HV|apply (start_extreme_inv d Hwf)].
  Qed.

  Lemma c_iter_ok f c x : limit_fine -> CInv c -> it_ok d x = true -> fairk n n (it_picks x) ->
    exists c', c_iter d f c x = COk c' /\ CInv c'.
  Proof.
    intros HL [HV HI] Hx Hf. unfold it_ok in Hx. apply andb_true_iff in Hx as [Hx Hrtb].
    apply andb_true_iff in Hx as [Hpick Hpicks]. apply Nat.ltb_lt in Hpick.
    unfold c_iter. destruct (single_objective f).
    - eexists. split; [reflexivity|]. split; cbn [c_cur c_pot]; [now apply (kp_iter_valid d Hwf)|assumption].
    - set (pot1 := synchronise d (c_pot c) (active_list d (c_cur c))).
      assert (V1 : Valid d pot1) by (apply (sync_to_valid d Hwf); assumption).
      destruct (randomize_fx_ok (it_picks x) pot1 HL V1 Hpicks Hf) as (pot2 & -> & V2).
      eexists. split; [reflexivity|]. split; cbn [c_cur c_pot]; [|exact (proj1 V2)].
      set (cur1 := if it_move x then synchronise d (c_cur c) (active_list d pot2) else c_cur c).
      assert (Vc1 : Valid d cur1).
      { unfold cur1. destruct (it_move x); [apply (sync_to_valid d Hwf); [exact (proj1 HV)|exact V2]|exact HV]. }
      destruct (it_rtb x) as [base|]; [|exact Vc1].
      apply andb_true_iff in Hrtb as [Hl Hv]. apply Nat.eqb_eq in Hl.
      apply (decompress_valid d Hwf); [exact (proj1 Vc1)|exact Hl|exact Hv].
  Qed.

  Lemma c_iters_ok f : forall inputs c j, limit_fine -> CInv c ->
    Forall (fun x => it_ok d x = true /\ fairk n n (it_picks x)) inputs ->
    snd (c_iters d f c inputs j) = None.
  Proof.
    induction inputs as [|x rest IH]; intros c j HL HC HF; [reflexivity|].
    inversion HF as [|? ? [Hx Hf] HF']; subst. cbn [c_iters].
    destruct (c_iter_ok f c x HL HC Hx Hf) as (c' & -> & HC'). now apply IH.
  Qed.
End Loops.

(* ============================================================================================================ *)
(* 2. load and interpret never panic                                                                             *)
(* ============================================================================================================ *)
Lemma load_never_crashes : forall F c, load F c <> Crash.
Proof.
  intros F c. unfold load. destruct (decode_error F c); [discriminate|].
  destruct ((if c_unknown_keys c then [EUnknownKeys] else []) ++ mandatory_errors F (decoded F c)); discriminate.
Qed.

Lemma nodupb_all_tables T t : forallb (fun t => nodupb (Params.keys t)) (all_tables T) = true -> In t (all_tables T) ->
  nodupb (Params.keys t) = true.
Proof. intros H Hin. exact (proj1 (forallb_forall _ _) H t Hin). Qed.

Lemma getter_present t k ty0 fs vr user :
  nodupb (Params.keys t) = true -> nodupb (map fst user) = true -> key_spec_ok t k ty0 = true ->
  exists v, getter ty0 k (fst (assign fs vr t user)) = Ok v /\ type_of_value v = ty0.
Proof.
  intros Ht Hu Hk. unfold key_spec_ok in Hk. destruct (lookup k t) as [s|] eqn:L; [|discriminate].
  apply andb_true_iff in Hk as [Hk Hd]. apply andb_true_iff in Hk as [Ho Hty].
  apply negb_true_iff in Ho. apply ty_eqb_eq in Hty.
  destruct (nonoptional_present fs vr t user Ht Hu k s L Ho) as [v Hv]. unfold final in Hv.
  pose proof (stored_typed fs vr t user Ht Hu k s v L Hd Hv) as Htv. unfold final in Htv.
  exists v. unfold getter. rewrite Hv, Htv, Hty.
  replace (ty_eqb ty0 ty0) with true by (symmetry; now apply ty_eqb_eq).
  assert (ty0 <> TNone) by (rewrite <- Hty; apply type_of_not_none).
  destruct ty0; try contradiction; simpl; (split; [reflexivity|congruence]).
Qed.

Lemma get_int_ok t k fs vr user :
  nodupb (Params.keys t) = true -> nodupb (map fst user) = true -> key_spec_ok t k TInt = true ->
  exists z, get_int k (fst (assign fs vr t user)) = Ok z.
Proof.
  intros Ht Hu Hk. destruct (getter_present t k TInt fs vr user Ht Hu Hk) as (v & Hg & Hty).
  unfold get_int. rewrite Hg. destruct v; try discriminate. eexists; reflexivity.
Qed.

Lemma get_str_ok t k fs vr user :
  nodupb (Params.keys t) = true -> nodupb (map fst user) = true -> key_spec_ok t k TString = true ->
  exists z, get_str k (fst (assign fs vr t user)) = Ok z.
Proof.
  intros Ht Hu Hk. destruct (getter_present t k TString fs vr user Ht Hu Hk) as (v & Hg & Hty).
  unfold get_str. rewrite Hg. destruct v; try discriminate. eexists; reflexivity.
Qed.

Lemma guarded_getter_ok t k fs vr user :
  nodupb (Params.keys t) = true -> nodupb (map fst user) = true -> guarded_key_ok t k TFloat = true ->
  has_entry k (fst (assign fs vr t user)) = true ->
  exists v, getter TFloat k (fst (assign fs vr t user)) = Ok v.
Proof.
  intros Ht Hu Hk He. unfold has_entry in He. destruct (get k (fst (assign fs vr t user))) as [v|] eqn:G; [|discriminate].
  unfold guarded_key_ok in Hk. destruct (lookup k t) as [s|] eqn:L.
  - apply andb_true_iff in Hk as [Hty Hd]. apply ty_eqb_eq in Hty.
    pose proof (stored_typed fs vr t user Ht Hu k s v L Hd G) as Htv.
    exists v. unfold getter. rewrite G, Htv, Hty. reflexivity.
  - pose proof (unspecified_never_stored fs vr t user Ht Hu k L) as N. unfold final in N. congruence.
Qed.

Lemma first_limit_ok t fs vr user : nodupb (Params.keys t) = true -> nodupb (map fst user) = true ->
  forall ks, forallb (fun kv => guarded_key_ok t (fst kv) TFloat) ks = true ->
  exists r, first_limit ks (fst (assign fs vr t user)) = Ok r.
Proof.
  intros Ht Hu. induction ks as [|[k v] ks IH]; intro H; [eexists; reflexivity|].
  simpl in H. apply andb_true_iff in H as [Hk Hks]. cbn [first_limit].
  destruct (has_entry k (fst (assign fs vr t user))) eqn:He; [|now apply IH].
  destruct (guarded_getter_ok t k fs vr user Ht Hu Hk He) as (x & ->). destruct x; eexists; reflexivity.
Qed.

Section Interpret.
  Variable F : facts.
  Variable T : tables.
  Hypothesis HT : tables_ok T = true.

  Lemma tables_parts :
    forallb (fun t => nodupb (Params.keys t)) (all_tables T) = true /\
    key_spec_ok (t_annealer T) "MaximumIterations" TInt = true /\
    key_spec_ok (t_kp_explorer T) "DecisionVariable" TString = true /\
    forallb (fun kv => guarded_key_ok (t_catchment T) (fst kv) TFloat) limit_keys = true.
  Proof.
    unfold tables_ok in HT. apply andb_true_iff in HT as [H1 H4]. apply andb_true_iff in H1 as [H1 H3].
    apply andb_true_iff in H1 as [H1 H2]. auto.
  Qed.

  Lemma nodup_table t : In t (all_tables T) -> nodupb (Params.keys t) = true.
  Proof. apply nodupb_all_tables. exact (proj1 tables_parts). Qed.

  Lemma annealer_getters_ok E l f : nodupb (map fst (l_annealer_params l)) = true ->
    exists z dv, ab_iterations (interpret_annealer T E l f) = Ok z /\ ab_decision_var (interpret_annealer T E l f) = Ok dv.
  Proof.
    intro Hu. destruct tables_parts as (_ & HMI & HDV & _). unfold interpret_annealer. cbn [ab_iterations ab_decision_var].
    destruct (get_int_ok (t_annealer T) "MaximumIterations" (e_fs E) AssignEnforced (l_annealer_params l)) as [z Hz];
      [apply nodup_table; simpl; auto|exact Hu|exact HMI|].
    exists z. destruct f; cbn [single_objective explorer_table].
    - destruct (get_str_ok (t_kp_explorer T) "DecisionVariable" (e_fs E) AssignEnforced (l_annealer_params l)) as [s Hs];
        [apply nodup_table; simpl; auto|exact Hu|exact HDV|]. exists s. split; assumption.
    - exists "". split; [assumption|reflexivity].
    - exists "". split; [assumption|reflexivity].
  Qed.

  Lemma model_params_shape E l m : interpret_model F T E l = Some m ->
    mb_kind m = MKNull /\ mb_params m = [] \/
    mb_params m = fst (assign (e_fs E) AssignAll (model_table T (mb_kind m)) (l_model_params l)).
  Proof.
    unfold interpret_model. destruct (assoc (l_model_type l) (f_models F)) as [k|]; [|discriminate].
    destruct k; intro H; inversion H; subst; cbn [mb_kind mb_params]; auto.
  Qed.

  Lemma model_first_limit_ok E l m : nodupb (map fst (l_model_params l)) = true -> interpret_model F T E l = Some m ->
    mb_kind m = MKCatchment -> exists r, first_limit limit_keys (mb_params m) = Ok r.
  Proof.
    intros Hu Hm K. destruct tables_parts as (_ & _ & _ & HL).
    destruct (model_params_shape E l m Hm) as [[K' _]| ->]; [congruence|]. rewrite K. cbn [model_table].
    apply first_limit_ok; [apply nodup_table; simpl; auto 10|exact Hu|exact HL].
  Qed.

  Lemma model_part_ok E l : nodupb (map fst (l_model_params l)) = true -> interpret_env_ok F T E l = true ->
    exists mp, interpret_model_part F T E l = Ok mp.
  Proof.
    intros Hu Henv. unfold interpret_model_part, interpret_env_ok in *.
    destruct (interpret_model F T E l) as [m|] eqn:Hm; [|eexists; reflexivity].
    destruct (mb_errors m); [|eexists; reflexivity].
    destruct (mb_kind m) eqn:K; try (eexists; reflexivity).
    - rewrite Henv. eexists; reflexivity.
    - destruct (model_first_limit_ok E l m Hu Hm K) as [lim ->].
      destruct (data_of E m) as [| |d0|sh d0]; try (eexists; reflexivity).
      + destruct (match lim with Some _ => _ | None => false end); eexists; reflexivity.
      + destruct (negb (shape_ok sh)); [eexists; reflexivity|].
        destruct (match lim with Some _ => _ | None => false end); eexists; reflexivity.
  Qed.

  Theorem interpret_never_crashes : forall E l,
    nodupb (map fst (l_annealer_params l)) = true -> nodupb (map fst (l_model_params l)) = true ->
    interpret_env_ok F T E l = true -> interpret F T E l <> Crash.
  Proof.
    intros E l Hua Hum Henv. unfold interpret.
    destruct (model_part_ok E l Hum Henv) as [mp ->].
    destruct (assoc (l_annealer_type l) (f_annealers F)) as [[|f]|]; try discriminate.
    destruct (annealer_getters_ok E l f Hua) as (z & dv & Hz & Hdv). rewrite Hz, Hdv.
    destruct (mp_errs mp ++ _); destruct (mp_model mp); discriminate.
  Qed.
End Interpret.

(* ============================================================================================================ *)
(* 3. what acceptance gives the run                                                                              *)
(* ============================================================================================================ *)
Lemma wf_with_limit d l : wf_dataset (with_limit d l) = wf_dataset d.
Proof. reflexivity. Qed.

Lemma mandatory_none_fires F l : mandatory_errors F l = [] -> forall m, In m (f_mandatory F) -> mfires l m = false.
Proof.
  unfold mandatory_errors. intros H m Hin. destruct (mfires l m) eqn:E; [|reflexivity].
  assert (Hf : In m (filter (mfires l) (f_mandatory F))) by (apply filter_In; auto).
  destruct (filter (mfires l) (f_mandatory F)); [contradiction|discriminate].
Qed.

Lemma load_done F c l : load F c = Done l ->
  l = decoded F c /\ mandatory_errors F l = [].
Proof.
  unfold load. destruct (decode_error F c); [discriminate|].
  destruct ((if c_unknown_keys c then [EUnknownKeys] else []) ++ mandatory_errors F (decoded F c)) eqn:E; [|discriminate].
  intro H. inversion H; subst. split; [reflexivity|]. now apply app_eq_nil in E.
Qed.

(* from the loader's checks: at least one run, fewer than 2^63 (no negative TOML integer), a positive reporting modulo *)
Lemma accepted_counts F c l : facts_ok F = true -> load F c = Done l ->
  (1 <= l_run_number l < two63)%Z /\ (1 <= l_report_every l)%Z.
Proof.
  intros HF HL. destruct (load_done F c l HL) as [_ Hm].
  unfold facts_ok in HF. apply andb_true_iff in HF as [HF _]. apply andb_true_iff in HF as [HF _].
  apply andb_true_iff in HF as [HF H2]. apply andb_true_iff in HF as [H1 H3].
  apply existsb_exists in H1 as (m1 & In1 & R1). apply existsb_exists in H2 as (m2 & In2 & R2).
  apply existsb_exists in H3 as (m3 & In3 & R3).
  pose proof (mandatory_none_fires F l Hm m1 In1) as F1. pose proof (mandatory_none_fires F l Hm m2 In2) as F2.
  pose proof (mandatory_none_fires F l Hm m3 In3) as F3.
  destruct m1 as [|p1 k1| |]; try discriminate. destruct m2 as [|p2 k2| |]; try discriminate.
  destruct m3 as [| |p3 k3|]; try discriminate.
  cbn [requires_at_least_one refuses_negative] in R1, R2, R3.
  apply andb_true_iff in R1 as [P1 K1]. apply andb_true_iff in R2 as [P2 K2]. apply andb_true_iff in R3 as [P3 K3].
  apply String.eqb_eq in P1. apply String.eqb_eq in P2. apply String.eqb_eq in P3. subst p1 p2 p3.
  cbn in F1, F2, F3. apply Z.ltb_ge in F1. apply Z.ltb_ge in F2. apply Z.ltb_ge in F3.
  apply Z.leb_le in K1. apply Z.leb_le in K2. apply Z.ltb_lt in K3. lia.
Qed.

(* from the interpreter's checks (C19-4 .. C19-12): what an accepted scenario looks like *)
Definition accepted_shape (E : env) (l : loaded) (sc : scenario) : Prop :=
  s_runs sc = l_run_number l /\ s_modulo sc = l_report_every l /\
  (single_objective (s_family sc) = true -> offers (s_mkind sc) (s_decision_var sc) = true) /\
  (s_mkind sc = MKCatchment ->
     exists d0, s_data sc = DataOk d0 /\
                match s_limit sc with Some _ => limit_binding (with_limit d0 (s_limit sc)) = true | None => True end) /\
  e_out_is_file E (l_output_path l) = false /\
  (s_otype sc = "EXCEL" -> e_excel E = true) /\
  (s_profile sc <> "" -> e_profile_dir_ok E (s_profile sc) = true) /\
  (* C19c-2, C19c-3: the profile file is neither in the way of the output directory nor one of the model's data files *)
  s_out_path sc = effective_output_path (l_output_path l) /\
  profile_blocks_output (e_cwd E) (s_profile sc) (l_output_path l) = false /\
  profile_overwrites_input E l (s_mkind sc) (s_model_params sc) = false.

Lemma model_part_usable F T E l mp m : interpret_model_part F T E l = Ok mp -> mp_model mp = Some m ->
  match mb_kind m with
  | MKCatchment => exists d0, mp_data mp = DataOk d0 /\
                     match mp_limit mp with Some _ => limit_binding (with_limit d0 (mp_limit mp)) = true | None => True end
  | _ => True
  end.
Proof.
  unfold interpret_model_part. destruct (interpret_model F T E l) as [m0|]; [|intro H; inversion H; subst; discriminate].
  destruct (mb_errors m0); [|intro H; inversion H; subst; discriminate].
  destruct (mb_kind m0) eqn:K.
  - intros H Hm. inversion H; subst. cbn in Hm. inversion Hm; subst. now rewrite K.
  - intros H Hm. inversion H; subst. cbn in Hm. inversion Hm; subst. now rewrite K.
  - destruct (e_round_ok E (mb_params m0)); [|discriminate].
    intros H Hm. inversion H; subst. cbn in Hm. inversion Hm; subst. now rewrite K.
  - destruct (first_limit limit_keys (mb_params m0)) as [lim|]; [|discriminate].
    destruct (data_of E m0) as [| |d0|sh d0]; try (intros H Hm; inversion H; subst; discriminate).
    + destruct lim as [lm|].
      * destruct (limit_binding (with_limit d0 (Some lm))) eqn:B; cbn [negb];
          intros H Hm; inversion H; subst; cbn in Hm; [|discriminate].
        inversion Hm; subst. rewrite K. exists d0. cbn. auto.
      * intros H Hm. inversion H; subst. cbn in Hm. inversion Hm; subst. rewrite K. exists d0. cbn. auto.
    + destruct (shape_ok sh); cbn [negb]; [|intros H Hm; inversion H; subst; discriminate].
      destruct lim as [lm|].
      * destruct (limit_binding (with_limit d0 (Some lm))) eqn:B; cbn [negb];
          intros H Hm; inversion H; subst; cbn in Hm; [|discriminate].
        inversion Hm; subst. rewrite K. exists d0. cbn. auto.
      * intros H Hm. inversion H; subst. cbn in Hm. inversion Hm; subst. rewrite K. exists d0. cbn. auto.
Qed.

(* a catchment data source given by its tables is only accepted when the tables agree with each other (C19c-4) *)
Lemma model_part_tables_sound F T E l mp m sh d0 : interpret_model_part F T E l = Ok mp -> mp_model mp = Some m ->
  (exists m0, interpret_model F T E l = Some m0 /\ mb_kind m0 = MKCatchment /\ data_of E m0 = DataTables sh d0) ->
  shape_ok sh = true.
Proof.
  intros H Hm (m0 & I & K & D). unfold interpret_model_part in H. rewrite I in H.
  destruct (mb_errors m0); [|inversion H; subst; discriminate].
  rewrite K in H. destruct (first_limit limit_keys (mb_params m0)) as [lim|]; [|discriminate].
  rewrite D in H. destruct (shape_ok sh); [reflexivity|]. cbn [negb] in H. inversion H; subst. discriminate.
Qed.

Lemma interpret_done F T E l sc : interpret F T E l = Done sc -> accepted_shape E l sc.
Proof.
  unfold interpret.
  destruct (interpret_model_part F T E l) as [mp|] eqn:MP; [|discriminate].
  destruct (assoc (l_annealer_type l) (f_annealers F)) as [[|f]|]; try discriminate.
  destruct (ab_iterations (interpret_annealer T E l f)) as [n|]; [|discriminate].
  destruct (ab_decision_var (interpret_annealer T E l f)) as [dv|]; [|discriminate].
  destruct (mp_errs mp ++ ab_errors (interpret_annealer T E l f)
            ++ decision_variable_errors mp (interpret_annealer T E l f) dv ++ scenario_errors F E l ++ input_errors E l mp) eqn:ES; [|discriminate].
  destruct (mp_model mp) as [m|] eqn:MM; [|discriminate].
  intro H. inversion H; subst. clear H.
  apply app_eq_nil in ES as [_ ES]. apply app_eq_nil in ES as [EA ES]. apply app_eq_nil in ES as [EDV ESC].
  apply app_eq_nil in ESC as [ESC EIN].
  unfold accepted_shape. cbn [s_runs s_modulo s_family s_mkind s_decision_var s_data s_limit s_out_path s_otype s_profile s_model_params].
  split; [reflexivity|]. split; [reflexivity|].
  split.
  { intro SO. unfold decision_variable_errors in EDV. rewrite MM, EA in EDV.
    assert (ab_family (interpret_annealer T E l f) = f) by reflexivity. rewrite H, SO in EDV. cbn in EDV.
    destruct (offers (mb_kind m) dv); [reflexivity|discriminate]. }
  split.
  { intro K. pose proof (model_part_usable F T E l mp m MP MM) as U. rewrite K in U. exact U. }
  unfold scenario_errors in ESC.
  apply app_eq_nil in ESC as [_ ESC]. apply app_eq_nil in ESC as [_ ESC]. apply app_eq_nil in ESC as [E1 ESC].
  apply app_eq_nil in ESC as [E2 ESC]. apply app_eq_nil in ESC as [E3 E4].
  split; [destruct (e_out_is_file E (l_output_path l)); [discriminate|reflexivity]|].
  split.
  { intro X. rewrite X in E2. cbn in E2. destruct (e_excel E); [reflexivity|discriminate]. }
  split.
  { intro X. destruct (l_cpu_profile l =? "") eqn:Q; [apply String.eqb_eq in Q; contradiction|].
    cbn in E3. destruct (e_profile_dir_ok E (l_cpu_profile l)); [reflexivity|discriminate]. }
  split; [reflexivity|].
  split.
  { destruct (profile_blocks_output (e_cwd E) (l_cpu_profile l) (l_output_path l)); [discriminate|reflexivity]. }
  unfold input_errors in EIN. rewrite MM in EIN.
  destruct (profile_overwrites_input E l (mb_kind m) (mb_params m)); [discriminate|reflexivity].
Qed.

Lemma offers_exists k name : offers k name = true -> variable_exists k name = true.
Proof. destruct k; simpl; auto. Qed.

(* ---- the observers never panic once the modulo is positive ---- *)
Lemma observers_fine sc e cur : (1 <= s_modulo sc)%Z -> observers_ok sc e cur = true.
Proof.
  intro Hm. unfold observers_ok, observe.
  assert (Z0 : (s_modulo sc =? 0)%Z = false) by (apply Z.eqb_neq; lia).
  destruct (s_family sc), e, (s_check_invariant sc), (s_annealing_discarded sc); cbn; try reflexivity;
    rewrite ?Z0; repeat match goal with |- context [if ?b then _ else _] => destruct b end; reflexivity.
Qed.

(* ---- C07: no fault in any iteration => the annealer finishes ---- *)
Lemma elapsed_finishes N script T0 a : (forall j, (1 <= j <= N)%nat -> script j = StepOk) ->
  result (anneal_elapsed N script T0 a) = Finished.
Proof.
  intro H. unfold anneal_elapsed.
  destruct (elapsed_run InitOk 0 N script T0 a) as (E & _). cbv zeta in E. rewrite E.
  exact (proj2 (proj2 (proj2 (proj2 (proj2 (proj2 (counts_no_fault N script T0 a H))))))).
Qed.

(* ---- C12: the saver's JSON set name is defined ---- *)
Lemma json_name_ok name R r : no_nl name = true -> is_ok (json_set_name (as_is_id (run_id name R r))) = true.
Proof.
  intro H. rewrite as_is_id_key. rewrite json_set_name_key; [reflexivity|now apply no_nl_run_id|reflexivity].
Qed.

(* ============================================================================================================ *)
(* 4. accepted => every run completes                                                                            *)
(* ============================================================================================================ *)
Lemma run_tail_completes E sc r T0 a :
  (1 <= s_modulo sc)%Z ->
  (single_objective (s_family sc) = true -> offers (s_mkind sc) (s_decision_var sc) = true) ->
  e_out_usable E (s_out_path sc) = true ->
  (s_otype sc = "EXCEL" -> e_excel E = true) ->
  no_nl (s_name sc) = true ->
  match s_mkind sc with MKDumb => dumb_round_ok (s_model_params sc) | _ => true end = true ->
  e_file_creatable E (summary_name sc r) = true ->
  run_tail E sc r None T0 a = R1Files (summary_name sc r).
Proof.
  intros Hm Hv Hout Hx Hn Hd Hf. unfold run_tail.
  assert (V : single_objective (s_family sc) && negb (variable_exists (s_mkind sc) (s_decision_var sc)) = false).
  { destruct (single_objective (s_family sc)); simpl in *; [now rewrite (offers_exists _ _ (Hv eq_refl))|reflexivity]. }
  rewrite V.
  replace (match s_mkind sc with MKDumb => negb (dumb_round_ok (s_model_params sc)) | _ => false end) with false
    by (destruct (s_mkind sc); try reflexivity; now rewrite Hd).
  rewrite !(observers_fine sc _ _ Hm). cbn [negb].
  rewrite elapsed_finishes by (intros j _; rewrite !(observers_fine sc _ _ Hm); reflexivity).
  rewrite Hout. cbn [negb].
  unfold save_file. rewrite Hf. unfold summary_name.
  destruct (encoder_of (s_otype sc)) eqn:EN; try reflexivity.
  - unfold summary_key. now rewrite (json_name_ok _ _ _ Hn).
  - assert (X : s_otype sc = "EXCEL").
    { unfold encoder_of in EN. destruct (s_otype sc =? "JSON"); [discriminate|].
      destruct ((s_otype sc =? "CSV") || (s_otype sc =? "")); [discriminate|].
      destruct (s_otype sc =? "EXCEL") eqn:Q; [now apply String.eqb_eq in Q|discriminate]. }
    now rewrite (Hx X).
Qed.

Lemma Forall_firstn {A} (P : A -> Prop) (l : list A) k : Forall P l -> Forall P (firstn k l).
Proof. revert l. induction k as [|k IH]; intros l H; [constructor|]. destruct l; [constructor|]. inversion H; subst. constructor; auto. Qed.

Definition files_creatable (E : env) (sc : scenario) (r : nat) : Prop := e_file_creatable E (summary_name sc r) = true.

Lemma preconditions_parts E sc : run_preconditions E sc = true ->
  match s_mkind sc, s_data sc with
  | MKCatchment, DataOk d0 => wf_dataset d0 && limit_attainable d0 (s_limit sc)
  | _, _ => true
  end = true /\
  e_out_usable E (s_out_path sc) = true /\
  (forall r, In r (seq 1 (Z.to_nat (s_runs sc))) -> files_creatable E sc r) /\
  match s_mkind sc with MKDumb => dumb_round_ok (s_model_params sc) | _ => true end = true /\
  ((s_profile sc =? "") || e_profile_ok E (s_profile sc)) = true /\
  no_nl (s_name sc) = true.
Proof.
  intro Hp. unfold run_preconditions in Hp.
  repeat match type of Hp with (_ && _ = true) => let H := fresh "P" in apply andb_true_iff in Hp as [Hp H] end.
  repeat split; try assumption.
  intros r Hr. unfold files_creatable. rewrite forallb_forall in P2. now apply P2.
Qed.

Lemma run_one_completes E l sc r ch T0 a :
  (1 <= s_modulo sc)%Z -> accepted_shape E l sc -> run_preconditions E sc = true ->
  match dataset_of sc with Some d => choice_ok d ch | None => True end ->
  files_creatable E sc r ->
  run_one E sc r ch T0 a = R1Files (summary_name sc r).
Proof.
  intros Hm (_ & _ & Hv & Hd & _ & Hx & _) Hp Hc Hf.
  destruct (preconditions_parts E sc Hp) as (Hdata & Hout & _ & Hdumb & _ & Hn).
  unfold run_one, dataset_of in *.
  destruct (s_mkind sc) eqn:K; try (apply run_tail_completes; rewrite ?K; assumption).
  destruct (Hd eq_refl) as (d0 & D & B). rewrite D in *.
  apply andb_true_iff in Hdata as [Hwf0 Hatt].
  set (d := with_limit d0 (s_limit sc)) in *.
  assert (Hwf : wf_dataset d = true) by (unfold d; now rewrite wf_with_limit).
  assert (HL : limit_fine d).
  { unfold limit_fine, d. cbn [with_limit d_limit]. unfold limit_attainable in Hatt. destruct (s_limit sc); [|exact I].
    split; assumption. }
  destruct Hc as (Hp0 & Hf0 & Hit).
  destruct (c_init_ok d Hwf (ch_picks0 ch) HL Hp0 Hf0) as (c & -> & HC).
  rewrite (c_iters_ok d Hwf (s_family sc) _ c 1%nat HL HC (Forall_firstn _ _ _ Hit)).
  apply run_tail_completes; rewrite ?K; assumption.
Qed.

Lemma run_all_completes E sc choices T0 a : forall rs,
  (forall r, In r rs -> run_one E sc r (choices r) T0 a = R1Files (summary_name sc r)) ->
  run_all E sc choices T0 a rs = Completed (map (summary_name sc) rs).
Proof.
  induction rs as [|r rs IH]; intro H; [reflexivity|].
  cbn [run_all map]. rewrite (H r) by (left; reflexivity). rewrite IH by (intros; apply H; now right). reflexivity.
Qed.

Lemma app_inv_tail_s : forall a b c : string, (a ++ c = b ++ c)%string -> a = b.
Proof.
  induction a as [|x a IH]; intros [|y b] c H; cbn in H.
  - reflexivity.
  - apply (f_equal String.length) in H. cbn in H. rewrite length_app_s in H. lia.
  - apply (f_equal String.length) in H. cbn in H. rewrite length_app_s in H. lia.
  - injection H as -> H. now rewrite (IH b c H).
Qed.

(* ---- one result per run, DISTINCT per run: with several runs two runs never share a summary file, whatever the scenario name ---- *)
Lemma summary_name_inj sc r1 r2 : writes_files sc = true -> (1 < Z.to_nat (s_runs sc))%nat ->
  summary_name sc r1 = summary_name sc r2 -> r1 = r2.
Proof.
  unfold writes_files, summary_name, summary_key. intros W HR H.
  assert (ER : (1 < effective_runs (Z.to_nat (s_runs sc)))%nat).
  { unfold effective_runs. destruct (Z.to_nat (s_runs sc) =? 0)%nat eqn:Q; [apply Nat.eqb_eq in Q; lia|exact HR]. }
  destruct (encoder_of (s_otype sc)); try discriminate.
  - apply (summary_stem_inj (s_name sc) (Z.to_nat (s_runs sc))); [exact ER|].
    apply (f_equal (fun x => String.length x)) in H as HL.
    revert H. generalize (file_stem (as_is_id (run_id (s_name sc) (Z.to_nat (s_runs sc)) r1))) as x.
    generalize (file_stem (as_is_id (run_id (s_name sc) (Z.to_nat (s_runs sc)) r2))) as y. intros y x H.
    now apply app_inv_tail_s in H.
  - apply (summary_stem_inj (s_name sc) (Z.to_nat (s_runs sc))); [exact ER|].
    revert H. generalize (file_stem (as_is_id (run_id (s_name sc) (Z.to_nat (s_runs sc)) r1))) as x.
    generalize (file_stem (as_is_id (run_id (s_name sc) (Z.to_nat (s_runs sc)) r2))) as y. intros y x H.
    now apply app_inv_tail_s in H.
Qed.

Lemma NoDup_map_in {A B} (f : A -> B) (l : list A) :
  (forall x y, In x l -> In y l -> f x = f y -> x = y) -> NoDup l -> NoDup (map f l).
Proof.
  intros Hinj Hnd. induction Hnd as [|x l Hx Hnd IH]; [constructor|].
  cbn [map]. constructor.
  - intro Hin. apply in_map_iff in Hin as (y & E & Hy).
    assert (y = x) by (apply Hinj; [now right|now left|exact E]). subst y. contradiction.
  - apply IH. intros a b Ha Hb. apply Hinj; now right.
Qed.

Lemma summaries_distinct sc : writes_files sc = true -> NoDup (map (summary_name sc) (seq 1 (Z.to_nat (s_runs sc)))).
Proof.
  intro W. destruct (Nat.le_gt_cases (Z.to_nat (s_runs sc)) 1) as [Hle|Hgt].
  - destruct (Z.to_nat (s_runs sc)) as [|[|n]]; [constructor|cbn; constructor; [intros []|constructor]|lia].
  - apply NoDup_map_in; [|apply seq_NoDup].
    intros x y _ _ H. now apply (summary_name_inj sc).
Qed.

Theorem accepted_runs : forall F T, facts_ok F = true -> tables_ok T = true ->
  forall E c l sc choices T0 a,
  load F c = Done l -> interpret F T E l = Done sc ->
  run_preconditions E sc = true -> choices_ok sc choices ->
  exists summaries, run_model E sc choices T0 a = Completed summaries /\ List.length summaries = Z.to_nat (l_run_number l)
                    /\ (1 <= l_run_number l)%Z
                    /\ summaries = map (summary_name sc) (seq 1 (Z.to_nat (l_run_number l)))
                    /\ (writes_files sc = true -> NoDup summaries).
Proof.
  intros F T HF HT E c l sc choices T0 a HL HI HP HC.
  destruct (accepted_counts F c l HF HL) as [HR HM].
  pose proof (interpret_done F T E l sc HI) as SH. destruct SH as (ER & EM & SH').
  destruct (preconditions_parts E sc HP) as (_ & _ & Hfiles & _ & Hprof & _).
  unfold run_model.
  replace (negb (s_profile sc =? "") && negb (e_profile_ok E (s_profile sc))) with false
    by (destruct (s_profile sc =? ""); simpl in *; [reflexivity|now rewrite Hprof]).
  replace (two63 <=? s_runs sc)%Z with false by (symmetry; apply Z.leb_gt; rewrite ER; lia).
  rewrite (run_all_completes E sc choices T0 a (seq 1 (Z.to_nat (s_runs sc)))).
  - exists (map (summary_name sc) (seq 1 (Z.to_nat (s_runs sc)))). rewrite map_length, seq_length, <- ER.
    repeat split; try reflexivity; [lia|]. intro W. now apply summaries_distinct.
  - intros r Hr. apply (run_one_completes E l); [rewrite EM; exact HM|exact (conj ER (conj EM SH'))|exact HP| |now apply Hfiles].
    unfold choices_ok in HC. destruct (dataset_of sc); [apply HC|exact I].
Qed.
