(* Lemmas for C13: the engine model on the table of a marshalled summary. *)
From Coq Require Import List String Ascii QArith ZArith Bool Arith Lia.
From Crem Require Import Base.Res CsvTable CsvTableProofs GoCast GoCastProofs SummaryRoundTrip.
From Crem Require BoolArchive BoolArchiveProofs.
Import ListNotations.
Local Open Scope string_scope.
Local Open Scope nat_scope.
Local Notation len := List.length.

(* ---------- generic loops ---------- *)

Lemma all_res_ok_map : forall A (p : A -> bool) l,
  all_res (map (fun x => Ok (p x)) l) = Ok (forallb p l).
Proof.
  intros A p l; induction l as [|x l IH]; cbn [map all_res forallb]; [reflexivity|].
  cbn [res_bind]. rewrite IH. reflexivity.
Qed.

Lemma all_res_early_ok_map : forall A (p : A -> bool) l,
  all_res_early (map (fun x => Ok (p x)) l) = Ok (forallb p l).
Proof.
  intros A p l; induction l as [|x l IH]; cbn [map all_res_early forallb]; [reflexivity|].
  cbn [res_bind]. destruct (p x); cbn [andb]; [exact IH|reflexivity].
Qed.

Lemma any_res_early_ok_map : forall A (p : A -> bool) l,
  any_res_early (map (fun x => Ok (p x)) l) = Ok (existsb p l).
Proof.
  intros A p l; induction l as [|x l IH]; cbn [map any_res_early existsb]; [reflexivity|].
  cbn [res_bind]. destruct (p x); cbn [orb]; [reflexivity|exact IH].
Qed.

Lemma find_unique : forall A (p : A -> bool) l x,
  In x l -> p x = true -> (forall y, In y l -> p y = true -> y = x) -> find p l = Some x.
Proof.
  intros A p l x; induction l as [|a l IH]; intros Hin Hp Hu; [destruct Hin|].
  cbn [find]. destruct (p a) eqn:Ea.
  - f_equal. apply Hu; [left; reflexivity|exact Ea].
  - destruct Hin as [->|Hin]; [congruence|].
    apply IH; [exact Hin|exact Hp|]. intros y Hy Hpy. apply Hu; [right; exact Hy|exact Hpy].
Qed.

Lemma nth_error_combine : forall A B (l1 : list A) (l2 : list B) i a b,
  nth_error l1 i = Some a -> nth_error l2 i = Some b -> nth_error (combine l1 l2) i = Some (a, b).
Proof.
  intros A B l1; induction l1 as [|x l1 IH]; intros l2 i a b H1 H2; destruct i; cbn in H1; try discriminate.
  - destruct l2 as [|y l2]; cbn in H2; [discriminate|]. injection H1 as <-. injection H2 as <-. reflexivity.
  - destruct l2 as [|y l2]; cbn in H2; [discriminate|]. cbn. apply IH; assumption.
Qed.

Lemma nodup_labels_notin : forall x l, nodup_labels (x :: l) = true -> forall y, In y l -> String.eqb x y = false.
Proof.
  intros x l H y Hy. cbn [nodup_labels] in H. apply andb_prop in H. destruct H as [H _].
  apply negb_true_iff in H. destruct (String.eqb x y) eqn:E; [|reflexivity].
  exfalso. assert (Hex : existsb (String.eqb x) l = true) by (apply existsb_exists; exists y; split; assumption).
  congruence.
Qed.

Lemma nodup_labels_unique : forall l i j x, nodup_labels l = true ->
  nth_error l i = Some x -> nth_error l j = Some x -> i = j.
Proof.
  intros l; induction l as [|a l IH]; intros i j x Hn Hi Hj; [destruct i; discriminate|].
  pose proof (nodup_labels_notin a l Hn) as Hnot.
  cbn [nodup_labels] in Hn. apply andb_prop in Hn. destruct Hn as [_ Hn].
  destruct i as [|i]; destruct j as [|j]; cbn in Hi, Hj.
  - reflexivity.
  - injection Hi as Hax. apply nth_error_In in Hj. specialize (Hnot x Hj). rewrite Hax, String.eqb_refl in Hnot. discriminate.
  - injection Hj as Hax. apply nth_error_In in Hi. specialize (Hnot x Hi). rewrite Hax, String.eqb_refl in Hnot. discriminate.
  - f_equal. apply (IH i j x Hn Hi Hj).
Qed.

Lemma assoc_nodup : forall A (l : list (string * A)) i k v, nodup_labels (map fst l) = true ->
  nth_error l i = Some (k, v) -> assoc k l = Some v.
Proof.
  intros A l; induction l as [|[k' v'] l IH]; intros i k v Hn Hi; [destruct i; discriminate|].
  cbn [assoc]. destruct i as [|i]; cbn in Hi.
  - injection Hi as -> ->. rewrite String.eqb_refl. reflexivity.
  - cbn [map fst] in Hn. pose proof (nodup_labels_notin k' (map fst l) Hn k) as Hnot.
    assert (Hin : In k (map fst l)).
    { apply nth_error_In in Hi. apply in_map_iff. exists (k, v). split; [reflexivity|exact Hi]. }
    specialize (Hnot Hin). rewrite String.eqb_sym in Hnot. rewrite Hnot.
    cbn [nodup_labels] in Hn. apply andb_prop in Hn. destruct Hn as [_ Hn]. apply (IH i k v Hn Hi).
Qed.

Definition drow : srow := mkRow "" [] "" "".

(* ---------- the table of a marshalled summary ---------- *)

Section Summary.
  Variable nw : nat.
  Variable cast : caster.
  Variable fmt : num -> string.
  Variable asis : list (string * num).
  Hypothesis Hcast : cast_agrees cast.

  Definition names : list string := map fst asis.
  Definition nv : nat := len asis.

  Definition cells_of (sm : list srow) : list (list cellv) :=
    map (fun r => map (to_base cast) (row_fields r)) sm.

  Definition summary_table (sm : list srow) : table :=
    mkTable (header_fields names) (nv + 3) (cells_of sm) (map row_fields sm).

  Lemma len_names : len names = nv.
  Proof. unfold names, nv. apply map_length. Qed.

  Lemma len_header : len (header_fields names) = nv + 3.
  Proof. unfold header_fields. cbn [len]. rewrite app_length, len_names. cbn [len]. lia. Qed.

  Lemma len_row_fields : forall r, len (r_values r) = nv -> len (row_fields r) = nv + 3.
  Proof. intros r H. unfold row_fields. cbn [len]. rewrite app_length, H. cbn [len]. lia. Qed.

  Lemma loads_summary : forall sm, (forall r, In r sm -> len (r_values r) = nv) ->
    parse_csv_text_into_table cast (CsvRecords (marshal_records names sm)) = Ok (Loaded (summary_table sm)).
  Proof.
    intros sm Hall. unfold marshal_records. cbn [parse_csv_text_into_table].
    rewrite derive_table_rectangular.
    - cbn [res_bind]. unfold summary_table. rewrite len_header. do 2 f_equal.
      assert (Hfirst : forall r, In r sm -> firstn (nv + 3) (row_fields r) = row_fields r).
      { intros r Hin. apply firstn_all2. rewrite (len_row_fields r (Hall r Hin)). lia. }
      f_equal.
      + unfold cast_rows, cells_of. rewrite map_map. apply map_ext_in. intros r Hin. rewrite (Hfirst r Hin). reflexivity.
      + unfold text_rows. rewrite map_map. apply map_ext_in. intros r Hin. apply (Hfirst r Hin).
    - cbn [rectangular]. apply forallb_forall. intros x Hx. apply in_map_iff in Hx.
      destruct Hx as [r [<- Hin]]. apply Nat.eqb_eq. rewrite (len_row_fields r (Hall r Hin)), len_header. reflexivity.
  Qed.

  Lemma dims_summary : forall sm, column_and_row_size (summary_table sm) = Ok (nv + 3, len sm).
  Proof. intros sm. unfold column_and_row_size, summary_table, cells_of. cbn [t_colnum t_cells]. rewrite map_length. reflexivity. Qed.

  Lemma cell_summary : forall sm row r col f, nth_error sm row = Some r -> nth_error (row_fields r) col = Some f ->
    cell (summary_table sm) col row = Ok (to_base cast f).
  Proof.
    intros sm row r col f Hr Hf. unfold cell, summary_table, cells_of. cbn [t_cells].
    unfold index. rewrite nth_error_map, Hr. cbn [option_map res_bind].
    rewrite nth_error_map, Hf. reflexivity.
  Qed.

  (* CellString: the field itself, whatever it was cast to *)
  Lemma cell_string_summary : forall sm row r col f, nth_error sm row = Some r -> nth_error (row_fields r) col = Some f ->
    cell_string fmt (summary_table sm) col row = Ok f.
  Proof.
    intros sm row r col f Hr Hf. unfold cell_string, summary_table. cbn [t_text].
    rewrite nth_error_map, Hr. cbn [option_map]. rewrite Hf. reflexivity.
  Qed.

  (* positions of the fields *)
  Lemma field_label : forall r, nth_error (row_fields r) 0 = Some (r_label r).
  Proof. reflexivity. Qed.

  Lemma field_value : forall r i, i < len (r_values r) ->
    nth_error (row_fields r) (S i) = nth_error (r_values r) i.
  Proof.
    intros r i H. unfold row_fields.
    change (nth_error (r_values r ++ [r_enc r; r_note r]) i = nth_error (r_values r) i).
    apply nth_error_app1. exact H.
  Qed.

  Lemma field_enc : forall r, len (r_values r) = nv -> nth_error (row_fields r) (S nv) = Some (r_enc r).
  Proof.
    intros r H. unfold row_fields.
    change (nth_error (r_values r ++ [r_enc r; r_note r]) nv = Some (r_enc r)).
    rewrite nth_error_app2 by lia. rewrite H, Nat.sub_diag. reflexivity.
  Qed.

  Lemma field_note : forall r, len (r_values r) = nv -> nth_error (row_fields r) (S (S nv)) = Some (r_note r).
  Proof.
    intros r H. unfold row_fields.
    change (nth_error (r_values r ++ [r_enc r; r_note r]) (S nv) = Some (r_note r)).
    rewrite nth_error_app2 by lia. rewrite H.
    replace (S nv - nv) with 1 by lia. reflexivity.
  Qed.

  Lemma header_0 : index (header_fields names) 0 = Ok "Solution".
  Proof. reflexivity. Qed.

  Lemma header_name : forall i, i < nv -> nth_error (header_fields names) (S i) = nth_error names i.
  Proof.
    intros i H. unfold header_fields.
    change (nth_error (names ++ ["Actions"; "Summary"]) i = nth_error names i).
    apply nth_error_app1. rewrite len_names. exact H.
  Qed.

  Lemma header_actions : nth_error (header_fields names) (S nv) = Some "Actions".
  Proof.
    unfold header_fields.
    change (nth_error (names ++ ["Actions"; "Summary"]) nv = Some "Actions").
    rewrite nth_error_app2 by (rewrite len_names; lia).
    rewrite len_names, Nat.sub_diag. reflexivity.
  Qed.

  Lemma header_summary : nth_error (header_fields names) (S (S nv)) = Some "Summary".
  Proof.
    unfold header_fields.
    change (nth_error (names ++ ["Actions"; "Summary"]) (S nv) = Some "Summary").
    rewrite nth_error_app2 by (rewrite len_names; lia).
    rewrite len_names. replace (S nv - nv) with 1 by lia. reflexivity.
  Qed.

  (* what the caster makes of the fields *)
  Lemma text_cell : forall f, is_text f = true -> to_base cast f = VStr f.
  Proof.
    intros f H. unfold is_text in H. destruct (go_cast f) as [[x|b|]|] eqn:E; try discriminate.
    unfold to_base. rewrite (Hcast f TText E). reflexivity.
  Qed.

  Lemma number_cell : forall f, is_number f = true -> exists x, go_cast f = Some (TNum x) /\ to_base cast f = VNum x.
  Proof.
    intros f H. unfold is_number in H. destruct (go_cast f) as [[x|b|]|] eqn:E; try discriminate.
    exists x. split; [reflexivity|]. unfold to_base. rewrite (Hcast f (TNum x) E). reflexivity.
  Qed.

  (* ---------- unpacking well-formedness ---------- *)

  Lemma row_ok_parts : forall r, row_ok nw nv r = true ->
    actions_decodable nw (r_enc r) = true /\
    len (r_values r) = nv /\ is_text (r_note r) = true /\
    forallb is_number (r_values r) = true /\ actions_pattern_ok (r_enc r) = true.
  Proof.
    intros r H. unfold row_ok in H.
    apply andb_prop in H. destruct H as [Hdec H]. unfold row_shape_ok in H.
    apply andb_prop in H. destruct H as [H Hhex].
    apply andb_prop in H. destruct H as [H Hnum].
    apply andb_prop in H. destruct H as [Hlen Htext].
    apply Nat.eqb_eq in Hlen. unfold actions_pattern_ok. repeat split; assumption.
  Qed.

  Lemma row_ok_inv : forall r, row_ok nw nv r = true ->
    len (r_values r) = nv /\ is_text (r_note r) = true /\
    forallb is_number (r_values r) = true /\ actions_pattern_ok (r_enc r) = true.
  Proof. intros r H. apply (proj2 (row_ok_parts r H)). Qed.

  Lemma row_ok_decodable : forall r, row_ok nw nv r = true -> actions_decodable nw (r_enc r) = true.
  Proof. intros r H. apply (proj1 (row_ok_parts r H)). Qed.

  Record wf_facts (sm : list srow) : Prop := {
    wf_nonempty : sm <> [];
    wf_label0 : r_label (hd drow sm) = "As-Is";
    wf_asis : asis_values_match asis (hd drow sm) = true;
    wf_rows : forall r, In r sm -> row_ok nw nv r = true;
    wf_nodup : nodup_labels (map r_label sm) = true;
    wf_names : forall p, In p asis -> reserved_heading (fst p) = false;
    wf_names_nodup : nodup_labels (map fst asis) = true }.

  Lemma wf_summary_inv : forall sm, wf_summary nw asis sm = true -> wf_facts sm.
  Proof.
    intros [|r0 rest] H; cbn [wf_summary] in H; [discriminate|].
    repeat (apply andb_prop in H; destruct H as [H ?]).
    apply String.eqb_eq in H.
    constructor; cbn [hd]; try assumption.
    - discriminate.
    - intros r Hin. match goal with Hf : forallb (row_ok _ _) _ = true |- _ => rewrite forallb_forall in Hf; apply Hf; exact Hin end.
    - intros p Hin. match goal with Hf : forallb (fun p => negb (reserved_heading (fst p))) _ = true |- _ =>
        rewrite forallb_forall in Hf; specialize (Hf p Hin); apply negb_true_iff in Hf; exact Hf end.
  Qed.

  Lemma row0 : forall sm, wf_facts sm -> nth_error sm 0 = Some (hd drow sm).
  Proof. intros [|r0 rest] W; [exfalso; apply (wf_nonempty _ W); reflexivity|reflexivity]. Qed.

  Lemma wf_lengths : forall sm, wf_facts sm -> forall r, In r sm -> len (r_values r) = nv.
  Proof. intros sm W r Hin. apply row_ok_inv. apply (wf_rows sm W). exact Hin. Qed.

  (* ---------- the cells of a well-formed summary ---------- *)

  Variable sm : list srow.
  Hypothesis W : wf_facts sm.
  Let t := summary_table sm.

  Lemma label_cell : forall row r, nth_error sm row = Some r ->
    cell_string fmt t 0 row = Ok (r_label r).
  Proof. intros row r Hr. apply (cell_string_summary sm row r 0 (r_label r) Hr (field_label r)). Qed.

  Lemma note_cell : forall row r, nth_error sm row = Some r ->
    cell t (S (S nv)) row = Ok (VStr (r_note r)) /\ cell_string fmt t (S (S nv)) row = Ok (r_note r).
  Proof.
    intros row r Hr. pose proof (nth_error_In _ _ Hr) as Hin.
    pose proof (row_ok_inv r (wf_rows sm W r Hin)) as [Hl [Hn _]].
    unfold t. rewrite (cell_summary sm row r _ _ Hr (field_note r Hl)).
    rewrite (cell_string_summary sm row r _ _ Hr (field_note r Hl)).
    rewrite (text_cell _ Hn). split; reflexivity.
  Qed.

  (* the Actions cell is read back verbatim, whatever the encoding looks like *)
  Lemma enc_cell : forall row r, nth_error sm row = Some r ->
    cell_string fmt t (S nv) row = Ok (r_enc r).
  Proof.
    intros row r Hr. pose proof (nth_error_In _ _ Hr) as Hin.
    pose proof (row_ok_inv r (wf_rows sm W r Hin)) as [Hl _].
    unfold t. apply (cell_string_summary sm row r _ _ Hr (field_enc r Hl)).
  Qed.

  Lemma value_cell : forall row r i, nth_error sm row = Some r -> i < nv ->
    exists v x, nth_error (r_values r) i = Some v /\ go_cast v = Some (TNum x) /\
      cell t (S i) row = Ok (VNum x).
  Proof.
    intros row r i Hr Hi. pose proof (nth_error_In _ _ Hr) as Hin.
    pose proof (row_ok_inv r (wf_rows sm W r Hin)) as [Hl [_ [Hv _]]].
    destruct (nth_error (r_values r) i) as [v|] eqn:Ev; [|apply nth_error_None in Ev; lia].
    rewrite forallb_forall in Hv. specialize (Hv v (nth_error_In _ _ Ev)).
    destruct (number_cell v Hv) as [x [Hg Hb]].
    exists v, x. split; [reflexivity|]. split; [exact Hg|].
    assert (Hf : nth_error (row_fields r) (S i) = Some v) by (rewrite field_value by lia; exact Ev).
    unfold t; rewrite (cell_summary sm row r _ _ Hr Hf), Hb; reflexivity.
  Qed.

  (* ---------- POST /solutions ---------- *)

  Lemma header_checks_ok : header_checks (header t) = Ok true.
  Proof.
    unfold header_checks, t, summary_table, header. cbn [t_header].
    rewrite header_0. cbn [res_bind]. rewrite len_header.
    replace (nv + 3 - 2) with (S nv) by lia. replace (nv + 3 - 1) with (S (S nv)) by lia.
    unfold index. rewrite header_actions, header_summary. reflexivity.
  Qed.

  Lemma name_not_reserved : forall i name, nth_error names i = Some name ->
    String.eqb name "Solution" || String.eqb name "Summary" = false /\ String.eqb name "Actions" = false.
  Proof.
    intros i name H. apply nth_error_In in H. unfold names in H. apply in_map_iff in H.
    destruct H as [p [<- Hin]]. pose proof (wf_names sm W p Hin) as Hr. unfold reserved_heading in Hr.
    apply orb_false_elim in Hr. destruct Hr as [Hr1 Hr2]. split; assumption.
  Qed.

  Lemma validate_cell_ok : forall row r col, nth_error sm row = Some r ->
    1 <= col -> col < nv + 3 -> validate_cell fmt t col row = Ok true.
  Proof.
    intros row r col Hr H1 H2. unfold validate_cell.
    destruct col as [|i]; [lia|].
    destruct (lt_dec i nv) as [Hi|Hi].
    - destruct (value_cell row r i Hr Hi) as [v [x [_ [_ Hc]]]]. rewrite Hc. cbn [res_bind].
      unfold t, summary_table, header. cbn [t_header]. unfold index. rewrite (header_name i Hi).
      destruct (nth_error names i) as [name|] eqn:En; [|apply nth_error_None in En; rewrite len_names in En; lia].
      cbn [res_bind]. destruct (name_not_reserved i name En) as [Ha Hb]. rewrite Ha, Hb. reflexivity.
    - assert (Hcase : i = nv \/ i = S nv) by lia. destruct Hcase as [->| ->].
      + pose proof (nth_error_In _ _ Hr) as Hin.
        pose proof (row_ok_inv r (wf_rows sm W r Hin)) as [Hl [_ [_ Hp]]].
        unfold t at 1. rewrite (cell_summary sm row r _ _ Hr (field_enc r Hl)). cbn [res_bind].
        unfold t at 1, summary_table, header. cbn [t_header]. unfold index. rewrite header_actions. cbn [res_bind].
        replace (String.eqb "Actions" "Solution" || String.eqb "Actions" "Summary") with false by reflexivity.
        replace (String.eqb "Actions" "Actions") with true by reflexivity.
        rewrite (enc_cell row r Hr). cbn [res_bind]. rewrite Hp. reflexivity.
      + destruct (note_cell row r Hr) as [Hc _]. rewrite Hc. cbn [res_bind].
        unfold t, summary_table, header. cbn [t_header]. unfold index. rewrite header_summary. reflexivity.
  Qed.

  Lemma derive_ok : derive_request_table cast fmt (CsvRecords (marshal_records names sm)) = Ok (Some t).
  Proof.
    unfold derive_request_table. rewrite (loads_summary sm (wf_lengths sm W)). cbn [res_bind].
    fold t. assert (Hlen : len (header t) = nv + 3) by (exact len_header). rewrite Hlen.
    replace (nv + 3 <? 3) with false by (symmetry; apply Nat.ltb_ge; lia).
    rewrite header_checks_ok. cbn [res_bind]. unfold t at 1. rewrite dims_summary. cbn [res_bind].
    assert (Hall : forall x, In x (flat_map (fun row => map (fun col => validate_cell fmt t col row) (seq 1 (nv + 3 - 1)))
                                            (seq 1 (len sm - 1))) -> x = Ok true).
    { intros x Hx. apply in_flat_map in Hx. destruct Hx as [row [Hrow Hx]].
      apply in_map_iff in Hx. destruct Hx as [col [<- Hcol]].
      apply in_seq in Hrow. apply in_seq in Hcol.
      destruct (nth_error sm row) as [r|] eqn:Er; [|apply nth_error_None in Er; lia].
      apply (validate_cell_ok row r col Er); lia. }
    assert (Hres : forall l, (forall x, In x l -> x = Ok true) -> all_res l = Ok true).
    { intros l; induction l as [|a l IH]; intro Hl; [reflexivity|].
      cbn [all_res]. rewrite (Hl a (or_introl eq_refl)). cbn [res_bind].
      rewrite IH by (intros x Hx; apply Hl; right; exact Hx). reflexivity. }
    rewrite (Hres _ Hall). reflexivity.
  Qed.

  Lemma all_res_early_true : forall l, (forall x, In x l -> x = Ok true) -> all_res_early l = Ok true.
  Proof.
    intros l; induction l as [|a l IH]; intro Hl; [reflexivity|].
    cbn [all_res_early]. rewrite (Hl a (or_introl eq_refl)). cbn [res_bind].
    apply IH. intros x Hx; apply Hl; right; exact Hx.
  Qed.

  Lemma verify_asis_row_ok : verify_asis_row asis t 0 = Ok true.
  Proof.
    unfold verify_asis_row. apply all_res_early_true.
    intros x Hx. apply in_map_iff in Hx. destruct Hx as [col [<- Hcol]]. apply in_seq in Hcol.
    destruct col as [|i]; [lia|]. assert (Hi : i < nv) by (unfold nv; lia).
    pose proof (row0 sm W) as Hr. pose proof (wf_asis sm W) as Hasis. pose proof (wf_names_nodup sm W) as Hnn.
    destruct (value_cell 0 _ i Hr Hi) as [v [x [Ev [Hg Hc]]]].
    unfold t at 1, summary_table, header. cbn [t_header]. unfold index. rewrite (header_name i Hi).
    destruct (nth_error asis i) as [[k kv]|] eqn:Ea; [|apply nth_error_None in Ea; unfold nv in Hi; lia].
    assert (En : nth_error names i = Some k) by (unfold names; rewrite nth_error_map, Ea; reflexivity).
    rewrite En. cbn [res_bind]. rewrite Hc. cbn [res_bind].
    rewrite (assoc_nodup _ asis i k kv Hnn Ea).
    unfold asis_values_match in Hasis. apply andb_prop in Hasis. destruct Hasis as [_ Hm].
    rewrite forallb_forall in Hm.
    specialize (Hm (v, (k, kv)) (nth_error_In _ _ (nth_error_combine _ _ _ _ i v (k, kv) Ev Ea))).
    cbn [fst snd] in Hm. rewrite Hg in Hm. rewrite Hm. reflexivity.
  Qed.

  Lemma other_label_not_asis : forall row r, nth_error sm (S row) = Some r -> String.eqb (r_label r) "As-Is" = false.
  Proof.
    intros row r Hr. pose proof (wf_nodup sm W) as Hnd. pose proof (wf_label0 sm W) as Hl0.
    destruct sm as [|r0 rest]; [discriminate|]. cbn [hd] in Hl0. cbn [map] in Hnd. cbn in Hr.
    pose proof (nodup_labels_notin (r_label r0) (map r_label rest) Hnd (r_label r)) as Hnot.
    rewrite Hl0 in Hnot. rewrite String.eqb_sym. apply Hnot.
    apply in_map. apply (nth_error_In _ _ Hr).
  Qed.

  Lemma verify_ok : verify_summary nw fmt asis t = Ok true.
  Proof.
    unfold verify_summary. unfold t at 1. rewrite dims_summary. cbn [res_bind fst snd].
    fold nv. replace (nv + 3 <? nv + 3) with false by (symmetry; apply Nat.ltb_irrefl).
    replace (nv + 3 - 2) with (S nv) by lia.
    rewrite all_res_early_true.
    2:{ intros x Hx. apply in_map_iff in Hx. destruct Hx as [row [<- Hrow]]. apply in_seq in Hrow.
        destruct (nth_error sm row) as [r|] eqn:Er; [|apply nth_error_None in Er; lia].
        rewrite (enc_cell row r Er). cbn [res_bind].
        rewrite (row_ok_decodable r (wf_rows sm W r (nth_error_In _ _ Er))). reflexivity. }
    cbn [res_bind negb].
    apply all_res_early_true. intros x Hx. apply in_map_iff in Hx. destruct Hx as [row [<- Hrow]]. apply in_seq in Hrow.
    destruct (nth_error sm row) as [r|] eqn:Er; [|apply nth_error_None in Er; lia].
    rewrite (label_cell row r Er). cbn [res_bind].
    destruct row as [|row].
    - rewrite (row0 sm W) in Er. injection Er as <-. rewrite (wf_label0 sm W).
      replace (String.eqb "As-Is" "As-Is") with true by reflexivity. exact verify_asis_row_ok.
    - rewrite (other_label_not_asis row r Er). reflexivity.
  Qed.

  (* whatever the engine held before (any table, any pool): the table is replaced and the pool emptied *)
  Lemma post_ok : forall st,
    post_solutions nw cast fmt asis st (CsvRecords (marshal_records names sm)) = Ok (S200, mkState (Some t) []).
  Proof.
    intros st. unfold post_solutions. rewrite derive_ok. cbn [res_bind]. rewrite verify_ok. reflexivity.
  Qed.

  (* ---------- GET /solutions/<label> ---------- *)

  Lemma label_loop : forall label,
    map (fun row => do l <- cell_string fmt t 0 row; Ok (String.eqb l label)) (seq 0 (len sm)) =
    map (fun row => Ok (String.eqb (r_label (nth row sm drow)) label)) (seq 0 (len sm)).
  Proof.
    intros label. apply map_ext_in. intros row Hrow. apply in_seq in Hrow.
    rewrite (label_cell row (nth row sm drow)); [reflexivity|]. apply nth_error_nth'. lia.
  Qed.

  Lemma contains_entry_spec : forall label,
    contains_entry fmt t label = Ok (existsb (fun row => String.eqb (r_label (nth row sm drow)) label) (seq 0 (len sm))).
  Proof.
    intros label. unfold contains_entry. unfold t at 1. rewrite dims_summary. cbn [res_bind snd].
    rewrite label_loop. apply any_res_early_ok_map.
  Qed.

  Lemma contains_row : forall row r, nth_error sm row = Some r -> contains_entry fmt t (r_label r) = Ok true.
  Proof.
    intros row r Hr. rewrite contains_entry_spec. f_equal. apply existsb_exists. exists row. split.
    - apply in_seq. assert (row < len sm) by (apply nth_error_Some; congruence). lia.
    - rewrite (nth_error_nth _ _ drow Hr). apply String.eqb_refl.
  Qed.

  Lemma contains_unknown : forall label, (forall r, In r sm -> r_label r <> label) ->
    contains_entry fmt t label = Ok false.
  Proof.
    intros label Hno. rewrite contains_entry_spec. f_equal.
    destruct (existsb _ _) eqn:E; [|reflexivity]. exfalso.
    apply existsb_exists in E. destruct E as [row [Hrow Heq]]. apply in_seq in Hrow.
    apply String.eqb_eq in Heq. apply (Hno (nth row sm drow)); [apply nth_In; lia|exact Heq].
  Qed.

  Lemma first_detail_spec : forall label rows, (forall row, In row rows -> row < len sm) ->
    first_detail fmt t (nv + 3) label rows =
    Ok (match find (fun row => String.eqb (r_label (nth row sm drow)) label) rows with
        | Some row => Some (r_enc (nth row sm drow), r_note (nth row sm drow))
        | None => None end).
  Proof.
    intros label rows; induction rows as [|row rows IH]; intro Hin; [reflexivity|].
    cbn [first_detail find].
    assert (Hrow : row < len sm) by (apply Hin; left; reflexivity).
    assert (Er : nth_error sm row = Some (nth row sm drow)) by (apply nth_error_nth'; lia).
    rewrite (label_cell row _ Er). cbn [res_bind].
    destruct (String.eqb (r_label (nth row sm drow)) label) eqn:El.
    - replace (nv + 3 <? 2) with false by (symmetry; apply Nat.ltb_ge; lia).
      replace (nv + 3 - 2) with (S nv) by lia. replace (nv + 3 - 1) with (S (S nv)) by lia.
      rewrite (enc_cell row _ Er). cbn [res_bind].
      destruct (note_cell row _ Er) as [_ Hn]. rewrite Hn. reflexivity.
    - apply IH. intros x Hx. apply Hin. right. exact Hx.
  Qed.

  Lemma detail_of_row : forall i r, nth_error sm i = Some r ->
    get_solution_detail fmt t (r_label r) = Ok (Some (r_enc r, r_note r)).
  Proof.
    intros i r Hr. unfold get_solution_detail. unfold t at 1. rewrite dims_summary. cbn [res_bind fst snd].
    rewrite first_detail_spec by (intros row Hrow; apply in_seq in Hrow; lia).
    assert (Hlt : i < len sm) by (apply nth_error_Some; congruence).
    rewrite (find_unique _ _ (seq 0 (len sm)) i).
    - rewrite (nth_error_nth _ _ drow Hr). reflexivity.
    - apply in_seq. lia.
    - rewrite (nth_error_nth _ _ drow Hr). apply String.eqb_refl.
    - intros y Hy Hp. apply in_seq in Hy. apply String.eqb_eq in Hp.
      assert (Ey : nth_error sm y = Some (nth y sm drow)) by (apply nth_error_nth'; lia).
      apply (nodup_labels_unique (map r_label sm) y i (r_label r) (wf_nodup sm W)).
      + rewrite nth_error_map, Ey. cbn [option_map]. rewrite Hp. reflexivity.
      + rewrite nth_error_map, Hr. reflexivity.
  Qed.

  Lemma get_row : forall i r pool, nth_error sm (S i) = Some r -> assoc (r_label r) pool = None ->
    get_solution fmt (mkState (Some t) pool) (r_label r) =
    Ok (Decoded (r_enc r) (r_note r), mkState (Some t) ((r_label r, (r_enc r, r_note r)) :: pool)).
  Proof.
    intros i r pool Hr Hpool. unfold get_solution. cbn [s_table s_pool].
    rewrite (contains_row (S i) r Hr). cbn [res_bind negb].
    rewrite (other_label_not_asis i r Hr). rewrite Hpool.
    rewrite (detail_of_row (S i) r Hr). reflexivity.
  Qed.

  Lemma get_cached : forall i r pool e s, nth_error sm (S i) = Some r -> assoc (r_label r) pool = Some (e, s) ->
    get_solution fmt (mkState (Some t) pool) (r_label r) = Ok (Decoded e s, mkState (Some t) pool).
  Proof.
    intros i r pool e s Hr Hpool. unfold get_solution. cbn [s_table s_pool].
    rewrite (contains_row (S i) r Hr). cbn [res_bind negb].
    rewrite (other_label_not_asis i r Hr). rewrite Hpool. reflexivity.
  Qed.

  Lemma get_asis : forall pool,
    get_solution fmt (mkState (Some t) pool) "As-Is" = Ok (AsIsSolution, mkState (Some t) pool).
  Proof.
    intros pool. unfold get_solution. cbn [s_table s_pool].
    pose proof (contains_row 0 _ (row0 sm W)) as Hc. rewrite (wf_label0 sm W) in Hc. rewrite Hc. reflexivity.
  Qed.

  Lemma get_unknown : forall pool label, (forall r, In r sm -> r_label r <> label) ->
    get_solution fmt (mkState (Some t) pool) label = Ok (NotFound, mkState (Some t) pool).
  Proof.
    intros pool label Hno. unfold get_solution. cbn [s_table s_pool].
    rewrite (contains_unknown label Hno). reflexivity.
  Qed.

  (* ---------- front membership ---------- *)

  Lemma front_scan_spec : forall e rows, (forall row, In row rows -> row < len sm) ->
    front_scan fmt t (nv + 3) e rows = Ok (existsb (fun row => String.eqb e (r_enc (nth row sm drow))) rows).
  Proof.
    intros e rows; induction rows as [|row rows IH]; intro Hin; [reflexivity|].
    cbn [front_scan existsb].
    assert (Hrow : row < len sm) by (apply Hin; left; reflexivity).
    assert (Er : nth_error sm row = Some (nth row sm drow)) by (apply nth_error_nth'; lia).
    replace (nv + 3 <? 2) with false by (symmetry; apply Nat.ltb_ge; lia).
    replace (nv + 3 - 2) with (S nv) by lia.
    rewrite (enc_cell row _ Er). cbn [res_bind].
    rewrite IH by (intros x Hx; apply Hin; right; exact Hx). reflexivity.
  Qed.

  Lemma pareto_spec : forall recode pool e e', recode e = Some e' ->
    pareto_member fmt recode (mkState (Some t) pool) e =
    Ok (Some (Some (existsb (fun row => String.eqb e' (r_enc (nth row sm drow))) (seq 1 (len sm - 1))))).
  Proof.
    intros recode pool e e' Hre. unfold pareto_member. rewrite Hre. cbn [s_table].
    unfold t at 1. rewrite dims_summary. cbn [res_bind fst snd].
    rewrite front_scan_spec by (intros row Hrow; apply in_seq in Hrow; lia). reflexivity.
  Qed.

  Lemma pareto_row : forall recode pool i r, nth_error sm (S i) = Some r -> recode (r_enc r) = Some (r_enc r) ->
    pareto_member fmt recode (mkState (Some t) pool) (r_enc r) = Ok (Some (Some true)).
  Proof.
    intros recode pool i r Hr Hre. rewrite (pareto_spec recode pool _ _ Hre). do 3 f_equal.
    apply existsb_exists. exists (S i). split.
    - apply in_seq. assert (S i < len sm) by (apply nth_error_Some; congruence). lia.
    - rewrite (nth_error_nth _ _ drow Hr). apply String.eqb_refl.
  Qed.

  (* a model whose encoding is that of no row from 1 on (in particular: only of the as-is row) is not a member *)
  Lemma pareto_non_member : forall recode pool e e', recode e = Some e' ->
    (forall r, In r (tl sm) -> r_enc r <> e') ->
    pareto_member fmt recode (mkState (Some t) pool) e = Ok (Some (Some false)).
  Proof.
    intros recode pool e e' Hre Hno. rewrite (pareto_spec recode pool _ _ Hre). do 3 f_equal.
    destruct (existsb _ _) eqn:E; [|reflexivity]. exfalso.
    apply existsb_exists in E. destruct E as [row [Hrow Heq]]. apply in_seq in Hrow. apply String.eqb_eq in Heq.
    apply (Hno (nth row sm drow)); [|symmetry; exact Heq].
    destruct sm as [|r0 rest]; [cbn in Hrow; lia|]. cbn [tl]. destruct row as [|row]; [lia|].
    cbn [nth]. apply nth_In. cbn [len] in Hrow. lia.
  Qed.

End Summary.

(* ---------- the statements used by Properties/C13.v ---------- *)

Lemma in_tl_nth : forall (sm : list srow) r, In r (tl sm) -> exists i, nth_error sm (S i) = Some r.
Proof.
  intros [|r0 rest] r H; [destruct H|]. cbn [tl] in H. apply In_nth_error in H. destruct H as [i Hi].
  exists i. exact Hi.
Qed.

Definition loaded (cast : caster) (asis : list (string * num)) (sm : list srow)
           (pool : list (string * (string * string))) : state :=
  mkState (Some (summary_table cast asis sm)) pool.

Lemma c13_accepts : forall nw cast fmt asis sm st, cast_agrees cast ->
  wf_summary nw asis sm = true ->
  post_solutions nw cast fmt asis st (CsvRecords (marshal_records (map fst asis) sm)) =
  Ok (S200, loaded cast asis sm []).
Proof.
  intros nw cast fmt asis sm st Hc Hwf.
  apply (post_ok nw cast fmt asis Hc sm (wf_summary_inv nw asis sm Hwf) st).
Qed.

Lemma c13_lookup_exact : forall nw cast fmt asis sm pool r, cast_agrees cast ->
  wf_summary nw asis sm = true ->
  In r (tl sm) -> assoc (r_label r) pool = None ->
  get_solution fmt (loaded cast asis sm pool) (r_label r) =
  Ok (Decoded (r_enc r) (r_note r), loaded cast asis sm ((r_label r, (r_enc r, r_note r)) :: pool)).
Proof.
  intros nw cast fmt asis sm pool r Hc Hwf Hin Hp. destruct (in_tl_nth sm r Hin) as [i Hi].
  apply (get_row nw cast fmt asis Hc sm (wf_summary_inv nw asis sm Hwf) i r pool Hi Hp).
Qed.

Lemma c13_lookup_again : forall nw cast fmt asis sm pool r, cast_agrees cast ->
  wf_summary nw asis sm = true ->
  In r (tl sm) -> assoc (r_label r) pool = None ->
  exists st', get_solution fmt (loaded cast asis sm pool) (r_label r) = Ok (Decoded (r_enc r) (r_note r), st') /\
    get_solution fmt st' (r_label r) = Ok (Decoded (r_enc r) (r_note r), st').
Proof.
  intros nw cast fmt asis sm pool r Hc Hwf Hin Hp. destruct (in_tl_nth sm r Hin) as [i Hi].
  eexists. split.
  - apply (get_row nw cast fmt asis Hc sm (wf_summary_inv nw asis sm Hwf) i r pool Hi Hp).
  - apply (get_cached nw cast fmt asis sm (wf_summary_inv nw asis sm Hwf) i r _ _ _ Hi).
    cbn [assoc]. rewrite String.eqb_refl. reflexivity.
Qed.

Lemma c13_lookup_asis : forall nw cast fmt asis sm pool,
  wf_summary nw asis sm = true ->
  get_solution fmt (loaded cast asis sm pool) "As-Is" = Ok (AsIsSolution, loaded cast asis sm pool).
Proof.
  intros nw cast fmt asis sm pool Hwf. apply (get_asis nw cast fmt asis sm (wf_summary_inv nw asis sm Hwf) pool).
Qed.

Lemma c13_lookup_unknown : forall cast fmt asis sm pool label,
  (forall r, In r sm -> r_label r <> label) ->
  get_solution fmt (loaded cast asis sm pool) label = Ok (NotFound, loaded cast asis sm pool).
Proof.
  intros cast fmt asis sm pool label Hno.
  apply (get_unknown cast fmt asis sm pool label Hno).
Qed.

Lemma c13_front_member : forall nw cast fmt asis recode sm pool r, cast_agrees cast ->
  wf_summary nw asis sm = true ->
  In r (tl sm) -> recode (r_enc r) = Some (r_enc r) ->
  pareto_member fmt recode (loaded cast asis sm pool) (r_enc r) = Ok (Some (Some true)).
Proof.
  intros nw cast fmt asis recode sm pool r Hc Hwf Hin Hre. destruct (in_tl_nth sm r Hin) as [i Hi].
  apply (pareto_row nw cast fmt asis sm (wf_summary_inv nw asis sm Hwf) recode pool i r Hi Hre).
Qed.

Lemma c13_front_non_member : forall nw cast fmt asis recode sm pool e e', cast_agrees cast ->
  wf_summary nw asis sm = true ->
  recode e = Some e' -> (forall r, In r (tl sm) -> r_enc r <> e') ->
  pareto_member fmt recode (loaded cast asis sm pool) e = Ok (Some (Some false)).
Proof.
  intros nw cast fmt asis recode sm pool e e' Hc Hwf Hre Hno.
  apply (pareto_non_member nw cast fmt asis sm (wf_summary_inv nw asis sm Hwf) recode pool e e' Hre Hno).
Qed.

(* ANY engine state (any earlier summary, any pooled solutions): POST then GET *)
Lemma c13_round_trip : forall nw cast fmt asis sm st r, cast_agrees cast ->
  wf_summary nw asis sm = true -> In r (tl sm) ->
  exists st' st'',
    post_solutions nw cast fmt asis st (CsvRecords (marshal_records (map fst asis) sm)) = Ok (S200, st') /\
    get_solution fmt st' (r_label r) = Ok (Decoded (r_enc r) (r_note r), st'').
Proof.
  intros nw cast fmt asis sm st r Hc Hwf Hin. eexists. eexists. split.
  - apply (c13_accepts nw cast fmt asis sm st Hc Hwf).
  - apply (c13_lookup_exact nw cast fmt asis sm [] r Hc Hwf Hin). reflexivity.
Qed.

(* ---------- the decodability clause: what it means, and that explorer-written encodings meet it (C09) ---------- *)

Lemma actions_decodable_is_decode_accepts : forall nw s,
  actions_decodable nw s = BoolArchiveProofs.decode_accepts nw s.
Proof. reflexivity. Qed.

(* the guard IS BooleanArchive.Decode's verdict: on any well-formed archive, Decode answers (_, actions_decodable ...),
   and a refused text leaves the archive as it was *)
Lemma actions_decodable_decode : forall a s, BoolArchiveProofs.wf a ->
  exists a', BoolArchive.decode a s = Ok (a', actions_decodable (len (BoolArchive.a_words a)) s) /\
    (actions_decodable (len (BoolArchive.a_words a)) s = false -> a' = a).
Proof.
  intros a s Hwf. destruct (BoolArchiveProofs.decode_spec a s Hwf) as [a' [E [_ [_ [_ Hrej]]]]].
  exists a'. rewrite actions_decodable_is_decode_accepts. split; assumption.
Qed.

(* every encoding the compressor writes for a model with n >= 1 actions decodes on a model with n actions *)
Lemma explorer_encoding_decodable : forall bs, bs <> [] ->
  actions_decodable (BoolArchive.nwords (len bs)) (snd (BoolArchive.encoding (BoolArchive.of_bits bs))) = true.
Proof.
  intros bs Hne. rewrite BoolArchiveProofs.encoding_fresh by reflexivity. cbn [snd].
  destruct (BoolArchiveProofs.of_bits_wf bs) as [HL [Hlt _]].
  cbn [BoolArchive.a_words BoolArchive.a_size BoolArchive.of_bits] in *.
  rewrite actions_decodable_is_decode_accepts. rewrite <- HL.
  apply BoolArchiveProofs.accepts_own_encoding; [|exact Hlt].
  intro Hnil. rewrite Hnil in HL. cbn [len] in HL.
  pose proof (BoolArchiveProofs.nwords_bounds (len bs)) as [Hb _]. destruct bs; [congruence|cbn [len] in *; lia].
Qed.

(* a summary all of whose Actions texts were written by the compressor of a model with n actions *)
Definition explorer_encoded (n : nat) (sm : list srow) : Prop :=
  forall r, In r sm -> exists bs, len bs = n /\ r_enc r = snd (BoolArchive.encoding (BoolArchive.of_bits bs)).

Lemma wf_summary_split : forall nw asis sm,
  wf_summary nw asis sm = true <->
  wf_summary_shape asis sm = true /\ (forall r, In r sm -> actions_decodable nw (r_enc r) = true).
Proof.
  intros nw asis [|r0 rest]; cbn [wf_summary wf_summary_shape].
  - split; [discriminate|intros [H _]; discriminate].
  - set (sm := r0 :: rest).
    assert (Hrows : forallb (row_ok nw (len asis)) sm = true <->
                    forallb (row_shape_ok (len asis)) sm = true /\ (forall r, In r sm -> actions_decodable nw (r_enc r) = true)).
    { rewrite !forallb_forall. split.
      - intro H. split; intros r Hin; specialize (H r Hin); unfold row_ok in H; apply andb_prop in H; tauto.
      - intros [H1 H2] r Hin. unfold row_ok. rewrite (H1 r Hin), (H2 r Hin). reflexivity. }
    split.
    + intro H. repeat (apply andb_prop in H; destruct H as [H ?]).
      match goal with Hf : forallb (row_ok _ _) _ = true |- _ => apply Hrows in Hf; destruct Hf as [Hf1 Hf2] end.
      split; [|exact Hf2]. rewrite Hf1. repeat match goal with Hx : ?b = true |- context [?b] => rewrite Hx end. reflexivity.
    + intros [H Hd]. repeat (apply andb_prop in H; destruct H as [H ?]).
      assert (Hr : forallb (row_ok nw (len asis)) sm = true) by (apply Hrows; split; assumption).
      rewrite Hr. repeat match goal with Hx : ?b = true |- context [?b] => rewrite Hx end. reflexivity.
Qed.

Lemma wf_explorer_summary : forall n asis sm, 1 <= n ->
  wf_summary_shape asis sm = true -> explorer_encoded n sm ->
  wf_summary (BoolArchive.nwords n) asis sm = true.
Proof.
  intros n asis sm Hn Hshape Henc. apply wf_summary_split. split; [exact Hshape|].
  intros r Hin. destruct (Henc r Hin) as [bs [Hl ->]]. rewrite <- Hl.
  apply explorer_encoding_decodable. intro Hnil. subst bs. cbn [len] in Hl. lia.
Qed.

(* explorer-written summaries: no hypothesis on the encodings beyond having been written by the compressor *)
Lemma c13_round_trip_explorer : forall n cast fmt asis sm st r, cast_agrees cast -> 1 <= n ->
  wf_summary_shape asis sm = true -> explorer_encoded n sm -> In r (tl sm) ->
  exists st' st'',
    post_solutions (BoolArchive.nwords n) cast fmt asis st (CsvRecords (marshal_records (map fst asis) sm)) = Ok (S200, st') /\
    get_solution fmt st' (r_label r) = Ok (Decoded (r_enc r) (r_note r), st'').
Proof.
  intros n cast fmt asis sm st r Hc Hn Hshape Henc Hin.
  apply (c13_round_trip (BoolArchive.nwords n) cast fmt asis sm st r Hc (wf_explorer_summary n asis sm Hn Hshape Henc) Hin).
Qed.

(* ---------- the former refutation witnesses of defect D9 and of the stale pool now round-trip ---------- *)

Definition ex_asis : list (string * num) := [("A", Fin false 1); ("B", Fin false (5 # 2))].
Definition ex_row0 : srow := mkRow "As-Is" ["1.000"; "2.500"] "0" "As-is state; zero active management actions".
Definition ex_row1 (enc : string) : srow := mkRow "1-of-1" ["0.500"; "3.000"] enc "Pareto front member 1 of 1".
Definition ex_summary (enc : string) : list srow := [ex_row0; ex_row1 enc].

(* executable: from engine state [st], POST the summary whose one solution row has encoding [enc], GET its label,
   set the model from its encoding; true iff 200, the row's own encoding and note come back, and it is a front member *)
Definition ex_round_trips_from (st : state) (enc : string) : bool :=
  wf_summary 1 ex_asis (ex_summary enc) &&
  match post_solutions 1 model_cast model_fmt ex_asis st (CsvRecords (marshal_records (map fst ex_asis) (ex_summary enc))) with
  | Ok (S200, st') =>
    match get_solution model_fmt st' "1-of-1" with
    | Ok (Decoded e s, _) => String.eqb e enc && String.eqb s "Pareto front member 1 of 1"
    | _ => false
    end &&
    match pareto_member model_fmt (fun e => Some e) st' enc with
    | Ok (Some (Some true)) => true
    | _ => false
    end
  | _ => false
  end.

(* executable: a summary that is well-formed except that its solution row's Actions text does not decode for the
   scenario (one archive word) is refused with 400 and the engine state is untouched *)
Definition ex_refused (enc : string) : bool :=
  wf_summary_shape ex_asis (ex_summary enc) && negb (actions_decodable 1 enc) &&
  match post_solutions 1 model_cast model_fmt ex_asis fresh (CsvRecords (marshal_records (map fst ex_asis) (ex_summary enc))) with
  | Ok (S400, st) => true
  | _ => false
  end.

(* an engine that has already served label 1-of-1 of ANOTHER summary (encoding 3) *)
Definition ex_used_state : state :=
  match post_solutions 1 model_cast model_fmt ex_asis fresh (CsvRecords (marshal_records (map fst ex_asis) (ex_summary "3"))) with
  | Ok (_, st1) => match get_solution model_fmt st1 "1-of-1" with Ok (_, st2) => st2 | Panic => fresh end
  | Panic => fresh
  end.

(* ---------- the value texts the marshaller writes ("%.3f") are numbers for the caster (unbounded) ---------- *)

Local Open Scope char_scope.
Local Open Scope list_scope.

Definition digits_val (acc : Z) (ds : list ascii) : Z := fold_left (fun a d => (a * 10 + digit_val d)%Z) ds acc.

Lemma read_digits_app : forall ds acc n rest, forallb is_digit ds = true ->
  match rest with [] => True | c :: _ => is_digit c = false end ->
  read_digits acc n (ds ++ rest) = (digits_val acc ds, n + len ds, rest).
Proof.
  intros ds; induction ds as [|d ds IH]; intros acc n rest Hd Hr.
  - cbn [app digits_val fold_left len]. rewrite Nat.add_0_r. destruct rest as [|c r]; [reflexivity|].
    cbn [read_digits]. rewrite Hr. reflexivity.
  - cbn [forallb] in Hd. apply andb_prop in Hd. destruct Hd as [Hd1 Hd2].
    cbn [app read_digits]. rewrite Hd1. rewrite (IH _ _ rest Hd2 Hr). cbn [digits_val fold_left len].
    f_equal. f_equal. lia.
Qed.

Lemma digit_facts : forall c, is_digit c = true ->
  Ascii.eqb c "_" = false /\ Ascii.eqb c "+" = false /\ Ascii.eqb c "-" = false /\ Ascii.eqb c "." = false /\
  in_class ["i"; "I"; "n"; "N"] c = false /\ in_class ["x"; "X"] c = false /\ is_e c = false.
Proof.
  intros c H.
  destruct c as [[] [] [] [] [] [] [] []]; vm_compute in H; try discriminate H; vm_compute; repeat split; reflexivity.
Qed.

Lemma digits_no_underscore : forall ds, forallb is_digit ds = true -> in_class ds "_" = false.
Proof.
  intros ds; induction ds as [|c s IH]; intro H; [reflexivity|].
  cbn [forallb] in H. apply andb_prop in H. destruct H as [Hc Hs].
  unfold in_class. cbn [existsb]. rewrite Ascii.eqb_sym. destruct (digit_facts c Hc) as [-> _]. exact (IH Hs).
Qed.

Definition vtext_mantissa (v : vtext) : Z := digits_val (digits_val 0 (v_int v)) (v_frac v).
Definition vtext_value (v : vtext) : Q := dec_value (vtext_mantissa v) (0 - Z.of_nat (len (v_frac v))).
Definition vtext_in_range (v : vtext) : bool := negb (overflows (vtext_value v)).

Lemma in_class_app : forall a b c, in_class (a ++ b) c = in_class a c || in_class b c.
Proof. intros a b c. unfold in_class. apply existsb_app. Qed.

Lemma vtext_parse : forall v, vtext_ok v = true ->
  modelled (chars (vtext_string v)) = true /\
  parse_dec (chars (vtext_string v)) = Some (v_neg v, vtext_mantissa v, (0 - Z.of_nat (len (v_frac v)))%Z).
Proof.
  intros [neg ds fr] H. unfold vtext_ok in H. cbn [v_neg v_int v_frac] in *.
  apply andb_prop in H. destruct H as [H Hfr]. apply andb_prop in H. destruct H as [Hds Hne].
  apply negb_true_iff in Hne. apply Nat.eqb_neq in Hne.
  unfold vtext_string, chars. rewrite list_ascii_of_string_of_list_ascii. cbn [v_neg v_int v_frac].
  destruct ds as [|d ds']; [exfalso; apply Hne; reflexivity|].
  pose proof Hds as Hds0. cbn [forallb] in Hds. apply andb_prop in Hds. destruct Hds as [Hd Hds'].
  destruct (digit_facts d Hd) as [_ [Hplus [Hminus [_ [Hin [_ _]]]]]].
  (* the part after the sign *)
  assert (Hbody_sign : read_sign ((d :: ds') ++ "." :: fr) = (false, (d :: ds') ++ "." :: fr)).
  { cbn [app read_sign]. rewrite Hplus, Hminus. reflexivity. }
  assert (Hm : read_mantissa ((d :: ds') ++ "." :: fr) =
               Some (digits_val (digits_val 0 (d :: ds')) fr, len fr, [])).
  { unfold read_mantissa. rewrite (read_digits_app (d :: ds') 0 0 ("." :: fr) Hds0 eq_refl).
    replace (Ascii.eqb "." ".") with true by reflexivity.
    pose proof (read_digits_app fr (digits_val 0 (d :: ds')) 0 [] Hfr I) as Hf. rewrite app_nil_r in Hf. rewrite Hf.
    match goal with |- context [Nat.eqb ?a 0] =>
      replace (Nat.eqb a 0) with false by (symmetry; apply Nat.eqb_neq; cbn [len]; lia) end.
    reflexivity. }
  assert (Hnounder : in_class ((d :: ds') ++ "." :: fr) "_" = false).
  { rewrite in_class_app, (digits_no_underscore _ Hds0). cbn [orb].
    change (in_class ("." :: fr) "_") with (Ascii.eqb "_" "." || in_class fr "_").
    rewrite (digits_no_underscore _ Hfr). reflexivity. }
  assert (Hsecond : match ds' ++ "." :: fr with x :: _ => in_class ["x"; "X"] x | [] => false end = false).
  { destruct ds' as [|d2 ds'']; [reflexivity|]. cbn [forallb] in Hds'. apply andb_prop in Hds'. destruct Hds' as [Hd2 _].
    cbn [app]. destruct (digit_facts d2 Hd2) as [_ [_ [_ [_ [_ [Hx _]]]]]]. exact Hx. }
  destruct neg; cbn [app].
  - split.
    + unfold modelled.
      change (in_class ("-" :: d :: ds' ++ "." :: fr) "_") with (Ascii.eqb "_" "-" || in_class ((d :: ds') ++ "." :: fr) "_").
      rewrite Hnounder. cbn [orb negb andb].
      change (snd (read_sign ("-" :: d :: ds' ++ "." :: fr))) with (d :: ds' ++ "." :: fr).
      cbv beta iota. rewrite Hin, Hsecond. rewrite andb_false_r. reflexivity.
    + unfold parse_dec.
      change (read_sign ("-" :: d :: ds' ++ "." :: fr)) with (true, (d :: ds') ++ "." :: fr).
      cbv beta iota. rewrite Hm. reflexivity.
  - split.
    + unfold modelled. change (d :: ds' ++ "." :: fr) with ((d :: ds') ++ "." :: fr). rewrite Hnounder. cbn [negb andb].
      rewrite Hbody_sign. cbn [snd app]. rewrite Hin, Hsecond. rewrite andb_false_r. reflexivity.
    + unfold parse_dec. change (d :: ds' ++ "." :: fr) with ((d :: ds') ++ "." :: fr). rewrite Hbody_sign.
      cbv beta iota. rewrite Hm. reflexivity.
Qed.

Lemma vtext_is_number : forall v, vtext_ok v = true -> vtext_in_range v = true ->
  is_number (vtext_string v) = true.
Proof.
  intros v Hok Hr. destruct (vtext_parse v Hok) as [Hm Hp].
  unfold is_number, go_cast. rewrite Hm, Hp. cbn [negb].
  destruct (vtext_mantissa v =? 0)%Z eqn:E0; [reflexivity|].
  replace (400 <? 0 - Z.of_nat (len (v_frac v)))%Z with false by (symmetry; apply Z.ltb_ge; lia).
  assert (Hlen : (Z.of_nat (len (v_frac v)) <= Z.of_nat (len (chars (vtext_string v))))%Z).
  { unfold vtext_string, chars. rewrite list_ascii_of_string_of_list_ascii. rewrite !app_length. cbn [len]. lia. }
  replace (0 - Z.of_nat (len (v_frac v)) <? -400 - Z.of_nat (len (chars (vtext_string v))))%Z with false
    by (symmetry; apply Z.ltb_ge; lia).
  unfold vtext_in_range, vtext_value in Hr. apply negb_true_iff in Hr. rewrite Hr. reflexivity.
Qed.
