(* EngineSolutions.v -- GET /solutions/<label> over histories in which the posted solution summary is REPLACED:
   the label is looked up in the summary in force NOW (the table of the last POST /solutions answered 200, none once a
   later POST /scenario was answered 200), never in an earlier one.  The solution pool is a cache; its invariant
   [PoolOk] says that every pooled entry is what a fresh lookup in the current table would produce -- which is what a
   pool that survived the replacement of the summary with stale content would break. *)
From Coq Require Import List String Ascii ZArith NArith QArith Bool Lia Arith.
From Crem Require Import Base.Res Engine EngineProofs EngineC14.
Import ListNotations.
Open Scope string_scope.
Open Scope list_scope.
Open Scope nat_scope.

Section Solutions.
Context {V : Type}.
Notation state := (state V).
Notation request := (request V).
Notation mstate := (mstate V).
Notation desc := (desc V).

Ltac inv_ok H := inversion H; subst; try clear H.
Ltac break_in H :=
  repeat match type of H with
         | context[match ?x with _ => _ end] => destruct x eqn:?; try discriminate
         end.
Ltac use_inv3 HI :=
  let HE := fresh "HE" in let HT := fresh "HT" in let HS := fresh "HS" in
  destruct HI as [[HE | HE] [HT HS]];
  [ destruct HE as (Et & En & Em & Esn & Ep & Est & Esb)
  | destruct HE as (t0 & n0 & m0 & p0 & Et & En & Em & Ep & Esn & Eid & Elen) ].

(* the Actions and Summary cells (columns colSize-2, colSize-1) of a row: getSolutionDetail *)
Definition detail_of (t : table) (r : list cell) : option (string * string) :=
  match nth_error r (col_size t - 2), nth_error r (col_size t - 1) with
  | Some ce, Some cs => Some (cell_string_of ce, cell_string_of cs)
  | _, _ => None
  end.

(* the action set AddSolution decodes an encoding into (the Decode error is ignored) *)
Definition bits_of_encoding (d : desc) (enc : string) : list bool :=
  snd (decode (List.length (d_actions d)) (all_false d) enc).

Definition pool_entry_ok (t : table) (d : desc) (label : string) (p : psol) : Prop :=
  exists r, label_row label (t_rows t) = Ok (Some r)
    /\ detail_of t r = Some (p_enc p, p_summary p)
    /\ p_bits p = bits_of_encoding d (p_enc p).

Definition PoolOk (s : state) : Prop :=
  forall pool m, st_pool s = Some pool -> st_model s = Some m ->
    forall label p, pool_find pool label = Some p ->
      exists t, st_soltable s = Some t /\ pool_entry_ok t (m_desc m) label p.

Lemma PoolOk_init : PoolOk init_state.
Proof. intros pool m H. discriminate. Qed.

Lemma PoolOk_empty : forall s : state, st_pool s = Some [] \/ st_pool s = None -> PoolOk s.
Proof.
  intros s [H|H] pool m Hp Hm label p Hf; rewrite H in Hp; [|discriminate].
  inversion Hp; subst. discriminate.
Qed.

Lemma PoolOk_frame : forall s s' : state,
  st_pool s' = st_pool s -> st_soltable s' = st_soltable s ->
  option_map m_desc (st_model s') = option_map m_desc (st_model s) -> PoolOk s -> PoolOk s'.
Proof.
  intros s s' Hp Ht Hd H pool m Ep Em label p Hf.
  rewrite Hp in Ep. rewrite Em in Hd. destruct (st_model s) as [m1|] eqn:Em1; [|discriminate].
  simpl in Hd. inversion Hd as [Hd1].
  destruct (H pool m1 Ep Em1 label p Hf) as (t & Et & Hok). exists t. split; [congruence|]. now rewrite Hd1.
Qed.

(* the application loop of PATCH /model never changes the scenario descriptor *)
Lemma patch_apply_desc : forall tbl (l : attrs) (m : mstate) sn m' sn',
  patch_apply tbl l m sn = Ok (Some (m', sn')) -> m_desc m' = m_desc m.
Proof.
  intros tbl l. induction l as [|[k v] l IH]; intros m sn m' sn' H; cbn [patch_apply] in H.
  - inversion H; subst. reflexivity.
  - destruct (String.eqb k "Encoding"); [|eapply IH; eauto].
    destruct v as [| |e|]; try discriminate.
    destruct (decode (List.length (d_actions (m_desc m))) (m_bits m) e) as [ok bits]. destruct ok; [|discriminate].
    unfold res_bind in H.
    match type of H with context[derive tbl ?mm] => destruct (derive tbl mm) as [m1|] eqn:ED; [|discriminate] end.
    rewrite (IH m1 (snapshot_of m1) m' sn' H). destruct (derive_frame _ _ _ ED) as (Hd & _). exact Hd.
Qed.

(* what one answered request does to (pool, summary table, scenario descriptor) -- for every state, no invariant *)
Lemma pool_step : forall (s : state) (r : request) resp s',
  handle s r = Ok (resp, s') ->
  (st_pool s' = st_pool s /\ st_soltable s' = st_soltable s
   /\ option_map m_desc (st_model s') = option_map m_desc (st_model s))
  \/ (st_pool s' = Some [] \/ st_pool s' = None)
  \/ (exists label, rq_route r = RSolution label /\ rq_meth r = MGet).
Proof.
  intros s r resp s' H. unfold handle in H.
  destruct (rq_route r) eqn:Er; destruct (rq_meth r) eqn:Emeth;
    try solve [unfold fail in H; inv_ok H; left; repeat split; solve [reflexivity | congruence]];
    try solve [right; right; eexists; split; reflexivity].
  - unfold get_scenario, respond, fail, res_bind, need_name in H. break_in H; inv_ok H; left; repeat split; solve [reflexivity | congruence].
  - unfold post_scenario, respond, fail, res_bind, need_name in H. break_in H; inv_ok H;
      first [left; repeat split; solve [reflexivity | congruence] | right; left; left; reflexivity].
  - unfold get_solutions, respond, fail, res_bind, need_name in H. break_in H; inv_ok H; left; repeat split; solve [reflexivity | congruence].
  - unfold post_solutions, respond, fail, res_bind, need_name in H. break_in H; inv_ok H;
      first [left; repeat split; solve [reflexivity | congruence] | right; left; simpl; destruct (st_pool s); simpl; auto].
  - unfold get_model, respond, fail, res_bind, need_name in H. break_in H; inv_ok H; left; repeat split; solve [reflexivity | congruence].
  - (* PATCH /model *)
    unfold patch_model in H.
    destruct (st_snap s) as [sn|]; [|unfold fail in H; inv_ok H; left; repeat split; solve [reflexivity | congruence]].
    destruct (rq_ctype r); try (unfold fail in H; inv_ok H; left; repeat split; solve [reflexivity | congruence]).
    destruct (rq_json r) as [|l|]; [unfold fail in H; inv_ok H; left; repeat split; solve [reflexivity | congruence]| |discriminate].
    destruct (st_model s) as [m|] eqn:Em; [|discriminate].
    destruct (negb (patch_valid (List.length (d_actions (m_desc m))) l)); [unfold fail in H; inv_ok H; left; repeat split; solve [reflexivity | congruence]|].
    unfold res_bind in H.
    match type of H with context[patch_apply ?tb l ?mj ?sn0] => destruct (patch_apply tb l mj sn0) as [[[m2 sn2]|]|] eqn:EP; try discriminate end.
    + destruct (derive (st_soltable s) m2) as [m3|] eqn:ED; [|discriminate].
      unfold respond in H. inv_ok H. left. unfold with_model; simpl. repeat split.
      destruct (derive_frame _ _ _ ED) as (Hd & _). rewrite Hd. now rewrite (patch_apply_desc _ _ _ _ _ _ EP).
    + unfold fail in H. inv_ok H. left. unfold with_model; simpl. repeat split.
  - unfold get_applicable, respond, fail, res_bind, need_name in H. break_in H; inv_ok H; left; repeat split; solve [reflexivity | congruence].
  - unfold get_active, respond, fail, res_bind, need_name in H. break_in H; inv_ok H; left; repeat split; solve [reflexivity | congruence].
  - (* PUT /model/actions/active *)
    unfold put_active in H.
    destruct (st_snap s) as [sn|]; [|unfold fail in H; inv_ok H; left; repeat split; solve [reflexivity | congruence]].
    destruct (rq_ctype r); try (unfold fail in H; inv_ok H; left; repeat split; solve [reflexivity | congruence]).
    destruct (rq_csv r) as [|t|]; [unfold fail in H; inv_ok H; left; repeat split; solve [reflexivity | congruence]| |discriminate].
    unfold res_bind in H.
    destruct (actions_table_ok t) as [ok|]; [|discriminate].
    destruct (negb ok); [unfold fail in H; inv_ok H; left; repeat split; solve [reflexivity | congruence]|].
    destruct (st_model s) as [m|] eqn:Em; [|discriminate].
    destruct (process_rows (d_actions (m_desc m)) (t_header t) (t_rows t) (m_bits m)) as [bits|]; [|discriminate].
    match type of H with context[derive ?tb ?mm] => destruct (derive tb mm) as [m1|] eqn:ED; [|discriminate] end.
    unfold respond in H. inv_ok H. left. unfold with_model; simpl. repeat split.
    destruct (derive_frame _ _ _ ED) as (Hd & _). now rewrite Hd.
  - unfold get_subcatchment, respond, fail, res_bind, need_name in H. break_in H; inv_ok H; left; repeat split; solve [reflexivity | congruence].
  - (* PUT /model/subcatchment/<id> *)
    unfold put_subcatchment in H.
    destruct (st_snap s) as [sn|]; [|unfold fail in H; inv_ok H; left; repeat split; solve [reflexivity | congruence]].
    destruct id as [pu|]; [|unfold fail in H; inv_ok H; left; repeat split; solve [reflexivity | congruence]].
    destruct (negb (model_contains sn pu)); [unfold fail in H; inv_ok H; left; repeat split; solve [reflexivity | congruence]|].
    unfold res_bind, need_name in H. destruct (st_name s); [|discriminate].
    destruct (rq_json r) as [|l|]; [unfold fail in H; inv_ok H; left; repeat split; solve [reflexivity | congruence]| |discriminate].
    destruct (negb (syntax_ok l)); [unfold fail in H; inv_ok H; left; repeat split; solve [reflexivity | congruence]|].
    destruct (st_model s) as [m|] eqn:Em; [|discriminate].
    destruct (negb (supported (d_actions (m_desc m)) pu l)); [unfold fail in H; inv_ok H; left; repeat split; solve [reflexivity | congruence]|].
    match type of H with context[derive ?tb ?mm] => destruct (derive tb mm) as [m1|] eqn:ED; [|discriminate] end.
    unfold respond in H. inv_ok H. left. unfold with_model; simpl. repeat split.
    destruct (derive_frame _ _ _ ED) as (Hd & _). now rewrite Hd.
Qed.

(* GET /solutions/<label>, characterised by the CURRENT summary table alone *)
Definition solution_answer (s : state) (label : string) (resp : response V) (s' : state) : Prop :=
  match st_soltable s with
  | None => resp = error_response 404 /\ s' = s
  | Some t =>
      match label_row label (t_rows t) with
      | Ok (Some r) =>
          exists m, st_model s = Some m /\ rs_status resp = 200 /\
            if String.eqb label "As-Is"
            then rs_body resp = BSolution (m_id m) (all_false (m_desc m)) (d_eval (m_desc m) (all_false (m_desc m))) None
            else exists enc summary, detail_of t r = Some (enc, summary)
                 /\ rs_body resp = BSolution (m_id m) (bits_of_encoding (m_desc m) enc)
                                             (d_eval (m_desc m) (bits_of_encoding (m_desc m) enc)) (Some (enc, summary))
      | _ => resp = error_response 404 /\ s' = s
      end
  end.

Lemma get_solution_answer : forall (s : state) label resp s',
  Inv s -> PoolOk s -> get_solution s label = Ok (resp, s') -> solution_answer s label resp s' /\ PoolOk s'.
Proof.
  intros s label resp s' HI HP H. unfold solution_answer. unfold get_solution in H.
  use_inv3 HI.
  - rewrite En in H. unfold fail in H. inv_ok H. rewrite Esb. auto.
  - rewrite En in H.
    destruct (st_soltable s) as [t|] eqn:Etbl; [|unfold fail in H; inv_ok H; auto].
    destruct (HT t eq_refl) as [Hwf Hcol]. destruct (table_wf_rows t Hwf) as [_ Hrows].
    destruct (label_row_total label (t_rows t)) as [o [Ho Hin]].
    { eapply Forall_impl; [|exact Hrows]. cbv beta. intros a Ha. rewrite Ha. lia. }
    rewrite Ho in H. rewrite Ho. cbn [res_bind] in H.
    destruct o as [row|]; [|unfold fail in H; inv_ok H; auto].
    rewrite Ep, Em in H.
    destruct (String.eqb label "As-Is") eqn:EA.
    { unfold respond in H. inv_ok H. split; [|exact HP]. exists m0. repeat split; auto. }
    destruct (pool_find p0 label) as [p|] eqn:Ef.
    { unfold respond in H. inv_ok H. split; [|exact HP]. exists m0. split; [exact Em|]. split; [reflexivity|].
      destruct (HP p0 m0 Ep Em label p Ef) as (t' & Et' & r' & Hr' & Hd & Hb).
      rewrite Etbl in Et'. inversion Et'; subst t'. rewrite Ho in Hr'. inversion Hr'; subst r'.
      exists (p_enc p), (p_summary p). split; [exact Hd|]. simpl. rewrite Hb. reflexivity. }
    destruct (Nat.ltb (col_size t) 2) eqn:L; [apply Nat.ltb_lt in L; lia|].
    assert (Hrl : List.length row = col_size t).
    { rewrite Forall_forall in Hrows. apply Hrows. now apply Hin. }
    destruct (nth_error row (col_size t - 2)) as [ce|] eqn:E1; [|apply nth_error_None in E1; lia].
    destruct (nth_error row (col_size t - 1)) as [cs|] eqn:E2; [|apply nth_error_None in E2; lia].
    unfold respond in H. inv_ok H. split.
    + exists m0. split; [exact Em|]. split; [reflexivity|].
      exists (cell_string_of ce), (cell_string_of cs). split; [unfold detail_of; now rewrite E1, E2|]. reflexivity.
    + (* the pool gained exactly the entry a lookup in the current table yields *)
      intros pool m Hp Hm l p Hf. simpl in Hp, Hm. inversion Hp; subst pool. try rewrite Em in Hm. inversion Hm; subst m.
      simpl. exists t. split; [reflexivity|]. cbn [pool_find] in Hf.
      destruct (String.eqb label l) eqn:El.
      * apply String.eqb_eq in El. subst l. inversion Hf; subst p. exists row. split; [exact Ho|].
        split; [unfold detail_of; now rewrite E1, E2|]. reflexivity.
      * destruct (HP p0 m0 Ep Em l p Hf) as (t' & Et' & Hok). rewrite Etbl in Et'. inversion Et'; subst t'. exact Hok.
Qed.

Lemma handle_pool : forall (s : state) (r : request) resp s',
  Inv s -> PoolOk s -> handle s r = Ok (resp, s') -> PoolOk s'.
Proof.
  intros s r resp s' HI HP H.
  destruct (pool_step s r resp s' H) as [(Hp & Ht & Hd)|[He|(label & Hr & Hm)]].
  - eapply PoolOk_frame; eauto.
  - now apply PoolOk_empty.
  - unfold handle in H. rewrite Hr, Hm in H. exact (proj2 (get_solution_answer s label resp s' HI HP H)).
Qed.

Lemma run_pool : forall (rs : list request) (s s' : state),
  Inv s -> PoolOk s -> forallb wf_request rs = true -> run s rs = Ok s' -> PoolOk s'.
Proof.
  induction rs as [|r rs IH]; intros s s' HI HP Hwf Hrun; simpl in *.
  - inversion Hrun; subst. exact HP.
  - apply andb_true_iff in Hwf. destruct Hwf as [Hr Hrs].
    destruct (handle s r) as [[resp s1]|] eqn:E; [|discriminate].
    destruct (handle_spec s r HI Hr) as (r1 & s10 & E1 & HI1 & _). rewrite E in E1. inversion E1; subst r1 s10.
    exact (IH s1 s' HI1 (handle_pool s r resp s1 HI HP E) Hrs Hrun).
Qed.

Lemma reachable_pool : forall s : state, reachable s -> PoolOk s.
Proof. intros s (rs & Hwf & Hrun). exact (run_pool rs init_state s Inv_init PoolOk_init Hwf Hrun). Qed.

(* ------------------------------------------------------------------------------------------------ *)
(** * The summary table in force after a history                                                     *)

Definition table_of (r : request) : option table := match rq_csv r with CsvOk t => Some t | _ => None end.

Lemma table_step : forall (s : state) (r : request) resp s',
  handle s r = Ok (resp, s') ->
  st_soltable s' = (if is_post RSolutions r && Nat.eqb (rs_status resp) 200 then table_of r
                    else if is_post RScenario r && Nat.eqb (rs_status resp) 200 then None
                    else st_soltable s).
Proof.
  intros s r resp s' H. unfold handle in H. unfold is_post, table_of.
  destruct (rq_route r); destruct (rq_meth r);
    try solve [unfold fail in H; inv_ok H; simpl; reflexivity].
  - unfold get_scenario, respond, fail, res_bind, need_name in H. break_in H; inv_ok H; simpl; congruence.
  - unfold post_scenario, respond, fail, res_bind, need_name in H. break_in H; inv_ok H; simpl; congruence.
  - unfold get_solutions, respond, fail, res_bind, need_name in H. break_in H; inv_ok H; simpl; congruence.
  - unfold post_solutions, respond, fail, res_bind, need_name in H. break_in H; inv_ok H; simpl; congruence.
  - unfold get_solution, respond, fail, res_bind, need_name in H. break_in H; inv_ok H; simpl; congruence.
  - unfold get_model, respond, fail, res_bind, need_name in H. break_in H; inv_ok H; simpl; congruence.
  - unfold patch_model, with_model, respond, fail, res_bind, need_name in H. break_in H; inv_ok H; simpl; congruence.
  - unfold get_applicable, respond, fail, res_bind, need_name in H. break_in H; inv_ok H; simpl; congruence.
  - unfold get_active, respond, fail, res_bind, need_name in H. break_in H; inv_ok H; simpl; congruence.
  - unfold put_active, with_model, respond, fail, res_bind, need_name in H. break_in H; inv_ok H; simpl; congruence.
  - unfold get_subcatchment, respond, fail, res_bind, need_name in H. break_in H; inv_ok H; simpl; congruence.
  - unfold put_subcatchment, with_model, respond, fail, res_bind, need_name in H. break_in H; inv_ok H; simpl; congruence.
Qed.

(* the table of the last POST /solutions among the successful requests [ws]; a successful POST /scenario drops it *)
Fixpoint last_table (ws : list request) (acc : option table) : option table :=
  match ws with
  | [] => acc
  | r :: ws' => last_table ws' (if is_post RSolutions r then table_of r else if is_post RScenario r then None else acc)
  end.

Lemma table_of_run : forall (rs : list request) (s s' : state),
  run s rs = Ok s' -> st_soltable s' = last_table (applied s rs) (st_soltable s).
Proof.
  induction rs as [|r rs IH]; intros s s' H; simpl in *.
  - inversion H; subst. reflexivity.
  - destruct (handle s r) as [[resp s1]|] eqn:E; [|discriminate].
    rewrite (IH s1 s' H), (table_step s r resp s1 E).
    destruct (Nat.eqb (rs_status resp) 200); simpl.
    + destruct (is_post RSolutions r), (is_post RScenario r); reflexivity.
    + rewrite !andb_false_r. reflexivity.
Qed.

(* what GET /solutions/<label> answers when [cur] is the summary in force *)
Definition answer_from (cur : option table) (m : option mstate) (label : string) (resp : response V) : Prop :=
  match cur with
  | None => resp = error_response 404
  | Some t =>
      match label_row label (t_rows t) with
      | Ok (Some r) =>
          exists m0, m = Some m0 /\ rs_status resp = 200 /\
            if String.eqb label "As-Is"
            then rs_body resp = BSolution (m_id m0) (all_false (m_desc m0)) (d_eval (m_desc m0) (all_false (m_desc m0))) None
            else exists enc summary, detail_of t r = Some (enc, summary)
                 /\ rs_body resp = BSolution (m_id m0) (bits_of_encoding (m_desc m0) enc)
                                             (d_eval (m_desc m0) (bits_of_encoding (m_desc m0) enc)) (Some (enc, summary))
      | _ => resp = error_response 404
      end
  end.

Theorem solution_from_current_summary : forall (rs : list request) (s : state) (label : string) resp s',
  forallb wf_request rs = true -> run init_state rs = Ok s ->
  get_solution s label = Ok (resp, s') ->
  answer_from (last_table (applied init_state rs) None) (st_model s) label resp.
Proof.
  intros rs s label resp s' Hwf Hrun H.
  assert (HR : reachable s) by (exists rs; auto).
  destruct (get_solution_answer s label resp s' (reachable_Inv s HR) (reachable_pool s HR) H) as [HA _].
  pose proof (table_of_run rs init_state s Hrun) as HT. simpl in HT. rewrite <- HT.
  unfold solution_answer in HA. unfold answer_from.
  destruct (st_soltable s) as [t|]; [|exact (proj1 HA)].
  destruct (label_row label (t_rows t)) as [[r|]|]; [|exact (proj1 HA)|exact (proj1 HA)].
  destruct HA as (m & Em & Hst & Hb). exists m. auto.
Qed.

(* in particular: a label that no row of the current summary carries is answered 404 and nothing changes, however
   often it was served from an earlier summary *)
Corollary label_not_in_current_summary : forall (s : state) (label : string) resp s' t,
  reachable s -> st_soltable s = Some t -> label_row label (t_rows t) = Ok None ->
  get_solution s label = Ok (resp, s') -> resp = error_response 404 /\ s' = s.
Proof.
  intros s label resp s' t HR Et Hl H.
  destruct (get_solution_answer s label resp s' (reachable_Inv s HR) (reachable_pool s HR) H) as [HA _].
  unfold solution_answer in HA. rewrite Et, Hl in HA. exact HA.
Qed.

End Solutions.
