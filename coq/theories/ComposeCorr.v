(* Correspondence checker for the composed multi-objective run (Compose.v): the REAL suppapitnarm explorer on
   the REAL catchment model with its REAL archive is replayed step by step — candidate action set, coolant
   decision and return-to-base selection are taken from the observation; the model must reproduce the ordered
   archive (action sets AND objective vectors), and the current solution after every iteration. No proofs. *)
From Coq Require Import List ZArith QArith Bool Arith.
From Crem Require Import Base.Res Catchment CatchmentCorr Limits NdArchive NdArchiveProofs Compose.
Import ListNotations.
Open Scope Z_scope.

Record cstep := mkCS {
  cs_cand : list bool;                       (* action set of potentialModel after Randomize *)
  cs_accepted : bool;                        (* Explorer.changeAccepted *)
  cs_rtb : bool;                             (* a return to base fired in this iteration *)
  cs_cur_after : list bool;                  (* action set of currentModel at the end of the iteration *)
  cs_arch_after : list (list bool * list Z)  (* the archive in order: action set, objective values (grid units, sorted names) *)
}.

Fixpoint find_bits (a : archive) (bits : list bool) (j : nat) : option nat :=
  match a with
  | [] => None
  | e :: a' => if blist_eqb (e_acts e) bits then Some j else find_bits a' bits (S j)
  end.

Definition vec_grid (d : dataset) (bits : list bool) : list Z :=
  map (fun k => canon_total d k (bits_fn bits)) sorted_vk.

Definition arch_matches (d : dataset) (a : archive) (obs : list (list bool * list Z)) : bool :=
  Nat.eqb (length a) (length obs) &&
  forallb (fun p => let '(e, (bits, vals)) := p in
             blist_eqb (e_acts e) bits && zlist_eqb (vec_grid d (e_acts e)) vals)
          (combine a obs).

(* one observed iteration replayed on the model; None = disagreement *)
Definition replay_step (d : dataset) (m : cm_state) (c : cstep) : option cm_state :=
  let pot2 := apply_set d (cs_cand c) in
  (* which archive index the return to base selected: the member whose action set the current model now carries *)
  let plain := cm_apply d m pot2 (cs_accepted c) None in
  match plain with
  | CMOk m1 =>
      let rtb := if cs_rtb c then find_bits (cm_arch m1) (cs_cur_after c) 0 else None in
      if cs_rtb c && match rtb with None => true | Some _ => false end then None else
      match cm_apply d m pot2 (cs_accepted c) rtb with
      | CMOk m' =>
          if blist_eqb (active_list d (cm_cur m')) (cs_cur_after c) && arch_matches d (cm_arch m') (cs_arch_after c)
          then Some m' else None
      | _ => None
      end
  | _ => None
  end.

Fixpoint replay (d : dataset) (m : cm_state) (steps : list cstep) (n : nat) : option nat :=
  match steps with
  | [] => None
  | c :: rest => match replay_step d m c with Some m' => replay d m' rest (S n) | None => Some n end
  end.

Record crun := mkCRun { cr_limit : vk * Q; cr_start : list bool; cr_steps : list cstep }.

(* None = the whole run is reproduced; Some k = first disagreeing iteration *)
Definition check_crun (d0 : dataset) (r : crun) : option nat :=
  let d := with_limit d0 (Some (cr_limit r)) in
  let s0 := apply_set d (cr_start r) in
  replay d (mkCM s0 (start_extreme d) [] []) (cr_steps r) 0.
