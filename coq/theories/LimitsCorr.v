(* Correspondence checker for C03 (evaluated by vm_compute on what the harness observed). No proofs. *)
From Coq Require Import List ZArith QArith Bool Arith.
From Crem Require Import Base.Fl Catchment CatchmentCorr Limits.
Import ListNotations.
Open Scope Z_scope.

(* ---- (a) the randomisation loops ---- *)
Record loopcase := mkLoop {
  lc_limit : option (vk * Q);
  lc_start : option (list bool);        (* None = the starting extreme chosen by Initialise(Random) *)
  lc_picks : list nat;
  lc_outcome : nat;                     (* 0 ok, 1 attempt-limit panic, 2 picks exhausted *)
  lc_obs : obs
}.

Definition check_loop (d0 : dataset) (c : loopcase) : bool :=
  let d := with_limit d0 (lc_limit c) in
  let s0 := match lc_start c with
            | None => start_extreme d
            | Some bits => synchronise d (start_extreme d) bits
            end in
  picks_ok d (lc_picks c) &&
  match randomize d (lc_picks c) s0, lc_outcome c with
  | LOk s, 0%nat => obs_eqb (obs_of d s) (lc_obs c) && state_is_valid d s
  | LPanic, 1%nat => true
  | LOutOfPicks, 2%nat => true
  | _, _ => false
  end.

(* ---- (b) boundary states of full runs ---- *)
Definition bits_fn (bits : list bool) : nat -> bool := fun j => nth j bits false.

Record boundary := mkB { b_bits : list bool; b_val : Z; b_arch : list (list bool * Z) }.

Definition entry_ok (d : dataset) (k : vk) (bits : list bool) (v : Z) : bool :=
  Nat.eqb (length bits) (nactions d) && (canon_total d k (bits_fn bits) =? v) && within d k v.

Definition boundary_ok (d : dataset) (k : vk) (b : boundary) : bool :=
  entry_ok d k (b_bits b) (b_val b) && forallb (fun e => entry_ok d k (fst e) (snd e)) (b_arch b).

(* single-objective runs: consecutive boundary states must be related by ONE iteration of the model
   (same set, or exactly one action toggled by a proposal the model judges valid) *)
Fixpoint first_diff (a b : list bool) (i : nat) : option nat :=
  match a, b with
  | x :: a', y :: b' => if Bool.eqb x y then first_diff a' b' (S i) else Some i
  | _, _ => None
  end.

Fixpoint kp_trace_ok (d : dataset) (s : state) (rest : list boundary) : bool :=
  match rest with
  | [] => true
  | b :: rest' =>
      match first_diff (active_list d s) (b_bits b) 0 with
      | None => kp_trace_ok d s rest'
      | Some i =>
          let s' := kp_iter d s i true in
          blist_eqb (active_list d s') (b_bits b) && kp_trace_ok d s' rest'
      end
  end.

Record runcase := mkRun { rc_kp : bool; rc_limit : vk * Q; rc_trace : list boundary }.

Definition check_run (d0 : dataset) (c : runcase) : bool :=
  let d := with_limit d0 (Some (rc_limit c)) in
  let k := fst (rc_limit c) in
  forallb (boundary_ok d k) (rc_trace c) &&
  (if rc_kp c then
     match rc_trace c with
     | [] => false
     | b0 :: rest => kp_trace_ok d (synchronise d (fresh d) (b_bits b0)) rest
     end
   else true).

Fixpoint bool_mismatches {A} (f : A -> bool) (l : list A) (n : nat) : list nat :=
  match l with
  | [] => []
  | c :: l' => if f c then bool_mismatches f l' (S n) else n :: bool_mismatches f l' (S n)
  end.
