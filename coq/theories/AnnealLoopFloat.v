(* C07, temperature numerics.
   (1) Bridge lemma [mul_shrinks] on primitive binary64 floats, through Flocq's Prim2B:
       finite x >= 0, finite 0 <= f <= 1  ==>  x*f finite, 0 <= x*f <= x   (all as boolean float tests).
   (2) The temperature sequence [temp_after a T0 k = iter (fun t => t*a) k T0] is finite, non-negative and
       non-increasing for finite T0 >= 0 and finite 0 <= a <= 1.
   (3) Idealised reading over R: iter (fun t => t*a) k T0 = T0 * a^k.
   Print Assumptions under (1),(2): the stdlib FloatAxioms and the classical-reals axioms (Flocq works over R). *)
From Coq Require Import ZArith Reals Floats Lia Lra Psatz.
From Flocq Require Import Core BinarySingleNaN PrimFloat.
From Crem Require Import AnnealLoop.

Local Open Scope float_scope.

(* boolean side conditions, on primitive floats *)
Definition fin_nonneg (x : PrimFloat.float) : bool := PrimFloat.is_finite x && (0 <=? x).
Definition fin_unit (f : PrimFloat.float) : bool := PrimFloat.is_finite f && (0 <=? f) && (f <=? 1).

Lemma one_B2R : B2R (Prim2B 1) = 1%R.
Proof.
  change 1%float with one. rewrite one_equiv, Prim2B_B2Prim. apply Bone_correct.
Qed.

Lemma zero_B2R : B2R (Prim2B 0) = 0%R.
Proof.
  change 0%float with zero. rewrite zero_equiv, Prim2B_B2Prim. reflexivity.
Qed.

Lemma zero_finite : is_finite (Prim2B 0) = true.
Proof. change 0%float with zero. rewrite zero_equiv, Prim2B_B2Prim. reflexivity. Qed.

Lemma one_finite : is_finite (Prim2B 1) = true.
Proof. change 1%float with one. rewrite one_equiv, Prim2B_B2Prim. apply is_finite_Bone. Qed.

Lemma leb_R : forall x y, PrimFloat.is_finite x = true -> PrimFloat.is_finite y = true ->
  ((x <=? y) = true <-> (B2R (Prim2B x) <= B2R (Prim2B y))%R).
Proof.
  intros x y Hx Hy. rewrite is_finite_equiv in Hx, Hy.
  rewrite leb_equiv, (Bleb_correct _ _ _ _ Hx Hy).
  destruct (Rle_bool_spec (B2R (Prim2B x)) (B2R (Prim2B y))) as [H|H]; split; intro K; try easy; lra.
Qed.

Lemma mul_shrinks_R : forall x f,
  PrimFloat.is_finite x = true -> PrimFloat.is_finite f = true ->
  (0 <= B2R (Prim2B x))%R -> (0 <= B2R (Prim2B f) <= 1)%R ->
  PrimFloat.is_finite (x * f) = true /\ (0 <= B2R (Prim2B (x * f)) <= B2R (Prim2B x))%R.
Proof.
  intros x f Fx Ff Hx Hf.
  rewrite is_finite_equiv in *. rewrite mul_equiv.
  set (X := Prim2B x) in *. set (F := Prim2B f) in *.
  assert (Hprod : (0 <= B2R X * B2R F <= B2R X)%R) by nra.
  pose proof (Bmult_correct prec emax Hprec Hmax mode_NE X F) as BM.
  set (r := round radix2 (SpecFloat.fexp prec emax) (round_mode mode_NE) (B2R X * B2R F)) in *.
  assert (Hr : (0 <= r <= B2R X)%R).
  { split.
    - rewrite <- (round_0 radix2 (SpecFloat.fexp prec emax) (round_mode mode_NE)).
      apply round_le; auto with typeclass_instances. apply fexp_correct; exact Hprec. lra.
    - assert (RX : round radix2 (SpecFloat.fexp prec emax) (round_mode mode_NE) (B2R X) = B2R X).
      { apply round_generic; auto with typeclass_instances. apply generic_format_B2R. }
      rewrite <- RX. unfold r.
      apply round_le; auto with typeclass_instances. apply fexp_correct; exact Hprec. lra. }
  assert (Hlt : (Rabs r < bpow radix2 emax)%R).
  { rewrite Rabs_pos_eq by lra.
    apply Rle_lt_trans with (B2R X). lra.
    apply Rle_lt_trans with (Rabs (B2R X)). apply Rle_abs. apply abs_B2R_lt_emax. }
  rewrite (Rlt_bool_true _ _ Hlt) in BM. destruct BM as (E & Fin & _).
  rewrite Fin, Fx, Ff. split; [reflexivity|]. rewrite E. exact Hr.
Qed.

Lemma fin_nonneg_R : forall x, fin_nonneg x = true <->
  PrimFloat.is_finite x = true /\ (0 <= B2R (Prim2B x))%R.
Proof.
  intro x. unfold fin_nonneg. rewrite Bool.andb_true_iff.
  assert (F0 : PrimFloat.is_finite 0 = true) by now rewrite is_finite_equiv, zero_finite.
  split; intros (Fx & H); split; auto.
  - pose proof (proj1 (leb_R 0 x F0 Fx) H) as K. now rewrite zero_B2R in K.
  - apply (proj2 (leb_R 0 x F0 Fx)). now rewrite zero_B2R.
Qed.

Lemma fin_unit_R : forall f, fin_unit f = true <->
  PrimFloat.is_finite f = true /\ (0 <= B2R (Prim2B f) <= 1)%R.
Proof.
  intro f. unfold fin_unit. rewrite !Bool.andb_true_iff.
  assert (F0 : PrimFloat.is_finite 0 = true) by now rewrite is_finite_equiv, zero_finite.
  assert (F1 : PrimFloat.is_finite 1 = true) by now rewrite is_finite_equiv, one_finite.
  split.
  - intros ((Ff & H0) & H1). split; auto.
    pose proof (proj1 (leb_R 0 f F0 Ff) H0) as K0. pose proof (proj1 (leb_R f 1 Ff F1) H1) as K1.
    rewrite zero_B2R in K0. rewrite one_B2R in K1. lra.
  - intros (Ff & H0 & H1). repeat split; auto.
    + apply (proj2 (leb_R 0 f F0 Ff)). now rewrite zero_B2R.
    + apply (proj2 (leb_R f 1 Ff F1)). now rewrite one_B2R.
Qed.

(* (1) the bridge lemma, boolean form *)
Theorem mul_shrinks : forall x f, fin_nonneg x = true -> fin_unit f = true ->
  fin_nonneg (x * f) = true /\ (x * f <=? x) = true.
Proof.
  intros x f Hx Hf.
  apply fin_nonneg_R in Hx. destruct Hx as (Fx & Hx).
  apply fin_unit_R in Hf. destruct Hf as (Ff & Hf).
  destruct (mul_shrinks_R x f Fx Ff Hx Hf) as (Fm & Hm).
  split.
  - apply fin_nonneg_R. split; auto. lra.
  - apply leb_R; auto. lra.
Qed.

(* (2) the temperature never increases *)
Lemma temp_after_S : forall a T0 k, temp_after a T0 (S k) = (temp_after a T0 k * a)%float.
Proof. reflexivity. Qed.

Theorem temp_fin_nonneg : forall a T0 k, fin_nonneg T0 = true -> fin_unit a = true ->
  fin_nonneg (temp_after a T0 k) = true.
Proof.
  intros a T0 k HT Ha. induction k as [|k IH]; [exact HT|].
  rewrite temp_after_S. apply (mul_shrinks _ _ IH Ha).
Qed.

Theorem temp_step_nonincreasing : forall a T0 k, fin_nonneg T0 = true -> fin_unit a = true ->
  (temp_after a T0 (S k) <=? temp_after a T0 k) = true.
Proof.
  intros a T0 k HT Ha. rewrite temp_after_S.
  apply (mul_shrinks _ _ (temp_fin_nonneg a T0 k HT Ha) Ha).
Qed.

Lemma leb_trans_fin : forall x y z, PrimFloat.is_finite x = true -> PrimFloat.is_finite y = true ->
  PrimFloat.is_finite z = true -> (x <=? y) = true -> (y <=? z) = true -> (x <=? z) = true.
Proof.
  intros x y z Fx Fy Fz H1 H2.
  apply leb_R in H1; auto. apply leb_R in H2; auto. apply leb_R; auto. lra.
Qed.

Theorem temp_nonincreasing : forall a T0 j k, fin_nonneg T0 = true -> fin_unit a = true ->
  (j <= k)%nat -> (temp_after a T0 k <=? temp_after a T0 j) = true.
Proof.
  intros a T0 j k HT Ha Hjk.
  assert (Fin : forall n, PrimFloat.is_finite (temp_after a T0 n) = true).
  { intro n. pose proof (temp_fin_nonneg a T0 n HT Ha) as H. apply fin_nonneg_R in H. tauto. }
  induction Hjk as [|k Hjk IH].
  - apply leb_R; auto. lra.
  - apply (leb_trans_fin _ (temp_after a T0 k)); auto.
    apply temp_step_nonincreasing; auto.
Qed.

(* (3) idealised closed form over the reals *)
Definition temp_R (a T0 : R) (k : nat) : R := Nat.iter k (fun t => (t * a)%R) T0.

Theorem temp_R_closed_form : forall a T0 k, temp_R a T0 k = (T0 * a ^ k)%R.
Proof.
  intros a T0 k. induction k as [|k IH]; simpl.
  - unfold temp_R. simpl. lra.
  - unfold temp_R in *. simpl. rewrite IH. lra.
Qed.

Theorem temp_R_nonincreasing : forall a T0 k, (0 <= T0)%R -> (0 <= a <= 1)%R ->
  (0 <= temp_R a T0 (S k) <= temp_R a T0 k)%R.
Proof.
  intros a T0 k HT Ha. rewrite !temp_R_closed_form.
  assert (H : (0 <= a ^ k)%R) by (apply pow_le; lra).
  assert (P : (0 <= T0 * a ^ k)%R) by (apply Rmult_le_pos; lra).
  replace (T0 * a ^ S k)%R with (a * (T0 * a ^ k))%R by (simpl; ring).
  nra.
Qed.
