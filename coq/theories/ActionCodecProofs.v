(* Proofs for the "portable" clause of C09: Compress -> Encoding -> Decode -> Decompress between two
   instances of one scenario reproduces the activation flags, hence the active set, hence (C01) the values. *)
From Coq Require Import List NArith ZArith String Bool Lia Permutation Sorted.
From Crem Require Import Base.Res BoolArchive BoolArchiveProofs ActionOrder ActionOrderProofs ActionCodec.
Import ListNotations.

Lemma set_management_action_spec : forall m index v, index < List.length m ->
  exists m', set_management_action m index v = Ok m' /\ List.length m' = List.length m
    /\ forall j, nth j m' false = if Nat.eqb j index then v else nth j m false.
Proof.
  intros m index v Hi. unfold set_management_action.
  destruct (nth_error m index) as [cur|] eqn:E; [|apply nth_error_None in E; lia].
  destruct (Bool.eqb cur v) eqn:Eq.
  - exists m. split; [reflexivity|]. split; [reflexivity|]. intro j.
    destruct (Nat.eqb_spec j index) as [-> | _]; [|reflexivity].
    apply eqb_prop in Eq. subst v. apply nth_error_nth. exact E.
  - destruct (set_nth_ok m index v Hi) as [m' [E' [L' Hn]]]. exists m'. split; [exact E'|]. split; [exact L'|].
    intro j. apply Hn.
Qed.

Lemma decompress_from_spec : forall count a index m, wf a -> index + count <= a_size a -> a_size a <= List.length m ->
  exists m', decompress_from a index count m = Ok m' /\ List.length m' = List.length m
    /\ forall j, nth j m' false = if (index <=? j) && (j <? index + count) then bit_at (a_words a) j else nth j m false.
Proof.
  induction count as [|c IH]; intros a index m Hwf Hi Hm.
  - exists m. cbn [decompress_from]. split; [reflexivity|]. split; [reflexivity|]. intro j.
    destruct (Nat.leb_spec index j); destruct (Nat.ltb_spec j (index + 0)); try reflexivity; lia.
  - cbn [decompress_from]. rewrite value_spec by (try exact Hwf; lia). cbn [res_bind].
    destruct (set_management_action_spec m index (bit_at (a_words a) index)) as [m1 [E1 [L1 Hn1]]]; [lia|].
    rewrite E1. cbn [res_bind].
    destruct (IH a (S index) m1 Hwf) as [m' [E' [L' Hn']]]; [lia|lia|].
    exists m'. split; [exact E'|]. split; [lia|]. intro j. rewrite Hn', Hn1.
    destruct (Nat.leb_spec (S index) j); destruct (Nat.ltb_spec j (S index + c)); destruct (Nat.eqb_spec j index);
      destruct (Nat.leb_spec index j); destruct (Nat.ltb_spec j (index + S c)); cbn [andb]; subst; try reflexivity; lia.
Qed.

(* Decompress into a model with exactly as many actions as the archive has entries: the flags become the bits *)
Lemma decompress_spec : forall a m, wf a -> a_size a = List.length m -> decompress a m = Ok (bits a).
Proof.
  intros a m Hwf Hs. unfold decompress.
  destruct (decompress_from_spec (a_size a) a 0 m Hwf) as [m' [E [L Hn]]]; [lia|lia|].
  rewrite E. f_equal. apply (nth_ext _ _ false false); [rewrite bits_length; lia|].
  intros j Hj. rewrite Hn, bits_nth by lia.
  destruct (Nat.leb_spec 0 j); [|lia]. destruct (Nat.ltb_spec j (0 + a_size a)); [reflexivity|lia].
Qed.

(* a model with fewer actions than the archive has entries: SetManagementAction indexes past the end *)
Lemma decompress_short_model_panics : decompress (new_archive 2) [false] = Panic.
Proof. vm_compute. reflexivity. Qed.

Lemma encoding_of_eq : forall bs, encoding_of bs = encode_bits bs.
Proof. reflexivity. Qed.

(* the whole path, between ANY two flag vectors of the same length n >= 1 (whatever the target held) *)
Lemma transfer_spec : forall src dst, src <> [] -> List.length src = List.length dst ->
  transfer src dst = Ok (Some src).
Proof.
  intros src dst Hne HL. unfold transfer. rewrite encoding_of_eq.
  destruct (encode_bits_total src) as [a [_ [E [Hwa [Hsa Hba]]]]]. rewrite E. cbn [res_bind].
  unfold transfer_text, compress_actions.
  destruct (build_spec dst) as [b [Eb [Hwb [Hsb _]]]]. rewrite Eb. cbn [res_bind].
  destruct (roundtrip_bits src _ Hne E b Hwb) as [b' [Ed [Hbits [Hwb' [Hsb' _]]]]]; [lia|].
  rewrite Ed. cbn [res_bind]. rewrite decompress_spec by (try exact Hwb'; lia). cbn [res_bind].
  rewrite Hbits. reflexivity.
Qed.

(* a text that Decode rejects leaves the target untouched (reInitialiseModelWithEncoding returns the error) *)
Lemma transfer_text_rejected : forall s dst,
  decode_accepts (nwords (List.length dst)) s = false -> transfer_text s dst = Ok None.
Proof.
  intros s dst Hr. unfold transfer_text, compress_actions.
  destruct (build_spec dst) as [b [Eb [Hwb [Hsb _]]]]. rewrite Eb. cbn [res_bind].
  destruct (decode_spec b s Hwb) as [b' [Ed _]]. destruct Hwb as [HL _]. rewrite HL, Hsb, Hr in Ed.
  rewrite Ed. reflexivity.
Qed.

(* ---- instances ---- *)

Lemma new_instance_keys_deterministic : forall g1 g2 act1 act2, NoDup g1 -> Permutation g1 g2 ->
  i_keys (new_instance g1 act1) = i_keys (new_instance g2 act2).
Proof.
  intros g1 g2 act1 act2 Hnd Hp. unfold new_instance. cbn [i_keys].
  apply sort_deterministic; [rewrite map_id; exact Hnd|exact Hp].
Qed.

Lemma new_instance_length : forall g act, List.length (i_active (new_instance g act)) = List.length g.
Proof.
  intros g act. unfold new_instance. cbn [i_active]. rewrite map_length.
  symmetry. apply Permutation_length. apply sort_perm.
Qed.

(* Two instances of one scenario: the same actions gathered in any two orders.  An action set reached on the
   first (any flags, one per action) travels to the second (whatever it held) and arrives as the same flags on
   the same keys: the same active set. *)
Lemma portable : forall g1 g2 act1 act2 flags,
  g1 <> [] -> NoDup g1 -> Permutation g1 g2 -> List.length flags = List.length g1 ->
  let src := mk_instance (i_keys (new_instance g1 act1)) flags in
  let dst := new_instance g2 act2 in
  exists dst', transfer_instance src dst = Ok (Some dst')
    /\ i_keys dst' = i_keys src /\ i_active dst' = flags /\ active_keys dst' = active_keys src.
Proof.
  intros g1 g2 act1 act2 flags Hne Hnd Hp HL src dst.
  assert (Hk : i_keys dst = i_keys src).
  { symmetry. apply (new_instance_keys_deterministic g1 g2 act1 act2 Hnd Hp). }
  unfold transfer_instance. cbn [i_active src].
  rewrite transfer_spec.
  - cbn [res_bind option_map]. eexists. split; [reflexivity|]. cbn [i_keys i_active].
    split; [exact Hk|]. split; [reflexivity|]. unfold active_keys. cbn [i_keys i_active]. rewrite Hk. reflexivity.
  - intro E. subst flags. destruct g1; [congruence|discriminate].
  - unfold dst. rewrite new_instance_length. rewrite <- (Permutation_length Hp). exact HL.
Qed.

Section Values.
  (* C01 (another slice) proves that a model's decision-variable values are a function of its active set;
     here that function is abstract *)
  Context {V : Type} (eval : list key -> V).

  Lemma portable_values : forall g1 g2 act1 act2 flags,
    g1 <> [] -> NoDup g1 -> Permutation g1 g2 -> List.length flags = List.length g1 ->
    let src := mk_instance (i_keys (new_instance g1 act1)) flags in
    let dst := new_instance g2 act2 in
    exists dst', transfer_instance src dst = Ok (Some dst') /\ eval (active_keys dst') = eval (active_keys src).
  Proof.
    intros g1 g2 act1 act2 flags Hne Hnd Hp HL src dst.
    destruct (portable g1 g2 act1 act2 flags Hne Hnd Hp HL) as [dst' [E [_ [_ Ha]]]].
    exists dst'. split; [exact E|]. rewrite Ha. reflexivity.
  Qed.
End Values.
