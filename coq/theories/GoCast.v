(* Model of what pkg/strings/BaseCaster.Cast (WithNumbersAsFloats) does with a CSV field, and of
   fmt.Sprintf("%v", float64) as used by baseTable.CellString — on a RESTRICTED, explicitly delimited domain.

   go_cast s = None   : s is outside the modelled domain (contains '_', or — after an optional sign — starts with
                        i/I/n/N (inf, infinity, nan) or with the hexadecimal prefix 0x/0X).  Nothing is claimed.
   go_cast s = Some g : strconv.ParseFloat(s,64) / strconv.ParseBool(s) classify s as g.  On the modelled domain
                        ParseFloat accepts exactly   [+-]? ( d+ ( . d* )? | . d+ ) ( [eE] [+-]? d+ )?
                        (transcribed from strconv.readFloat, including the exponent accumulator that stops growing
                        at 10000), and fails with ErrRange — so the caster falls through to ParseBool / text — when
                        the decimal value is >= 2^1024 - 2^970 in magnitude.
   The numeric result is carried as the EXACT decimal value q of the literal (0 when the literal is nonzero but
   below 10^-400, where the float64 is +-0 anyway); the float64 is the binary64 nearest to q (strconv's correctly
   rounded conversion is trusted; the correspondence checks |q - f| <= f * 2^-52).

   go_fmt_v x = Some s (only reached by baseTable.CellString for tables NOT parsed from CSV text since b0400cb; kept
   as the model of fmt %v for the fallback branch): only for integer magnitudes below 2^53 (exactly representable; shortest digits = the
   integer's digits without trailing zeros), +-Inf and NaN; '%v' = strconv 'g' with shortest precision:
   exponent form as soon as the decimal exponent is >= 6 (x >= 1e6 prints as d.ddde+XX).

   Both are tied to the real code by the C13 correspondence (exhaustive over short strings on the alphabet
   [0-9A-F:] plus structured longer shapes).  No proofs in this file. *)
From Coq Require Import List String Ascii QArith ZArith Bool Arith.
From Crem Require Import Base.Res CsvTable.
Import ListNotations.
Local Open Scope char_scope.

Definition chars (s : string) : list ascii := list_ascii_of_string s.

Definition is_digit (c : ascii) : bool :=
  (48 <=? nat_of_ascii c)%nat && (nat_of_ascii c <=? 57)%nat.
Definition digit_val (c : ascii) : Z := Z.of_nat (nat_of_ascii c - 48).
Definition is_e (c : ascii) : bool := Ascii.eqb c "e" || Ascii.eqb c "E".

Definition read_sign (s : list ascii) : bool * list ascii :=
  match s with
  | c :: r => if Ascii.eqb c "+" then (false, r) else if Ascii.eqb c "-" then (true, r) else (false, s)
  | [] => (false, [])
  end.

(* ---- modelled domain ---- *)
Definition in_class (cs : list ascii) (c : ascii) : bool := existsb (Ascii.eqb c) cs.

Definition modelled (s : list ascii) : bool :=
  negb (in_class s "_") &&
  match snd (read_sign s) with
  | c :: r =>
    negb (in_class ["i"; "I"; "n"; "N"] c) &&
    negb (Ascii.eqb c "0" && match r with x :: _ => in_class ["x"; "X"] x | [] => false end)
  | [] => true
  end.

(* ---- strconv.readFloat, decimal branch ---- *)
Fixpoint read_digits (acc : Z) (n : nat) (s : list ascii) : Z * nat * list ascii :=
  match s with
  | c :: s' => if is_digit c then read_digits (acc * 10 + digit_val c) (S n) s' else (acc, n, s)
  | [] => (acc, n, [])
  end.

(* digits [ '.' digits ], at least one digit in total; returns mantissa, number of fraction digits, rest *)
Definition read_mantissa (s : list ascii) : option (Z * nat * list ascii) :=
  let '(m1, n1, r1) := read_digits 0 0 s in
  match r1 with
  | c :: r2 =>
    if Ascii.eqb c "." then
      let '(m2, n2, r3) := read_digits m1 0 r2 in
      if (n1 + n2 =? 0)%nat then None else Some (m2, n2, r3)
    else if (n1 =? 0)%nat then None else Some (m1, 0%nat, r1)
  | [] => if (n1 =? 0)%nat then None else Some (m1, 0%nat, [])
  end.

(* exponent digits: "if e < 10000 { e = e*10 + digit }" *)
Fixpoint read_exp (e : Z) (n : nat) (s : list ascii) : Z * nat * list ascii :=
  match s with
  | c :: s' =>
    if is_digit c then read_exp (if (e <? 10000)%Z then (e * 10 + digit_val c)%Z else e) (S n) s'
    else (e, n, s)
  | [] => (e, n, [])
  end.

Definition read_exponent (s : list ascii) : option (Z * list ascii) :=
  match s with
  | c :: r =>
    if is_e c then
      let '(eneg, r1) := read_sign r in
      let '(e, n, r2) := read_exp 0 0 r1 in
      if (n =? 0)%nat then None else Some (if eneg then (- e)%Z else e, r2)
    else Some (0%Z, s)
  | [] => Some (0%Z, [])
  end.

(* (negative?, all mantissa digits as an integer, decimal exponent); None = syntax error
   (ParseFloat also fails when anything is left over after the literal) *)
Definition parse_dec (s : list ascii) : option (bool * Z * Z) :=
  let '(neg, r0) := read_sign s in
  match read_mantissa r0 with
  | None => None
  | Some (m, nfrac, r1) =>
    match read_exponent r1 with
    | None => None
    | Some (e, r2) =>
      match r2 with
      | [] => Some (neg, m, (e - Z.of_nat nfrac)%Z)
      | _ :: _ => None
      end
    end
  end.

Definition dec_value (m dexp : Z) : Q :=
  if (m =? 0)%Z then 0
  else if (0 <=? dexp)%Z then inject_Z (m * 10 ^ dexp)
  else m # (Z.to_pos (10 ^ (- dexp))).

(* halfway between MaxFloat64 = 2^1024 - 2^971 and 2^1024; the tie rounds to even = up = overflow *)
Definition overflow_threshold : Z := (2 ^ 1024 - 2 ^ 970)%Z.
Definition overflows (q : Q) : bool := Qle_bool (inject_Z overflow_threshold) q.

(* ---- strconv.ParseBool ---- *)
Definition str_in (s : string) (l : list string) : bool := existsb (String.eqb s) l.

Definition parse_bool (s : string) : option bool :=
  if str_in s ["1"; "t"; "T"; "TRUE"; "true"; "True"]%string then Some true
  else if str_in s ["0"; "f"; "F"; "FALSE"; "false"; "False"]%string then Some false
  else None.

Definition bool_or_text (s : string) : tag :=
  match parse_bool s with Some b => TBool b | None => TText end.

(* ---- BaseCaster.Cast ---- *)
Definition go_cast (s : string) : option tag :=
  let cs := chars s in
  if negb (modelled cs) then None
  else
    match parse_dec cs with
    | Some (neg, m, dexp) =>
      if (m =? 0)%Z then Some (TNum (Fin neg 0))
      else if (400 <? dexp)%Z then Some (bool_or_text s)        (* |value| >= 10^401: ErrRange *)
      else if (dexp <? -400 - Z.of_nat (List.length cs))%Z
      then Some (TNum (Fin neg 0))                              (* |value| < 10^-400: the float64 is +-0; the
                                                                   exact value is not computed (too large a power) *)
      else
        let q := dec_value m dexp in
        if overflows q then Some (bool_or_text s) else Some (TNum (Fin neg (Qred q)))
    | None => Some (bool_or_text s)
    end.

(* ---- fmt "%v" of a float64, integer magnitudes below 2^53 only ---- *)
Definition digit_char (d : Z) : ascii := ascii_of_nat (48 + Z.to_nat d).

Fixpoint digits_fuel (fuel : nat) (n : Z) (acc : list ascii) : list ascii :=
  match fuel with
  | O => acc
  | S f =>
    let acc' := digit_char (n mod 10) :: acc in
    if (n / 10 =? 0)%Z then acc' else digits_fuel f (n / 10) acc'
  end.
Definition digits (n : Z) : list ascii := digits_fuel 20 n [].

Fixpoint drop_zeros (l : list ascii) : list ascii :=
  match l with
  | c :: l' => if Ascii.eqb c "0" then drop_zeros l' else l
  | [] => []
  end.
Definition strip_trailing_zeros (l : list ascii) : list ascii := rev (drop_zeros (rev l)).

Definition two_digits (n : Z) : list ascii :=
  if (n <? 10)%Z then ["0"; digit_char n] else digits n.

Definition fmt_int (neg : bool) (n : Z) : string :=
  let sign := if neg then ["-"] else [] in
  let ds := digits n in
  let L := List.length ds in
  string_of_list_ascii (
    if (n =? 0)%Z then sign ++ ["0"]
    else if (L <=? 6)%nat then sign ++ ds
    else
      match strip_trailing_zeros ds with
      | d1 :: rest =>
        sign ++ [d1] ++ (match rest with [] => [] | _ => "." :: rest end)
             ++ ["e"; "+"] ++ two_digits (Z.of_nat (L - 1))
      | [] => []
      end).

Definition go_fmt_v (x : num) : option string :=
  match x with
  | Fin neg a =>
    let r := Qred a in
    if (Z.pos (Qden r) =? 1)%Z && (0 <=? Qnum r)%Z && (Qnum r <? 2 ^ 53)%Z
    then Some (fmt_int neg (Qnum r)) else None
  | Inf false => Some "+Inf"%string
  | Inf true => Some "-Inf"%string
  | NaN => Some "NaN"%string
  end.

(* ---- how the real caster / formatter relate to the model: they are unknown total functions that agree with
        the model wherever the model speaks ---- *)
Definition cast_agrees (cast : caster) : Prop := forall s g, go_cast s = Some g -> cast s = g.
Definition fmt_agrees (fmt : num -> string) : Prop := forall x s, go_fmt_v x = Some s -> fmt x = s.

(* concrete instances (non-vacuity, refutation witnesses, executable correspondence) *)
Definition model_cast : caster := fun s => match go_cast s with Some g => g | None => TText end.
Definition model_fmt : num -> string := fun x => match go_fmt_v x with Some s => s | None => "<unmodelled>"%string end.
