(* Exact rational value of a finite binary64 given as mantissa * 2^exponent (both small
   integers).  The harness exports floats this way (math.Frexp) because Coq parses
   300-digit literals very slowly; the power of two is computed inside Coq. *)
From Coq Require Import ZArith QArith.

Definition fl (m e : Z) : Q :=
  match e with
  | Z0 => m # 1
  | Zpos _ => Z.shiftl m e # 1
  | Zneg p => m # Pos.shiftl 1 (Npos p)
  end.
