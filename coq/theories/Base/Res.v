(* Outcome type shared by all models: a Go panic (unchecked index, failed type
   assertion, explicit panic(...)) is an explicit [Panic] value, never a
   totalised default. *)
From Coq Require Import List.
Import ListNotations.

Inductive res (A : Type) : Type :=
| Ok (a : A)
| Panic.
Arguments Ok {A} a.
Arguments Panic {A}.

Definition res_bind {A B} (r : res A) (f : A -> res B) : res B :=
  match r with Ok a => f a | Panic => Panic end.

Definition res_map {A B} (f : A -> B) (r : res A) : res B :=
  match r with Ok a => Ok (f a) | Panic => Panic end.

Definition is_ok {A} (r : res A) : bool :=
  match r with Ok _ => true | Panic => false end.

Notation "'do' x <- r ; k" := (res_bind r (fun x => k))
  (at level 200, x name, r at level 100, k at level 200).
