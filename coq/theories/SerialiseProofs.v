(* C16 -- proofs about the model of Serialise.v.

   Main result [locked_serialisable]: for EVERY execution of the small-step relation (any number of threads, bodies of
   any length, any schedule) of threads of the shape  acquire; body; release  that runs to completion, the final shared
   state and every thread's result are those of the serial execution of the bodies in lock-acquisition order.
   Proof: the invariant [inv] below, a simulation of the interleaved run by the serial one: while the mutex is free the
   configuration IS a serial configuration; while it is held, exactly one thread is inside its body, nobody else can
   move, and finishing that thread's remaining code sequentially gives the next serial configuration. *)
From Coq Require Import String List Arith Bool Lia Permutation.
From Crem Require Import Serialise SerialiseCorr.
Import ListNotations.

Set Implicit Arguments.

(* ---------- lists ---------- *)
Lemma upd_length : forall A (l : list A) i x, length (upd l i x) = length l.
Proof. induction l as [|h t IH]; intros [|i] x; cbn; auto. Qed.

Lemma nth_error_upd : forall A (l : list A) i j x,
  nth_error (upd l i x) j = if Nat.eqb i j then option_map (fun _ => x) (nth_error l i) else nth_error l j.
Proof.
  induction l as [|h t IH]; intros [|i] [|j] x; cbn; auto.
  all: try (destruct (Nat.eqb i j); reflexivity).
Qed.

Lemma nth_error_upd_eq : forall A (l : list A) i x y, nth_error l i = Some y -> nth_error (upd l i x) i = Some x.
Proof. intros A l i x y H. rewrite nth_error_upd, Nat.eqb_refl, H. reflexivity. Qed.

Lemma nth_error_upd_neq : forall A (l : list A) i j x, i <> j -> nth_error (upd l i x) j = nth_error l j.
Proof. intros A l i j x H. rewrite nth_error_upd. apply Nat.eqb_neq in H. rewrite H. reflexivity. Qed.

Lemma upd_upd : forall A (l : list A) i x y, upd (upd l i x) i y = upd l i y.
Proof. induction l as [|h t IH]; intros [|i] x y; cbn; auto. f_equal. apply IH. Qed.

Lemma nth_error_ext_eq : forall A (l l' : list A), (forall i, nth_error l i = nth_error l' i) -> l = l'.
Proof.
  induction l as [|h t IH]; intros [|h' t'] H; auto.
  - specialize (H 0). discriminate.
  - specialize (H 0). discriminate.
  - f_equal.
    + specialize (H 0). cbn in H. congruence.
    + apply IH. intro i. apply (H (S i)).
Qed.

Section Proofs.
Variables St Lc : Type.
Notation astep := (astep St Lc).
Notation instr := (instr St Lc).
Notation thread := (thread St Lc).
Notation cfg := (cfg St Lc).
Notation prog := (prog St Lc).

(* ---------- the executable scheduler is the relation ---------- *)
Lemma do_step_sound : forall (c : cfg) i e c', do_step c i = Some (e, c') -> step c e c'.
Proof.
  intros c i e c' H. unfold do_step in H.
  destruct (nth_error (thr c) i) as [[l cd]|] eqn:Hn; [|discriminate].
  destruct cd as [|[|dfl|a] r]; [discriminate| | |].
  - destruct (lock c) eqn:Hl; [discriminate|]. inversion H; subst. eapply step_acq; eauto.
  - destruct (lock c) eqn:Hl; [|discriminate]. inversion H; subst. eapply step_rel; eauto.
  - destruct (a (sh c) l) as [[s' l'] p] eqn:Ha. inversion H; subst. eapply step_act; eauto.
Qed.

Lemma do_step_complete : forall (c : cfg) e c', step c e c' -> do_step c (tid e) = Some (e, c').
Proof.
  intros c e c' H. inversion H; subst; cbn [tid]; unfold do_step.
  - rewrite H0, H1. reflexivity.
  - rewrite H0, H1. reflexivity.
  - rewrite H0, H1. reflexivity.
Qed.

(* the relation is deterministic per thread: a schedule (who moves) determines the run *)
Lemma step_deterministic : forall (c : cfg) e1 c1 e2 c2,
  step c e1 c1 -> step c e2 c2 -> tid e1 = tid e2 -> e1 = e2 /\ c1 = c2.
Proof.
  intros c e1 c1 e2 c2 H1 H2 Ht. apply do_step_complete in H1, H2. rewrite Ht in H1. rewrite H1 in H2.
  inversion H2. auto.
Qed.

Lemma exec_app : forall (c0 : cfg) tr1 c1 tr2 c2, exec c0 tr1 c1 -> exec c1 tr2 c2 -> exec c0 (tr1 ++ tr2) c2.
Proof.
  intros c0 tr1 c1 tr2 c2 H1 H2. induction H2.
  - rewrite app_nil_r. exact H1.
  - rewrite app_assoc. eapply exec_snoc; eauto.
Qed.

Lemma run_sched_sound : forall sch (c0 c : cfg) tr c' tr',
  exec c0 tr c -> run_sched sch c tr = (c', tr') -> exec c0 tr' c'.
Proof.
  induction sch as [|i r IH]; intros c0 c tr c' tr' He Hr; cbn in Hr.
  - inversion Hr; subst. exact He.
  - destruct (do_step c i) as [[e c1]|] eqn:Hd.
    + eapply IH; [|exact Hr]. eapply exec_snoc; eauto. eapply do_step_sound; eauto.
    + eapply IH; eauto.
Qed.

Lemma round_robin_sound : forall fuel n (c0 c : cfg) tr c' tr',
  exec c0 tr c -> round_robin fuel n c tr = (c', tr') -> exec c0 tr' c'.
Proof.
  induction fuel as [|f IH]; intros n c0 c tr c' tr' He Hr; cbn in Hr.
  - inversion Hr; subst. exact He.
  - destruct (run_sched (seq 0 n) c tr) as [c1 tr1] eqn:H1.
    eapply IH; [|exact Hr]. eapply run_sched_sound; eauto.
Qed.

Lemma run_to_end_sound : forall sch (c c' : cfg) tr, run_to_end sch c = (c', tr) -> exec c tr c'.
Proof.
  intros sch c c' tr H. unfold run_to_end in H.
  destruct (run_sched sch c []) as [c1 tr1] eqn:H1.
  eapply round_robin_sound; [|exact H]. eapply run_sched_sound; [apply exec_nil|exact H1].
Qed.

(* ---------- every step consumes an instruction: executions are finite ---------- *)
Lemma unwind_length : forall (cd : list instr), length (unwind cd) <= length cd.
Proof. induction cd as [|[|[|]|a] r IH]; cbn; lia. Qed.

Lemma measure_upd : forall (ths : list thread) i t t',
  nth_error ths i = Some t -> length (code t') < length (code t) ->
  fold_right (fun t n => length (code t) + n) 0 (upd ths i t') < fold_right (fun t n => length (code t) + n) 0 ths.
Proof.
  induction ths as [|h r IH]; intros [|i] t t' Hn Hl; cbn in *; try discriminate.
  - inversion Hn; subst. lia.
  - specialize (IH i t t' Hn Hl). lia.
Qed.

Lemma step_decreases : forall (c : cfg) e c', step c e c' -> measure c' < measure c.
Proof.
  intros c e c' H. inversion H; subst; unfold measure; cbn [thr];
    (eapply measure_upd; [eassumption|]); cbn [code length]; try lia.
  destruct p; [|lia]. pose proof (unwind_length r). lia.
Qed.

Lemma exec_bounded : forall (c0 : cfg) tr c, exec c0 tr c -> length tr + measure c <= measure c0.
Proof.
  intros c0 tr c H. induction H.
  - cbn. lia.
  - apply step_decreases in H0. rewrite app_length. cbn. lia.
Qed.

(* ---------- sequential reading of a thread's remaining code ---------- *)
Fixpoint finish (cd : list instr) (s : St) (l : Lc) : St * Lc :=
  match cd with
  | [] => (s, l)
  | IAct a :: r => match a s l with
                   | (s', l', true) => (s', l')
                   | (s', l', false) => finish r s' l'
                   end
  | _ :: r => finish r s l
  end.

Lemma finish_body : forall d (b : list astep) s l, finish (map (@IAct St Lc) b ++ [IRel d]) s l = run_body b s l.
Proof.
  induction b as [|a r IH]; intros s l; cbn; auto.
  destruct (a s l) as [[s' l'] [|]]; auto.
Qed.

Lemma unwind_acts : forall d (b : list astep),
  unwind (map (@IAct St Lc) b ++ [IRel d]) = if d then [IRel true] else [].
Proof. induction b as [|a r IH]; cbn; auto. Qed.

(* ---------- serial execution ---------- *)
Variable d : bool.
Variable progs : list prog.
Variable s0 : St.

Definition thread_of (p : prog) (r : option Lc) : thread :=
  match r with None => locked d p | Some l => {| loc := l; code := [] |} end.

Definition thr_of (res : list (option Lc)) : list thread :=
  map (fun pr => thread_of (fst pr) (snd pr)) (combine progs res).

Lemma nth_error_combine : forall A B (l : list A) (l' : list B) i,
  nth_error (combine l l') i =
  match nth_error l i, nth_error l' i with Some a, Some b => Some (a, b) | _, _ => None end.
Proof.
  induction l as [|a t IH]; intros [|b t'] [|i]; cbn; auto.
  - destruct (nth_error t i); reflexivity.
Qed.

Lemma nth_error_thr_of : forall res i,
  nth_error (thr_of res) i =
  match nth_error progs i, nth_error res i with Some p, Some r => Some (thread_of p r) | _, _ => None end.
Proof.
  intros res i. unfold thr_of. rewrite nth_error_map, nth_error_combine.
  destruct (nth_error progs i), (nth_error res i); reflexivity.
Qed.

Lemma thr_of_length : forall res, length res = length progs -> length (thr_of res) = length progs.
Proof. intros res H. unfold thr_of. rewrite map_length, combine_length. lia. Qed.

Lemma thr_of_upd : forall res i p r,
  nth_error progs i = Some p -> upd (thr_of res) i (thread_of p r) = thr_of (upd res i r).
Proof.
  intros res i p r Hp. apply nth_error_ext_eq. intro j.
  rewrite nth_error_upd, !nth_error_thr_of, nth_error_upd.
  destruct (Nat.eqb i j) eqn:E.
  - apply Nat.eqb_eq in E. subst j. rewrite Hp. destruct (nth_error res i); reflexivity.
  - reflexivity.
Qed.

Lemma thr_of_init : thr_of (map (fun _ => None) progs) = map (locked d) progs.
Proof.
  apply nth_error_ext_eq. intro i. rewrite nth_error_thr_of, !nth_error_map.
  destruct (nth_error progs i); reflexivity.
Qed.

Lemma serial_turn_length : forall i (sr : St * list (option Lc)),
  length (snd (serial_turn progs i sr)) = length (snd sr).
Proof.
  intros i sr. unfold serial_turn.
  destruct (nth_error progs i) as [p|]; auto.
  destruct (nth_error (snd sr) i) as [[l|]|]; auto.
  destruct (run_body (body p) (fst sr) (l0 p)). cbn. apply upd_length.
Qed.

Lemma serial_from_length : forall ord (sr : St * list (option Lc)),
  length (snd (serial_from progs ord sr)) = length (snd sr).
Proof.
  induction ord as [|i r IH]; intro sr; cbn; auto.
  unfold serial_from in *. cbn. rewrite IH. apply serial_turn_length.
Qed.

Lemma serial_length : forall ord, length (snd (serial progs ord s0)) = length progs.
Proof. intro ord. unfold serial. rewrite serial_from_length. cbn. apply map_length. Qed.

Lemma serial_snoc : forall ord i, serial progs (ord ++ [i]) s0 = serial_turn progs i (serial progs ord s0).
Proof. intros ord i. unfold serial, serial_from. rewrite fold_left_app. reflexivity. Qed.

(* a result, once present, stays *)
Lemma serial_turn_keeps : forall k (sr : St * list (option Lc)) i l,
  nth_error (snd sr) i = Some (Some l) -> nth_error (snd (serial_turn progs k sr)) i = Some (Some l).
Proof.
  intros k sr i l H. unfold serial_turn.
  destruct (nth_error progs k) as [p|]; auto.
  destruct (nth_error (snd sr) k) as [[lk|]|] eqn:Hk; auto.
  destruct (run_body (body p) (fst sr) (l0 p)). cbn.
  rewrite nth_error_upd. destruct (Nat.eqb k i) eqn:E; auto.
  apply Nat.eqb_eq in E. subst. congruence.
Qed.

Lemma serial_from_keeps : forall ord (sr : St * list (option Lc)) i l,
  nth_error (snd sr) i = Some (Some l) -> nth_error (snd (serial_from progs ord sr)) i = Some (Some l).
Proof.
  induction ord as [|k r IH]; intros sr i l H; cbn; auto.
  apply (IH (serial_turn progs k sr)). apply serial_turn_keeps. exact H.
Qed.

Lemma serial_turn_sets : forall i (sr : St * list (option Lc)),
  i < length progs -> i < length (snd sr) -> exists l, nth_error (snd (serial_turn progs i sr)) i = Some (Some l).
Proof.
  intros i sr Hp Hr. unfold serial_turn.
  destruct (nth_error progs i) as [p|] eqn:Ep; [|apply nth_error_None in Ep; lia].
  destruct (nth_error (snd sr) i) as [[l|]|] eqn:Er; [eauto| |apply nth_error_None in Er; lia].
  destruct (run_body (body p) (fst sr) (l0 p)) as [s' l']. cbn.
  exists l'. eapply nth_error_upd_eq; eauto.
Qed.

Lemma serial_from_in_some : forall ord (sr : St * list (option Lc)) i,
  In i ord -> i < length progs -> i < length (snd sr) ->
  exists l, nth_error (snd (serial_from progs ord sr)) i = Some (Some l).
Proof.
  induction ord as [|k r IH]; intros sr i Hin Hp Hr; [inversion Hin|].
  cbn. destruct Hin as [->|Hin].
  - destruct (serial_turn_sets sr Hp Hr) as [l Hl]. exists l. apply serial_from_keeps. exact Hl.
  - apply IH; auto. rewrite serial_turn_length. exact Hr.
Qed.

Lemma serial_in_some : forall ord i, In i ord -> i < length progs ->
  exists l, nth_error (snd (serial progs ord s0)) i = Some (Some l).
Proof. intros ord i Hin Hp. unfold serial. apply serial_from_in_some; auto. cbn. rewrite map_length. exact Hp. Qed.

Lemma serial_turn_some_inv : forall k (sr : St * list (option Lc)) i l,
  nth_error (snd (serial_turn progs k sr)) i = Some (Some l) -> i = k \/ nth_error (snd sr) i = Some (Some l).
Proof.
  intros k sr i l H. unfold serial_turn in H.
  destruct (nth_error progs k) as [p|]; auto.
  destruct (nth_error (snd sr) k) as [[lk|]|] eqn:Hk; auto.
  destruct (run_body (body p) (fst sr) (l0 p)). cbn in H.
  rewrite nth_error_upd in H. destruct (Nat.eqb k i) eqn:E; auto.
  apply Nat.eqb_eq in E. auto.
Qed.

Lemma serial_from_some_in : forall ord (sr : St * list (option Lc)) i l,
  nth_error (snd (serial_from progs ord sr)) i = Some (Some l) -> In i ord \/ nth_error (snd sr) i = Some (Some l).
Proof.
  induction ord as [|k r IH]; intros sr i l H; cbn in *; auto.
  apply IH in H. destruct H as [H|H]; auto.
  apply serial_turn_some_inv in H. destruct H as [->|H]; auto.
Qed.

Lemma serial_some_in : forall ord i l, nth_error (snd (serial progs ord s0)) i = Some (Some l) -> In i ord.
Proof.
  intros ord i l H. unfold serial in H. apply serial_from_some_in in H. destruct H as [H|H]; auto.
  cbn in H. rewrite nth_error_map in H. destruct (nth_error progs i); discriminate.
Qed.

(* ---------- the simulation invariant ---------- *)
Definition held_shape (cd : list instr) : Prop :=
  (exists xs : list astep, cd = map (@IAct St Lc) xs ++ [IRel d]) \/ (d = false /\ cd = []).

Definition inv (tr : list event) (c : cfg) : Prop :=
  NoDup (acq_order tr) /\ (forall i, In i (acq_order tr) -> i < length progs) /\
  ((lock c = false /\
    sh c = fst (serial progs (acq_order tr) s0) /\
    thr c = thr_of (snd (serial progs (acq_order tr) s0)))
   \/
   (lock c = true /\ exists ord' i p l cd,
      acq_order tr = ord' ++ [i] /\
      nth_error progs i = Some p /\
      nth_error (snd (serial progs ord' s0)) i = Some None /\
      held_shape cd /\
      finish cd (sh c) l = run_body (body p) (fst (serial progs ord' s0)) (l0 p) /\
      thr c = upd (thr_of (snd (serial progs ord' s0))) i {| loc := l; code := cd |})).

Lemma acq_order_app : forall tr1 tr2, acq_order (tr1 ++ tr2) = acq_order tr1 ++ acq_order tr2.
Proof. induction tr1 as [|[i|i|i] r IH]; intro tr2; cbn; auto. f_equal. apply IH. Qed.

(* a thread outside its body is either waiting for the mutex or finished *)
Lemma thread_of_code : forall p r, code (thread_of p r) = [] \/ exists cd, code (thread_of p r) = IAcq :: cd.
Proof. intros p [l|]; cbn; eauto. Qed.

Lemma inv_init : inv [] (init d progs s0).
Proof.
  unfold inv. cbn [acq_order]. split; [constructor|]. split; [intros i []|].
  left. cbn. split; auto. split; auto. symmetry. apply thr_of_init.
Qed.

Lemma inv_step : forall tr c e c', inv tr c -> step c e c' -> inv (tr ++ [e]) c'.
Proof.
  intros tr c e c' (Hnd & Hrange & Hcase) Hstep.
  destruct Hcase as [(Hl & Hs & Ht) | (Hl & ord' & i & p & l & cd & Hord & Hp & Hres & Hshape & Hfin & Ht)].
  - (* the mutex is free: only an acquire can happen *)
    inversion Hstep as [c1 j lj rj Hn Hlk | c1 j lj dj rj Hn Hlk | c1 j lj a rj s' l' pf Hn Ha]; subst.
    + rewrite Ht, nth_error_thr_of in Hn.
      destruct (nth_error progs j) as [pj|] eqn:Hpj; [|discriminate].
      destruct (nth_error (snd (serial progs (acq_order tr) s0)) j) as [[lr|]|] eqn:Hrj; try discriminate.
      cbn in Hn. inversion Hn; subst lj rj. clear Hn.
      assert (Hjn : j < length progs) by (apply nth_error_Some; congruence).
      assert (Hnotin : ~ In j (acq_order tr)).
      { intro Hin. destruct (serial_in_some _ Hin Hjn) as [lx Hx]. congruence. }
      unfold inv. rewrite acq_order_app. cbn [acq_order].
      split.
      { eapply Permutation_NoDup; [apply Permutation_cons_append|]. constructor; auto. }
      split.
      { intros k Hk. apply in_app_or in Hk. destruct Hk as [Hk|[<-|[]]]; auto. }
      right. cbn [lock sh thr]. split; auto.
      exists (acq_order tr), j, pj, (l0 pj), (map (@IAct St Lc) (body pj) ++ [IRel d]).
      repeat split; auto.
      * left. eauto.
      * rewrite finish_body, Hs. reflexivity.
      * rewrite Ht. reflexivity.
    + congruence.
    + rewrite Ht, nth_error_thr_of in Hn.
      destruct (nth_error progs j) as [pj|]; [|discriminate].
      destruct (nth_error (snd (serial progs (acq_order tr) s0)) j) as [rj0|]; [|discriminate].
      inversion Hn as [Hn']. destruct (thread_of_code pj rj0) as [Hc|[cd Hc]]; rewrite Hn' in Hc; cbn in Hc; discriminate.
  - (* the mutex is held by thread i: nobody else can move *)
    assert (Hothers : forall j t, j <> i -> nth_error (thr c) j = Some t -> code t = [] \/ exists cd', code t = IAcq :: cd').
    { intros j t Hji Hn. rewrite Ht, nth_error_upd_neq, nth_error_thr_of in Hn by auto.
      destruct (nth_error progs j) as [pj|]; [|discriminate].
      destruct (nth_error (snd (serial progs ord' s0)) j) as [rj0|]; [|discriminate].
      inversion Hn; subst. apply thread_of_code. }
    assert (Hmine : forall t, nth_error (thr c) i = Some t -> t = {| loc := l; code := cd |}).
    { intros t Hn. rewrite Ht, nth_error_upd, Nat.eqb_refl in Hn.
      destruct (nth_error (thr_of (snd (serial progs ord' s0))) i); cbn in Hn; congruence. }
    inversion Hstep as [c1 j lj rj Hn Hlk | c1 j lj dj rj Hn Hlk | c1 j lj a rj s' l' pf Hn Ha]; subst.
    + congruence.
    + (* release *)
      destruct (Nat.eq_dec j i) as [->|Hji].
      2:{ destruct (Hothers _ _ Hji Hn) as [Hc|[cd' Hc]]; cbn in Hc; discriminate. }
      apply Hmine in Hn. inversion Hn; subst lj cd. clear Hn.
      assert (Hr : rj = [] /\ dj = d).
      { destruct Hshape as [[xs Hx]|[_ Hx]]; [|discriminate].
        destruct xs as [|x xs]; cbn in Hx.
        - inversion Hx; auto.
        - discriminate. }
      destruct Hr as [-> ->]. cbn in Hfin.
      unfold inv. rewrite acq_order_app. cbn [acq_order]. rewrite app_nil_r.
      split; auto. split; auto.
      left. cbn [lock sh thr]. split; auto.
      rewrite Hord, serial_snoc. unfold serial_turn. rewrite Hp, Hres.
      rewrite <- Hfin. cbn [fst snd]. split; auto.
      rewrite Ht, upd_upd. change {| loc := l; code := [] |} with (thread_of p (Some l)). apply thr_of_upd. exact Hp.
    + (* an action of the body *)
      destruct (Nat.eq_dec j i) as [->|Hji].
      2:{ destruct (Hothers _ _ Hji Hn) as [Hc|[cd' Hc]]; cbn in Hc; discriminate. }
      apply Hmine in Hn. inversion Hn; subst lj cd. clear Hn.
      assert (Hr : exists xs, rj = map (@IAct St Lc) xs ++ [IRel d]).
      { destruct Hshape as [[xs Hx]|[_ Hx]]; [|discriminate].
        destruct xs as [|x xs]; cbn in Hx; [discriminate|]. inversion Hx. eauto. }
      destruct Hr as [xs ->].
      cbn [finish] in Hfin. rewrite Ha in Hfin.
      unfold inv. rewrite acq_order_app. cbn [acq_order]. rewrite app_nil_r.
      split; auto. split; auto.
      right. cbn [lock sh thr]. split; auto.
      exists ord', i, p, l', (if pf then unwind (map (@IAct St Lc) xs ++ [IRel d]) else map (@IAct St Lc) xs ++ [IRel d]).
      repeat split; auto.
      * destruct pf; [|left; eauto].
        rewrite unwind_acts. unfold held_shape.
        destruct (Bool.bool_dec d true) as [Hd|Hd]; [|apply not_true_is_false in Hd]; rewrite Hd.
        -- left. exists []. reflexivity.
        -- right. auto.
      * destruct pf; auto.
        rewrite unwind_acts.
        destruct (Bool.bool_dec d true) as [Hd|Hd]; [|apply not_true_is_false in Hd]; rewrite Hd; cbn; auto.
      * rewrite Ht, upd_upd. reflexivity.
Qed.

Theorem inv_reachable : forall tr c, exec (init d progs s0) tr c -> inv tr c.
Proof. intros tr c H. induction H; [apply inv_init | eapply inv_step; eauto]. Qed.

(* mutual exclusion, as a corollary: at most one thread is ever inside its body *)
Definition inside (t : thread) : bool :=
  match code t with [] => false | IAcq :: _ => false | _ => true end.

Lemma thread_of_not_inside : forall p r, inside (thread_of p r) = false.
Proof. intros p [l|]; reflexivity. Qed.

Theorem mutual_exclusion : forall tr c i j ti tj,
  exec (init d progs s0) tr c ->
  nth_error (thr c) i = Some ti -> nth_error (thr c) j = Some tj ->
  inside ti = true -> inside tj = true -> i = j.
Proof.
  intros tr c i j ti tj He Hi Hj Ii Ij.
  destruct (inv_reachable He) as (_ & _ & [(_ & _ & Ht) | (_ & ord' & k & p & l & cd & _ & _ & _ & _ & _ & Ht)]).
  - rewrite Ht, nth_error_thr_of in Hi.
    destruct (nth_error progs i); [|discriminate]. destruct (nth_error _ i); [|discriminate].
    inversion Hi; subst. rewrite thread_of_not_inside in Ii. discriminate.
  - assert (forall m t, nth_error (thr c) m = Some t -> inside t = true -> m = k) as Hk.
    { intros m t Hm Im. destruct (Nat.eq_dec m k); auto.
      rewrite Ht, nth_error_upd_neq, nth_error_thr_of in Hm by auto.
      destruct (nth_error progs m); [|discriminate]. destruct (nth_error _ m); [|discriminate].
      inversion Hm; subst. rewrite thread_of_not_inside in Im. discriminate. }
    rewrite (Hk _ _ Hi Ii), (Hk _ _ Hj Ij). reflexivity.
Qed.

(* every atomic action on the shared state is performed with the mutex held *)
Theorem acts_hold_lock : forall tr c i c',
  exec (init d progs s0) tr c -> step c (EAct i) c' -> lock c = true.
Proof.
  intros tr c i c' He Hstep.
  destruct (inv_reachable He) as (_ & _ & [(_ & _ & Ht) | (Hl & _)]); auto.
  exfalso. inversion Hstep as [ | | c1 j lj a rj s' l' pf Hn Ha]; subst.
  rewrite Ht, nth_error_thr_of in Hn.
  destruct (nth_error progs i) as [pj|]; [|discriminate].
  destruct (nth_error (snd (serial progs (acq_order tr) s0)) i) as [rj0|]; [|discriminate].
  inversion Hn as [Hn']. destruct (thread_of_code pj rj0) as [Hc|[cd Hc]]; rewrite Hn' in Hc; cbn in Hc; discriminate.
Qed.

(* ---------- completed executions are serial executions ---------- *)
Lemma all_done_thr_of : forall res,
  length res = length progs -> forallb (@done_thread St Lc) (thr_of res) = true ->
  map (fun t : thread => Some (loc t)) (thr_of res) = res.
Proof.
  intros res Hlen Hd. apply nth_error_ext_eq. intro i.
  rewrite nth_error_map, nth_error_thr_of.
  destruct (nth_error progs i) as [p|] eqn:Hp.
  - destruct (nth_error res i) as [r|] eqn:Hr; [|reflexivity].
    destruct r as [l|]; [reflexivity|].
    rewrite forallb_forall in Hd.
    assert (Hin : In (thread_of p None) (thr_of res)).
    { eapply nth_error_In. rewrite nth_error_thr_of, Hp, Hr. reflexivity. }
    apply Hd in Hin. discriminate.
  - apply nth_error_None in Hp. assert (length res <= i) by lia.
    apply nth_error_None in H. rewrite H. reflexivity.
Qed.

Lemma inv_done : forall tr c, inv tr c -> all_done c = true ->
  sh c = fst (serial progs (acq_order tr) s0) /\ thr c = thr_of (snd (serial progs (acq_order tr) s0)).
Proof.
  intros tr c (Hnd & Hrange & Hcase) Hdone.
  destruct Hcase as [(Hl & Hs & Ht) | (Hl & ord' & i & p & l & cd & Hord & Hp & Hres & Hshape & Hfin & Ht)]; auto.
  (* the mutex is still held: the holder panicked and its Unlock was not deferred *)
  assert (Hcd : cd = []).
  { unfold all_done in Hdone. rewrite forallb_forall in Hdone.
    assert (Hin : In {| loc := l; code := cd |} (thr c)).
    { eapply nth_error_In with (n := i). rewrite Ht.
      assert (i < length (thr_of (snd (serial progs ord' s0)))) as Hlt.
      { rewrite thr_of_length by apply serial_length. apply nth_error_Some. congruence. }
      apply nth_error_Some in Hlt. destruct (nth_error (thr_of (snd (serial progs ord' s0))) i) eqn:E; [|congruence].
      eapply nth_error_upd_eq; eauto. }
    apply Hdone in Hin. unfold done_thread in Hin. cbn in Hin. destruct cd; [reflexivity|discriminate]. }
  subst cd. cbn in Hfin.
  rewrite Hord, serial_snoc. unfold serial_turn. rewrite Hp, Hres, <- Hfin. cbn [fst snd].
  split; auto. rewrite Ht. change {| loc := l; code := [] |} with (thread_of p (Some l)). apply thr_of_upd. exact Hp.
Qed.

Theorem locked_serialisable : forall tr c,
  exec (init d progs s0) tr c -> all_done c = true ->
  Permutation (acq_order tr) (seq 0 (length progs)) /\
  sh c = fst (serial progs (acq_order tr) s0) /\
  results c = snd (serial progs (acq_order tr) s0).
Proof.
  intros tr c He Hdone. pose proof (inv_reachable He) as Hinv.
  destruct (inv_done Hinv Hdone) as [Hs Ht].
  destruct Hinv as (Hnd & Hrange & _).
  assert (Hres : results c = snd (serial progs (acq_order tr) s0)).
  { unfold results. rewrite Ht. apply all_done_thr_of; [apply serial_length|].
    unfold all_done in Hdone. rewrite Ht in Hdone. exact Hdone. }
  split; [|split; auto].
  apply NoDup_Permutation; auto using seq_NoDup.
  intro i. rewrite in_seq. split; intro H.
  - split; [lia|]. cbn. auto.
  - destruct H as [_ H]. cbn in H.
    assert (Hi : exists r, nth_error (results c) i = Some (Some r)).
    { unfold results. rewrite nth_error_map.
      assert (i < length (thr c)) as Hlt.
      { rewrite Ht, thr_of_length by apply serial_length. exact H. }
      apply nth_error_Some in Hlt. destruct (nth_error (thr c) i) as [t|]; [|congruence]. cbn. eauto. }
    destruct Hi as [r Hr]. rewrite Hres in Hr. eapply serial_some_in; eauto.
Qed.

(* ... and hence of SOME one-at-a-time ordering of the same threads *)
Corollary locked_some_serial_order : forall tr c,
  exec (init d progs s0) tr c -> all_done c = true ->
  exists ord, Permutation ord (seq 0 (length progs)) /\
              sh c = fst (serial progs ord s0) /\ results c = snd (serial progs ord s0).
Proof. intros tr c He Hd. exists (acq_order tr). apply locked_serialisable; auto. Qed.

(* ---------- no deadlock: with a deferred Unlock an unfinished reachable configuration can always move ---------- *)
Theorem locked_progress : d = true -> forall tr c,
  exec (init d progs s0) tr c -> all_done c = true \/ exists e c', step c e c'.
Proof.
  intros Hd tr c He. destruct (inv_reachable He) as (_ & _ & Hcase).
  destruct Hcase as [(Hl & Hs & Ht) | (Hl & ord' & i & p & l & cd & Hord & Hp & Hres & Hshape & Hfin & Ht)].
  - destruct (all_done c) eqn:Hdone; auto. right.
    unfold all_done in Hdone.
    assert (exists t, In t (thr c) /\ done_thread t = false) as (t & Hin & Hnd).
    { clear - Hdone. induction (thr c) as [|h r IH]; cbn in Hdone; [discriminate|].
      destruct (done_thread h) eqn:E; [destruct (IH Hdone) as (t & Hin & Ht); exists t; cbn; auto|].
      exists h. cbn. auto. }
    apply In_nth_error in Hin. destruct Hin as [j Hj].
    pose proof Hj as Hj'. rewrite Ht, nth_error_thr_of in Hj'.
    destruct (nth_error progs j) as [pj|]; [|discriminate].
    destruct (nth_error (snd (serial progs (acq_order tr) s0)) j) as [[lr|]|]; try discriminate.
    + inversion Hj'; subst. discriminate.
    + inversion Hj' as [Ht']. rewrite <- Ht' in Hj. cbn in Hj.
      eexists. eexists. eapply step_acq; eauto.
  - right.
    assert (Hi : nth_error (thr c) i = Some {| loc := l; code := cd |}).
    { rewrite Ht.
      assert (i < length (thr_of (snd (serial progs ord' s0)))) as Hlt.
      { rewrite thr_of_length by apply serial_length. apply nth_error_Some. congruence. }
      apply nth_error_Some in Hlt. destruct (nth_error (thr_of (snd (serial progs ord' s0))) i) eqn:E; [|congruence].
      eapply nth_error_upd_eq; eauto. }
    destruct Hshape as [[xs Hx]|[Hf _]]; [|congruence].
    destruct xs as [|a xs]; cbn in Hx; subst cd.
    + eexists. eexists. eapply step_rel; eauto.
    + destruct (a (sh c) l) as [[s' l'] pf] eqn:Ha.
      eexists. eexists. eapply step_act; eauto.
Qed.

End Proofs.

(* ---------- the translated facts ---------- *)
Theorem facts_serialisable : forall (f : serve_facts), serve_is_locked f = true ->
  forall St Lc (progs : list (prog St Lc)) s0 tr c,
  exec (serve_init f progs s0) tr c -> all_done c = true ->
  exists ord, Permutation ord (seq 0 (length progs)) /\
              sh c = fst (serial progs ord s0) /\ results c = snd (serial progs ord s0).
Proof.
  intros f Hf St Lc progs s0 tr c He Hd.
  unfold serve_init, serve_thread in He. rewrite Hf in He.
  eapply locked_some_serial_order; eauto.
Qed.

Theorem facts_progress : forall (f : serve_facts), serve_is_locked f = true -> sf_unlock_deferred f = true ->
  forall St Lc (progs : list (prog St Lc)) s0 tr c,
  exec (serve_init f progs s0) tr c -> all_done c = true \/ exists e c', step c e c'.
Proof.
  intros f Hf Hd St Lc progs s0 tr c He.
  unfold serve_init, serve_thread in He. rewrite Hf, Hd in He.
  exact (@locked_progress St Lc true progs s0 eq_refl tr c He).
Qed.

Lemma facts_ok_locked : forall f, facts_ok f = true -> serve_is_locked f = true.
Proof. intros f H. unfold facts_ok in H. apply andb_prop in H. tauto. Qed.

Theorem facts_ok_serialisable : forall (f : serve_facts), facts_ok f = true ->
  forall St Lc (progs : list (prog St Lc)) s0 tr c,
  exec (serve_init f progs s0) tr c -> all_done c = true ->
  exists ord, Permutation ord (seq 0 (length progs)) /\
              sh c = fst (serial progs ord s0) /\ results c = snd (serial progs ord s0).
Proof. intros f H. apply facts_serialisable, facts_ok_locked, H. Qed.

Theorem facts_ok_acts_hold_lock : forall (f : serve_facts), facts_ok f = true ->
  forall St Lc (progs : list (prog St Lc)) s0 tr c i c',
  exec (serve_init f progs s0) tr c -> step c (EAct i) c' -> lock c = true.
Proof.
  intros f H St Lc progs s0 tr c i c' He Hs. apply facts_ok_locked in H.
  unfold serve_init, serve_thread in He. rewrite H in He. eapply acts_hold_lock; eauto.
Qed.

Theorem facts_ok_progress : forall (f : serve_facts), facts_ok f = true -> sf_unlock_deferred f = true ->
  forall St Lc (progs : list (prog St Lc)) s0 tr c,
  exec (serve_init f progs s0) tr c -> all_done c = true \/ exists e c', step c e c'.
Proof. intros f H. apply facts_progress, facts_ok_locked, H. Qed.

(* ---------- without the mutex the statement is false: the classical lost update ---------- *)
Definition rmw : list (astep nat nat) :=
  [fun s _ => (s, s, false);          (* read the shared counter into the private register *)
   fun _ l => (S l, l, false)].       (* write register + 1 back *)
Definition rmw_prog : prog nat nat := {| l0 := 0; body := rmw |}.
Definition lost_update_run := run_to_end [0; 1; 0; 1] (uinit [rmw_prog; rmw_prog] 0).

Theorem unlocked_refuted : exists (progs : list (prog nat nat)) s0 tr c,
  exec (uinit progs s0) tr c /\ all_done c = true /\
  forall ord, Permutation ord (seq 0 (length progs)) -> sh c <> fst (serial progs ord s0).
Proof.
  exists [rmw_prog; rmw_prog], 0, (snd lost_update_run), (fst lost_update_run).
  split.
  { apply run_to_end_sound with (sch := [0; 1; 0; 1]). apply surjective_pairing. }
  split.
  { vm_compute. reflexivity. }
  intros ord Hp. cbn in Hp. apply Permutation_sym, Permutation_length_2_inv in Hp.
  destruct Hp as [-> | ->]; vm_compute; discriminate.
Qed.

Theorem facts_unlocked_refuted : forall (f : serve_facts), serve_is_locked f = false ->
  exists (progs : list (prog nat nat)) s0 tr c,
  exec (serve_init f progs s0) tr c /\ all_done c = true /\
  forall ord, Permutation ord (seq 0 (length progs)) -> sh c <> fst (serial progs ord s0).
Proof.
  intros f Hf. destruct unlocked_refuted as (progs & s0 & tr & c & He & Hd & Hno).
  exists progs, s0, tr, c. split; auto.
  unfold serve_init, serve_thread. rewrite Hf. exact He.
Qed.

(* ---------- why the Unlock must be deferred: a panicking body would leave the mutex held for ever ---------- *)
Definition panicking_prog : prog nat nat := {| l0 := 0; body := [fun s l => (s, l, true)] |}.
Definition idle_prog : prog nat nat := {| l0 := 0; body := [] |}.
Definition wedged_run := run_sched [0; 0] (init false [panicking_prog; idle_prog] 0) [].

Theorem nondeferred_can_wedge : exists (progs : list (prog nat nat)) s0 tr c,
  exec (init false progs s0) tr c /\ all_done c = false /\ forall e c', ~ step c e c'.
Proof.
  exists [panicking_prog; idle_prog], 0, (snd wedged_run), (fst wedged_run).
  split.
  { eapply run_sched_sound with (sch := [0; 0]); [apply exec_nil | apply surjective_pairing]. }
  split.
  { vm_compute. reflexivity. }
  intros e c' H. apply do_step_complete in H.
  destruct (tid e) as [|[|k]]; try (vm_compute in H; discriminate).
  destruct k; vm_compute in H; discriminate.
Qed.

(* ---------- the same at the level of the engine's requests (SerialiseCorr.torn_run) ---------- *)
Theorem engine_unlocked_refuted : exists tr c,
  exec (uinit torn_progs ([false; false], [false; false])) tr c /\ all_done c = true /\
  forall ord, Permutation ord (seq 0 (length torn_progs)) ->
              sh c <> fst (serial torn_progs ord ([false; false], [false; false])).
Proof.
  exists (snd torn_run), (fst torn_run).
  split.
  { apply run_to_end_sound with (sch := [0; 1; 0; 0; 1]). apply surjective_pairing. }
  split.
  { vm_compute. reflexivity. }
  intros ord Hp. cbn in Hp. apply Permutation_sym, Permutation_length_2_inv in Hp.
  destruct Hp as [-> | ->]; vm_compute; discriminate.
Qed.

(* an interleaved run of three locked engine requests, by computation: completes, and the theorem's conclusion is observed *)
Definition demo_progs : list (prog est eresp) :=
  [prog_of (RSet [(0, true); (2, true)]); prog_of (RGet [0; 1; 2]); prog_of (RRep [false; true; false])].
Definition demo_run := run_to_end [2; 0; 1; 2; 2; 0; 1; 1; 0; 2; 0] (init true demo_progs ([false; false; false], [false; false; false])).

(* ---------- one mutex per multiplexer is not one mutex per state ----------
   A handler registered on TWO multiplexers runs under two different mutexes; from the point of view of the state it
   touches, the thread holding the other mux's mutex is not excluded.  Model: one thread wraps its read-modify-write
   in the mutex, the other does not take THIS mutex. *)
Definition two_mutex_cfg : cfg nat nat :=
  {| sh := 0; lock := false; thr := [locked true rmw_prog; unlocked rmw_prog] |}.
Definition two_mutex_run := run_to_end [0; 0; 1; 0; 0; 1] two_mutex_cfg.

Theorem two_mutexes_refuted : exists tr c,
  exec two_mutex_cfg tr c /\ all_done c = true /\
  forall ord, Permutation ord [0; 1] -> sh c <> fst (serial [rmw_prog; rmw_prog] ord 0).
Proof.
  exists (snd two_mutex_run), (fst two_mutex_run).
  split.
  { apply run_to_end_sound with (sch := [0; 0; 1; 0; 0; 1]). apply surjective_pairing. }
  split.
  { vm_compute. reflexivity. }
  intros ord Hp. apply Permutation_sym, Permutation_length_2_inv in Hp.
  destruct Hp as [-> | ->]; vm_compute; discriminate.
Qed.
