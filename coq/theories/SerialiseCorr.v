(* C16 -- correspondence: the engine's requests as thread bodies of the model of Serialise.v, evaluated on the same
   batches the harness ran concurrently against the real Mux.ServeHTTP.

   Abstract engine state (what the compared observables depend on): the LIVE model's active-action flags (Mux.model)
   and the SNAPSHOT served by reads (Mux.modelSolution), one boolean per management action in the harness's canonical
   order (planning unit, then action type).  The handlers are NOT single atomic steps:

     PUT  .../subcatchment/<id>, PUT .../actions/active  (v1subcatchmentHandler.updateModel / v1activeActionslHandler.processRequestTable)
          one SetManagementAction per addressed action on the live model, then updateModelSolution (snapshot := live)
     PATCH /model {Encoding}  (v1modelHandler.reInitialiseModelWithEncoding) live := decoded clone; then snapshot := live
     GET  /model, .../actions/active, .../subcatchment/<id>, .../applicable    read the snapshot
     a rejected write (400)   no step on the shared state
     a request on which the handler panics before changing anything (D12d, used to probe the deferred Unlock)

   A case carries the batch, the order in which the mux processed it (logged inside the lock) and the implementation's
   answers; the checker runs the model's SERIAL execution in that order and compares every response and the final
   state; it also runs the model's small-step machine under a schedule drawn by the harness and checks the outcome
   against the serial execution in that run's own acquisition order (an executable instance of the theorem). *)
From Coq Require Import String List Arith Bool.
From Crem Require Import Serialise.
Import ListNotations.

Definition flags := list bool.
Definition est : Type := flags * flags.        (* live model, snapshot *)
Definition eresp : Type := nat * list bool.    (* HTTP status, flags shown (reads) *)

Inductive req : Type :=
| RSet (sets : list (nat * bool))
| RRep (f : flags)
| RGet (idxs : list nat)
| RNoop
| RPanic.

Definition set_step (ib : nat * bool) : astep est eresp :=
  fun s l => ((upd (fst s) (fst ib) (snd ib), snd s), l, false).
Definition snap_step : astep est eresp :=
  fun s _ => ((fst s, fst s), (200, []), false).
Definition rep_step (f : flags) : astep est eresp :=
  fun s l => ((f, snd s), l, false).
Definition get_step (idxs : list nat) : astep est eresp :=
  fun s _ => (s, (200, map (fun i => nth i (snd s) false) idxs), false).
Definition reject_step : astep est eresp :=
  fun s _ => (s, (400, []), false).
(* the handler panics before it touched anything: no response is written (status 0 = none observed) *)
Definition panic_step : astep est eresp :=
  fun s _ => (s, (0, []), true).

Definition body_of (r : req) : list (astep est eresp) :=
  match r with
  | RSet sets => map set_step sets ++ [snap_step]
  | RRep f => [rep_step f; snap_step]
  | RGet idxs => [get_step idxs]
  | RNoop => [reject_step]
  | RPanic => [panic_step; snap_step]   (* the rest of the body is skipped *)
  end.

Definition prog_of (r : req) : prog est eresp := {| l0 := (0, []); body := body_of r |}.

Record case : Type := mk {
  c_init : flags;
  c_reqs : list req;
  c_order : list nat;               (* the order in which the mux processed the requests *)
  c_resp : list (nat * list bool);  (* the implementation's answers, by client *)
  c_final : flags;                  (* the implementation's final active-action set *)
  c_sched : list nat                (* a random schedule for the model's small-step machine *)
}.

Fixpoint flags_eqb (a b : list bool) : bool :=
  match a, b with
  | [], [] => true
  | x :: a', y :: b' => Bool.eqb x y && flags_eqb a' b'
  | _, _ => false
  end.

Definition resp_eqb (a b : eresp) : bool := Nat.eqb (fst a) (fst b) && flags_eqb (snd a) (snd b).

Fixpoint resps_eqb (a : list (option eresp)) (b : list eresp) : bool :=
  match a, b with
  | [], [] => true
  | Some x :: a', y :: b' => resp_eqb x y && resps_eqb a' b'
  | _, _ => false
  end.

Fixpoint oresps_eqb (a b : list (option eresp)) : bool :=
  match a, b with
  | [], [] => true
  | Some x :: a', Some y :: b' => resp_eqb x y && oresps_eqb a' b'
  | None :: a', None :: b' => oresps_eqb a' b'
  | _, _ => false
  end.

Definition is_perm (ord : list nat) (n : nat) : bool :=
  Nat.eqb (length ord) n && forallb (fun i => existsb (Nat.eqb i) ord) (seq 0 n).

Definition est_eqb (a b : est) : bool := flags_eqb (fst a) (fst b) && flags_eqb (snd a) (snd b).

(* the implementation's observations are those of the model's serial execution in the logged order *)
Definition serial_agrees (c : case) : bool :=
  let progs := map prog_of (c_reqs c) in
  let sr := serial progs (c_order c) (c_init c, c_init c) in
  is_perm (c_order c) (length (c_reqs c)) &&
  est_eqb (fst sr) (c_final c, c_final c) &&
  resps_eqb (snd sr) (c_resp c).

(* the small-step machine under the drawn schedule completes and equals the serial run in ITS acquisition order *)
Definition machine_agrees (c : case) : bool :=
  let progs := map prog_of (c_reqs c) in
  let s0 := (c_init c, c_init c) in
  let (cf, tr) := run_to_end (c_sched c) (init true progs s0) in
  let sr := serial progs (acq_order tr) s0 in
  all_done cf && is_perm (acq_order tr) (length progs) &&
  est_eqb (sh cf) (fst sr) && oresps_eqb (results cf) (snd sr).

Definition check (c : case) : bool := serial_agrees c && machine_agrees c.

Fixpoint mismatches_from (k : nat) (cs : list case) : list nat :=
  match cs with
  | [] => []
  | c :: r => if check c then mismatches_from (S k) r else k :: mismatches_from (S k) r
  end.

Definition mismatches (cs : list case) : list nat := mismatches_from 0 cs.

(* a concrete unlocked interleaving at the engine level: PUT {a0,a1 := Active} against PATCH {nothing active}.
   schedule: the PUT sets a0; the PATCH replaces the live model; the PUT sets a1 and snapshots; the PATCH snapshots. *)
Definition torn_progs : list (prog est eresp) :=
  [prog_of (RSet [(0, true); (1, true)]); prog_of (RRep [false; false])].
Definition torn_run := run_to_end [0; 1; 0; 0; 1] (uinit torn_progs ([false; false], [false; false])).
