(* Correspondence checker for C09: evaluated by vm_compute on gen/cases_C09_*.v.
   An archive case is an operation sequence performed on a real pkg/archive.BooleanArchive that starts
   as New(n), with what the implementation answered at every step; the model replays it. *)
From Coq Require Import List NArith ZArith String Ascii Bool.
From Crem Require Import Base.Res BoolArchive ActionOrder ActionCodec.
Import ListNotations.

Inductive obs3 := OT | OF | OP.   (* true | false | panicked *)

Definition obs_of (r : res bool) : obs3 :=
  match r with Ok true => OT | Ok false => OF | Panic => OP end.

Definition obs3_eqb (a b : obs3) : bool :=
  match a, b with OT, OT | OF, OF | OP, OP => true | _, _ => false end.

(* the memo field as exported: empty, equal to what the implementation's last Encoding() call on this archive
   returned (the harness checked that), or the text itself *)
Inductive cmemo := MEmpty | MLast | MText (s : string).

Inductive cop :=
| CSet (i : Z) (b : bool) (panicked : bool)      (* SetValue(i, b) *)
| CVal (i : Z) (r : obs3)                        (* Value(i) *)
| CEnc (s : string)                              (* Encoding() *)
| CDec (s : string) (r : obs3)                   (* Decode(s): OT = nil, OF = error, OP = panic *)
| CEqv (len : nat) (bs : N) (r : obs3)           (* IsEquivalentTo(New(len) + SetValue(k, bit k of bs) for all k < len) *)
| CBuild (bs : N)                                (* SetValue(k, bit k of bs) for k = 0 .. size-1 in order; none panicked *)
| CVals (bs : N)                                 (* Value(k) for k = 0 .. size-1: none panicked, answer k = bit k of bs *)
| CRaw (ws : list N) (memo : cmemo).             (* archiveArray and the memo field, read through the verif accessor *)

Record case := mk { c_n : nat; c_ops : list cop }.

(* bit lists travel as numbers: element k = bit k *)
Definition bits_of_N (len : nat) (v : N) : list bool := map (fun k => N.testbit v (N.of_nat k)) (seq 0 len).

Fixpoint values_from (a : archive) (i : nat) (count : nat) : res (list bool) :=
  match count with
  | O => Ok []
  | S c => do v <- value a (Z.of_nat i); do r <- values_from a (S i) c; Ok (v :: r)
  end.

Fixpoint list_eqb {A} (eqb : A -> A -> bool) (x y : list A) : bool :=
  match x, y with
  | [], [] => true
  | a :: x', b :: y' => eqb a b && list_eqb eqb x' y'
  | _, _ => false
  end.

(* returns the state after the operation and whether the observation agreed;
   [last] = the text the implementation's last Encoding() call returned *)
Definition cstep (last : option string) (a : archive) (o : cop) : archive * bool :=
  match o with
  | CSet i b p =>
      match set_value a i b with
      | Ok a' => (a', negb p)
      | Panic => (a, p)
      end
  | CVal i r => (a, obs3_eqb (obs_of (value a i)) r)
  | CEnc s => let '(a', s') := encoding a in (a', String.eqb s s')
  | CDec s r =>
      match decode a s with
      | Ok (a', ok') => (a', obs3_eqb r (if ok' then OT else OF))
      | Panic => (a, obs3_eqb r OP)
      end
  | CBuild v =>
      match build_from a 0 (bits_of_N (a_size a) v) with
      | Ok a' => (a', true)
      | Panic => (a, false)
      end
  | CVals v =>
      match values_from a 0 (a_size a) with
      | Ok l => (a, list_eqb Bool.eqb l (bits_of_N (a_size a) v))
      | Panic => (a, false)
      end
  | CEqv len v r =>
      match build (bits_of_N len v) with
      | Ok b => (a, obs3_eqb (obs_of (is_equivalent_to a b)) r)
      | Panic => (a, false)
      end
  | CRaw ws memo =>
      (a, list_eqb N.eqb (a_words a) ws
          && match memo, last with
             | MEmpty, _ => String.eqb (a_memo a) EmptyString
             | MLast, Some s => negb (String.eqb s EmptyString) && String.eqb (a_memo a) s
             | MLast, None => false
             | MText s, _ => String.eqb (a_memo a) s
             end)
  end.

Fixpoint crun (last : option string) (a : archive) (ops : list cop) : bool :=
  match ops with
  | [] => true
  | o :: r =>
      let '(a', ok) := cstep last a o in
      if ok then crun (match o with CEnc s => Some s | _ => last end) a' r else false
  end.

Definition check_case (c : case) : bool := crun None (new_archive (c_n c)) (c_ops c).

Fixpoint mismatches_from {A} (chk : A -> bool) (i : nat) (cs : list A) : list nat :=
  match cs with
  | [] => []
  | c :: cs' => if chk c then mismatches_from chk (S i) cs' else i :: mismatches_from chk (S i) cs'
  end.

Definition mismatches := mismatches_from check_case 0.

(* ---- ordering of management actions ----
   o_keys   : (planning unit, type) of a generated action list, in generation order
   o_less   : ManagementActions.Less(i, j) for all i, j, row-major
   o_sorted : the keys after ModelManagementActions.Add(...); Sort()   (sort.Sort).  [less] is a strict total
              order on keys, so the sorted KEY sequence is determined even when keys repeat. *)
Record ocase := mko { o_keys : list key; o_less : list bool; o_sorted : list key }.

Definition key_eqb (a b : key) : bool := N.eqb (fst a) (fst b) && String.eqb (snd a) (snd b).

Definition check_ocase (c : ocase) : bool :=
  list_eqb Bool.eqb (flat_map (fun a => map (less a) (o_keys c)) (o_keys c)) (o_less c)
  && list_eqb key_eqb (sort_actions (fun k => k) (o_keys c)) (o_sorted c).

Definition omismatches := mismatches_from check_ocase 0.

(* ---- model instances: the key sequences of independently constructed instances of one scenario ----
   every instance lists the same sequence, that sequence is what the model's sort gives, and keys are distinct *)
Fixpoint distinct_keys (l : list key) : bool :=
  match l with
  | [] => true
  | k :: r => negb (existsb (key_eqb k) r) && distinct_keys r
  end.

Definition check_icase (insts : list (list key)) : bool :=
  match insts with
  | [] => false
  | first :: rest =>
      distinct_keys first
      && list_eqb key_eqb (sort_actions (fun k => k) (rev first)) first
      && forallb (fun ks => list_eqb key_eqb (sort_actions (fun k => k) ks) first) rest
  end.

Definition imismatches := mismatches_from check_icase 0.

(* ---- portability: Compress(source).Encoding(), then Compress(target).Decode + Decompress(target) ---- *)
Record pcase := mkp { p_bits : list bool; p_enc : string; p_ok : bool; p_before2 : list bool; p_active2 : list bool }.

Definition check_pcase (c : pcase) : bool :=
  match encoding_of (p_bits c) with
  | Ok enc =>
      String.eqb enc (p_enc c)
      && match transfer_text (p_enc c) (p_before2 c) with
         | Ok (Some m) => p_ok c && list_eqb Bool.eqb m (p_active2 c)
         | Ok None => negb (p_ok c)
         | Panic => false
         end
  | Panic => false
  end.

Definition pmismatches := mismatches_from check_pcase 0.
