(* Correspondence checker for C06: evaluated by vm_compute on gen/cases_C06_*.v.
   Two kinds of case:
   - [rcase]: a whole run of the real Explorer (parameters, starting solution, per-iteration inputs as
     recorded by the harness, per-iteration projected observables); the model is run on the same inputs
     and every observable is compared after every iteration.  Floats are compared bit-for-bit.
   - [scase]: a long run observed only at its returns-to-base: (iteration, countdown installed, step
     installed) for every return among the first n iterations, compared with the countdown machine. *)
From Coq Require Import List ZArith NArith QArith Bool Floats.
From Crem Require Import Base.Res Dominance NdArchive SuppRtbFloat Suppapitnarm.
Import ListNotations.

Fixpoint mask_of (a : list bool) : N :=
  match a with
  | [] => 0%N
  | b :: a' => ((if b then 1 else 0) + 2 * mask_of a')%N
  end.

Definition verdict_of_nat (n : nat) : verdict :=
  match n with
  | 0%nat => StoredReplacingDominatedEntries
  | 1%nat => StoredWithNoDominanceDetected
  | 2%nat => RejectedWithStoredEntryDominanceDetected
  | 3%nat => RejectedWithDuplicateEntryDetected
  | 4%nat => CanBeStored
  | _ => StoredForcingDominatingStateRemoval
  end.

Definition decision_of_nat (n : nat) : decision :=
  match n with 0%nat => AcceptDesirable | 1%nat => AcceptUndesirable | _ => RevertUndesirable end.

(* observed after one TryRandomChange; CoolDown *)
Record iobs := mk_iobs {
  x_verdict : nat;            (* ArchiveStorageResult notified by changeTriedIsDesirable *)
  x_decision : nat;           (* 0 accepting desirable, 1 accepting undesirable, 2 reverting *)
  x_base : option N;          (* action mask of "New Base Model Encoding" if "Returning to Base" was sent *)
  x_cur : N;                  (* action mask of the current model after the iteration *)
  x_arch : list N;            (* action masks of the archive, in slice order *)
  x_until : N;                (* iterationsUntilReturnToBase *)
  x_stepf : float;            (* returnToBaseStep *)
  x_last : N;                 (* LastReturnedToBase attribute of FinishedIteration *)
  x_accprob : float;          (* coolant.AcceptanceProbability() *)
  x_temp : float;             (* coolant.Temperature() after CoolDown *)
  x_desirable : bool;         (* ChangeDesirable attribute *)
  x_storage : nat             (* archiveStorageResult field after the iteration *)
}.

Definition optN_eqb (a b : option N) : bool :=
  match a, b with
  | None, None => true
  | Some x, Some y => N.eqb x y
  | _, _ => false
  end.

Fixpoint listN_eqb (a b : list N) : bool :=
  match a, b with
  | [], [] => true
  | x :: a', y :: b' => N.eqb x y && listN_eqb a' b'
  | _, _ => false
  end.

Definition check_obs (o : obs) (s : st) (x : iobs) : bool :=
  verdict_eqb (o_verdict o) (verdict_of_nat (x_verdict x))
  && decision_eqb (o_decision o) (decision_of_nat (x_decision x))
  && optN_eqb (option_map (fun e => mask_of (e_acts e)) (o_base o)) (x_base x)
  && N.eqb (mask_of (e_acts (cur s))) (x_cur x)
  && listN_eqb (map (fun e => mask_of (e_acts e)) (arch s)) (x_arch x)
  && N.eqb (until s) (x_until x)
  && fsame (stepf s) (x_stepf x)
  && N.eqb (last_rtb s) (x_last x)
  && fsame (accprob s) (x_accprob x)
  && fsame (temp s) (x_temp x)
  && Bool.eqb (desirable s) (x_desirable x)
  && verdict_eqb (storage s) (verdict_of_nat (x_storage x)).

(* the run stopped with a Go panic after the observed iterations iff the model's next iteration is Panic *)
Fixpoint check_run (p : params) (s : st) (is : list input) (xs : list iobs) (panicked : bool) : bool :=
  match is, xs with
  | [], [] => negb panicked
  | i :: is', x :: xs' =>
      match iteration p s i with
      | Ok (o, s') => check_obs o s' x && check_run p s' is' xs' panicked
      | Panic => false
      end
  | i :: _, [] =>
      panicked && match iteration p s i with Panic => true | Ok _ => false end
  | [], _ :: _ => false
  end.

Record rcase := mk_rcase {
  r_params : params;
  r_c0 : entry;
  r_t0 : float;
  r_until0 : N;               (* countdown observed right after Initialise *)
  r_inputs : list input;
  r_obs : list iobs;
  r_panicked : bool
}.

Definition check_rcase (c : rcase) : bool :=
  int64_in_domain (p_init (r_params c)) && int64_in_domain (p_min (r_params c)) &&
  match init_state (r_params c) (r_c0 c) (r_t0 c) with
  | Ok s0 => N.eqb (until s0) (r_until0 c)
             && check_run (r_params c) s0 (r_inputs c) (r_obs c) (r_panicked c)
  | Panic => false
  end.

Record scase := mk_scase {
  s_params : params;
  s_n : N;                            (* iterations run *)
  s_until0 : N;
  s_returns : list (N * N * float * N)
    (* run-length encoded observations: (LastReturnedToBase, countdown installed, step installed, r) stands
       for r consecutive returns, each one countdown after the previous, installing the same countdown
       and step (the steady state step = minimum) *)
}.

Fixpoint expand_rle (it c : N) (f : float) (reps : nat) : list (N * N * float) :=
  match reps with
  | O => []
  | Datatypes.S r => (it, c, f) :: expand_rle (it + c)%N c f r
  end.

Definition expand_returns (l : list (N * N * float * N)) : list (N * N * float) :=
  flat_map (fun x => match x with (it, c, f, r) => expand_rle it c f (N.to_nat r) end) l.

Fixpoint returns_eqb (a b : list (N * N * float)) : bool :=
  match a, b with
  | [], [] => true
  | (i, u, f) :: a', (j, v, g) :: b' => N.eqb i j && N.eqb u v && fsame f g && returns_eqb a' b'
  | _, _ => false
  end.

Definition check_scase (c : scase) : bool :=
  int64_in_domain (p_init (s_params c)) && int64_in_domain (p_min (s_params c)) &&
  match sched_init (s_params c) with
  | Ok us =>
      N.eqb (fst us) (s_until0 c) &&
      match sched_returns (s_params c) (N.to_nat (s_n c)) 1%N us with
      | Ok l => returns_eqb l (expand_returns (s_returns c))
      | Panic => false
      end
  | Panic => false
  end.

Inductive case := CR (c : rcase) | CS (c : scase).
Definition check_case (c : case) : bool :=
  match c with CR c => check_rcase c | CS c => check_scase c end.

Fixpoint mismatches_from (i : nat) (cs : list case) : list nat :=
  match cs with
  | [] => []
  | c :: cs' => if check_case c then mismatches_from (S i) cs' else i :: mismatches_from (S i) cs'
  end.

Definition mismatches := mismatches_from 0.
