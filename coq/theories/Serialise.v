(* C16 -- a small-step model of threads sharing one state and ONE mutex.

   What is transcribed (internal/pkg/server/rest/Mux.go, MuxImpl.ServeHTTP):

       func (mi *MuxImpl) ServeHTTP(w, r) {
           mi.requestLock.Lock()            -- IAcq
           defer mi.requestLock.Unlock()    -- IRel true   (runs when the body returns OR panics)
           ... dispatch to the handler ...  -- IAct a1; IAct a2; ... (arbitrary finite sequence)
       }

   net/http runs every connection on its own goroutine = one [thread] per request.  A handler body is
   NOT assumed atomic: it is an arbitrary finite list of atomic actions [astep], each of which may read
   and write the shared state [St] (the engine's model, solution snapshot, attributes, solution pool ...)
   and the thread's private state [Lc] (request, response recorder, local variables), and may panic
   (third component [true]): Go then skips the rest of the body and runs only the deferred calls.

   sync.Mutex has no owner: [lock : bool].  Lock() blocks while the mutex is held (the step is simply not
   enabled); Unlock() of an unlocked mutex is a fatal error in Go -- here the step is not enabled
   (never reached by the program shapes below, see [SerialiseProofs.inv_reachable]).

   This file contains executable definitions only (no proofs), so that the correspondence checker
   still runs when a proof breaks. *)
From Coq Require Import String List Arith Bool.
Import ListNotations.

Set Implicit Arguments.

Section Model.
Variables St Lc : Type.

(* one atomic action: shared state, private state |-> new shared, new private, panicked? *)
Definition astep := St -> Lc -> St * Lc * bool.

Inductive instr : Type :=
| IAcq                       (* mutex.Lock()   *)
| IRel (deferred : bool)     (* mutex.Unlock(); [true] = registered with `defer` *)
| IAct (a : astep).

Record thread : Type := { loc : Lc; code : list instr }.
Record cfg : Type := { sh : St; lock : bool; thr : list thread }.

Inductive event : Type := EAcq (i : nat) | EAct (i : nat) | ERel (i : nat).

Definition tid (e : event) : nat := match e with EAcq i | EAct i | ERel i => i end.

(* After a panic only deferred calls still run. *)
Fixpoint unwind (cd : list instr) : list instr :=
  match cd with
  | [] => []
  | IRel true :: r => IRel true :: unwind r
  | _ :: r => unwind r
  end.

Fixpoint upd {A : Type} (l : list A) (i : nat) (x : A) : list A :=
  match l, i with
  | [], _ => []
  | _ :: t, O => x :: t
  | h :: t, S j => h :: upd t j x
  end.

(* ---- the small-step relation: ANY thread whose next instruction is enabled may move ---- *)
Inductive step : cfg -> event -> cfg -> Prop :=
| step_acq : forall c i l r,
    nth_error (thr c) i = Some {| loc := l; code := IAcq :: r |} ->
    lock c = false ->
    step c (EAcq i) {| sh := sh c; lock := true; thr := upd (thr c) i {| loc := l; code := r |} |}
| step_rel : forall c i l d r,
    nth_error (thr c) i = Some {| loc := l; code := IRel d :: r |} ->
    lock c = true ->
    step c (ERel i) {| sh := sh c; lock := false; thr := upd (thr c) i {| loc := l; code := r |} |}
| step_act : forall c i l a r s' l' p,
    nth_error (thr c) i = Some {| loc := l; code := IAct a :: r |} ->
    a (sh c) l = (s', l', p) ->
    step c (EAct i) {| sh := s'; lock := lock c;
                       thr := upd (thr c) i {| loc := l'; code := if p then unwind r else r |} |}.

(* executions: every schedule the relation admits (steps are appended at the end) *)
Inductive exec (c0 : cfg) : list event -> cfg -> Prop :=
| exec_nil : exec c0 [] c0
| exec_snoc : forall tr c e c', exec c0 tr c -> step c e c' -> exec c0 (tr ++ [e]) c'.

Definition done_thread (t : thread) : bool := match code t with [] => true | _ => false end.
Definition all_done (c : cfg) : bool := forallb done_thread (thr c).

(* the order in which the mutex was acquired along a trace *)
Fixpoint acq_order (tr : list event) : list nat :=
  match tr with
  | [] => []
  | EAcq i :: r => i :: acq_order r
  | _ :: r => acq_order r
  end.

(* ---- programs ---- *)
Record prog : Type := { l0 : Lc; body : list astep }.

(* acquire; body; release *)
Definition locked (d : bool) (p : prog) : thread :=
  {| loc := l0 p; code := IAcq :: map IAct (body p) ++ [IRel d] |}.
(* the same body without the mutex *)
Definition unlocked (p : prog) : thread :=
  {| loc := l0 p; code := map IAct (body p) |}.

Definition init (d : bool) (progs : list prog) (s0 : St) : cfg :=
  {| sh := s0; lock := false; thr := map (locked d) progs |}.
Definition uinit (progs : list prog) (s0 : St) : cfg :=
  {| sh := s0; lock := false; thr := map unlocked progs |}.

(* ---- one-at-a-time (serial) execution ---- *)
Fixpoint run_body (b : list astep) (s : St) (l : Lc) : St * Lc :=
  match b with
  | [] => (s, l)
  | a :: r => match a s l with
              | (s', l', true) => (s', l')
              | (s', l', false) => run_body r s' l'
              end
  end.

(* results: [None] = has not run yet, [Some l] = ran to completion with private state l *)
Definition serial_turn (progs : list prog) (i : nat) (sr : St * list (option Lc)) : St * list (option Lc) :=
  match nth_error progs i, nth_error (snd sr) i with
  | Some p, Some None =>
      let (s', l') := run_body (body p) (fst sr) (l0 p) in (s', upd (snd sr) i (Some l'))
  | _, _ => sr
  end.

Definition serial_from (progs : list prog) (ord : list nat) (sr : St * list (option Lc)) : St * list (option Lc) :=
  fold_left (fun sr i => serial_turn progs i sr) ord sr.

Definition serial (progs : list prog) (ord : list nat) (s0 : St) : St * list (option Lc) :=
  serial_from progs ord (s0, map (fun _ => None) progs).

Definition results (c : cfg) : list (option Lc) := map (fun t => Some (loc t)) (thr c).

(* ---- an executable scheduler (used by Examples and by the correspondence checker) ---- *)
Definition do_step (c : cfg) (i : nat) : option (event * cfg) :=
  match nth_error (thr c) i with
  | Some {| loc := l; code := IAcq :: r |} =>
      if lock c then None
      else Some (EAcq i, {| sh := sh c; lock := true; thr := upd (thr c) i {| loc := l; code := r |} |})
  | Some {| loc := l; code := IRel d :: r |} =>
      if lock c
      then Some (ERel i, {| sh := sh c; lock := false; thr := upd (thr c) i {| loc := l; code := r |} |})
      else None
  | Some {| loc := l; code := IAct a :: r |} =>
      match a (sh c) l with
      | (s', l', p) =>
          Some (EAct i, {| sh := s'; lock := lock c;
                           thr := upd (thr c) i {| loc := l'; code := if p then unwind r else r |} |})
      end
  | _ => None
  end.

(* run the picks of [sch] in turn; a pick whose thread is not enabled is skipped *)
Fixpoint run_sched (sch : list nat) (c : cfg) (tr : list event) : cfg * list event :=
  match sch with
  | [] => (c, tr)
  | i :: r => match do_step c i with
              | Some (e, c') => run_sched r c' (tr ++ [e])
              | None => run_sched r c tr
              end
  end.

(* total remaining work: every step consumes at least one instruction *)
Definition measure (c : cfg) : nat := fold_right (fun t n => length (code t) + n) 0 (thr c).

(* after the picks of [sch], finish round-robin ([fuel] rounds over all threads) *)
Fixpoint round_robin (fuel : nat) (n : nat) (c : cfg) (tr : list event) : cfg * list event :=
  match fuel with
  | O => (c, tr)
  | S f => let (c', tr') := run_sched (seq 0 n) c tr in round_robin f n c' tr'
  end.

Definition run_to_end (sch : list nat) (c : cfg) : cfg * list event :=
  let (c1, tr1) := run_sched sch c [] in
  round_robin (measure c1) (length (thr c1)) c1 tr1.

End Model.

Arguments IAcq {St Lc}.
Arguments IRel {St Lc} deferred.

(* ------------------------------------------------------------------------------------------------ *)
(* What the translator harness/astfacts16 extracts from /repo on every run (coq/gen/Facts16.v).       *)
Record serve_facts : Type := {
  (* rest.MuxImpl.ServeHTTP contains the statement  <recv>.<mutex field>.Lock()  on a sync.Mutex field of the receiver's
     struct (preceded at most by the receipt log line), and the method has a pointer receiver (a value receiver would
     copy the mutex per call) *)
  sf_lock_first : bool;
  (* the next statement is  defer <recv>.<the same field>.Unlock() *)
  sf_unlock_deferred : bool;
  (* an Unlock of the same mutex exists somewhere after the Lock (deferred or as the last statement) *)
  sf_unlock_present : bool;
  (* number of handler look-ups / invocations that precede the Lock statement (dispatch before the lock) *)
  sf_calls_before_lock : nat;
  (* other Lock/Unlock/TryLock/RLock... calls on that mutex anywhere else in the package (early release) *)
  sf_other_mutex_ops : nat;
  (* handlers are looked up and invoked only inside ServeHTTP *)
  sf_dispatch_only_in_serve : bool;
  (* every type that (transitively) embeds rest.MuxImpl, and whether it declares its own ServeHTTP *)
  sf_embedders : list (string * bool);
  (* `go` statements in the handler packages *)
  sf_go_stmts : nat;
  (* package-level variables of the handler packages that some function assigns to / takes the address of,
     or whose type is not a zero-size struct *)
  sf_pkg_vars_written : nat;
  (* calls of ServeHTTP from inside the handler packages (re-entrant acquisition of a non-reentrant mutex) *)
  sf_reentrant_serve_calls : nat
}.

Definition no_shadowing (f : serve_facts) : bool := forallb (fun e => negb (snd e)) (sf_embedders f).

Definition engine_embeds (f : serve_facts) : bool :=
  existsb (fun e => String.eqb (fst e) "cmd/cremengine/engine/api.Mux"%string) (sf_embedders f).

(* the mutex is taken before anything else and released exactly when the body is left *)
Definition serve_is_locked (f : serve_facts) : bool :=
  sf_lock_first f && sf_unlock_present f && Nat.eqb (sf_calls_before_lock f) 0 && Nat.eqb (sf_other_mutex_ops f) 0.

(* side conditions under which "one goroutine per request, all shared state behind the mux" is the right reading *)
Definition serve_confined (f : serve_facts) : bool :=
  sf_dispatch_only_in_serve f && no_shadowing f && engine_embeds f &&
  Nat.eqb (sf_go_stmts f) 0 && Nat.eqb (sf_pkg_vars_written f) 0 && Nat.eqb (sf_reentrant_serve_calls f) 0.

Definition facts_ok (f : serve_facts) : bool := serve_is_locked f && serve_confined f.

(* the thread that the translated facts denote for a request with body p *)
Definition serve_thread {St Lc} (f : serve_facts) (p : prog St Lc) : thread St Lc :=
  if serve_is_locked f then locked (sf_unlock_deferred f) p else unlocked p.

Definition serve_init {St Lc} (f : serve_facts) (progs : list (prog St Lc)) (s0 : St) : cfg St Lc :=
  {| sh := s0; lock := false; thr := map (serve_thread f) progs |}.
