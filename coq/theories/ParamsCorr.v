(* C18 — correspondence checker: the model's executable definitions (Params.v) evaluated by vm_compute on
   the inputs the harness gave to the real parameters.Parameters machinery / the real components, compared
   with what the implementation was observed to do. *)
From Coq Require Import List ZArith NArith QArith String Bool.
From Crem Require Import Base.Res Params.
Import ListNotations.

Definition value_eqb (a b : value) : bool :=
  match a, b with
  | VInt x, VInt y => Z.eqb x y
  | VFloat x, VFloat y => Qeq_bool x y
  | VFloatNaN, VFloatNaN => true
  | VFloatInf x, VFloatInf y => Bool.eqb x y
  | VString x, VString y => String.eqb x y
  | VBool x, VBool y => Bool.eqb x y
  | VArray, VArray | VTable, VTable | VNil, VNil | VOther, VOther => true
  | _, _ => false
  end.

(* what the four typed getters did on one key, each run under recover:
   PVal v  : the getter of v's dynamic type returned v and the other three panicked
   PNone   : all four panicked
   PWeird  : anything else (never matches the model) *)
Inductive probe := PNone | PVal (v : value) | PWeird.

Definition is_panic (r : res value) : bool := match r with Panic => true | Ok _ => false end.

Definition getter_is (t : ty) (k : string) (m : pmap) (want : option value) : bool :=
  match getter t k m, want with
  | Ok v, Some w => value_eqb v w
  | Panic, None => true
  | _, _ => false
  end.

Definition probe_ok (k : string) (m : pmap) (p : probe) : bool :=
  match p with
  | PWeird => false
  | PNone => getter_is TInt k m None && getter_is TFloat k m None
             && getter_is TString k m None && getter_is TBool k m None
  | PVal v =>
      let t := type_of_value v in
      negb (ty_eqb t TNone)
      && getter_is TInt k m (if ty_eqb t TInt then Some v else None)
      && getter_is TFloat k m (if ty_eqb t TFloat then Some v else None)
      && getter_is TString k m (if ty_eqb t TString then Some v else None)
      && getter_is TBool k m (if ty_eqb t TBool then Some v else None)
  end.

Fixpoint count_str (k : string) (l : list string) : nat :=
  match l with
  | [] => 0
  | x :: l' => (if String.eqb k x then 1 else 0) + count_str k l'
  end.

Definition multiset_eqb (a b : list string) : bool :=
  Nat.eqb (List.length a) (List.length b)
  && forallb (fun k => Nat.eqb (count_str k a) (count_str k b)) a.

Record case := mkCase {
  c_table : table;
  c_variant : variant;
  c_user : pmap;                        (* the user map (distinct keys), in the order the harness built it *)
  c_readable : list string;             (* strings of the user map / defaults for which os.OpenFile succeeded *)
  c_nerr : N;                           (* number of specification.ValidationError entries reported *)
  c_errkeys : option (list string);     (* Some ks: every message named its key `Parameter [k] ...` *)
  c_unsupported : list string;          (* keys reported as "... is not supported" *)
  c_probes : list (string * bool * probe) (* key, HasEntry(key), the four getters *) }.

(* synthetic table exercising every validator of the specification package directly: one optional key per validator *)
Definition validators_table (l : list (string * vkind)) : table :=
  table_of (map (fun nk => mkSpec (fst nk) (snd nk) VNil true) l).

Definition fs_of (readable : list string) : string -> bool :=
  fun s => existsb (String.eqb s) readable.

Definition check_case (c : case) : bool :=
  let st := assign (fs_of (c_readable c)) (c_variant c) (c_table c) (c_user c) in
  N.eqb (N.of_nat (List.length (snd st))) (c_nerr c)
  && match c_errkeys c with
     | Some ks => multiset_eqb (map fst (snd st)) ks
     | None => true
     end
  && multiset_eqb (map fst (filter (fun e => match snd e with NotSupported => true | Rejected => false end) (snd st)))
                  (c_unsupported c)
  && forallb (fun '(k, has, p) => Bool.eqb (has_entry k (fst st)) has && probe_ok k (fst st) p) (c_probes c).

Fixpoint mismatches_from (i : nat) (cs : list case) : list nat :=
  match cs with
  | [] => []
  | c :: cs' => if check_case c then mismatches_from (S i) cs' else i :: mismatches_from (S i) cs'
  end.

Definition mismatches := mismatches_from 0.

(* diagnostics printed when C18_tables_ok no longer holds on the regenerated tables:
   per component, the keys whose stored default fails its own validator and the call sites that are not ok *)
Definition diagnose (c : component) : string * list string * list (string * N * string) * bool :=
  (cname c,
   map skey (filter (fun s => negb (default_ok s)) (ctable c)),
   map (fun st => (site_file st, site_line st, site_key st)) (filter (fun st => negb (site_ok (ctable c) st)) (csites c)),
   model_reports_unknown c).

Definition diagnose_all (cs : list component) :=
  map diagnose (filter (fun c => negb (component_ok c)) cs).
