From Coq Require Import List QArith Bool Lia.
From Crem Require Import Base.Res Dominance.
Import ListNotations.

Lemma Qgt_bool_true a b : Qgt_bool a b = true <-> b < a.
Proof.
  unfold Qgt_bool. rewrite negb_true_iff.
  split; intro H.
  - apply Qnot_le_lt. intro Hle. apply Qle_bool_iff in Hle. congruence.
  - destruct (Qle_bool a b) eqn:E; [|reflexivity].
    apply Qle_bool_iff in E. exfalso. exact (Qlt_not_le _ _ H E).
Qed.

Lemma Qgt_bool_false a b : Qgt_bool a b = false <-> a <= b.
Proof.
  unfold Qgt_bool. rewrite negb_false_iff. apply Qle_bool_iff.
Qed.

Lemma Qlt_bool_true a b : Qlt_bool a b = true <-> a < b.
Proof. unfold Qlt_bool. apply (Qgt_bool_true b a). Qed.

Lemma Qlt_bool_false a b : Qlt_bool a b = false <-> b <= a.
Proof. unfold Qlt_bool. apply (Qgt_bool_false b a). Qed.

Lemma all_le_length x y : all_le x y -> length x = length y.
Proof. induction 1; simpl; congruence. Qed.

Lemma some_lt_length x y : some_lt x y -> length x = length y.
Proof. induction 1; simpl; congruence. Qed.

(* ---- the scans never panic on equal lengths and compute the spec ---- *)

Lemma pass_none_greater_spec x : forall y, length x = length y ->
  exists b, pass_none_greater x y = Ok b /\ (b = true <-> all_le x y).
Proof.
  induction x as [|a x IH]; intros [|b y] Hlen; simpl in Hlen; try discriminate.
  - exists true. split; [reflexivity|]. split; intros _; [constructor|reflexivity].
  - injection Hlen as Hlen. simpl.
    destruct (Qgt_bool a b) eqn:E.
    + exists false. split; [reflexivity|]. split; [discriminate|].
      intro H. inversion H as [|? ? ? ? Hab _]; subst.
      apply Qgt_bool_true in E. exfalso. exact (Qlt_not_le _ _ E Hab).
    + destruct (IH y Hlen) as [r [Hr Hiff]]. exists r. split; [exact Hr|].
      apply Qgt_bool_false in E.
      split.
      * intro Ht. constructor; [exact E| apply Hiff; exact Ht].
      * intro H. inversion H; subst. apply Hiff. assumption.
Qed.

Lemma pass_some_less_spec x : forall y, length x = length y ->
  exists b, pass_some_less x y = Ok b /\ (b = true <-> some_lt x y).
Proof.
  induction x as [|a x IH]; intros [|b y] Hlen; simpl in Hlen; try discriminate.
  - exists false. split; [reflexivity|]. split; [discriminate|]. intro H; inversion H.
  - injection Hlen as Hlen. simpl.
    destruct (Qlt_bool a b) eqn:E.
    + exists true. split; [reflexivity|]. split; [|reflexivity].
      intros _. apply some_lt_here; [apply Qlt_bool_true; exact E | exact Hlen].
    + destruct (IH y Hlen) as [r [Hr Hiff]]. exists r. split; [exact Hr|].
      apply Qlt_bool_false in E.
      split.
      * intro Ht. apply some_lt_later. apply Hiff. exact Ht.
      * intro H. inversion H as [? ? ? ? Hab _|]; subst.
        -- exfalso. exact (Qlt_not_le _ _ Hab E).
        -- apply Hiff. assumption.
Qed.

Lemma dominates_total x y : length x = length y -> exists b, dominates x y = Ok b.
Proof.
  intro Hlen. unfold dominates.
  destruct (pass_none_greater_spec x y Hlen) as [b1 [H1 _]].
  destruct (pass_some_less_spec x y Hlen) as [b2 [H2 _]].
  rewrite H1. simpl. destruct b1; [exists b2; exact H2 | exists false; reflexivity].
Qed.

Lemma dominates_iff_pareto x y : length x = length y ->
  (dominates x y = Ok true <-> pareto_lt x y).
Proof.
  intro Hlen. unfold dominates, pareto_lt.
  destruct (pass_none_greater_spec x y Hlen) as [b1 [H1 I1]].
  destruct (pass_some_less_spec x y Hlen) as [b2 [H2 I2]].
  rewrite H1. simpl. destruct b1.
  - rewrite H2. split.
    + intro H. injection H as ->. split; [apply I1|apply I2]; reflexivity.
    + intros [_ Hs]. f_equal. apply I2. exact Hs.
  - split; [discriminate|]. intros [Ha _]. apply I1 in Ha. discriminate.
Qed.

Lemma dominates_false_iff x y : length x = length y ->
  (dominates x y = Ok false <-> ~ pareto_lt x y).
Proof.
  intro Hlen. destruct (dominates_total x y Hlen) as [b Hb].
  rewrite Hb. destruct b.
  - split; [discriminate|]. intro Hn. exfalso. apply Hn.
    apply dominates_iff_pareto; assumption.
  - split; [|reflexivity]. intros _ Hp.
    apply dominates_iff_pareto in Hp; [|assumption]. congruence.
Qed.

(* a mismatch of lengths is exactly where the Go code may index out of range *)
Lemma dominates_panics_on_short_argument a x : dominates (a :: x) [] = Panic.
Proof. reflexivity. Qed.

(* ---- order properties of the spec ---- *)

Lemma all_le_refl_eq x y : vec_eq x y -> all_le x y.
Proof.
  induction 1 as [|a b x y Hab _ IH]; constructor; [|exact IH].
  rewrite Hab. apply Qle_refl.
Qed.

Lemma some_lt_not_all_ge x y : some_lt x y -> all_le y x -> False.
Proof.
  induction 1 as [a b x y Hab _|a b x y _ IH]; intro H; inversion H; subst.
  - eapply Qlt_not_le; eassumption.
  - apply IH; assumption.
Qed.

Lemma pareto_irrefl x : ~ pareto_lt x x.
Proof.
  intros [Ha Hs]. exact (some_lt_not_all_ge _ _ Hs Ha).
Qed.

Lemma pareto_irrefl_eq x y : vec_eq x y -> ~ pareto_lt x y /\ ~ pareto_lt y x.
Proof.
  intro He. split; intros [_ Hs].
  - apply (some_lt_not_all_ge _ _ Hs). apply all_le_refl_eq.
    clear Hs. induction He; constructor; [symmetry|]; assumption.
  - apply (some_lt_not_all_ge _ _ Hs). apply all_le_refl_eq. exact He.
Qed.

Lemma pareto_asym x y : pareto_lt x y -> ~ pareto_lt y x.
Proof.
  intros [_ Hs] [Ha' _]. exact (some_lt_not_all_ge _ _ Hs Ha').
Qed.

Lemma all_le_trans x y z : all_le x y -> all_le y z -> all_le x z.
Proof.
  intro H. revert z. induction H as [|a b x y Hab _ IH]; intros z Hz; inversion Hz; subst.
  - constructor.
  - constructor; [eapply Qle_trans; eassumption | apply IH; assumption].
Qed.

Lemma some_lt_all_le_trans x y z : some_lt x y -> all_le x y -> all_le y z -> some_lt x z.
Proof.
  intro H. revert z. induction H as [a b x y Hab Hlen|a b x y _ IH]; intros z Hxy Hz;
    inversion Hz; subst; inversion Hxy; subst.
  - apply some_lt_here; [eapply Qlt_le_trans; eassumption|].
    rewrite Hlen. apply all_le_length. assumption.
  - apply some_lt_later. apply IH; assumption.
Qed.

Lemma pareto_trans x y z : pareto_lt x y -> pareto_lt y z -> pareto_lt x z.
Proof.
  intros [Ha Hs] [Ha' _]. split.
  - eapply all_le_trans; eassumption.
  - eapply some_lt_all_le_trans; eassumption.
Qed.

(* a slightly stronger transitivity used by the archive proofs:
   x <= y pointwise and y strictly dominates z  ==> x dominates z, etc. *)
Lemma all_le_some_lt_trans x y z : all_le x y -> some_lt y z -> all_le y z -> some_lt x z.
Proof.
  intro H. revert z. induction H as [|a b x y Hab Hxy IH]; intros z Hs Hz.
  - inversion Hs.
  - inversion Hz; subst. inversion Hs; subst.
    + apply some_lt_here; [eapply Qle_lt_trans; eassumption|].
      rewrite (all_le_length _ _ Hxy). assumption.
    + apply some_lt_later. apply IH; assumption.
Qed.

(* ---- boolean mirror ---- *)
Lemma all_le_b_iff x : forall y, all_le_b x y = true <-> all_le x y.
Proof.
  induction x as [|a x IH]; intros [|b y]; simpl.
  - split; [constructor|reflexivity].
  - split; [discriminate|intro H; inversion H].
  - split; [discriminate|intro H; inversion H].
  - rewrite andb_true_iff, IH, Qle_bool_iff. split.
    + intros [? ?]. constructor; assumption.
    + intro H. inversion H; subst. split; assumption.
Qed.

Lemma some_lt_b_iff x : forall y, length x = length y -> (some_lt_b x y = true <-> some_lt x y).
Proof.
  induction x as [|a x IH]; intros [|b y] Hlen; simpl in *; try discriminate.
  - split; [discriminate|intro H; inversion H].
  - injection Hlen as Hlen. rewrite orb_true_iff, (IH y Hlen), Qlt_bool_true. split.
    + intros [H|H]; [apply some_lt_here|apply some_lt_later]; assumption.
    + intro H. inversion H; subst; [left|right]; assumption.
Qed.

Lemma pareto_lt_b_iff x y : length x = length y -> (pareto_lt_b x y = true <-> pareto_lt x y).
Proof.
  intro Hlen. unfold pareto_lt_b, pareto_lt.
  rewrite andb_true_iff, all_le_b_iff, (some_lt_b_iff x y Hlen). reflexivity.
Qed.

(* ---- the four API methods ---- *)

Lemma is_dominated_by_is_converse x y : is_dominated_by x y = dominates y x.
Proof. reflexivity. Qed.

Lemma no_dominance_symmetric x y : length x = length y ->
  no_dominance_present x y = no_dominance_present y x.
Proof.
  intro Hlen. unfold no_dominance_present, dominance_present.
  destruct (dominates_total x y Hlen) as [b1 H1].
  destruct (dominates_total y x (eq_sym Hlen)) as [b2 H2].
  rewrite H1, H2. simpl.
  destruct b1, b2; simpl; rewrite ?H1, ?H2; try reflexivity.
  (* both true is impossible, but the two sides agree anyway *)
Qed.

Lemma no_dominance_iff x y : length x = length y ->
  (no_dominance_present x y = Ok true <-> ~ pareto_lt x y /\ ~ pareto_lt y x).
Proof.
  intro Hlen. unfold no_dominance_present, dominance_present.
  destruct (dominates_total x y Hlen) as [b1 H1].
  destruct (dominates_total y x (eq_sym Hlen)) as [b2 H2].
  pose proof (dominates_iff_pareto x y Hlen) as I1.
  pose proof (dominates_iff_pareto y x (eq_sym Hlen)) as I2.
  rewrite H1 in *. simpl. destruct b1; simpl.
  - split; [discriminate|]. intros [Hn _]. exfalso. apply Hn. apply I1. reflexivity.
  - rewrite H2 in *. simpl. destruct b2; simpl.
    + split; [discriminate|]. intros [_ Hn]. exfalso. apply Hn. apply I2. reflexivity.
    + split; [|reflexivity]. intros _. split; intro Hp; [apply I1 in Hp|apply I2 in Hp]; discriminate.
Qed.

Lemma no_dominance_on_equal x y : vec_eq x y -> no_dominance_present x y = Ok true.
Proof.
  intro He.
  assert (Hlen : length x = length y) by (induction He; simpl; congruence).
  apply no_dominance_iff; [exact Hlen|]. apply pareto_irrefl_eq. exact He.
Qed.
