(* Engine.v -- executable model of the REST engine (cmd/cremengine/engine/api + internal/pkg/server/rest),
   shared by C14 and C15.  No proofs in this file.

   Transcribed handler by handler from the Go sources AS THEY ARE at /repo 7ecfa2c with proposed_fixes/C14-6 and C14-7 applied (the
   fix series proposed_fixes/SERIES-C14C15.txt, the CSV cell-text fix and the all-or-nothing Decode are committed there),
   including the ORDER of side effects.  Every Go expression that can fail at run time (x.(T) without ", ok",
   s[i], a nil dereference, an explicit panic) is an explicit [Panic] branch carrying the Go location in a comment.

   Abstraction boundary (what the model takes as INPUT rather than computes): a request carries the PARSE-LEVEL view the
   handler works on -- the outcome of the TOML decoder + model interpreter + model initialisation for POST /scenario
   ([toml_view]), the records of encoding/csv with the cast tag the caster gave every cell for the CSV routes
   ([csv_view]), the attribute list encoding/json produced for the JSON routes ([json_view]), the route class the regular
   expressions of Mux.Initialise select ([route]) and the raw bytes ([rq_raw]) for the resources that echo them.
   The catchment valuation is abstract: a scenario descriptor [desc] carries [d_eval], [d_valid], [d_errs] as functions
   of the action bits (that they ARE functions of the bits is property C01, proved in another slice).

   Aliasing note: Go's attributes.Attributes is a slice; DeepClone copies the slice header, so the pooled reference
   model shares its backing array with the live model.  In-place writes through one alias touch only the engine-derived
   entries (Encoding / ParetoFrontMember / ValidAgainstScenario), all of which deriveExtraModelAttributes rewrites
   before every snapshot; appends beyond the live model's length are invisible to it.  The model therefore keeps the live
   model's attributes as a pure list and projects pooled solutions onto the entries AddSolution sets explicitly. *)
From Coq Require Import List String Ascii ZArith NArith QArith Bool Lia.
From Crem Require Import Base.Res.
Import ListNotations.
Open Scope string_scope.
Open Scope list_scope.
Open Scope nat_scope.

(* ------------------------------------------------------------------------------------------------ *)
(** * Parse-level views                                                                              *)

Definition text := string.   (* request / response bytes; generated cases use short tokens for long texts *)

Inductive meth := MGet | MPost | MPut | MPatch | MOther.
Inductive route :=
| RScenario | RSolutions | RSolution (label : string) | RModel | RApplicable | RActive
| RSubcatchment (id : option Z)      (* None: strconv.Atoi fails (digits beyond the int range) *)
| RNone.                             (* no pattern of Mux.Initialise matches *)
Inductive ctype := CtToml | CtCsv | CtJson | CtOther.

Inductive nonfin := NaN | PInf | NInf.
Inductive fval := Fin (q : Q) | NonFin (k : nonfin).
(* A cell = the base type the caster gave the field (Cell / CellFloat64 see this) + the field's text as encoding/csv
   delivered it (CsvTableImpl.CellString returns that text verbatim, whatever the cast: /repo b0400cb). *)
Inductive cell :=
| CF (f : fval) (txt : string)   (* cast to float64 *)
| CB (b : bool) (txt : string)   (* cast to bool *)
| CS (s : string).               (* stayed a string: the text itself *)
Record table := { t_header : list string; t_rows : list (list cell) }.
Inductive csv_view := CsvErr | CsvOk (t : table) | CsvLibPanic.   (* CsvErr: reader error or no record at all *)
(* The three ...LibPanic constructors: the library call itself panicked on this body.  The model propagates it as
   [Panic]; the no-panic theorem of C15 is about requests whose library calls return (wf_request), which is the
   "sampling for library internals" part of that property. *)

Inductive aval := ANull | ABool (b : bool) | AStr (s : string) | AOther (canon : string).
Definition attrs := list (string * aval).
Inductive json_view := JsonErr | JsonAttrs (l : attrs) | JsonLibPanic.

Section WithValuation.
Context {V : Type}.

Record desc := {
  d_actions : list (Z * string);   (* (planning unit, action type) in model order *)
  d_pus     : list Z;              (* planning units in table order *)
  d_asis    : list (string * Q);   (* decision variable name -> as-is value *)
  d_valid   : list bool -> bool;   (* StateIsValid *)
  d_errs    : list bool -> string; (* validation error text *)
  d_eval    : list bool -> V }.    (* the decision variable section of a solution *)

Inductive model_view :=
| MInterpErr      (* interpreter errors: unknown type / parameter errors *)
| MNotCatchment   (* interprets, but is not a *catchment.Model *)
| MInitErr        (* Initialise(AsIs) recorded a data-source error *)
| MOk (d : desc)
| MLibPanic.      (* interpretation or initialisation panicked inside the model packages *)
Inductive toml_view := TomlErr | TomlOk (name : string) (m : model_view) | TomlLibPanic.

Record request := {
  rq_meth : meth; rq_route : route; rq_ctype : ctype; rq_raw : text;
  rq_toml : toml_view; rq_csv : csv_view; rq_json : json_view }.

(* ------------------------------------------------------------------------------------------------ *)
(** * pkg/attributes/Attributes.go and ContainedAttributes.go                                        *)

Definition is_null (v : aval) : bool := match v with ANull => true | _ => false end.

Fixpoint a_value (a : attrs) (n : string) : aval :=          (* Attributes.Value: first match, nil if none *)
  match a with
  | [] => ANull
  | (k, v) :: a' => if String.eqb k n then v else a_value a' n
  end.
Definition a_has (a : attrs) (n : string) : bool := negb (is_null (a_value a n)).   (* Value(name) != nil *)
Definition a_add (a : attrs) (n : string) (v : aval) : attrs := a ++ [(n, v)].
Definition a_replace (a : attrs) (n : string) (v : aval) : attrs :=   (* every entry of that name, in place *)
  map (fun p => if String.eqb (fst p) n then (fst p, v) else p) a.
(* Attributes.Join: Has is asked of the ORIGINAL receiver [a], not of the list under construction (Attributes.go:41) *)
Definition a_join (a inc : attrs) : attrs :=
  fold_left (fun acc p => if a_has a (fst p) then a_replace acc (fst p) (snd p) else a_add acc (fst p) (snd p)) inc a.
Definition ca_replace (a : attrs) (n : string) (v : aval) : attrs :=  (* ContainedAttributes.ReplaceAttribute *)
  if a_has a n then a_replace a n v else a_add a n v.

(* Attributes.Remove: removeIndex = the LAST index whose entry has the name; the result is a[:removeIndex] followed by
   a[removeIndex+1:].  removeIndex stays -1 when no entry has the name and a[:-1] panics (Attributes.go:73): [None]. *)
Fixpoint remove_last (a : attrs) (n : string) : option attrs :=
  match a with
  | [] => None
  | (k, v) :: a' =>
      match remove_last a' n with
      | Some r => Some ((k, v) :: r)
      | None => if String.eqb k n then Some a' else None
      end
  end.
Definition a_remove (a : attrs) (n : string) : res attrs :=
  match remove_last a n with None => Panic | Some r => Ok r end.
Definition ca_remove (a : attrs) (n : string) : res attrs :=     (* ContainedAttributes.RemoveAttribute *)
  if a_has a n then a_remove a n else Ok a.

(* ------------------------------------------------------------------------------------------------ *)
(** * pkg/archive/BooleanArchive.go: Encoding / Decode                                               *)

Definition hexchar (d : N) : ascii :=
  match d with
  | 0 => "0" | 1 => "1" | 2 => "2" | 3 => "3" | 4 => "4" | 5 => "5" | 6 => "6" | 7 => "7" | 8 => "8" | 9 => "9"
  | 10 => "A" | 11 => "B" | 12 => "C" | 13 => "D" | 14 => "E" | _ => "F"
  end%N%char.
Fixpoint hex_aux (fuel : nat) (n : N) (acc : string) : string :=
  match fuel with
  | O => acc
  | S f => if N.eqb n 0 then acc else hex_aux f (N.div n 16) (String (hexchar (N.modulo n 16)) acc)
  end.
Definition to_hex (n : N) : string := if N.eqb n 0 then "0" else hex_aux 16 n "".   (* %X of a uint64 *)

Definition hexval (c : ascii) : option N :=
  let n := N_of_ascii c in
  if (48 <=? n)%N && (n <=? 57)%N then Some (n - 48)%N
  else if (65 <=? n)%N && (n <=? 70)%N then Some (n - 55)%N
  else if (97 <=? n)%N && (n <=? 102)%N then Some (n - 87)%N
  else None.
Definition two64 : N := 18446744073709551616%N.
Fixpoint parse_hex_aux (s : string) (acc : N) : option N :=
  match s with
  | EmptyString => Some acc
  | String c s' =>
      match hexval c with
      | None => None
      | Some d => let acc' := (acc * 16 + d)%N in if (acc' <? two64)%N then parse_hex_aux s' acc' else None
      end
  end.
Definition parse_hex64 (s : string) : option N :=     (* strconv.ParseUint(s, 16, 64) *)
  match s with EmptyString => None | _ => parse_hex_aux s 0%N end.

Fixpoint split_on (sep : ascii) (s : string) (cur : string) : list string :=   (* strings.Split; cur reversed *)
  match s with
  | EmptyString => [cur]
  | String c s' => if Ascii.eqb c sep then cur :: split_on sep s' "" else split_on sep s' (String.append cur (String c ""))
  end.
Definition split_colon (s : string) : list string := split_on ":"%char s "".

Definition archive_len (n : nat) : nat := Nat.div (n + 63) 64.

Fixpoint word_of_bits (bs : list bool) (k : N) : N :=
  match bs with
  | [] => 0%N
  | b :: bs' => ((if b then N.shiftl 1 k else 0) + word_of_bits bs' (k + 1))%N
  end.
Fixpoint words_of_bits (fuel : nat) (bs : list bool) : list N :=
  match fuel with
  | O => []
  | S f => word_of_bits (firstn 64 bs) 0 :: words_of_bits f (skipn 64 bs)
  end.
Definition bits_to_words (bs : list bool) : list N := words_of_bits (archive_len (List.length bs)) bs.
Definition words_to_bits (n : nat) (ws : list N) : list bool :=
  map (fun k => N.testbit (nth (Nat.div k 64) ws 0%N) (N.of_nat (Nat.modulo k 64))) (seq 0 n).

Fixpoint join_colon (l : list string) : string :=
  match l with [] => "" | [x] => x | x :: l' => String.append x (String.append ":" (join_colon l')) end.
Definition encode (bs : list bool) : string := join_colon (map to_hex (bits_to_words bs)).

(* parseEntriesIntoArrayValues parses EVERY entry before storing any of them (/repo ee825ef): an encoding rejected
   part-way through leaves the archive exactly as it was. *)
Fixpoint parse_all (entries : list string) : option (list N) :=
  match entries with
  | [] => Some []
  | e :: es =>
      match parse_hex64 e with
      | None => None
      | Some v => match parse_all es with Some r => Some (v :: r) | None => None end
      end
  end.
(* Decode: (accepted?, resulting bits).  Rejected: wrong number of ':'-separated entries for the archive, or an entry
   that is not a hexadecimal uint64 -- the archive keeps its content.  Accepted: all words replaced, the bits at
   positions >= n cleared (zeroOutUnusedArrayEntries), which [words_to_bits n] does by construction. *)
Definition decode (n : nat) (cur : list bool) (enc : string) : bool * list bool :=
  let entries := split_colon enc in
  if negb (Nat.eqb (List.length entries) (archive_len n)) then (false, cur)
  else match parse_all entries with
       | None => (false, cur)
       | Some ws => (true, words_to_bits n ws)
       end.
Definition decodes (n : nat) (enc : string) : bool := fst (decode n (repeat false n) enc).

(* ------------------------------------------------------------------------------------------------ *)
(** * Engine state (cmd/cremengine/engine/api/Mux.go: type Mux)                                      *)

Record mstate := { m_desc : desc; m_id : string; m_bits : list bool; m_attrs : attrs }.   (* m.model *)
Record snapshot := {                                                                       (* m.modelSolution *)
  sn_id : string; sn_desc : desc; sn_bits : list bool; sn_vars : V; sn_attrs : attrs }.
Record psol := { p_bits : list bool; p_enc : string; p_summary : string }.               (* pooled, not As-Is *)
Record state := {
  st_text     : option text;      (* Attribs[ScenarioText] *)
  st_name     : option string;    (* Attribs[ScenarioName] *)
  st_model    : option mstate;    (* m.model *)
  st_snap     : option snapshot;  (* m.modelSolution *)
  st_pool     : option (list (string * psol));   (* m.solutionPool minus its As-Is entry; None = zero value *)
  st_soltext  : option text;      (* Attribs[SolutionsText] *)
  st_soltable : option table }.   (* m.solutionSetTable *)
Definition init_state : state :=
  {| st_text := None; st_name := None; st_model := None; st_snap := None; st_pool := None;
     st_soltext := None; st_soltable := None |}.

Inductive rbody :=
| BErr                                   (* rest.MessageResponse{Type: "ERROR", ...} through the JSON marshaller *)
| BSuccess (msg : string)                (* rest.MessageResponse{Type: "SUCCESS", Message: msg, ...} *)
| BText (t : text)                       (* the bytes, verbatim *)
| BModel (sn : snapshot)
| BActive (l : list (Z * list string))
| BApplicable (l : list (Z * list string))
| BSubcatchment (l : list (string * bool))
| BSolution (id : string) (bits : list bool) (vars : V) (detail : option (string * string))
| BStatus (name version status : string).   (* admin.ServiceStatus{ServiceName, Version, Status, Time}: EngineAdmin.v *)
Record response := { rs_status : nat; rs_ctype : ctype; rs_body : rbody }.

Definition error_response (code : nat) : response := {| rs_status := code; rs_ctype := CtJson; rs_body := BErr |}.
Definition ok_json (b : rbody) : response := {| rs_status := 200; rs_ctype := CtJson; rs_body := b |}.

Definition outcome := res (response * state).
Definition respond (r : response) (s : state) : outcome := Ok (r, s).
Definition fail (code : nat) (s : state) : outcome := Ok (error_response code, s).

(* ------------------------------------------------------------------------------------------------ *)
(** * Tables (internal/pkg/dataset/tables/baseTable.go)                                              *)

Definition col_size (t : table) : nat := List.length (t_header t).
Definition cell_at (t : table) (col row : nat) : res cell :=          (* bt.cells[row][col] *)
  match nth_error (t_rows t) row with
  | None => Panic
  | Some r => match nth_error r col with None => Panic | Some c => Ok c end
  end.
Definition cell_string_of (c : cell) : string :=                       (* CellString *)
  match c with CS s => s | CF _ txt => txt | CB _ txt => txt end.
Definition cell_string (t : table) (col row : nat) : res string := res_map cell_string_of (cell_at t col row).
Definition cell_float (t : table) (col row : nat) : res fval :=        (* CellFloat64: .(float64) unchecked, baseTable.go:43 *)
  do c <- cell_at t col row; match c with CF f _ => Ok f | _ => Panic end.
Definition header_at (t : table) (col : nat) : res string :=           (* Header()[col] *)
  match nth_error (t_header t) col with None => Panic | Some h => Ok h end.

(* ------------------------------------------------------------------------------------------------ *)
(** * MuxSupport.go                                                                                  *)

(* encodingPresentInSolutionSummaryParetoFront: rows 1.. ; column colSize-2 (uint arithmetic: underflows below 2
   columns and then indexes out of range) *)
Fixpoint front_scan (enc : string) (col : nat) (rows : list (list cell)) (found : bool) : res bool :=
  match rows with
  | [] => Ok found
  | r :: rows' =>
      match nth_error r col with
      | None => Panic                                     (* MuxSupport.go:108 cells[row][encodingIndex] *)
      | Some c => front_scan enc col rows' (if String.eqb enc (cell_string_of c) then true else found)
      end
  end.
Definition encoding_in_front (t : table) (enc : string) : res bool :=
  match tl (t_rows t) with
  | [] => Ok false
  | rows => if Nat.ltb (col_size t) 2 then Panic else front_scan enc (col_size t - 2) rows false
  end.

(* deriveExtraModelAttributes: Encoding; ParetoFrontMember (only with a solution set); ValidAgainstScenario;
   ValidationErrors replaced / removed *)
Definition derive (tbl : option table) (m : mstate) : res mstate :=
  let enc := encode (m_bits m) in
  let a1 := ca_replace (m_attrs m) "Encoding" (AStr enc) in
  do a2 <- match tbl with
           | None => Ok a1
           | Some t => do found <- encoding_in_front t enc; Ok (ca_replace a1 "ParetoFrontMember" (ABool found))
           end;
  let valid := d_valid (m_desc m) (m_bits m) in
  let a3 := ca_replace a2 "ValidAgainstScenario" (ABool valid) in
  do a4 <- (if valid then ca_remove a3 "ValidationErrors"
            else Ok (ca_replace a3 "ValidationErrors" (AStr (d_errs (m_desc m) (m_bits m)))));
  Ok {| m_desc := m_desc m; m_id := m_id m; m_bits := m_bits m; m_attrs := a4 |}.

(* updateModelSolution: SolutionBuilder.Build copies the attributes (Join into an empty list) *)
Definition snapshot_of (m : mstate) : snapshot :=
  {| sn_id := m_id m; sn_desc := m_desc m; sn_bits := m_bits m; sn_vars := d_eval (m_desc m) (m_bits m);
     sn_attrs := a_join [] (m_attrs m) |}.

Definition all_false (d : desc) : list bool := repeat false (List.length (d_actions d)).

(* active / inactive action types of a planning unit, in action order *)
Fixpoint types_where (want : bool) (pu : Z) (acts : list (Z * string)) (bits : list bool) : list string :=
  match acts, bits with
  | (p, ty) :: acts', b :: bits' =>
      if Z.eqb p pu && Bool.eqb b want then ty :: types_where want pu acts' bits' else types_where want pu acts' bits'
  | _, _ => []
  end.
Fixpoint active_pus (acts : list (Z * string)) (bits : list bool) (seen : list Z) : list Z :=
  match acts, bits with
  | (p, _) :: acts', b :: bits' =>
      if b && negb (existsb (Z.eqb p) seen) then p :: active_pus acts' bits' (p :: seen) else active_pus acts' bits' seen
  | _, _ => []
  end.
Definition active_map (sn : snapshot) : list (Z * list string) :=
  map (fun pu => (pu, types_where true pu (d_actions (sn_desc sn)) (sn_bits sn)))
      (active_pus (d_actions (sn_desc sn)) (sn_bits sn) []).
Definition applicable_map (sn : snapshot) : list (Z * list string) :=
  map (fun pu => (pu, types_where true pu (d_actions (sn_desc sn)) (sn_bits sn)
                      ++ types_where false pu (d_actions (sn_desc sn)) (sn_bits sn)))
      (d_pus (sn_desc sn)).
Definition subcatchment_attrs (sn : snapshot) (pu : Z) : list (string * bool) :=
  map (fun ty => (ty, true)) (types_where true pu (d_actions (sn_desc sn)) (sn_bits sn))
  ++ map (fun ty => (ty, false)) (types_where false pu (d_actions (sn_desc sn)) (sn_bits sn)).
Definition model_contains (sn : snapshot) (pu : Z) : bool := existsb (Z.eqb pu) (d_pus (sn_desc sn)).

(* scenarioName := m.Attribute(scenarioNameKey).(string): panics when the attribute is absent *)
Definition need_name (s : state) : res string := match st_name s with Some n => Ok n | None => Panic end.

(* ------------------------------------------------------------------------------------------------ *)
(** * v1scenarioHandler.go                                                                           *)

Definition get_scenario (s : state) : outcome :=
  match st_text s with
  | None => fail 404 s
  | Some t =>
      do _ <- need_name s;                                   (* logScenarioGetResponse, v1scenarioHandler.go:52 *)
      respond {| rs_status := 200; rs_ctype := CtToml; rs_body := BText t |} s
  end.

Definition post_scenario (s : state) (r : request) : outcome :=
  match rq_ctype r with
  | CtToml =>
      match rq_toml r with
      | TomlErr => fail 400 s
      | TomlOk name MInterpErr => fail 400 s
      | TomlOk name MNotCatchment => fail 400 s
      | TomlOk name MInitErr => fail 400 s
      | TomlOk name MLibPanic => Panic
      | TomlLibPanic => Panic
      | TomlOk name (MOk d) =>
          (* rememberScenarioAttributeState, then rememberModelState: Initialise(AsIs), SetId, derive, new pool *)
          let m0 := {| m_desc := d; m_id := name; m_bits := all_false d;
                       m_attrs := ca_replace [] "ModelSuppliedPlanningUnitName" (AStr "SubCatchment") |} in
          (* forgetSolutionSummary first (proposed_fixes/C14-7): the posted summary belonged to the replaced scenario *)
          do m1 <- derive None m0;
          (* buildScenarioPostResponse rebuilds the snapshot *)
          respond (ok_json (BSuccess "Scenario configuration successfully posted"))
                  {| st_text := Some (rq_raw r); st_name := Some name; st_model := Some m1;
                     st_snap := Some (snapshot_of m1); st_pool := Some [];
                     st_soltext := None; st_soltable := None |}
      end
  | _ => fail 405 s                       (* handleNonTomlContentResponse answers MethodNotAllowed *)
  end.

(* ------------------------------------------------------------------------------------------------ *)
(** * v1modelHandler.go                                                                              *)

Definition get_model (s : state) : outcome :=
  match st_snap s with
  | None => fail 404 s
  | Some sn => do _ <- need_name s; respond (ok_json (BModel sn)) s      (* v1modelHandler.go:38 *)
  end.

Definition with_model (s : state) (m : mstate) (sn : snapshot) : state :=
  {| st_text := st_text s; st_name := st_name s; st_model := Some m; st_snap := Some sn; st_pool := st_pool s;
     st_soltext := st_soltext s; st_soltable := st_soltable s |}.

(* isEngineMaintainedAttribute: the attributes the engine derives itself; PATCH refuses them (proposed_fixes/C14-6) *)
Definition engine_maintained (k : string) : bool :=
  String.eqb k "ModelSuppliedPlanningUnitName" || String.eqb k "ParetoFrontMember"
  || String.eqb k "ValidAgainstScenario" || String.eqb k "ValidationErrors".

(* validatePatchAttributes *)
Fixpoint patch_valid (n : nat) (l : attrs) : bool :=
  match l with
  | [] => true
  | (k, v) :: l' =>
      if engine_maintained k then false
      else if String.eqb k "Encoding"
      then match v with AStr e => decodes n e && patch_valid n l' | _ => false end
      else patch_valid n l'
  end.

(* the application loop; [None] = the handler answered 400 from inside the loop *)
Fixpoint patch_apply (tbl : option table) (l : attrs) (m : mstate) (sn : snapshot) : res (option (mstate * snapshot)) :=
  match l with
  | [] => Ok (Some (m, sn))
  | (k, v) :: l' =>
      if String.eqb k "Encoding" then
        match v with
        | AStr e =>
            (* reInitialiseModelWithEncoding: DeepClone (Initialise(Unchanged) re-asserts ModelSuppliedPlanningUnitName),
               Decode, Decompress, derive; then updateModelSolution *)
            let '(ok, bits) := decode (List.length (d_actions (m_desc m))) (m_bits m) e in
            if ok then
              do m' <- derive tbl {| m_desc := m_desc m; m_id := m_id m; m_bits := bits;
                                     m_attrs := ca_replace (m_attrs m) "ModelSuppliedPlanningUnitName" (AStr "SubCatchment") |};
              patch_apply tbl l' m' (snapshot_of m')
            else Ok None
        | _ => Ok None
        end
      else patch_apply tbl l' m sn
  end.

Definition patch_model (s : state) (r : request) : outcome :=
  match st_snap s with
  | None => fail 404 s
  | Some sn =>
      match rq_ctype r with
      | CtJson =>
          match rq_json r with
          | JsonErr => fail 400 s
          | JsonLibPanic => Panic
          | JsonAttrs l =>
              match st_model s with
              | None => Panic                                 (* m.model nil: Compress(m.model) dereferences it *)
              | Some m =>
                  if negb (patch_valid (List.length (d_actions (m_desc m))) l) then fail 400 s else
                  let mj := {| m_desc := m_desc m; m_id := m_id m; m_bits := m_bits m; m_attrs := a_join (m_attrs m) l |} in
                  do r1 <- patch_apply (st_soltable s) l mj sn;
                  match r1 with
                  | None => fail 400 (with_model s mj sn)       (* not reachable once validated: see EngineProofs *)
                  | Some (m2, _) =>
                      do m3 <- derive (st_soltable s) m2;
                      respond (ok_json (BSuccess "Model resource successfully patched")) (with_model s m3 (snapshot_of m3))
                  end
              end
          end
      | _ => fail 415 s
      end
  end.

(* ------------------------------------------------------------------------------------------------ *)
(** * v1activeActionslHandler.go                                                                     *)

Definition get_active (s : state) : outcome :=
  match st_snap s with
  | None => fail 404 s
  | Some sn => do _ <- need_name s; respond (ok_json (BActive (active_map sn))) s     (* :54 *)
  end.

Definition is01 (f : fval) : bool := match f with Fin q => Qeq_bool q 0%Q || Qeq_bool q 1%Q | NonFin _ => false end.
Definition action_cell_ok (c : cell) : bool := match c with CF f _ => is01 f | _ => false end.
Definition is_float_cell (c : cell) : bool := match c with CF _ _ => true | _ => false end.
Definition row_ok (r : list cell) : bool :=
  match r with [] => true | c0 :: rest => is_float_cell c0 && forallb action_cell_ok rest end.

(* deriveSolutionTable after the reader/cast stage: header check, SubCatchment column, 0/1 cells *)
Definition actions_table_ok (t : table) : res bool :=
  do h0 <- header_at t 0;                                                   (* :212 Header()[0] *)
  if negb (String.eqb h0 "SubCatchment") then Ok false else Ok (forallb row_ok (t_rows t)).

(* planningunit.Id is uint64.  planningunit.Id(float64) truncates; outside [0, 2^64) the Go specification leaves the
   result implementation-defined -- this is what the amd64 code generator of the Go release in use produces (everything
   out of range, NaN and the infinities become 2^63; negatives above -2^63 wrap), checked against the running binary by the correspondence ("conv" cases). *)
Definition two63 : Z := 9223372036854775808%Z.
Definition two64z : Z := 18446744073709551616%Z.
Definition pu_of_float (f : fval) : Z :=
  match f with
  | NonFin _ => two63
  | Fin q => let z := Z.quot (Qnum q) (Z.pos (Qden q)) in
             if (0 <=? z)%Z then (if (z <? two64z)%Z then z else two63)
             else if (- two63 <=? z)%Z then (two64z + z)%Z else two63
  end.
Definition float_is_zero (f : fval) : bool := match f with Fin q => Qeq_bool q 0%Q | NonFin _ => false end.

Fixpoint set_matching (pu : Z) (ty : string) (v : bool) (acts : list (Z * string)) (bits : list bool) : list bool :=
  match acts, bits with
  | (p, t) :: acts', b :: bits' => (if Z.eqb p pu && String.eqb t ty then v else b) :: set_matching pu ty v acts' bits'
  | _, _ => bits
  end.

(* processTableCell for the cells 1.. of one row *)
Fixpoint process_cells (acts : list (Z * string)) (c0 : cell) (hdr : list string) (cells : list cell) (bits : list bool)
  {struct cells} : res (list bool) :=
  match cells, hdr with
  | c :: cells', h :: hdr' =>
      match c with
      | CF f _ =>                                         (* deriveSuppliedActionState :163 CellFloat64(col,row) *)
          let v := negb (float_is_zero f) in
          match acts with
          | [] => process_cells acts c0 hdr' cells' bits
          | _ => match c0 with
                 | CF f0 _ => process_cells acts c0 hdr' cells' (set_matching (pu_of_float f0) h v acts bits)
                 | _ => Panic                              (* :144 CellFloat64(0,row) on a non-float *)
                 end
          end
      | _ => Panic                                         (* :163 *)
      end
  | [], _ => Ok bits
  | _ :: _, [] => Panic                                    (* :145 Header()[colIndex] *)
  end.
Fixpoint process_rows (acts : list (Z * string)) (hdr : list string) (rows : list (list cell)) (bits : list bool)
  : res (list bool) :=
  match rows with
  | [] => Ok bits
  | r :: rows' =>
      match r with
      | [] => match hdr with [] => process_rows acts hdr rows' bits | _ => Panic end   (* cells[row][0] *)
      | c0 :: cells => do bits' <- process_cells acts c0 (tl hdr) cells bits; process_rows acts hdr rows' bits'
      end
  end.

Definition put_active (s : state) (r : request) : outcome :=
  match st_snap s with
  | None => fail 404 s
  | Some sn =>
      match rq_ctype r with
      | CtCsv =>
          match rq_csv r with
          | CsvErr => fail 400 s
          | CsvLibPanic => Panic
          | CsvOk t =>
              do ok <- actions_table_ok t;
              if negb ok then fail 400 s else
              match st_model s with
              | None => Panic                                  (* m.model.ManagementActions() on nil *)
              | Some m =>
                  do bits <- process_rows (d_actions (m_desc m)) (t_header t) (t_rows t) (m_bits m);
                  do m' <- derive (st_soltable s) {| m_desc := m_desc m; m_id := m_id m; m_bits := bits; m_attrs := m_attrs m |};
                  respond (ok_json (BSuccess "Management actions state change successfully applied"))
                          (with_model s m' (snapshot_of m'))
              end
          end
      | _ => fail 415 s
      end
  end.

(* ------------------------------------------------------------------------------------------------ *)
(** * v1applicableActionsHandler.go                                                                  *)

Definition get_applicable (s : state) : outcome :=
  match st_snap s with
  | None => fail 404 s
  | Some sn => do _ <- need_name s; respond (ok_json (BApplicable (applicable_map sn))) s   (* :61 *)
  end.

(* ------------------------------------------------------------------------------------------------ *)
(** * v1subcatchmentHandler.go                                                                       *)

Definition get_subcatchment (s : state) (id : option Z) : outcome :=
  match st_snap s with
  | None => fail 404 s
  | Some sn =>
      match id with
      | None => fail 404 s
      | Some pu =>
          if negb (model_contains sn pu) then fail 404 s else
          do _ <- need_name s;                                                         (* :78 *)
          respond (ok_json (BSubcatchment (subcatchment_attrs sn pu))) s
      end
  end.

Definition action_name_ok (n : string) : bool :=
  String.eqb n "RiverBankRestoration" || String.eqb n "HillSlopeRestoration"
  || String.eqb n "GullyRestoration" || String.eqb n "WetlandsEstablishment".
Definition is_active_str (v : aval) : bool := match v with AStr x => String.eqb x "Active" | _ => false end.
Definition is_inactive_str (v : aval) : bool := match v with AStr x => String.eqb x "Inactive" | _ => false end.
Definition syntax_ok (l : attrs) : bool :=
  forallb (fun p => action_name_ok (fst p) && (is_active_str (snd p) || is_inactive_str (snd p))) l.
Definition supported (acts : list (Z * string)) (pu : Z) (l : attrs) : bool :=
  forallb (fun p => existsb (fun a => String.eqb (fst p) (snd a) && Z.eqb pu (fst a)) acts) l.
(* the entries naming this action type, applied in order: the last one wins *)
Definition apply_entries (ty : string) (l : attrs) (b : bool) : bool :=
  fold_left (fun acc p => if String.eqb (fst p) ty
                          then (if is_inactive_str (snd p) then false else if is_active_str (snd p) then true else acc)
                          else acc) l b.
Fixpoint update_sub (pu : Z) (l : attrs) (acts : list (Z * string)) (bits : list bool) : list bool :=
  match acts, bits with
  | (p, ty) :: acts', b :: bits' => (if Z.eqb pu p then apply_entries ty l b else b) :: update_sub pu l acts' bits'
  | _, _ => bits
  end.

Definition put_subcatchment (s : state) (id : option Z) (r : request) : outcome :=
  match st_snap s with
  | None => fail 404 s
  | Some sn =>
      match id with
      | None => fail 404 s
      | Some pu =>
          if negb (model_contains sn pu) then fail 404 s else
          do _ <- need_name s;                                                         (* :133 *)
          match rq_json r with
          | JsonErr => fail 400 s
          | JsonLibPanic => Panic
          | JsonAttrs l =>
              if negb (syntax_ok l) then fail 400 s else
              match st_model s with
              | None => Panic                                   (* m.model.ManagementActions() on nil *)
              | Some m =>
                  if negb (supported (d_actions (m_desc m)) pu l) then fail 400 s else
                  let bits := update_sub pu l (d_actions (m_desc m)) (m_bits m) in
                  do m' <- derive (st_soltable s) {| m_desc := m_desc m; m_id := m_id m; m_bits := bits; m_attrs := m_attrs m |};
                  respond (ok_json (BSuccess "Subcatchment state change successfully applied"))
                          (with_model s m' (snapshot_of m'))
              end
          end
      end
  end.

(* ------------------------------------------------------------------------------------------------ *)
(** * v1solutionSetHandler.go                                                                        *)

Definition get_solutions (s : state) : outcome :=
  match st_text s with
  | None => fail 404 s
  | Some _ =>
      match st_soltext s with
      | None => fail 404 s
      | Some t =>
          do _ <- need_name s;                                                         (* :62 *)
          respond {| rs_status := 200; rs_ctype := CtCsv; rs_body := BText t |} s
      end
  end.

Definition is_hex_colon (c : ascii) : bool :=
  match hexval c with Some _ => true | None => Ascii.eqb c ":"%char end.
Fixpoint all_chars (p : ascii -> bool) (s : string) : bool :=
  match s with EmptyString => true | String c s' => p c && all_chars p s' end.
Definition is_string_cell (c : cell) : bool := match c with CS _ => true | _ => false end.

(* the cell checks of deriveSolutionsRequestTable for the cells 1.. of one row below the first *)
Fixpoint summary_cells_ok (hdr : list string) (cells : list cell) {struct cells} : res bool :=
  match cells, hdr with
  | c :: cells', h :: hdr' =>
      let ok := if String.eqb h "Solution" || String.eqb h "Summary" then is_string_cell c
                else if String.eqb h "Actions" then all_chars is_hex_colon (cell_string_of c)
                else is_float_cell c in
      do rest <- summary_cells_ok hdr' cells'; Ok (ok && rest)
  | [], _ => Ok true
  | _ :: _, [] => Panic                                                             (* :220 Header()[colIndex] *)
  end.
Fixpoint summary_rows_ok (hdr : list string) (rows : list (list cell)) : res bool :=
  match rows with
  | [] => Ok true
  | r :: rows' => do a <- summary_cells_ok (tl hdr) (tl r); do b <- summary_rows_ok hdr rows'; Ok (a && b)
  end.
Definition summary_table_ok (t : table) : res bool :=
  let n := col_size t in
  if Nat.ltb n 3 then Ok false else
  do h0 <- header_at t 0; do ha <- header_at t (n - 2); do hs <- header_at t (n - 1);     (* :197 :203 :209 *)
  let hdr_ok := String.eqb h0 "Solution" && String.eqb ha "Actions" && String.eqb hs "Summary" in
  do cells_ok <- summary_rows_ok (t_header t) (tl (t_rows t));       (* the first row is exempt (rowIndex > 0) *)
  Ok (hdr_ok && cells_ok).

Fixpoint lookup_q (l : list (string * Q)) (n : string) : option Q :=
  match l with [] => None | (k, v) :: l' => if String.eqb k n then Some v else lookup_q l' n end.
(* the As-Is comparison for columns 1..nvars of one row; false = "not produced from the current scenario" / a guard *)
Fixpoint asis_row_ok (asis : list (string * Q)) (k : nat) (hdr : list string) (cells : list cell) : res bool :=
  match k with
  | O => Ok true
  | S k' =>
      match hdr, cells with
      | h :: hdr', c :: cells' =>
          match c with
          | CF f _ =>
              match lookup_q asis h with
              | None => Ok false
              | Some mv => match f with
                           | Fin q => if Qeq_bool q mv then asis_row_ok asis k' hdr' cells' else Ok false
                           | NonFin _ => Ok false
                           end
              end
          | _ => Ok false
          end
      | _, _ => Panic                                    (* :134 Header()[colIndex] / cells[row][col] *)
      end
  end.
Fixpoint verify_rows (asis : list (string * Q)) (hdr : list string) (rows : list (list cell)) : res bool :=
  match rows with
  | [] => Ok true
  | r :: rows' =>
      match r with
      | [] => Panic                                                                  (* CellString(0,row) *)
      | c0 :: cells =>
          if String.eqb (cell_string_of c0) "As-Is"
          then do ok <- asis_row_ok asis (List.length asis) (tl hdr) cells; if ok then verify_rows asis hdr rows' else Ok false
          else verify_rows asis hdr rows'
      end
  end.
(* every Actions cell (column colSize-2) must decode for the scenario's action count, on a scratch compressed state;
   the loop returns at the first row that does not *)
Fixpoint actions_decode (n col : nat) (rows : list (list cell)) : res bool :=
  match rows with
  | [] => Ok true
  | r :: rows' =>
      match nth_error r col with
      | None => Panic                                                       (* CellString(encodingIndex, rowIndex) *)
      | Some c => if decodes n (cell_string_of c) then actions_decode n col rows' else Ok false
      end
  end.
(* verifySolutionSummaryMatchesScenario: column count, decodable Actions cells, As-Is values *)
Definition verify_summary (d : desc) (t : table) : res bool :=
  if Nat.ltb (col_size t) (List.length (d_asis d) + 3) then Ok false else
  do dec <- actions_decode (List.length (d_actions d)) (col_size t - 2) (t_rows t);
  if negb dec then Ok false else verify_rows (d_asis d) (t_header t) (t_rows t).

Definition post_solutions (s : state) (r : request) : outcome :=
  match st_text s with
  | None => fail 405 s
  | Some _ =>
      match rq_ctype r with
      | CtCsv =>
          match rq_csv r with
          | CsvErr => fail 400 s
          | CsvLibPanic => Panic
          | CsvOk t =>
              do ok <- summary_table_ok t;
              if negb ok then fail 400 s else
              match st_model s with
              | None => Panic                                    (* :119 m.model.DeepClone() on nil *)
              | Some m =>
                  do same <- verify_summary (m_desc m) t;
                  if negb same then fail 400 s else
                  do _ <- need_name s;                           (* rememberSolutionsAttributeState :266 *)
                  (* updateSolutionSummary: text, table, pool.Clear() (a no-op on the zero-value pool) *)
                  respond (ok_json (BSuccess "Scenario solutions set successfully posted"))
                          {| st_text := st_text s; st_name := st_name s; st_model := st_model s; st_snap := st_snap s;
                             st_pool := option_map (fun _ => []) (st_pool s);
                             st_soltext := Some (rq_raw r); st_soltable := Some t |}
              end
          end
      | _ => fail 415 s
      end
  end.

(* ------------------------------------------------------------------------------------------------ *)
(** * v1solutionHandler.go and SolutionPool.go                                                       *)

Fixpoint label_row (label : string) (rows : list (list cell)) : res (option (list cell)) :=
  match rows with
  | [] => Ok None
  | r :: rows' =>
      match r with
      | [] => Panic                                                                 (* cells[row][0] *)
      | c0 :: _ => if String.eqb (cell_string_of c0) label then Ok (Some r) else label_row label rows'
      end
  end.
Fixpoint pool_find (p : list (string * psol)) (label : string) : option psol :=
  match p with [] => None | (k, v) :: p' => if String.eqb k label then Some v else pool_find p' label end.

Definition get_solution (s : state) (label : string) : outcome :=
  match st_name s with
  | None => fail 404 s
  | Some name =>
      match st_soltable s with
      | None => fail 404 s
      | Some t =>
          do row <- label_row label (t_rows t);                  (* solutionSetTableContainsEntry *)
          match row with
          | None => fail 404 s
          | Some r =>
              match st_pool s, st_model s with
              | Some pool, Some m =>
                  if String.eqb label "As-Is" then
                    (* the pool's As-Is entry, built when the scenario was posted *)
                    respond (ok_json (BSolution (m_id m) (all_false (m_desc m)) (d_eval (m_desc m) (all_false (m_desc m))) None)) s
                  else
                    match pool_find pool label with
                    | Some p =>
                        respond (ok_json (BSolution (m_id m) (p_bits p) (d_eval (m_desc m) (p_bits p)) (Some (p_enc p, p_summary p)))) s
                    | None =>
                        (* getSolutionDetail: columns colSize-2 and colSize-1 of the first row carrying the label *)
                        if Nat.ltb (col_size t) 2 then Panic else
                        match nth_error r (col_size t - 2), nth_error r (col_size t - 1) with
                        | Some ce, Some cs =>
                            let enc := cell_string_of ce in
                            let summary := cell_string_of cs in
                            (* AddSolution: the Decode error is ignored *)
                            let bits := snd (decode (List.length (d_actions (m_desc m))) (all_false (m_desc m)) enc) in
                            let p := {| p_bits := bits; p_enc := enc; p_summary := summary |} in
                            respond (ok_json (BSolution (m_id m) bits (d_eval (m_desc m) bits) (Some (enc, summary))))
                                    {| st_text := st_text s; st_name := st_name s; st_model := st_model s; st_snap := st_snap s;
                                       st_pool := Some ((label, p) :: pool); st_soltext := st_soltext s; st_soltable := st_soltable s |}
                        | _, _ => Panic
                        end
                    end
              | _, _ => Panic            (* zero-value pool: AddSolution dereferences the nil referenceModel (SolutionPool.go:79).
                                            For the label As-Is the Go code would instead marshal a nil solution ("null", 200);
                                            both are outside the reachable states and the model conservatively calls both Panic *)
              end
          end
      end
  end.

(* ------------------------------------------------------------------------------------------------ *)
(** * rest.MuxImpl.ServeHTTP and the per-route method switches                                       *)

Definition handle (s : state) (r : request) : outcome :=
  match rq_route r with
  | RNone => fail 404 s
  | RScenario => match rq_meth r with MPost => post_scenario s r | MGet => get_scenario s | _ => fail 405 s end
  | RSolutions => match rq_meth r with MPost => post_solutions s r | MGet => get_solutions s | _ => fail 405 s end
  | RSolution label => match rq_meth r with MGet => get_solution s label | _ => fail 405 s end
  | RModel => match rq_meth r with MGet => get_model s | MPatch => patch_model s r | _ => fail 405 s end
  | RApplicable => match rq_meth r with MGet => get_applicable s | _ => fail 405 s end
  | RActive => match rq_meth r with MPut => put_active s r | MGet => get_active s | _ => fail 405 s end
  | RSubcatchment id =>
      match rq_meth r with MGet => get_subcatchment s id | MPut => put_subcatchment s id r | _ => fail 405 s end
  end.

(* ------------------------------------------------------------------------------------------------ *)
(** * What the libraries guarantee about the views (boolean, checked on every generated case)          *)

(* tables.baseTable: SetColumnAndRowSize makes every row exactly as wide as the header; encoding/csv never yields
   a record without fields *)
Definition table_wf (t : table) : bool :=
  negb (Nat.eqb (List.length (t_header t)) 0)
  && forallb (fun r => Nat.eqb (List.length r) (List.length (t_header t))) (t_rows t).
Definition csv_wf (c : csv_view) : bool := match c with CsvOk t => table_wf t | CsvErr => true | CsvLibPanic => false end.
Definition toml_returns (t : toml_view) : bool :=
  match t with TomlLibPanic => false | TomlOk _ MLibPanic => false | _ => true end.
Definition json_returns (j : json_view) : bool := match j with JsonLibPanic => false | _ => true end.
(* the library calls made on this request return (do not panic) and the table view has the shape tables build *)
Definition wf_request (r : request) : bool := csv_wf (rq_csv r) && toml_returns (rq_toml r) && json_returns (rq_json r).

(* a run: stops at the first panic *)
Fixpoint run (s : state) (rs : list request) : res state :=
  match rs with
  | [] => Ok s
  | r :: rs' => match handle s r with Ok (_, s') => run s' rs' | Panic => Panic end
  end.

End WithValuation.

Arguments desc : clear implicits.
Arguments model_view : clear implicits.
Arguments toml_view : clear implicits.
Arguments request : clear implicits.
Arguments mstate : clear implicits.
Arguments snapshot : clear implicits.
Arguments state : clear implicits.
Arguments rbody : clear implicits.
Arguments response : clear implicits.
Arguments outcome : clear implicits.

(* ------------------------------------------------------------------------------------------------ *)
(** * Panic-site accounting (tied to the source by harness/astfacts15 -> gen/Facts15.v, obligation gen/obl_C15.v)  *)

(* Every syntactically unambiguous panic site of the request-handling packages this model accounts for: per Go function
   (package/Receiver.name -- robust against moved lines and files) the number of unchecked type assertions x.(T),
   explicit panic(...) calls and calls of known-panicking functions, and HOW the model accounts for them.
   A site that appears in the source and is not listed here breaks the obligation even if no generated request
   reaches it. *)
Definition accounted_sites : list (string * (nat * nat * nat) * string) := [
  (* m.Attribute(scenarioNameKey).(string): [need_name], a Panic branch when the attribute is absent *)
  ("api/Mux.writeActiveActionResponse",       (1, 0, 0), "need_name in get_active");
  ("api/Mux.logApplicableActionsMessage",     (1, 0, 0), "need_name in get_applicable");
  ("api/Mux.v1GetModelHandler",               (1, 0, 0), "need_name in get_model");
  ("api/Mux.logScenarioGetResponse",          (1, 0, 0), "need_name in get_scenario");
  ("api/Mux.logSolutionsGetResponse",         (1, 0, 0), "need_name in get_solutions");
  ("api/Mux.rememberSolutionsAttributeState", (1, 0, 0), "need_name in post_solutions");
  ("api/Mux.logSubcatchmentStateMessage",     (1, 0, 0), "need_name in get_subcatchment");
  ("api/Mux.processSubcatchmentPost",         (1, 0, 0), "need_name in put_subcatchment");
  (* guarded by the handler itself: HasAttribute(key) is tested first and the attribute is only ever stored as a string *)
  ("api/Mux.v1GetSolutionHandler",            (1, 0, 0), "st_name matched Some at the top of get_solution (HasAttribute guard)");
  ("api/Mux.buildScenarioGetResponse",        (1, 0, 0), "st_text matched Some in get_scenario (HasAttribute guard)");
  ("api/Mux.buildSolutionsGetResponse",       (1, 0, 0), "st_soltext matched Some in get_solutions (HasAttribute guard)");
  (* CellFloat64: .(float64) on a cell *)
  ("api/Mux.processTableCell",                (0, 0, 1), "process_cells: Panic when cell 0 of the row is not CF");
  ("api/Mux.deriveSuppliedActionState",       (0, 0, 1), "process_cells: Panic when an action cell is not CF");
  (* constant patterns / type facts *)
  ("api/Mux.deriveSolutionsRequestTable",     (0, 0, 1), "regexp.MustCompile of the constant actionsEncodingPattern (all_chars is_hex_colon)");
  ("rest/HandlerFunctionMap.AddHandler",      (0, 0, 1), "regexp.MustCompile of the constant route patterns, at Initialise only (route view)");
  ("api/toCatchmentModel",                    (0, 0, 1), "assert.That(false): the argument is always the DeepClone of a *catchment.Model")
]%nat.
