(* C02 (extension) — executable models of the two toy implementations of model.Model that the shipped
   Dumb*Annealer configurations run on.  No proofs in this file (DumbModelsProofs.v), so that it
   still runs under vm_compute when a proof breaks.

   PART 1   internal/pkg/model/models/dumb            (one decision variable "ObjectiveValue")
   PART 2   internal/pkg/model/models/modumb          (planning units x 3 actions, three objectives)

   Both are transcribed AS THE CODE IS at /repo HEAD, at the level of the model.Model operations
   the explorers use.  Numbers are integers on the reporting grid of the variable (dumb: precision
   3, i.e. thousandths; modumb: precision 2, i.e. hundredths), exactly as Catchment.v does; the
   random picks of TryRandomChange / DoRandomChange are INPUTS.

   Go objects are shared by pointer, and DeepClone of either model is a struct copy (`clone := *m`)
   that keeps some of those pointers.  The models therefore carry a small heap:
     - parameter cells  (parameters.Parameters.paramMap is a Go map: a clone shares it),
     - for modumb, "bodies" (the decision variables and the management actions that one call of
       Initialise builds): a clone shares the body of its original until it is initialised itself,
       and its lastApplied pointer may keep pointing into a body it no longer uses.
   A model value the Go program holds is a HANDLE: an index into the list of model structs. *)
From Coq Require Import List ZArith QArith Bool Arith.
From Crem Require Import Base.Res Base.Fl.
From Crem Require Catchment.
Import ListNotations.
Open Scope Z_scope.

(* ---------- lists as heaps ---------- *)
Fixpoint upd_nth {A} (l : list A) (i : nat) (x : A) : list A :=
  match l, i with
  | [], _ => []
  | _ :: t, O => x :: t
  | a :: t, S j => a :: upd_nth t j x
  end.

Definition opt_or {A} (o : option A) (d : A) : A := match o with Some x => x | None => d end.

(* =====================================================================================
   PART 1: dumb.Model                                                       grid = 1/1000
   ===================================================================================== *)

(* Parameters.go: InitialObjectiveValue (1000), MinimumObjectiveValue (0), MaximumObjectiveValue (2000),
   validator IsDecimal (any float64).  Grid integers; an initial value off the thousandths grid is
   outside this model (SetParameters stores it unrounded, so the grid would only be a lossy view). *)
Record dparams := mkDP { dp_init : Z; dp_min : Z; dp_max : Z }.
Definition dp_default : dparams := mkDP 1000000 0 2000000.

(* variable.UndoableValueCommand: undoneValue, doneValue and the BaseCommand status
   (UnDone = false / Done = true; NoChange is only ever a return value) *)
Record dcmd := mkDC { dc_undone : Z; dc_done : Z; dc_isdone : bool }.
Definition dcmd_fresh : dcmd := mkDC 0 0 false.

(* one dumb.Model struct: which parameter cell it uses, the variable's value, the variable's command *)
Record dstate := mkDS { ds_prm : nat; ds_value : Z; ds_cmd : dcmd }.

Record dworld := mkDW { dw_params : list dparams; dw_models : list dstate }.

(* NewModel(): defaults, value := InitialObjectiveValue, command zero-valued *)
Definition dw_new : dworld := mkDW [dp_default] [mkDS 0 (dp_init dp_default) dcmd_fresh].

(* ---- operations on one struct ---- *)

(* capChangeOverRange: transcribed for the record -- NO operation of the model calls it *)
Definition d_cap (p : dparams) (v : Z) : Z := Z.min (dp_max p) (Z.max (dp_min p) v).

(* generateRandomChange: Intn(2) = 0 -> downward (-1), 1 -> upward (+1); the pick is the input [up].
   SetUndoableChange -> UndoableValueCommand.SetChange: Reset(); undone := Value();
   done := undone + RoundFloat(change, 3) *)
Definition d_change_of (up : bool) : Z := if up then 1000 else -1000.
Definition d_try (up : bool) (s : dstate) : dstate :=
  mkDS (ds_prm s) (ds_value s) (mkDC (ds_value s) (ds_value s + d_change_of up) false).

(* AcceptChange = ApplyDoneValue = command.Do(): only when the status is UnDone *)
Definition d_accept (s : dstate) : dstate :=
  if dc_isdone (ds_cmd s) then s
  else mkDS (ds_prm s) (dc_done (ds_cmd s)) (mkDC (dc_undone (ds_cmd s)) (dc_done (ds_cmd s)) true).

(* RevertChange = UndoChange = ApplyUndoneValue = command.Undo(): only when the status is Done *)
Definition d_revert (s : dstate) : dstate :=
  if dc_isdone (ds_cmd s)
  then mkDS (ds_prm s) (dc_undone (ds_cmd s)) (mkDC (dc_undone (ds_cmd s)) (dc_done (ds_cmd s)) false)
  else s.
Definition d_undo := d_revert.
Definition d_do (up : bool) (s : dstate) : dstate := d_accept (d_try up s).

(* DeepClone (after fix 9c2ce7a): struct copy, then a NEW variable (hence a zero-valued command)
   holding the original's value; the parameter map stays shared *)
Definition d_clone (s : dstate) : dstate := mkDS (ds_prm s) (ds_value s) dcmd_fresh.

(* reported values *)
Definition d_value (s : dstate) : Z := ds_value s.                                  (* DecisionVariable(..).Value() *)
Definition d_change (s : dstate) : Z := dc_done (ds_cmd s) - dc_undone (ds_cmd s).   (* DecisionVariableChange(..) *)
Definition d_undoable (s : dstate) : Z := dc_done (ds_cmd s).                        (* UndoableValue() *)
Definition d_change_is_valid (s : dstate) : bool := true.

(* ---- operations addressed to a handle ---- *)
Inductive dop :=
| DSetParams (init mn mx : option Z)   (* the keys present in the parameter map *)
| DInit                                (* Initialise: replaces the random source only *)
| DTry (up : bool)
| DValid                               (* ChangeIsValid *)
| DAccept
| DRevert
| DDo (up : bool)                      (* DoRandomChange *)
| DUndo                                (* UndoChange *)
| DSetAct (i : nat) (b : bool)         (* SetManagementAction: empty body *)
| DSetActU (i : nat) (b : bool)        (* SetManagementActionUnobserved: empty body *)
| DClone.                              (* DeepClone: the clone becomes the next handle *)

Definition dw_set_model (w : dworld) (h : nat) (s : dstate) : dworld :=
  mkDW (dw_params w) (upd_nth (dw_models w) h s).

Definition dp_merge (p : dparams) (i mn mx : option Z) : dparams :=
  mkDP (opt_or i (dp_init p)) (opt_or mn (dp_min p)) (opt_or mx (dp_max p)).

(* a handle that does not exist is an ill-formed input, not a Go behaviour: the world is returned
   unchanged and the correspondence checker rejects such a case *)
Definition dw_step (w : dworld) (h : nat) (o : dop) : dworld :=
  match nth_error (dw_models w) h with
  | None => w
  | Some s =>
      match o with
      | DSetParams i mn mx =>
          (* AssignAllUserValues writes into the (possibly shared) map; then value := InitialObjectiveValue *)
          let p := dp_merge (nth (ds_prm s) (dw_params w) dp_default) i mn mx in
          mkDW (upd_nth (dw_params w) (ds_prm s) p)
               (upd_nth (dw_models w) h (mkDS (ds_prm s) (dp_init p) (ds_cmd s)))
      | DInit => w
      | DTry up => dw_set_model w h (d_try up s)
      | DValid => w
      | DAccept => dw_set_model w h (d_accept s)
      | DRevert => dw_set_model w h (d_revert s)
      | DDo up => dw_set_model w h (d_do up s)
      | DUndo => dw_set_model w h (d_undo s)
      | DSetAct _ _ => w
      | DSetActU _ _ => w
      | DClone => mkDW (dw_params w) (dw_models w ++ [d_clone s])
      end
  end.

Fixpoint dw_run (w : dworld) (l : list (nat * dop)) : dworld :=
  match l with
  | [] => w
  | (h, o) :: l' => dw_run (dw_step w h o) l'
  end.

(* what the program can read from one handle: value, reported change, undoable value *)
Definition d_obs (s : dstate) : list Z := [d_value s; d_change s; d_undoable s].
Definition dw_obs (w : dworld) : list (list Z) := map d_obs (dw_models w).
Definition dw_value (w : dworld) (h : nat) : option Z := option_map d_value (nth_error (dw_models w) h).

(* the two range parameters erased from a history / a world (used to state that they are inert) *)
Definition dop_erase_range (o : dop) : dop :=
  match o with DSetParams i _ _ => DSetParams i None None | _ => o end.
Definition dw_erase_range (w : dworld) : dworld :=
  mkDW (map (fun p => mkDP (dp_init p) 0 0) (dw_params w)) (dw_models w).

(* =====================================================================================
   PART 2: modumb.Model                                                      grid = 1/100
   ===================================================================================== *)

(* math.RoundFloat(value, 2): panics when |value| > math.MaxFloat64 / 10^2 (the quotient as the
   binary64 division gives it: 2882303761517117 * 2^966), else round half away from zero. *)
Definition round2_limit : Q := fl 2882303761517117 966.
Definition Qabs_ (q : Q) : Q := if Qle_bool 0 q then q else (- q)%Q.
Definition round2_res (q : Q) : res Z :=
  if Qle_bool (Qabs_ q) round2_limit then Ok (Catchment.round2 q) else Panic.

(* parameters/Parameters.go: three initial objective values (IsDecimal; 1000, 2000, 3000) and
   NumberOfPlanningUnits (IsNonNegativeInteger; 100).  Initial values are exact rationals (the float
   the parameter map holds). *)
Record mparams := mkMP { mp_i0 : Q; mp_i1 : Q; mp_i2 : Q; mp_npu : nat }.
Definition mp_default : mparams := mkMP (1000 # 1) (2000 # 1) (3000 # 1) 100.

(* float-faithfulness range (A-FLOAT): below this magnitude every float64 sum / difference the code
   forms is within a negligible fraction of a grid unit of the exact one.  The correspondence
   checker refuses parameters outside it; the RoundFloat overflow panic lies far outside. *)
Definition mp_small (p : mparams) : bool :=
  Qle_bool (Qabs_ (mp_i0 p)) (1000000000 # 1) && Qle_bool (Qabs_ (mp_i1 p)) (1000000000 # 1) &&
  Qle_bool (Qabs_ (mp_i2 p)) (1000000000 # 1) && Nat.leb (mp_npu p) 1000.

Inductive obj := O0 | O1 | O2.      (* Objective_0, Objective_1, Objective_2 *)
Definition all_obj : list obj := [O0; O1; O2].
Definition obj_eqb (a b : obj) : bool :=
  match a, b with O0, O0 | O1, O1 | O2, O2 => true | _, _ => false end.

(* buildManagementActions: per planning unit pu three DumbActions, appended in this order:
   index 3*pu + k carries the single model variable Objective_k with value -(k+1) *)
Definition act_obj (i : nat) : obj := match Nat.modulo i 3 with 0%nat => O0 | 1%nat => O1 | _ => O2 end.
Definition act_pu (i : nat) : nat := Nat.div i 3.
Definition obj_cost (k : obj) : Z := match k with O0 => -100 | O1 => -200 | O2 => -300 end.
Definition init_of (p : mparams) (k : obj) : Q := match k with O0 => mp_i0 p | O1 => mp_i1 p | O2 => mp_i2 p end.

(* variable.ChangePerPlanningUnitDecisionVariableCommand as DumbObjective.handleDumbAction builds it: always
   status UnDone while stored (ApplyDoneValue / ApplyUndoneValue replace it by NullChangeCommand = [None]) *)
Record mcmd := mkMC { mc_pu : nat; mc_undone : Z; mc_done : Z }.

(* variables.DumbObjective: the planningUnitValues map (a missing key reads 0), the total, the command *)
Record mvar := mkMV { mv_vals : nat -> Z; mv_total : Z; mv_cmd : option mcmd }.

(* what one call of Initialise builds: the action flags (ManagementActions() order) and the three objectives *)
Record mbody := mkMB { mb_active : list bool; mb_var : obj -> mvar }.

(* ModelManagementActions.lastApplied: a nil interface, action.NullManagementAction, or a pointer to
   action [i] of body [b] *)
Inductive mlast := LNil | LNull | LAct (b i : nat).

(* one modumb.Model struct *)
Record mhandle := mkMH { mh_prm : nat; mh_body : option nat; mh_last : mlast }.

Record mworld := mkMW { mw_params : list mparams; mw_bodies : list mbody; mw_handles : list mhandle }.

(* NewModel(): parameters at their defaults, an EMPTY variable collection and no actions until Initialise *)
Definition mw_new : mworld := mkMW [mp_default] [] [mkMH 0 None LNil].

Definition upd (f : nat -> Z) (i : nat) (v : Z) : nat -> Z := fun j => if Nat.eqb j i then v else f j.

Definition set_var (b : mbody) (k : obj) (v : mvar) : mbody :=
  mkMB (mb_active b) (fun k' => if obj_eqb k' k then v else mb_var b k').
Definition set_active (b : mbody) (l : list bool) : mbody := mkMB l (mb_var b).
Definition is_active (b : mbody) (i : nat) : bool := nth i (mb_active b) false.

(* SimpleManagementAction.ToggleActivationUnobserved / SetActivationUnobserved *)
Definition set_flag (b : mbody) (i : nat) (v : bool) : mbody := set_active b (upd_nth (mb_active b) i v).
Definition flip (b : mbody) (i : nat) : mbody := set_flag b i (negb (is_active b i)).

(* notifyObservers of action i (after its flag changed): its own objective's ObserveAction ->
   handleDumbAction: change := +cost if now active, -cost if now inactive, rounded to 2 decimals (exact);
   command := { planning unit; undone := that unit's value; done := undone + change }  (any earlier
   command of this objective is dropped) *)
Definition observe (b : mbody) (i : nat) : mbody :=
  let k := act_obj i in
  let pu := act_pu i in
  let change := if is_active b i then obj_cost k else - obj_cost k in
  let v := mb_var b k in
  set_var b k (mkMV (mv_vals v) (mv_total v) (Some (mkMC pu (mv_vals v pu) (mv_vals v pu + change)))).

(* ApplyDoneValue: command.Do() -> SetPlanningUnitValue(pu, done):
     old := map[pu]; map[pu] := Round(done); value := Round(value + (done - old));   then command := Null *)
Definition apply_done (v : mvar) : mvar :=
  match mv_cmd v with
  | None => v
  | Some c => mkMV (upd (mv_vals v) (mc_pu c) (mc_done c)) (mv_total v + (mc_done c - mv_vals v (mc_pu c))) None
  end.
(* ApplyUndoneValue: command.Undo() finds the status UnDone and does nothing; then command := Null *)
Definition drop_cmd (v : mvar) : mvar := mkMV (mv_vals v) (mv_total v) None.

(* AcceptAll / RejectAll walk the three objectives in creation order; each touches only itself *)
Definition accept_all (b : mbody) : mbody := mkMB (mb_active b) (fun k => apply_done (mb_var b k)).
Definition reject_all (b : mbody) : mbody := mkMB (mb_active b) (fun k => drop_cmd (mb_var b k)).

(* buildDecisionVariables + buildManagementActions.  WithStartingValue(v) = SetPlanningUnitValue(0, v):
   unit 0 holds Round(v) and the total is Round(0 + (v - 0)), whatever the number of planning units *)
Definition fresh_body (p : mparams) : res mbody :=
  do g0 <- round2_res (mp_i0 p);
  do g1 <- round2_res (mp_i1 p);
  do g2 <- round2_res (mp_i2 p);
  Ok (mkMB (repeat false (3 * mp_npu p))
           (fun k => let g := match k with O0 => g0 | O1 => g1 | O2 => g2 end in
                     mkMV (fun pu => if Nat.eqb pu 0 then g else 0) g None)).

(* ---- operations addressed to a handle ---- *)
Inductive mop :=
| MSetParams (i0 i1 i2 : option Q) (npu : option nat)
| MInit
| MTry (pick : nat)            (* TryRandomChange; [pick] = what Intn(number of actions) returns *)
| MValid
| MAccept
| MRevert
| MDo (pick : nat)             (* DoRandomChange *)
| MUndo                        (* UndoChange *)
| MSetAct (i : nat) (v : bool)
| MSetActU (i : nat) (v : bool)
| MClone.

Definition mw_set_body (w : mworld) (bi : nat) (b : mbody) : mworld :=
  mkMW (mw_params w) (upd_nth (mw_bodies w) bi b) (mw_handles w).
Definition mw_set_handle (w : mworld) (hi : nat) (h : mhandle) : mworld :=
  mkMW (mw_params w) (mw_bodies w) (upd_nth (mw_handles w) hi h).
Definition with_last (h : mhandle) (l : mlast) : mhandle := mkMH (mh_prm h) (mh_body h) l.

Definition mp_merge (p : mparams) (i0 i1 i2 : option Q) (n : option nat) : mparams :=
  mkMP (opt_or i0 (mp_i0 p)) (opt_or i1 (mp_i1 p)) (opt_or i2 (mp_i2 p)) (opt_or n (mp_npu p)).

(* the body a handle's slices point at (None: never initialised -- no variables, no actions) *)
Definition body_of (w : mworld) (h : mhandle) : option (nat * mbody) :=
  match mh_body h with
  | None => None
  | Some bi => match nth_error (mw_bodies w) bi with Some b => Some (bi, b) | None => None end
  end.

(* apply f to the body of h, if it has one *)
Definition on_own_body (w : mworld) (h : mhandle) (f : mbody -> mbody) : mworld :=
  match body_of w h with
  | None => w
  | Some (bi, b) => mw_set_body w bi (f b)
  end.

(* ModelManagementActions.RandomlyToggleOneActivation *)
Definition m_try (w : mworld) (hi : nat) (h : mhandle) (pick : nat) : res mworld :=
  match body_of w h with
  | None => Ok (mw_set_handle w hi (with_last h LNull))          (* len(actions) < 1 -> NullManagementAction *)
  | Some (bi, b) =>
      let n := length (mb_active b) in
      if Nat.eqb n 0 then Ok (mw_set_handle w hi (with_last h LNull))
      else if Nat.ltb pick n
           then Ok (mw_set_handle (mw_set_body w bi (observe (flip b pick) pick)) hi (with_last h (LAct bi pick)))
           else Panic                                            (* not a value Intn(n) can return *)
  end.

Definition m_accept (w : mworld) (h : mhandle) : mworld := on_own_body w h accept_all.

(* lastApplied.ToggleActivationUnobserved() / lastApplied.ToggleActivation() *)
Definition toggle_last (w : mworld) (l : mlast) (observed : bool) : res mworld :=
  match l with
  | LNil => Panic                                                (* method call on a nil interface *)
  | LNull => Ok w
  | LAct bi i =>
      match nth_error (mw_bodies w) bi with
      | None => Panic
      | Some b => Ok (mw_set_body w bi (if observed then observe (flip b i) i else flip b i))
      end
  end.

Definition mw_step (w : mworld) (hi : nat) (o : mop) : res mworld :=
  match nth_error (mw_handles w) hi with
  | None => Panic                                                (* ill-formed input; the checker rejects it *)
  | Some h =>
      match o with
      | MSetParams i0 i1 i2 n =>
          Ok (mkMW (upd_nth (mw_params w) (mh_prm h) (mp_merge (nth (mh_prm h) (mw_params w) mp_default) i0 i1 i2 n))
                   (mw_bodies w) (mw_handles w))
      | MInit =>
          do b <- fresh_body (nth (mh_prm h) (mw_params w) mp_default);
          Ok (mkMW (mw_params w) (mw_bodies w ++ [b])
                   (upd_nth (mw_handles w) hi (mkMH (mh_prm h) (Some (length (mw_bodies w))) (mh_last h))))
      | MTry pick => m_try w hi h pick
      | MValid => Ok w
      | MAccept => Ok (m_accept w h)
      | MRevert =>
          (* RejectAll, then ToggleLastActivationUnobserved *)
          toggle_last (on_own_body w h reject_all) (mh_last h) false
      | MDo pick =>
          do w1 <- m_try w hi h pick;
          Ok (m_accept w1 h)
      | MUndo =>
          (* ToggleLastActivation (observed), then AcceptChange *)
          do w1 <- toggle_last w (mh_last h) true;
          Ok (m_accept w1 h)
      | MSetAct i v =>
          match body_of w h with
          | None => Panic                                        (* ManagementActions()[index] on an empty slice *)
          | Some (bi, b) =>
              if Nat.ltb i (length (mb_active b)) then
                if Bool.eqb (is_active b i) v then Ok w
                else Ok (mw_set_handle (mw_set_body w bi (accept_all (observe (set_flag b i v) i))) hi (with_last h (LAct bi i)))
              else Panic
          end
      | MSetActU i v =>
          match body_of w h with
          | None => Panic
          | Some (bi, b) =>
              if Nat.ltb i (length (mb_active b))
              then Ok (mw_set_handle (mw_set_body w bi (set_flag b i v)) hi (with_last h (LAct bi i)))
              else Panic
          end
      | MClone => Ok (mkMW (mw_params w) (mw_bodies w) (mw_handles w ++ [h]))
      end
  end.

Fixpoint mw_run (w : mworld) (l : list (nat * mop)) : res mworld :=
  match l with
  | [] => Ok w
  | (h, o) :: l' => do w' <- mw_step w h o; mw_run w' l'
  end.

(* ---- reported values ---- *)
Definition mv_change (v : mvar) : Z :=      (* DecisionVariableChange: command.Change() *)
  match mv_cmd v with None => 0 | Some c => mc_done c - mc_undone c end.
Definition mv_undoable (v : mvar) : Z :=    (* UndoableValue: command.Value() -- the UNIT's prospective value *)
  match mv_cmd v with None => 0 | Some c => mc_done c end.

(* the number of units whose values an observer looks at: the model's planning units, and unit 0
   (which always holds the starting value) *)
Definition body_units (b : mbody) : nat := Nat.max 1 (Nat.div (length (mb_active b)) 3).

Record mobs := mkMO {
  mo_active : list bool;
  mo_totals : list Z;             (* per objective *)
  mo_changes : list Z;
  mo_undoable : list Z;
  mo_vals : list (list Z)         (* per objective, units 0 .. body_units - 1 *)
}.

Definition body_obs (b : mbody) : mobs :=
  mkMO (mb_active b)
       (map (fun k => mv_total (mb_var b k)) all_obj)
       (map (fun k => mv_change (mb_var b k)) all_obj)
       (map (fun k => mv_undoable (mb_var b k)) all_obj)
       (map (fun k => map (mv_vals (mb_var b k)) (seq 0 (body_units b))) all_obj).

(* None: the handle was never initialised (DecisionVariable(name) would panic) *)
Definition handle_obs (w : mworld) (h : mhandle) : option mobs :=
  match body_of w h with None => None | Some (_, b) => Some (body_obs b) end.
Definition mw_obs (w : mworld) : list (option mobs) := map (handle_obs w) (mw_handles w).

(* ---- well-formed worlds (a boolean; every world a Go program can reach satisfies it) ---- *)
Definition cmd_ok (v : mvar) : bool :=
  match mv_cmd v with None => true | Some c => mc_undone c =? mv_vals v (mc_pu c) end.
Definition body_ok (b : mbody) : bool := forallb (fun k => cmd_ok (mb_var b k)) all_obj.
Definition last_ok (w : mworld) (l : mlast) : bool :=
  match l with
  | LAct bi i => match nth_error (mw_bodies w) bi with Some b => Nat.ltb i (length (mb_active b)) | None => false end
  | _ => true
  end.
Definition handle_ok (w : mworld) (h : mhandle) : bool :=
  match mh_body h with Some bi => Nat.ltb bi (length (mw_bodies w)) | None => true end && last_ok w (mh_last h).
Definition mw_wf (w : mworld) : bool :=
  forallb body_ok (mw_bodies w) && forallb (handle_ok w) (mw_handles w).

(* no proposal pending on a body *)
Definition settled (b : mbody) : bool :=
  forallb (fun k => match mv_cmd (mb_var b k) with None => true | Some _ => false end) all_obj.
