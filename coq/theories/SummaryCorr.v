(* Correspondence checker for C13.
   (1) [gcase]: the caster / formatter model (GoCast.v) against crem's real BaseCaster and fmt %v, string by string.
   (2) [e2e]: one summary written by the REAL csv.SummaryMarshaler, posted to the REAL engine Mux; the model
       (SummaryRoundTrip.v) is run on the records the csv reader returns for that text, with the real caster's
       verdict per field, and must reproduce the POST status, every GET /solutions/<label> outcome (in order,
       threading the solution pool) and every PATCH /model {Encoding} -> ParetoFrontMember outcome.
       The ACTIONS are compared too (SummaryActions.v over C09's BooleanArchive / ModelCompressor model): the active
       flags of every solution served by label must be those the model decodes from the row's text for the
       scenario's action count (any count: 63, 64, 65, 128, ...), the flags and the Encoding attribute of the
       engine's model after every PATCH must be the model's, and membership is decided on the text the MODEL
       re-encodes to (the implementation's own recoding is only compared with it). *)
From Coq Require Import List String Ascii QArith Qabs ZArith Bool Arith.
From Crem Require Import Base.Res Base.Fl CsvTable GoCast CsvTableCorr SummaryRoundTrip SummaryActions.
From Crem Require ActionCodec.
From Coq Require Import NArith.
Import ListNotations.
Local Open Scope nat_scope.

(* ---- (1) ---- *)
Definition upper_hexcolon (c : ascii) : bool :=
  let n := nat_of_ascii c in
  ((48 <=? n) && (n <=? 57)) || ((65 <=? n) && (n <=? 70)) || (n =? 58).

Definition check_gcase (f : fld) : bool :=
  go_cast_agrees f && go_fmt_agrees f
  (* every string over [0-9A-F:] is inside the modelled domain of go_cast *)
  && (if forallb upper_hexcolon (chars (f_s f))
      then match go_cast (f_s f) with Some _ => true | None => false end else true).

Fixpoint gmismatches_from (i : nat) (cs : list fld) : list nat :=
  match cs with
  | [] => []
  | c :: cs' => if check_gcase c then gmismatches_from (S i) cs' else i :: gmismatches_from (S i) cs'
  end.
Definition gmismatches := gmismatches_from 0.

Definition count_modelled (cs : list fld) : nat :=
  List.length (filter (fun f => match go_cast (f_s f) with Some _ => true | None => false end) cs).

(* ---- (2) ---- *)
Inductive gobs := GNotFound | GAsIs | GDecoded (e s : string) | GPanic | GOther.
Inductive pobs := P400 | PTrue | PFalse | PNone | PPanic | POther.
Inductive postobs := Post200 | Post400 | PostPanic | PostOther.

(* one PATCH /model {Encoding: enc}: the implementation's own Encoding(Decode enc) on a clone (None = Decode error),
   the ParetoFrontMember observation, and after a 200 the flags (bit k = action k) and the Encoding attribute that
   GET /model then shows (None = not observed / not expressible in the scenario's action list) *)
Record patch := mkP {
  p_enc : string; p_recode : option string; p_obs : pobs; p_act : option N; p_menc : option string }.

Record e2e := mkE {
  e_nact : nat;                                   (* management actions of the scenario's model *)
  e_mstart : option N;                            (* flags of the engine's model before the first PATCH of [e_patches] *)
  e_nw : nat;                                     (* words of the scenario's action archive (ArchiveLen) *)
  e_pre : list (list (list fld) * list string);   (* history: summaries posted before, with the labels fetched after each *)
  e_recs : option (list (list fld));
  e_text : string;
  e_asis : list (string * num);
  e_post : postobs;
  e_gets : list (string * gobs * option N);       (* label, outcome, active flags of the served solution *)
  e_patches : list patch }.

Definition srow_of (r : list string) : srow :=
  match r with
  | [] => mkRow EmptyString [] EmptyString EmptyString
  | l :: rest =>
    let n := List.length rest - 2 in
    mkRow l (firstn n rest) (nth n rest EmptyString) (nth (S n) rest EmptyString)
  end.

Definition gobs_eqb (f : found) (o : gobs) : bool :=
  match f, o with
  | NotFound, GNotFound => true
  | AsIsSolution, GAsIs => true
  | Decoded e s, GDecoded e' s' => String.eqb e e' && String.eqb s s'
  | _, _ => false
  end.

Definition opt_flags_eqb (n : nat) (m : list bool) (o : option N) : bool :=
  match o with Some v => flags_eqb m (flags_of_N n v) && (v <? 2 ^ N.of_nat n)%N | None => false end.

(* the actions of the solution served under a label: the as-is model's (none active) / the pooled model's, which
   SolutionPool.AddSolution decodes from the row's text into a clone of the as-is model *)
Definition served_flags_ok (n : nat) (f : found) (act : option N) : bool :=
  match f with
  | NotFound => match act with None => true | Some _ => false end
  | AsIsSolution => opt_flags_eqb n (repeat false n) act
  | Decoded e _ =>
    match pool_solution_flags (repeat false n) e with
    | Ok m => opt_flags_eqb n m act
    | Panic => false
    end
  end.

Fixpoint run_gets (n : nat) (fmt : num -> string) (st : state) (gs : list (string * gobs * option N)) : bool :=
  match gs with
  | [] => true
  | (label, o, act) :: gs' =>
    match get_solution fmt st label, o with
    | Panic, GPanic => run_gets n fmt st gs'      (* the real handler recovered by the harness: state unchanged *)
    | Ok (f, st'), _ => gobs_eqb f o && served_flags_ok n f act && run_gets n fmt st' gs'
    | _, _ => false
    end
  end.

Definition pobs_eqb (r : res (option (option bool))) (o : pobs) : bool :=
  match r, o with
  | Panic, PPanic => true
  | Ok None, P400 => true
  | Ok (Some None), PNone => true
  | Ok (Some (Some true)), PTrue => true
  | Ok (Some (Some false)), PFalse => true
  | _, _ => false
  end.

Definition opt_string_eqb (a b : option string) : bool :=
  match a, b with
  | Some x, Some y => String.eqb x y
  | None, None => true
  | _, _ => false
  end.

(* the PATCHes in order, threading the flags of the engine's model *)
Fixpoint run_patches (n : nat) (fmt : num -> string) (st : state) (cur : list bool) (ps : list patch) : bool :=
  match ps with
  | [] => true
  | p :: ps' =>
    match patch_encoding fmt st cur (p_enc p) with
    | Panic => match p_obs p with PPanic => run_patches n fmt st cur ps' | _ => false end
    | Ok None =>                                                       (* 400: the model stays as it was *)
      match p_obs p with P400 => true | _ => false end
      && opt_string_eqb (p_recode p) None
      && run_patches n fmt st cur ps'
    | Ok (Some (m, enc, member)) =>
      pobs_eqb (Ok (Some member)) (p_obs p)
      && opt_string_eqb (p_recode p) (Some enc)                        (* the implementation's own recoding agrees *)
      && opt_flags_eqb n m (p_act p)
      && opt_string_eqb (p_menc p) (Some enc)
      && run_patches n fmt st m ps'
    end
  end.

Fixpoint run_labels (fmt : num -> string) (st : state) (ls : list string) : state :=
  match ls with
  | [] => st
  | l :: ls' => match get_solution fmt st l with Ok (_, st') => run_labels fmt st' ls' | Panic => run_labels fmt st ls' end
  end.

Fixpoint run_history (nw : nat) (cast : caster) (fmt : num -> string) (asis : list (string * num)) (st : state)
         (h : list (list (list fld) * list string)) : state :=
  match h with
  | [] => st
  | (recs, ls) :: h' =>
    let st1 := match post_solutions nw cast fmt asis st (CsvRecords (map (map f_s) recs)) with
               | Ok (_, s1) => s1 | Panic => st end in
    run_history nw cast fmt asis (run_labels fmt st1 ls) h'
  end.

Definition check_e2e (c : e2e) : bool :=
  match e_recs c with
  | None => true                                   (* not one record per row: outside the model, reported by the oracle *)
  | Some recs =>
    let fs := List.concat recs ++ List.concat (List.concat (map fst (e_pre c))) in
    let cast := cast_of fs in
    let fmt := fmt_of fs in
    let strs := map (map f_s) recs in
    let hdr := hd [] strs in
    let names := firstn (List.length hdr - 3) (tl hdr) in
    let rows := map srow_of (tl strs) in
    let st0 := run_history (e_nw c) cast fmt (e_asis c) fresh (e_pre c) in
    forallb (fun f => tag_eqb (cast (f_s f)) (f_tag f)) fs
    && forallb go_cast_agrees fs && forallb go_fmt_agrees fs
    (* the marshaller model writes the same text / the same records *)
    && String.eqb (marshal_text names rows) (e_text c)
    && list_eqb (list_eqb String.eqb) (marshal_records names rows) strs
    && match post_solutions (e_nw c) cast fmt (e_asis c) st0 (CsvRecords strs), e_post c with
       | Panic, PostPanic => true
       | Ok (S400, _), Post400 => true
       | Ok (S200, st), Post200 =>
         run_gets (e_nact c) fmt st (e_gets c)
         && Nat.eqb (e_nw c) (BoolArchive.nwords (e_nact c))
         && match e_patches c, e_mstart c with
            | [], _ => true
            | _, Some v => (v <? 2 ^ N.of_nat (e_nact c))%N
                           && run_patches (e_nact c) fmt st (flags_of_N (e_nact c) v) (e_patches c)
            | _, None => false
            end
       | _, _ => false
       end
  end.

Fixpoint emismatches_from (i : nat) (cs : list e2e) : list nat :=
  match cs with
  | [] => []
  | c :: cs' => if check_e2e c then emismatches_from (S i) cs' else i :: emismatches_from (S i) cs'
  end.
Definition emismatches := emismatches_from 0.

(* ---- (3) the explorer side of an Actions cell: the text the real solution builder / ModelCompressor wrote for a
        model with [w_n] actions whose activation flags are [w_set] (bit k = action k) ---- *)
Record wcase := mkW { w_n : nat; w_set : N; w_text : string }.

Definition check_wcase (c : wcase) : bool :=
  (w_set c <? 2 ^ N.of_nat (w_n c))%N
  && match ActionCodec.encoding_of (flags_of_N (w_n c) (w_set c)) with
     | Ok s => String.eqb s (w_text c)
     | Panic => false
     end.

Fixpoint wmismatches_from (i : nat) (cs : list wcase) : list nat :=
  match cs with
  | [] => []
  | c :: cs' => if check_wcase c then wmismatches_from (S i) cs' else i :: wmismatches_from (S i) cs'
  end.
Definition wmismatches := wmismatches_from 0.
