(* Correspondence checker for C13.
   (1) [gcase]: the caster / formatter model (GoCast.v) against crem's real BaseCaster and fmt %v, string by string.
   (2) [e2e]: one summary written by the REAL csv.SummaryMarshaler, posted to the REAL engine Mux; the model
       (SummaryRoundTrip.v) is run on the records the csv reader returns for that text, with the real caster's
       verdict per field, and must reproduce the POST status, every GET /solutions/<label> outcome (in order,
       threading the solution pool) and every PATCH /model {Encoding} -> ParetoFrontMember outcome. *)
From Coq Require Import List String Ascii QArith Qabs ZArith Bool Arith.
From Crem Require Import Base.Res Base.Fl CsvTable GoCast CsvTableCorr SummaryRoundTrip.
Import ListNotations.
Local Open Scope nat_scope.

(* ---- (1) ---- *)
Definition upper_hexcolon (c : ascii) : bool :=
  let n := nat_of_ascii c in
  ((48 <=? n) && (n <=? 57)) || ((65 <=? n) && (n <=? 70)) || (n =? 58).

Definition check_gcase (f : fld) : bool :=
  go_cast_agrees f && go_fmt_agrees f
  (* every string over [0-9A-F:] is inside the modelled domain of go_cast *)
  && (if forallb upper_hexcolon (chars (f_s f))
      then match go_cast (f_s f) with Some _ => true | None => false end else true).

Fixpoint gmismatches_from (i : nat) (cs : list fld) : list nat :=
  match cs with
  | [] => []
  | c :: cs' => if check_gcase c then gmismatches_from (S i) cs' else i :: gmismatches_from (S i) cs'
  end.
Definition gmismatches := gmismatches_from 0.

Definition count_modelled (cs : list fld) : nat :=
  List.length (filter (fun f => match go_cast (f_s f) with Some _ => true | None => false end) cs).

(* ---- (2) ---- *)
Inductive gobs := GNotFound | GAsIs | GDecoded (e s : string) | GPanic | GOther.
Inductive pobs := P400 | PTrue | PFalse | PNone | PPanic | POther.
Inductive postobs := Post200 | Post400 | PostPanic | PostOther.

Record e2e := mkE {
  e_nw : nat;                                     (* words of the scenario's action archive (ArchiveLen) *)
  e_pre : list (list (list fld) * list string);   (* history: summaries posted before, with the labels fetched after each *)
  e_recs : option (list (list fld));
  e_text : string;
  e_asis : list (string * num);
  e_post : postobs;
  e_gets : list (string * gobs);
  e_patches : list (string * option string * pobs) }.

Definition srow_of (r : list string) : srow :=
  match r with
  | [] => mkRow EmptyString [] EmptyString EmptyString
  | l :: rest =>
    let n := List.length rest - 2 in
    mkRow l (firstn n rest) (nth n rest EmptyString) (nth (S n) rest EmptyString)
  end.

Definition gobs_eqb (f : found) (o : gobs) : bool :=
  match f, o with
  | NotFound, GNotFound => true
  | AsIsSolution, GAsIs => true
  | Decoded e s, GDecoded e' s' => String.eqb e e' && String.eqb s s'
  | _, _ => false
  end.

Fixpoint run_gets (fmt : num -> string) (st : state) (gs : list (string * gobs)) : bool :=
  match gs with
  | [] => true
  | (label, o) :: gs' =>
    match get_solution fmt st label, o with
    | Panic, GPanic => run_gets fmt st gs'        (* the real handler recovered by the harness: state unchanged *)
    | Ok (f, st'), _ => gobs_eqb f o && run_gets fmt st' gs'
    | _, _ => false
    end
  end.

Definition recode_of (ps : list (string * option string * pobs)) : string -> option string :=
  fun e => match find (fun p => String.eqb (fst (fst p)) e) ps with Some p => snd (fst p) | None => None end.

Definition pobs_eqb (r : res (option (option bool))) (o : pobs) : bool :=
  match r, o with
  | Panic, PPanic => true
  | Ok None, P400 => true
  | Ok (Some None), PNone => true
  | Ok (Some (Some true)), PTrue => true
  | Ok (Some (Some false)), PFalse => true
  | _, _ => false
  end.

Fixpoint run_labels (fmt : num -> string) (st : state) (ls : list string) : state :=
  match ls with
  | [] => st
  | l :: ls' => match get_solution fmt st l with Ok (_, st') => run_labels fmt st' ls' | Panic => run_labels fmt st ls' end
  end.

Fixpoint run_history (nw : nat) (cast : caster) (fmt : num -> string) (asis : list (string * num)) (st : state)
         (h : list (list (list fld) * list string)) : state :=
  match h with
  | [] => st
  | (recs, ls) :: h' =>
    let st1 := match post_solutions nw cast fmt asis st (CsvRecords (map (map f_s) recs)) with
               | Ok (_, s1) => s1 | Panic => st end in
    run_history nw cast fmt asis (run_labels fmt st1 ls) h'
  end.

Definition check_e2e (c : e2e) : bool :=
  match e_recs c with
  | None => true                                   (* not one record per row: outside the model, reported by the oracle *)
  | Some recs =>
    let fs := List.concat recs ++ List.concat (List.concat (map fst (e_pre c))) in
    let cast := cast_of fs in
    let fmt := fmt_of fs in
    let strs := map (map f_s) recs in
    let hdr := hd [] strs in
    let names := firstn (List.length hdr - 3) (tl hdr) in
    let rows := map srow_of (tl strs) in
    let st0 := run_history (e_nw c) cast fmt (e_asis c) fresh (e_pre c) in
    forallb (fun f => tag_eqb (cast (f_s f)) (f_tag f)) fs
    && forallb go_cast_agrees fs && forallb go_fmt_agrees fs
    (* the marshaller model writes the same text / the same records *)
    && String.eqb (marshal_text names rows) (e_text c)
    && list_eqb (list_eqb String.eqb) (marshal_records names rows) strs
    && match post_solutions (e_nw c) cast fmt (e_asis c) st0 (CsvRecords strs), e_post c with
       | Panic, PostPanic => true
       | Ok (S400, _), Post400 => true
       | Ok (S200, st), Post200 =>
         run_gets fmt st (e_gets c)
         && forallb (fun p => pobs_eqb (pareto_member fmt (recode_of (e_patches c)) st (fst (fst p))) (snd p))
                    (e_patches c)
       | _, _ => false
       end
  end.

Fixpoint emismatches_from (i : nat) (cs : list e2e) : list nat :=
  match cs with
  | [] => []
  | c :: cs' => if check_e2e c then emismatches_from (S i) cs' else i :: emismatches_from (S i) cs'
  end.
Definition emismatches := emismatches_from 0.
