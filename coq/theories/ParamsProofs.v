(* C18 — lemmas about the model of Params.v.  Everything is for an ARBITRARY specification table, user map and
   file-system oracle; the only side conditions are that keys are distinct (a Go map) — boolean [nodupb]. *)
From Coq Require Import List ZArith QArith String Bool Lia.
From Crem Require Import Base.Res Params.
Import ListNotations.
Open Scope string_scope.
Open Scope list_scope.

(* ------------------------------------------------------------------ strings, nodupb *)

Lemma existsb_eqb_In : forall k l, existsb (String.eqb k) l = true <-> In k l.
Proof.
  intros k l. rewrite existsb_exists. split.
  - intros [x [Hin He]]. apply String.eqb_eq in He. subst. exact Hin.
  - intros Hin. exists k. split; [exact Hin | apply String.eqb_refl].
Qed.

Lemma nodupb_NoDup : forall l, nodupb l = true <-> NoDup l.
Proof.
  induction l as [|x l IH]; simpl.
  - split; [constructor | reflexivity].
  - rewrite andb_true_iff, negb_true_iff, IH. split.
    + intros [Hn Hd]. constructor; [|exact Hd].
      intros Hin. apply existsb_eqb_In in Hin. congruence.
    + intros Hnd. inversion Hnd as [|? ? Hnotin Hd]; subst. split; [|exact Hd].
      destruct (existsb (String.eqb x) l) eqn:E; [|reflexivity].
      apply existsb_eqb_In in E. contradiction.
Qed.

Lemma ty_eqb_eq : forall a b, ty_eqb a b = true <-> a = b.
Proof. intros a b; destruct a, b; simpl; split; intros H; try reflexivity; try discriminate. Qed.

Lemma NoDup_map_filter : forall (A B : Type) (f : A -> B) (p : A -> bool) (l : list A),
  NoDup (map f l) -> NoDup (map f (filter p l)).
Proof.
  intros A B f p l. induction l as [|a l IH]; simpl; intros Hnd; [constructor|].
  inversion Hnd as [|? ? Hnotin Hd]; subst.
  destruct (p a); simpl; [|apply IH; exact Hd].
  constructor; [|apply IH; exact Hd].
  intros Hin. apply Hnotin. apply in_map_iff in Hin. destruct Hin as [x [Hfx Hx]].
  apply filter_In in Hx. apply in_map_iff. exists x. tauto.
Qed.

(* ------------------------------------------------------------------ get / set *)

Lemma get_set : forall k k' v m, get k (set k' v m) = if String.eqb k k' then Some v else get k m.
Proof. reflexivity. Qed.

Lemma get_In : forall k v (m : pmap), get k m = Some v -> In (k, v) m.
Proof.
  induction m as [|[k' v'] m IH]; simpl; [discriminate|].
  destruct (String.eqb k k') eqn:E.
  - intros H. inversion H; subst. apply String.eqb_eq in E. subst. left; reflexivity.
  - intros H. right. apply IH. exact H.
Qed.

Lemma get_None_notin : forall k (m : pmap), get k m = None <-> ~ In k (map fst m).
Proof.
  induction m as [|[k' v'] m IH]; simpl.
  - split; [intros _ H; exact H | reflexivity].
  - destruct (String.eqb k k') eqn:E.
    + apply String.eqb_eq in E. subst. split; [discriminate | intros H; exfalso; apply H; left; reflexivity].
    + apply String.eqb_neq in E. rewrite IH. split.
      * intros H [H1|H1]; [apply E; symmetry; exact H1 | exact (H H1)].
      * intros H H1. apply H. right. exact H1.
Qed.

Lemma In_get : forall k v (m : pmap), NoDup (map fst m) -> In (k, v) m -> get k m = Some v.
Proof.
  induction m as [|[k' v'] m IH]; simpl; intros Hnd Hin; [contradiction|].
  inversion Hnd as [|? ? Hnotin Hd]; subst.
  destruct Hin as [Heq|Hin].
  - inversion Heq; subst. rewrite String.eqb_refl. reflexivity.
  - destruct (String.eqb k k') eqn:E.
    + apply String.eqb_eq in E. subst. exfalso. apply Hnotin.
      apply in_map_iff. exists (k', v). split; [reflexivity | exact Hin].
    + apply IH; assumption.
Qed.

(* ------------------------------------------------------------------ lookup / add_spec / table_of *)

Lemma lookup_key : forall k t s, lookup k t = Some s -> skey s = k.
Proof.
  induction t as [|x t IH]; simpl; intros s H; [discriminate|].
  destruct (String.eqb k (skey x)) eqn:E.
  - inversion H; subst. apply String.eqb_eq in E. symmetry. exact E.
  - apply IH. exact H.
Qed.

Lemma lookup_In : forall k t s, lookup k t = Some s -> In s t.
Proof.
  induction t as [|x t IH]; simpl; intros s H; [discriminate|].
  destruct (String.eqb k (skey x)).
  - inversion H; subst. left; reflexivity.
  - right. apply IH. exact H.
Qed.

Lemma lookup_None : forall k t, lookup k t = None <-> ~ In k (keys t).
Proof.
  induction t as [|x t IH]; simpl.
  - split; [intros _ H; exact H | reflexivity].
  - destruct (String.eqb k (skey x)) eqn:E.
    + apply String.eqb_eq in E. subst. split; [discriminate | intros H; exfalso; apply H; left; reflexivity].
    + apply String.eqb_neq in E. rewrite IH. split.
      * intros H [H1|H1]; [apply E; symmetry; exact H1 | exact (H H1)].
      * intros H H1. apply H. right. exact H1.
Qed.

Lemma In_lookup : forall t s, NoDup (keys t) -> In s t -> lookup (skey s) t = Some s.
Proof.
  induction t as [|x t IH]; simpl; intros s Hnd Hin; [contradiction|].
  inversion Hnd as [|? ? Hnotin Hd]; subst.
  destruct Hin as [Heq|Hin].
  - subst. rewrite String.eqb_refl. reflexivity.
  - destruct (String.eqb (skey s) (skey x)) eqn:E.
    + apply String.eqb_eq in E. exfalso. apply Hnotin. rewrite <- E. apply in_map. exact Hin.
    + apply IH; assumption.
Qed.

Lemma keys_add_spec_In : forall s t k, In k (keys (add_spec s t)) <-> k = skey s \/ In k (keys t).
Proof.
  intros s t k. induction t as [|x t IH]; simpl.
  - split; [intros [H|[]]; left; symmetry; exact H | intros [H|[]]; left; symmetry; exact H].
  - destruct (String.eqb (skey s) (skey x)) eqn:E; simpl.
    + apply String.eqb_eq in E. rewrite <- E. split.
      * intros [H|H]; [left; symmetry; exact H | right; right; exact H].
      * intros [H|[H|H]]; [left; symmetry; exact H | left; exact H | right; exact H].
    + rewrite IH. split.
      * intros [H|[H|H]]; [right; left; exact H | left; exact H | right; right; exact H].
      * intros [H|[H|H]]; [right; left; exact H | left; exact H | right; right; exact H].
Qed.

Lemma add_spec_NoDup : forall s t, NoDup (keys t) -> NoDup (keys (add_spec s t)).
Proof.
  intros s t. induction t as [|x t IH]; simpl; intros Hnd.
  - constructor; [intros [] | constructor].
  - inversion Hnd as [|? ? Hnotin Hd]; subst.
    destruct (String.eqb (skey s) (skey x)) eqn:E; simpl.
    + apply String.eqb_eq in E. rewrite E. constructor; assumption.
    + apply String.eqb_neq in E. constructor; [|apply IH; exact Hd].
      intros Hin. apply keys_add_spec_In in Hin. destruct Hin as [H|H]; [apply E; symmetry; exact H | exact (Hnotin H)].
Qed.

Lemma table_of_NoDup : forall l, NoDup (keys (table_of l)).
Proof.
  intros l. unfold table_of.
  assert (G : forall acc, NoDup (keys acc) -> NoDup (keys (fold_left (fun t s => add_spec s t) l acc))).
  { induction l as [|s l IH]; simpl; intros acc H; [exact H|]. apply IH. apply add_spec_NoDup. exact H. }
  apply G. constructor.
Qed.

Lemma table_of_nodupb : forall l, nodupb (keys (table_of l)) = true.
Proof. intros l. apply nodupb_NoDup. apply table_of_NoDup. Qed.

(* ------------------------------------------------------------------ validators *)

Lemma validate_typed : forall fs k v, validate fs k v = true -> type_of_value v = type_of k.
Proof. intros fs k v. destruct k, v; simpl; intros H; try discriminate; reflexivity. Qed.

Lemma type_of_not_none : forall k, type_of k <> TNone.
Proof. intros k; destruct k; simpl; discriminate. Qed.

(* the file-system oracle only matters for IsReadableFile, and only ever makes a validator stricter *)
Lemma validate_fs_yes : forall fs k v, validate fs k v = true -> validate fs_yes k v = true.
Proof. intros fs k v. destruct k, v; simpl; intros H; try discriminate; try exact H; reflexivity. Qed.

Lemma validate_decimal_bounds : forall fs lo hi v, validate fs (KDecimalBetween lo hi) v = true ->
  v = VFloatNaN \/ exists q, v = VFloat q /\ (lo <= q)%Q /\ (q <= hi)%Q.
Proof.
  intros fs lo hi v. destruct v; simpl; intros H; try discriminate.
  - right. exists q. apply andb_true_iff in H. destruct H as [H1 H2].
    split; [reflexivity|]. split; apply Qle_bool_iff; assumption.
  - left; reflexivity.
Qed.

Lemma validate_integer_bounds : forall fs lo hi v, validate fs (KIntegerBetween lo hi) v = true ->
  exists z, v = VInt z /\ (lo <= z <= hi)%Z.
Proof.
  intros fs lo hi v. destruct v; simpl; intros H; try discriminate.
  exists z. apply andb_true_iff in H. destruct H as [H1 H2].
  apply Z.leb_le in H1. apply Z.leb_le in H2. split; [reflexivity | lia].
Qed.

Lemma validate_one_of : forall fs l v, validate fs (KOneOf l) v = true -> exists s, v = VString s /\ In s l.
Proof.
  intros fs l v. destruct v; simpl; intros H; try discriminate.
  exists s. split; [reflexivity|]. apply existsb_eqb_In. exact H.
Qed.

Lemma validate_readable_file : forall fs v, validate fs KReadableFile v = true -> exists s, v = VString s /\ fs s = true.
Proof. intros fs v. destruct v; simpl; intros H; try discriminate. exists s. split; [reflexivity | exact H]. Qed.

(* ------------------------------------------------------------------ CreatingDefaults *)

Definition dflt (s : spec) : option value := if soptional s then None else Some (sdefault s).

Lemma defaults_fold_get : forall t m0 k, NoDup (keys t) ->
  get k (fold_left (fun m s => if soptional s then m else set (skey s) (sdefault s) m) t m0)
  = match lookup k t with
    | Some s => if soptional s then get k m0 else Some (sdefault s)
    | None => get k m0
    end.
Proof.
  induction t as [|s t IH]; intros m0 k Hnd; simpl; [reflexivity|].
  inversion Hnd as [|? ? Hnotin Hd]; subst.
  rewrite IH by exact Hd.
  destruct (String.eqb k (skey s)) eqn:E.
  - apply String.eqb_eq in E. subst k.
    assert (Hl : lookup (skey s) t = None) by (apply lookup_None; exact Hnotin).
    rewrite Hl. destruct (soptional s); simpl; [reflexivity|]. rewrite String.eqb_refl. reflexivity.
  - assert (Hs : get k (if soptional s then m0 else set (skey s) (sdefault s) m0) = get k m0).
    { destruct (soptional s); simpl; [reflexivity|]. rewrite E. reflexivity. }
    rewrite Hs. reflexivity.
Qed.

Lemma creating_defaults_get : forall t k, NoDup (keys t) ->
  get k (creating_defaults t) = match lookup k t with Some s => dflt s | None => None end.
Proof.
  intros t k Hnd. unfold creating_defaults. rewrite defaults_fold_get by exact Hnd.
  simpl. unfold dflt. destruct (lookup k t) as [s|]; [destruct (soptional s)|]; reflexivity.
Qed.

(* ------------------------------------------------------------------ AssignAllUserValues *)

Definition invalid_entry (fs : string -> bool) (t : table) (kv : string * value) : bool :=
  negb (validate_param fs t (fst kv) (snd kv)).

Lemma assign_all_errs : forall fs t user st,
  snd (assign_all fs t user st)
  = rev (map (fun kv => error_of t (fst kv)) (filter (invalid_entry fs t) user)) ++ snd st.
Proof.
  intros fs t user. unfold assign_all.
  induction user as [|kv user IH]; intros st; simpl; [reflexivity|].
  rewrite IH. unfold assign_one, invalid_entry.
  destruct (validate_param fs t (fst kv) (snd kv)); simpl; [reflexivity|].
  rewrite <- app_assoc. reflexivity.
Qed.

Lemma assign_one_get_other : forall fs t st kv k, String.eqb k (fst kv) = false ->
  get k (fst (assign_one fs t st kv)) = get k (fst st).
Proof.
  intros fs t st kv k E. unfold assign_one.
  destruct (validate_param fs t (fst kv) (snd kv)); simpl; [rewrite E|]; reflexivity.
Qed.

Lemma assign_all_get : forall fs t user st k, NoDup (map fst user) ->
  get k (fst (assign_all fs t user st))
  = match get k user with
    | Some v => if validate_param fs t k v then Some v else get k (fst st)
    | None => get k (fst st)
    end.
Proof.
  intros fs t user. unfold assign_all.
  induction user as [|[k' v'] user IH]; intros st k Hnd; simpl; [reflexivity|].
  inversion Hnd as [|? ? Hnotin Hd]; subst.
  rewrite IH by exact Hd.
  destruct (String.eqb k k') eqn:E.
  - apply String.eqb_eq in E. subst k.
    assert (Hg : get k' user = None) by (apply get_None_notin; exact Hnotin).
    rewrite Hg. unfold assign_one; simpl.
    destruct (validate_param fs t k' v'); simpl; [rewrite String.eqb_refl|]; reflexivity.
  - rewrite (assign_one_get_other fs t st (k', v') k E). reflexivity.
Qed.

(* ------------------------------------------------------------------ AssignOnlyEnforcedUserValues *)

Definition enf_step (fs : string -> bool) (t : table) (user : pmap) (st : pstate) (s : spec) : pstate :=
  match get (skey s) user with
  | Some v => assign_one fs t st (skey s, v)
  | None => st
  end.

Lemma assign_enforced_unfold : forall fs t user st,
  assign_enforced fs t user st = fold_left (enf_step fs t user) t st.
Proof. reflexivity. Qed.

Definition enf_invalid (fs : string -> bool) (user : pmap) (s : spec) : bool :=
  match get (skey s) user with
  | Some v => negb (validate fs (svalidator s) v)
  | None => false
  end.

Lemma enforced_fold_get : forall fs t user l st k,
  NoDup (keys l) -> (forall s, In s l -> lookup (skey s) t = Some s) ->
  get k (fst (fold_left (enf_step fs t user) l st))
  = match lookup k l with
    | Some s => match get k user with
                | Some v => if validate fs (svalidator s) v then Some v else get k (fst st)
                | None => get k (fst st)
                end
    | None => get k (fst st)
    end.
Proof.
  intros fs t user. induction l as [|s l IH]; intros st k Hnd Hsub; simpl; [reflexivity|].
  inversion Hnd as [|? ? Hnotin Hd]; subst.
  rewrite IH; [|exact Hd | intros s' Hs'; apply Hsub; right; exact Hs'].
  destruct (String.eqb k (skey s)) eqn:E.
  - apply String.eqb_eq in E. subst k.
    assert (Hl : lookup (skey s) l = None) by (apply lookup_None; exact Hnotin).
    rewrite Hl. unfold enf_step.
    destruct (get (skey s) user) as [v|]; [|reflexivity].
    unfold assign_one, validate_param; simpl.
    rewrite (Hsub s (or_introl eq_refl)).
    destruct (validate fs (svalidator s) v); simpl; [rewrite String.eqb_refl|]; reflexivity.
  - assert (Hstep : get k (fst (enf_step fs t user st s)) = get k (fst st)).
    { unfold enf_step. destruct (get (skey s) user) as [v|]; [|reflexivity].
      apply assign_one_get_other. simpl. exact E. }
    rewrite Hstep. reflexivity.
Qed.

Lemma enforced_fold_errs : forall fs t user l st,
  (forall s, In s l -> lookup (skey s) t = Some s) ->
  snd (fold_left (enf_step fs t user) l st)
  = rev (map (fun s => (skey s, Rejected)) (filter (enf_invalid fs user) l)) ++ snd st.
Proof.
  intros fs t user. induction l as [|s l IH]; intros st Hsub; simpl; [reflexivity|].
  rewrite IH by (intros s' Hs'; apply Hsub; right; exact Hs').
  unfold enf_step, enf_invalid.
  destruct (get (skey s) user) as [v|]; [|reflexivity].
  unfold assign_one, validate_param, error_of; simpl.
  rewrite (Hsub s (or_introl eq_refl)).
  destruct (validate fs (svalidator s) v); simpl; [reflexivity|].
  rewrite <- app_assoc. reflexivity.
Qed.

(* ------------------------------------------------------------------ the assignment, pointwise *)

Theorem assign_get_specified : forall fs vr t user k s,
  NoDup (keys t) -> NoDup (map fst user) -> lookup k t = Some s ->
  get k (fst (assign fs vr t user))
  = match get k user with
    | Some v => if validate fs (svalidator s) v then Some v else dflt s
    | None => dflt s
    end.
Proof.
  intros fs vr t user k s Ht Hu Hl. destruct vr; simpl.
  - rewrite assign_all_get by exact Hu. simpl.
    rewrite creating_defaults_get by exact Ht. rewrite Hl.
    unfold validate_param. rewrite Hl. reflexivity.
  - rewrite assign_enforced_unfold.
    rewrite enforced_fold_get; [|exact Ht | intros s' Hs'; apply In_lookup; assumption].
    rewrite Hl. simpl. rewrite creating_defaults_get by exact Ht. rewrite Hl. reflexivity.
Qed.

Theorem assign_get_unspecified : forall fs vr t user k,
  NoDup (keys t) -> NoDup (map fst user) -> lookup k t = None ->
  get k (fst (assign fs vr t user)) = None.
Proof.
  intros fs vr t user k Ht Hu Hl. destruct vr; simpl.
  - rewrite assign_all_get by exact Hu. simpl.
    rewrite creating_defaults_get by exact Ht. rewrite Hl.
    unfold validate_param. rewrite Hl. destruct (get k user); reflexivity.
  - rewrite assign_enforced_unfold.
    rewrite enforced_fold_get; [|exact Ht | intros s' Hs'; apply In_lookup; assumption].
    rewrite Hl. simpl. rewrite creating_defaults_get by exact Ht. rewrite Hl. reflexivity.
Qed.

Lemma fst_error_of : forall t k, fst (error_of t k) = k.
Proof. intros t k. unfold error_of. destruct (lookup k t); reflexivity. Qed.

Lemma reported_iff : forall k errs, reported k errs = true <-> In k (map fst errs).
Proof.
  intros k errs. unfold reported. rewrite existsb_exists. split.
  - intros [e [Hin He]]. apply String.eqb_eq in He. subst. apply in_map. exact Hin.
  - intros Hin. apply in_map_iff in Hin. destruct Hin as [e [He Hin]].
    exists e. split; [exact Hin|]. rewrite He. apply String.eqb_refl.
Qed.

(* exactly the invalid entries are reported; entries outside the specification only by the assign-all variant *)
Theorem assign_reported : forall fs vr t user k,
  NoDup (keys t) -> NoDup (map fst user) ->
  (reported k (snd (assign fs vr t user)) = true <->
   exists v, get k user = Some v /\ validate_param fs t k v = false
             /\ (vr = AssignAll \/ lookup k t <> None)).
Proof.
  intros fs vr t user k Ht Hu. rewrite reported_iff. destruct vr; simpl.
  - rewrite assign_all_errs. simpl. rewrite app_nil_r. rewrite map_rev, <- in_rev, map_map.
    rewrite in_map_iff. split.
    + intros [[k' v'] [Hk Hin]]. rewrite fst_error_of in Hk. simpl in Hk. subst k'.
      apply filter_In in Hin. destruct Hin as [Hin Hinv].
      exists v'. split; [apply In_get; assumption|].
      unfold invalid_entry in Hinv. simpl in Hinv. apply negb_true_iff in Hinv.
      split; [exact Hinv | left; reflexivity].
    + intros [v [Hg [Hv _]]]. exists (k, v). split; [apply fst_error_of|].
      apply filter_In. split; [apply get_In; exact Hg|].
      unfold invalid_entry. simpl. rewrite Hv. reflexivity.
  - rewrite assign_enforced_unfold.
    rewrite enforced_fold_errs by (intros s' Hs'; apply In_lookup; assumption).
    simpl. rewrite app_nil_r. rewrite map_rev, <- in_rev, map_map. simpl.
    rewrite in_map_iff. split.
    + intros [s [Hk Hin]]. subst k. apply filter_In in Hin. destruct Hin as [Hin Hinv].
      unfold enf_invalid in Hinv. destruct (get (skey s) user) as [v|] eqn:Hg; [|discriminate].
      apply negb_true_iff in Hinv. exists v. split; [reflexivity|].
      assert (Hl : lookup (skey s) t = Some s) by (apply In_lookup; assumption).
      unfold validate_param. rewrite Hl. split; [exact Hinv|]. right. discriminate.
    + intros [v [Hg [Hv [Hvr|Hl]]]]; [discriminate|].
      destruct (lookup k t) as [s|] eqn:Hls; [|contradiction].
      exists s. split; [apply (lookup_key k t s Hls)|].
      apply filter_In. split; [apply (lookup_In k t s Hls)|].
      unfold enf_invalid. rewrite (lookup_key k t s Hls). rewrite Hg.
      unfold validate_param in Hv. rewrite Hls in Hv. rewrite Hv. reflexivity.
Qed.

(* no key is reported twice *)
Theorem assign_errors_nodup : forall fs vr t user,
  NoDup (keys t) -> NoDup (map fst user) -> NoDup (map fst (snd (assign fs vr t user))).
Proof.
  intros fs vr t user Ht Hu. destruct vr; simpl.
  - rewrite assign_all_errs. simpl. rewrite app_nil_r. rewrite map_rev. apply NoDup_rev.
    rewrite map_map.
    rewrite (map_ext (fun kv => fst (error_of t (fst kv))) fst) by (intros a; apply fst_error_of).
    apply NoDup_map_filter. exact Hu.
  - rewrite assign_enforced_unfold.
    rewrite enforced_fold_errs by (intros s' Hs'; apply In_lookup; assumption).
    simpl. rewrite app_nil_r. rewrite map_rev. apply NoDup_rev. rewrite map_map. simpl.
    apply (NoDup_map_filter spec string skey). exact Ht.
Qed.

Theorem assign_all_error_count : forall fs t user,
  List.length (snd (assign fs AssignAll t user)) = List.length (filter (invalid_entry fs t) user).
Proof.
  intros fs t user. simpl. rewrite assign_all_errs. simpl. rewrite app_nil_r.
  rewrite rev_length, map_length. reflexivity.
Qed.

(* ------------------------------------------------------------------ the property, clause by clause *)

Section Soundness.
  Variable fs : string -> bool.
  Variable vr : variant.
  Variable t : table.
  Variable user : pmap.
  Hypothesis Ht : nodupb (keys t) = true.
  Hypothesis Hu : nodupb (map fst user) = true.

  Let Ht' : NoDup (keys t) := proj1 (nodupb_NoDup _) Ht.
  Let Hu' : NoDup (map fst user) := proj1 (nodupb_NoDup _) Hu.

  Definition final : pstate := assign fs vr t user.

  (* where the stored value of a specified key comes from *)
  Lemma stored_origin : forall k s v, lookup k t = Some s -> get k (fst final) = Some v ->
    (get k user = Some v /\ validate fs (svalidator s) v = true)
    \/ (soptional s = false /\ v = sdefault s
        /\ (get k user = None \/ exists u, get k user = Some u /\ validate fs (svalidator s) u = false)).
  Proof.
    intros k s v Hl Hg. unfold final in Hg.
    rewrite (assign_get_specified fs vr t user k s Ht' Hu' Hl) in Hg.
    destruct (get k user) as [u|] eqn:Hgu.
    - destruct (validate fs (svalidator s) u) eqn:Hv.
      + inversion Hg; subst. left. split; [reflexivity | exact Hv].
      + unfold dflt in Hg. destruct (soptional s) eqn:Ho; [discriminate|]. inversion Hg; subst.
        right. split; [reflexivity|]. split; [reflexivity|]. right. exists u. split; [reflexivity | exact Hv].
    - unfold dflt in Hg. destruct (soptional s) eqn:Ho; [discriminate|]. inversion Hg; subst.
      right. split; [reflexivity|]. split; [reflexivity|]. left. reflexivity.
  Qed.

  Lemma nonoptional_present : forall k s, lookup k t = Some s -> soptional s = false ->
    exists v, get k (fst final) = Some v.
  Proof.
    intros k s Hl Ho. unfold final.
    rewrite (assign_get_specified fs vr t user k s Ht' Hu' Hl). unfold dflt. rewrite Ho.
    destruct (get k user) as [u|]; [destruct (validate fs (svalidator s) u)|]; eexists; reflexivity.
  Qed.

  Lemma stored_typed : forall k s v, lookup k t = Some s -> default_typed s = true ->
    get k (fst final) = Some v -> type_of_value v = type_of (svalidator s).
  Proof.
    intros k s v Hl Hd Hg. destruct (stored_origin k s v Hl Hg) as [[_ Hv]|[Ho [Hv _]]].
    - apply (validate_typed fs). exact Hv.
    - unfold default_typed in Hd. rewrite Ho in Hd. simpl in Hd. subst v. apply ty_eqb_eq. exact Hd.
  Qed.

  Lemma stored_in_range : forall k s v, lookup k t = Some s ->
    (soptional s = false -> validate fs (svalidator s) (sdefault s) = true) ->
    get k (fst final) = Some v -> validate fs (svalidator s) v = true.
  Proof.
    intros k s v Hl Hd Hg. destruct (stored_origin k s v Hl Hg) as [[_ Hv]|[Ho [Hv _]]].
    - exact Hv.
    - subst v. apply Hd. exact Ho.
  Qed.

  Lemma valid_replaces : forall k s v, lookup k t = Some s -> get k user = Some v ->
    validate fs (svalidator s) v = true ->
    get k (fst final) = Some v /\ reported k (snd final) = false.
  Proof.
    intros k s v Hl Hg Hv. unfold final. split.
    - rewrite (assign_get_specified fs vr t user k s Ht' Hu' Hl). rewrite Hg, Hv. reflexivity.
    - destruct (reported k (snd (assign fs vr t user))) eqn:R; [|reflexivity].
      apply (assign_reported fs vr t user k Ht' Hu') in R.
      destruct R as [u [Hgu [Hvu _]]]. rewrite Hg in Hgu. inversion Hgu; subst.
      unfold validate_param in Hvu. rewrite Hl in Hvu. congruence.
  Qed.

  Lemma invalid_keeps_default : forall k s v, lookup k t = Some s -> get k user = Some v ->
    validate fs (svalidator s) v = false ->
    get k (fst final) = dflt s /\ reported k (snd final) = true.
  Proof.
    intros k s v Hl Hg Hv. unfold final. split.
    - rewrite (assign_get_specified fs vr t user k s Ht' Hu' Hl). rewrite Hg, Hv. reflexivity.
    - apply (assign_reported fs vr t user k Ht' Hu'). exists v. split; [exact Hg|].
      unfold validate_param. rewrite Hl. split; [exact Hv|]. right. discriminate.
  Qed.

  Lemma not_supplied_keeps_default : forall k s, lookup k t = Some s -> get k user = None ->
    get k (fst final) = dflt s /\ reported k (snd final) = false.
  Proof.
    intros k s Hl Hg. unfold final. split.
    - rewrite (assign_get_specified fs vr t user k s Ht' Hu' Hl). rewrite Hg. reflexivity.
    - destruct (reported k (snd (assign fs vr t user))) eqn:R; [|reflexivity].
      apply (assign_reported fs vr t user k Ht' Hu') in R.
      destruct R as [u [Hgu _]]. congruence.
  Qed.

  Lemma unspecified_never_stored : forall k, lookup k t = None -> get k (fst final) = None.
  Proof. intros k Hl. apply (assign_get_unspecified fs vr t user k Ht' Hu' Hl). Qed.

  Lemma unspecified_reported_iff : forall k v, lookup k t = None -> get k user = Some v ->
    (reported k (snd final) = true <-> vr = AssignAll).
  Proof.
    intros k v Hl Hg. unfold final. rewrite (assign_reported fs vr t user k Ht' Hu'). split.
    - intros [u [_ [_ [H|H]]]]; [exact H | contradiction].
    - intros H. exists v. split; [exact Hg|]. unfold validate_param. rewrite Hl.
      split; [reflexivity | left; exact H].
  Qed.

  Lemma no_errors_all_user_values_used : snd final = [] ->
    forall k v, get k user = Some v ->
      (exists s, lookup k t = Some s /\ validate fs (svalidator s) v = true /\ get k (fst final) = Some v)
      \/ (lookup k t = None /\ vr = AssignEnforced).
  Proof.
    intros Hnil k v Hg.
    assert (R : reported k (snd final) = false) by (rewrite Hnil; reflexivity).
    destruct (lookup k t) as [s|] eqn:Hl.
    - left. exists s. split; [reflexivity|].
      destruct (validate fs (svalidator s) v) eqn:Hv.
      + split; [reflexivity|]. apply (valid_replaces k s v Hl Hg Hv).
      + destruct (invalid_keeps_default k s v Hl Hg Hv) as [_ R']. congruence.
    - right. split; [reflexivity|]. destruct vr eqn:Hvr; [|reflexivity].
      assert (R' : reported k (snd final) = true) by (apply (unspecified_reported_iff k v Hl Hg); exact Hvr).
      congruence.
  Qed.
End Soundness.

(* ------------------------------------------------------------------ composition with the generated tables *)

Lemma component_ok_parts : forall c, component_ok c = true ->
  forallb default_ok (ctable c) = true /\ forallb (site_ok (ctable c)) (csites c) = true
  /\ model_reports_unknown c = true.
Proof.
  intros c H. unfold component_ok in H.
  apply andb_true_iff in H. destruct H as [H H3].
  apply andb_true_iff in H. destruct H as [H1 H2]. auto.
Qed.

Theorem component_ok_no_getter_panic : forall c, component_ok c = true ->
  forall fs user st, nodupb (map fst user) = true -> In st (csites c) ->
    let m := fst (assign fs (cvariant c) (ctable c) user) in
    (site_guarded st = false \/ has_entry (site_key st) m = true) ->
    exists v, getter (site_ty st) (site_key st) m = Ok v /\ type_of_value v = site_ty st.
Proof.
  intros c Hok fs user st Hu Hin m Hguard.
  destruct (component_ok_parts c Hok) as [Hd [Hs _]].
  assert (Ht : nodupb (keys (ctable c)) = true) by apply table_of_nodupb.
  pose proof (proj1 (forallb_forall _ _) Hs st Hin) as Hsite.
  unfold site_ok in Hsite.
  destruct (lookup (site_key st) (ctable c)) as [s|] eqn:Hl; [|discriminate].
  apply andb_true_iff in Hsite. destruct Hsite as [Hty Hopt].
  apply ty_eqb_eq in Hty.
  pose proof (proj1 (forallb_forall _ _) Hd s (lookup_In _ _ _ Hl)) as Hdef.
  assert (Hdt : default_typed s = true).
  { unfold default_ok in Hdef. unfold default_typed.
    destruct (soptional s); simpl in *; [reflexivity|].
    apply ty_eqb_eq. apply (validate_typed fs_yes). exact Hdef. }
  assert (Hex : exists v, get (site_key st) m = Some v).
  { destruct (soptional s) eqn:Ho.
    - simpl in Hopt. destruct Hguard as [Hg|Hg]; [congruence|].
      unfold has_entry in Hg. destruct (get (site_key st) m) as [v|]; [exists v; reflexivity | discriminate].
    - apply (nonoptional_present fs (cvariant c) (ctable c) user Ht Hu (site_key st) s Hl Ho). }
  destruct Hex as [v Hv]. exists v.
  pose proof (stored_typed fs (cvariant c) (ctable c) user Ht Hu (site_key st) s v Hl Hdt Hv) as Htyv.
  unfold getter. fold m. rewrite Hv. rewrite Htyv, Hty.
  assert (E1 : ty_eqb (type_of (svalidator s)) (type_of (svalidator s)) = true) by (apply ty_eqb_eq; reflexivity).
  rewrite E1.
  assert (E2 : ty_eqb (type_of (svalidator s)) TNone = false).
  { destruct (ty_eqb (type_of (svalidator s)) TNone) eqn:E; [|reflexivity].
    apply ty_eqb_eq in E. exfalso. exact (type_of_not_none _ E). }
  rewrite E2. simpl. split; reflexivity.
Qed.

Theorem component_ok_model_reports_unknown : forall c, component_ok c = true -> ckind_of c = CModel ->
  forall fs user k v, nodupb (map fst user) = true -> get k user = Some v -> lookup k (ctable c) = None ->
    reported k (snd (assign fs (cvariant c) (ctable c) user)) = true.
Proof.
  intros c Hok Hk fs user k v Hu Hg Hl.
  destruct (component_ok_parts c Hok) as [_ [_ Hm]].
  unfold model_reports_unknown in Hm. rewrite Hk in Hm.
  assert (Hv : cvariant c = AssignAll) by (destruct (cvariant c); [reflexivity | discriminate]).
  assert (Ht : nodupb (keys (ctable c)) = true) by apply table_of_nodupb.
  apply (unspecified_reported_iff fs (cvariant c) (ctable c) user Ht Hu k v Hl Hg). exact Hv.
Qed.

(* ------------------------------------------------------------------ iteration order of the Go maps is irrelevant *)

Lemma get_perm : forall (m m' : pmap) k, NoDup (map fst m) -> NoDup (map fst m') ->
  (forall kv, In kv m <-> In kv m') -> get k m = get k m'.
Proof.
  intros m m' k Hm Hm' Hiff.
  destruct (get k m) as [v|] eqn:G.
  - symmetry. apply In_get; [exact Hm'|]. apply Hiff. apply get_In. exact G.
  - destruct (get k m') as [v'|] eqn:G'; [|reflexivity].
    apply get_In in G'. apply Hiff in G'. apply (In_get k v' m Hm) in G'. congruence.
Qed.

Theorem assign_order_independent : forall fs vr t user user',
  nodupb (keys t) = true -> nodupb (map fst user) = true -> nodupb (map fst user') = true ->
  (forall kv, In kv user <-> In kv user') ->
  forall k, get k (fst (assign fs vr t user)) = get k (fst (assign fs vr t user'))
         /\ reported k (snd (assign fs vr t user)) = reported k (snd (assign fs vr t user')).
Proof.
  intros fs vr t user user' Ht Hu Hu' Hiff k.
  apply nodupb_NoDup in Ht. apply nodupb_NoDup in Hu. apply nodupb_NoDup in Hu'.
  assert (Hg : get k user = get k user') by (apply get_perm; assumption).
  split.
  - destruct (lookup k t) as [s|] eqn:Hl.
    + rewrite (assign_get_specified fs vr t user k s Ht Hu Hl).
      rewrite (assign_get_specified fs vr t user' k s Ht Hu' Hl). rewrite Hg. reflexivity.
    + rewrite (assign_get_unspecified fs vr t user k Ht Hu Hl).
      rewrite (assign_get_unspecified fs vr t user' k Ht Hu' Hl). reflexivity.
  - destruct (reported k (snd (assign fs vr t user))) eqn:R;
    destruct (reported k (snd (assign fs vr t user'))) eqn:R'; try reflexivity.
    + apply (assign_reported fs vr t user k Ht Hu) in R. rewrite Hg in R.
      apply (assign_reported fs vr t user' k Ht Hu') in R. congruence.
    + apply (assign_reported fs vr t user' k Ht Hu') in R'. rewrite <- Hg in R'.
      apply (assign_reported fs vr t user k Ht Hu) in R'. congruence.
Qed.
