(* C02 (extension) — lemmas about DumbModels.v: the transaction clauses for dumb.Model and modumb.Model,
   for EVERY world (dumb) / every well-formed world (modumb; preserved by every operation, so: after
   every history of operations with any picks). *)
From Coq Require Import List ZArith QArith Bool Arith Lia.
From Crem Require Import Base.Res Base.Fl DumbModels.
Import ListNotations.
Open Scope Z_scope.

(* ---------- upd_nth ---------- *)
Lemma upd_nth_length {A} (l : list A) i x : length (upd_nth l i x) = length l.
Proof. revert i. induction l as [|a l IH]; intros [|i]; simpl; auto. Qed.

Lemma nth_error_upd_nth_eq {A} (l : list A) i x : (i < length l)%nat -> nth_error (upd_nth l i x) i = Some x.
Proof.
  revert i. induction l as [|a l IH]; intros [|i] Hi; simpl in *; try lia; auto.
  apply IH. lia.
Qed.

Lemma nth_error_upd_nth_neq {A} (l : list A) i j x : i <> j -> nth_error (upd_nth l i x) j = nth_error l j.
Proof.
  revert i j. induction l as [|a l IH]; intros [|i] [|j] Hij; simpl; auto; try congruence.
Qed.

Lemma nth_error_upd_nth {A} (l : list A) i j x :
  nth_error (upd_nth l i x) j = if Nat.eqb i j then (if Nat.ltb i (length l) then Some x else None) else nth_error l j.
Proof.
  destruct (Nat.eqb_spec i j) as [->|Hne].
  - destruct (Nat.ltb_spec j (length l)) as [Hlt|Hge].
    + apply nth_error_upd_nth_eq; auto.
    + apply nth_error_None. rewrite upd_nth_length. auto.
  - apply nth_error_upd_nth_neq; auto.
Qed.

Lemma nth_upd_nth_eq {A} (l : list A) i x d : (i < length l)%nat -> nth i (upd_nth l i x) d = x.
Proof.
  revert i. induction l as [|a l IH]; intros [|i] Hi; simpl in *; try lia; auto.
  apply IH. lia.
Qed.

Lemma nth_upd_nth_neq {A} (l : list A) i j x d : i <> j -> nth j (upd_nth l i x) d = nth j l d.
Proof.
  revert i j. induction l as [|a l IH]; intros [|i] [|j] Hij; simpl; auto; try congruence.
Qed.

Lemma upd_nth_same {A} (l : list A) i d : upd_nth l i (nth i l d) = l.
Proof.
  revert i. induction l as [|a l IH]; intros [|i]; simpl; auto. f_equal. apply IH.
Qed.

Lemma upd_nth_twice {A} (l : list A) i x y : upd_nth (upd_nth l i x) i y = upd_nth l i y.
Proof.
  revert i. induction l as [|a l IH]; intros [|i]; simpl; auto. f_equal. apply IH.
Qed.

Lemma nth_error_Some_lt {A} (l : list A) i x : nth_error l i = Some x -> (i < length l)%nat.
Proof. intro H. apply nth_error_Some. congruence. Qed.

(* =====================================================================================
   PART 1: dumb.Model
   ===================================================================================== *)

(* ---- one struct, EVERY state (whatever its parameters, its value, its command) ---- *)

Lemma d_try_keeps_value up s : d_value (d_try up s) = d_value s.
Proof. reflexivity. Qed.

Lemma d_try_reports up s :
  d_change (d_try up s) = d_change_of up /\ d_undoable (d_try up s) = d_value s + d_change_of up.
Proof. unfold d_change, d_undoable, d_value, d_try; simpl. split; lia. Qed.

Lemma d_revert_try up s : d_value (d_revert (d_try up s)) = d_value s.
Proof. reflexivity. Qed.

Lemma d_accept_try up s : d_value (d_accept (d_try up s)) = d_value s + d_change (d_try up s).
Proof. unfold d_value, d_change, d_accept, d_try; simpl. lia. Qed.

Lemma d_accept_keeps_report up s : d_change (d_accept (d_try up s)) = d_change (d_try up s).
Proof. reflexivity. Qed.

Lemma d_undo_accept_try up s : d_value (d_undo (d_accept (d_try up s))) = d_value s.
Proof. reflexivity. Qed.

Lemma d_accept_idem up s : d_accept (d_accept (d_try up s)) = d_accept (d_try up s).
Proof. reflexivity. Qed.

Lemma d_do_moves up s : d_value (d_do up s) = d_value s + d_change_of up.
Proof. unfold d_do. rewrite d_accept_try. destruct (d_try_reports up s) as [-> _]. reflexivity. Qed.

(* the range parameters: [d_try], [d_accept], [d_revert], [d_clone] do not even take them *)

(* ---- worlds: the same clauses addressed to a handle ---- *)
Definition dw_change (w : dworld) (h : nat) : option Z := option_map d_change (nth_error (dw_models w) h).

Lemma dw_step_model w h o s :
  nth_error (dw_models w) h = Some s ->
  match o with
  | DTry up => nth_error (dw_models (dw_step w h o)) h = Some (d_try up s)
  | DAccept => nth_error (dw_models (dw_step w h o)) h = Some (d_accept s)
  | DRevert => nth_error (dw_models (dw_step w h o)) h = Some (d_revert s)
  | DUndo => nth_error (dw_models (dw_step w h o)) h = Some (d_undo s)
  | DDo up => nth_error (dw_models (dw_step w h o)) h = Some (d_do up s)
  | _ => True
  end.
Proof.
  intro Hs. pose proof (nth_error_Some_lt _ _ _ Hs) as Hlt.
  destruct o; auto; unfold dw_step; rewrite Hs; simpl; apply nth_error_upd_nth_eq; auto.
Qed.

Lemma dw_propose_keeps_value w h up v :
  dw_value w h = Some v -> dw_value (dw_step w h (DTry up)) h = Some v.
Proof.
  unfold dw_value. destruct (nth_error (dw_models w) h) as [s|] eqn:Hs; simpl; intro H; [|discriminate].
  rewrite (dw_step_model w h (DTry up) s Hs). simpl. exact H.
Qed.

Lemma dw_revert_exact w h up v :
  dw_value w h = Some v -> dw_value (dw_step (dw_step w h (DTry up)) h DRevert) h = Some v.
Proof.
  unfold dw_value. destruct (nth_error (dw_models w) h) as [s|] eqn:Hs; simpl; intro H; [|discriminate].
  pose proof (dw_step_model w h (DTry up) s Hs) as H1. simpl in H1.
  rewrite (dw_step_model _ h DRevert _ H1). simpl. exact H.
Qed.

Lemma dw_accept_realises w h up v :
  dw_value w h = Some v ->
  exists c, dw_change (dw_step w h (DTry up)) h = Some c /\ (c = 1000 \/ c = -1000) /\
            dw_value (dw_step (dw_step w h (DTry up)) h DAccept) h = Some (v + c).
Proof.
  unfold dw_value, dw_change. destruct (nth_error (dw_models w) h) as [s|] eqn:Hs; simpl; intro H; [|discriminate].
  pose proof (dw_step_model w h (DTry up) s Hs) as H1. simpl in H1.
  exists (d_change (d_try up s)). rewrite H1. simpl. split; [reflexivity|]. split.
  - destruct (d_try_reports up s) as [-> _]. destruct up; simpl; auto.
  - rewrite (dw_step_model _ h DAccept _ H1). cbn [option_map]. rewrite d_accept_try. injection H as <-. reflexivity.
Qed.

Lemma dw_undo_exact w h up v :
  dw_value w h = Some v ->
  dw_value (dw_step (dw_step (dw_step w h (DTry up)) h DAccept) h DUndo) h = Some v.
Proof.
  unfold dw_value. destruct (nth_error (dw_models w) h) as [s|] eqn:Hs; simpl; intro H; [|discriminate].
  pose proof (dw_step_model w h (DTry up) s Hs) as H1. simpl in H1.
  pose proof (dw_step_model _ h DAccept _ H1) as H2. simpl in H2.
  rewrite (dw_step_model _ h DUndo _ H2). simpl. exact H.
Qed.

(* an operation on one handle leaves every other existing handle alone (DeepClone after fix 9c2ce7a) *)
Lemma dw_handles_independent w h o h' :
  h' <> h -> (h' < length (dw_models w))%nat ->
  nth_error (dw_models (dw_step w h o)) h' = nth_error (dw_models w) h'.
Proof.
  intros Hne Hlt. unfold dw_step. destruct (nth_error (dw_models w) h) as [s|] eqn:Hs; auto.
  destruct o; simpl; auto; try (apply nth_error_upd_nth_neq; auto).
  apply nth_error_app1. auto.
Qed.

(* a clone reports its original's value *)
Lemma dw_clone_value w h v :
  dw_value w h = Some v -> dw_value (dw_step w h DClone) (length (dw_models w)) = Some v.
Proof.
  unfold dw_value, dw_step. destruct (nth_error (dw_models w) h) as [s|] eqn:Hs; simpl; intro H; [|discriminate].
  rewrite nth_error_app2 by lia. rewrite Nat.sub_diag. simpl. exact H.
Qed.

(* ---- MinimumObjectiveValue / MaximumObjectiveValue are inert ---- *)
Definition dsim (w1 w2 : dworld) : Prop :=
  dw_models w1 = dw_models w2 /\ length (dw_params w1) = length (dw_params w2) /\
  forall i, dp_init (nth i (dw_params w1) dp_default) = dp_init (nth i (dw_params w2) dp_default).

Lemma nth_upd_nth {A} (l : list A) i j x d :
  nth j (upd_nth l i x) d = if Nat.eqb i j && Nat.ltb i (length l) then x else nth j l d.
Proof.
  destruct (Nat.eqb_spec i j) as [->|Hne]; simpl.
  - destruct (Nat.ltb_spec j (length l)) as [Hlt|Hge].
    + apply nth_upd_nth_eq; auto.
    + rewrite !nth_overflow; auto. rewrite upd_nth_length. auto.
  - apply nth_upd_nth_neq; auto.
Qed.

Lemma dsim_erase w : dsim (dw_erase_range w) w.
Proof.
  unfold dsim, dw_erase_range; simpl. split; [reflexivity|]. split; [apply map_length|].
  intro i. destruct (Nat.ltb_spec i (length (dw_params w))) as [Hlt|Hge].
  - rewrite (nth_indep _ dp_default (mkDP (dp_init dp_default) 0 0)) by (rewrite map_length; auto).
    change (mkDP (dp_init dp_default) 0 0) with ((fun p => mkDP (dp_init p) 0 0) dp_default).
    rewrite map_nth. reflexivity.
  - rewrite !nth_overflow; auto. rewrite map_length. auto.
Qed.

Lemma dsim_step w1 w2 h o : dsim w1 w2 -> dsim (dw_step w1 h (dop_erase_range o)) (dw_step w2 h o).
Proof.
  intros (Hm & Hl & Hi). unfold dw_step. rewrite Hm.
  destruct (nth_error (dw_models w2) h) as [s|] eqn:Hs; [|repeat split; auto].
  destruct o; try (simpl; repeat split; simpl; auto; rewrite ?Hm; auto; fail).
  cbn [dop_erase_range].
  (* DSetParams *)
  assert (Hinit : dp_init (dp_merge (nth (ds_prm s) (dw_params w1) dp_default) init None None) =
                  dp_init (dp_merge (nth (ds_prm s) (dw_params w2) dp_default) init mn mx)).
  { unfold dp_merge; simpl. destruct init; simpl; auto. }
  unfold dsim; cbn [dw_models dw_params]. repeat split.
  - rewrite Hinit. reflexivity.
  - rewrite !upd_nth_length. auto.
  - intro i. rewrite !nth_upd_nth. rewrite Hl.
    destruct (Nat.eqb (ds_prm s) i && Nat.ltb (ds_prm s) (length (dw_params w2))); auto.
Qed.

Lemma dsim_run l : forall w1 w2, dsim w1 w2 ->
  dsim (dw_run w1 (map (fun ho => (fst ho, dop_erase_range (snd ho))) l)) (dw_run w2 l).
Proof.
  induction l as [|[h o] l IH]; intros w1 w2 H; simpl; auto.
  apply IH. apply dsim_step. exact H.
Qed.

Lemma dumb_range_inert w l :
  dw_obs (dw_run (dw_erase_range w) (map (fun ho => (fst ho, dop_erase_range (snd ho))) l)) = dw_obs (dw_run w l).
Proof.
  destruct (dsim_run l _ _ (dsim_erase w)) as (Hm & _). unfold dw_obs. rewrite Hm. reflexivity.
Qed.

(* =====================================================================================
   PART 2: modumb.Model
   ===================================================================================== *)

(* ---- bodies ---- *)
Definition same_values (b b' : mbody) : Prop :=
  forall k, mv_total (mb_var b' k) = mv_total (mb_var b k) /\
            forall pu, mv_vals (mb_var b' k) pu = mv_vals (mb_var b k) pu.
(* every observable of the property: action states (hence the encoding, a function of them), totals,
   per-unit values *)
Definition same_obs (b b' : mbody) : Prop := mb_active b' = mb_active b /\ same_values b b'.

Lemma same_values_refl b : same_values b b.
Proof. intro k. split; auto. Qed.
Lemma same_obs_refl b : same_obs b b.
Proof. split; [reflexivity|apply same_values_refl]. Qed.
Lemma same_values_trans a b c : same_values a b -> same_values b c -> same_values a c.
Proof.
  intros H1 H2 k. destruct (H1 k) as [T1 V1]. destruct (H2 k) as [T2 V2]. split; [congruence|].
  intro pu. rewrite V2. apply V1.
Qed.

Lemma obj_eqb_refl k : obj_eqb k k = true.
Proof. destruct k; reflexivity. Qed.
Lemma obj_eqb_eq a b : obj_eqb a b = true <-> a = b.
Proof. destruct a, b; simpl; split; intro H; try reflexivity; try discriminate. Qed.

Lemma observe_active b i : mb_active (observe b i) = mb_active b.
Proof. reflexivity. Qed.
Lemma observe_var_other b i k : k <> act_obj i -> mb_var (observe b i) k = mb_var b k.
Proof.
  intro Hk. unfold observe, set_var; cbn [mb_var].
  destruct (obj_eqb k (act_obj i)) eqn:E; auto. apply obj_eqb_eq in E. contradiction.
Qed.
Lemma observe_var_own b i :
  mb_var (observe b i) (act_obj i) =
  let v := mb_var b (act_obj i) in
  let change := if is_active b i then obj_cost (act_obj i) else - obj_cost (act_obj i) in
  mkMV (mv_vals v) (mv_total v) (Some (mkMC (act_pu i) (mv_vals v (act_pu i)) (mv_vals v (act_pu i) + change))).
Proof. unfold observe, set_var; cbn [mb_var]. rewrite obj_eqb_refl. reflexivity. Qed.

Lemma observe_values b i : same_values b (observe b i).
Proof.
  intro k. destruct (obj_eqb k (act_obj i)) eqn:E.
  - apply obj_eqb_eq in E. subst k. rewrite observe_var_own. simpl. auto.
  - rewrite observe_var_other; auto. intro H. subst k. rewrite obj_eqb_refl in E. discriminate.
Qed.

Lemma set_flag_var b i v : mb_var (set_flag b i v) = mb_var b.
Proof. reflexivity. Qed.
Lemma flip_var b i : mb_var (flip b i) = mb_var b.
Proof. reflexivity. Qed.
Lemma set_flag_length b i v : length (mb_active (set_flag b i v)) = length (mb_active b).
Proof. unfold set_flag, set_active; simpl. apply upd_nth_length. Qed.
Lemma flip_length b i : length (mb_active (flip b i)) = length (mb_active b).
Proof. apply set_flag_length. Qed.

Lemma is_active_flip b i : (i < length (mb_active b))%nat -> is_active (flip b i) i = negb (is_active b i).
Proof. intro Hi. unfold is_active, flip, set_flag, set_active; simpl. apply nth_upd_nth_eq; auto. Qed.

Lemma flip_flip_active b b' i :
  (i < length (mb_active b))%nat -> mb_active b' = mb_active (flip b i) -> mb_active (flip b' i) = mb_active b.
Proof.
  intros Hi Hb'. unfold flip at 1, set_flag, set_active; cbn [mb_active].
  assert (Hact : is_active b' i = negb (is_active b i)).
  { unfold is_active at 1. rewrite Hb'. apply (is_active_flip b i Hi). }
  rewrite Hact, Hb', negb_involutive. unfold flip, set_flag, set_active; cbn [mb_active].
  rewrite upd_nth_twice. apply upd_nth_same.
Qed.

Lemma reject_all_values b : same_values b (reject_all b).
Proof. intro k. simpl. auto. Qed.

Lemma apply_done_total v : cmd_ok v = true -> mv_total (apply_done v) = mv_total v + mv_change v.
Proof.
  unfold cmd_ok, apply_done, mv_change. destruct (mv_cmd v) as [c|]; simpl; intro H; [|lia].
  apply Z.eqb_eq in H. lia.
Qed.

Lemma body_ok_spec b : body_ok b = true <-> forall k, cmd_ok (mb_var b k) = true.
Proof.
  unfold body_ok, all_obj; simpl. rewrite !andb_true_iff. split.
  - intros (H0 & H1 & H2 & _) [| |]; auto.
  - intro H. repeat split; auto.
Qed.

Lemma settled_spec b : settled b = true <-> forall k, mv_cmd (mb_var b k) = None.
Proof.
  unfold settled, all_obj; simpl. rewrite !andb_true_iff. split.
  - intros (H0 & H1 & H2 & _) k. destruct k;
      [destruct (mv_cmd (mb_var b O0))|destruct (mv_cmd (mb_var b O1))|destruct (mv_cmd (mb_var b O2))]; auto; discriminate.
  - intro H. rewrite !H. auto.
Qed.

Lemma observe_ok b i : body_ok b = true -> body_ok (observe b i) = true.
Proof.
  rewrite !body_ok_spec. intros H k. destruct (obj_eqb k (act_obj i)) eqn:E.
  - apply obj_eqb_eq in E. subst k. rewrite observe_var_own. unfold cmd_ok; simpl. apply Z.eqb_refl.
  - rewrite observe_var_other; auto. intro Hk. subst k. rewrite obj_eqb_refl in E. discriminate.
Qed.
Lemma accept_all_ok b : body_ok (accept_all b) = true.
Proof.
  apply body_ok_spec. intro k. unfold accept_all; cbn [mb_var]. unfold apply_done, cmd_ok.
  destruct (mv_cmd (mb_var b k)) eqn:E; simpl; auto. rewrite E. auto.
Qed.
Lemma accept_all_settled b : settled (accept_all b) = true.
Proof.
  apply settled_spec. intro k. unfold accept_all; cbn [mb_var]. unfold apply_done.
  destruct (mv_cmd (mb_var b k)) eqn:E; simpl; auto.
Qed.
Lemma reject_all_ok b : body_ok (reject_all b) = true.
Proof. apply body_ok_spec. intro k. reflexivity. Qed.
Lemma reject_all_settled b : settled (reject_all b) = true.
Proof. apply settled_spec. intro k. reflexivity. Qed.
Lemma set_flag_ok b i v : body_ok (set_flag b i v) = body_ok b.
Proof. reflexivity. Qed.
Lemma settled_ok b : settled b = true -> body_ok b = true.
Proof. rewrite settled_spec, body_ok_spec. intros H k. unfold cmd_ok. rewrite H. auto. Qed.

(* ---- what a handle reads ---- *)
Definition hbody (w : mworld) (hj : nat) : option mbody :=
  match nth_error (mw_handles w) hj with
  | Some h => match mh_body h with Some bj => nth_error (mw_bodies w) bj | None => None end
  | None => None
  end.

Lemma body_of_spec w h :
  body_of w h = match mh_body h with
                | Some bi => match nth_error (mw_bodies w) bi with Some b => Some (bi, b) | None => None end
                | None => None
                end.
Proof. reflexivity. Qed.

Lemma body_of_Some w h bi b :
  body_of w h = Some (bi, b) <-> mh_body h = Some bi /\ nth_error (mw_bodies w) bi = Some b.
Proof.
  unfold body_of. destruct (mh_body h) as [bj|]; [|split; [discriminate|intros [H _]; discriminate]].
  destruct (nth_error (mw_bodies w) bj) as [b0|] eqn:E.
  - split.
    + intro H. injection H as <- <-. auto.
    + intros [H1 H2]. injection H1 as <-. rewrite E in H2. injection H2 as <-. reflexivity.
  - split; [discriminate|]. intros [H1 H2]. injection H1 as <-. congruence.
Qed.

(* a world whose bodies are related pointwise to those of another one, with the same body pointers *)
Definition bodies_rel (R : mbody -> mbody -> Prop) (w w' : mworld) : Prop :=
  forall bj b, nth_error (mw_bodies w) bj = Some b -> exists b', nth_error (mw_bodies w') bj = Some b' /\ R b b'.
Definition ptrs_same (w w' : mworld) : Prop :=
  forall hj h, nth_error (mw_handles w) hj = Some h ->
    exists h', nth_error (mw_handles w') hj = Some h' /\ mh_body h' = mh_body h.

Lemma hbody_rel (R : mbody -> mbody -> Prop) w w' : bodies_rel R w w' -> ptrs_same w w' ->
  forall hj b, hbody w hj = Some b -> exists b', hbody w' hj = Some b' /\ R b b'.
Proof.
  intros HB HP hj b. unfold hbody. destruct (nth_error (mw_handles w) hj) as [h|] eqn:Hh; [|discriminate].
  destruct (HP hj h Hh) as (h' & Hh' & Hptr). rewrite Hh', Hptr.
  destruct (mh_body h) as [bj|]; [|discriminate]. intro Hb. apply (HB bj b Hb).
Qed.

Lemma bodies_rel_upd (R : mbody -> mbody -> Prop) w bi b b' ps hs :
  (forall x, R x x) -> nth_error (mw_bodies w) bi = Some b -> R b b' ->
  bodies_rel R w (mkMW ps (upd_nth (mw_bodies w) bi b') hs).
Proof.
  intros Hrefl Hb HR bj x Hx. cbn [mw_bodies]. rewrite nth_error_upd_nth.
  destruct (Nat.eqb_spec bi bj) as [->|Hne].
  - rewrite Hb in Hx. injection Hx as <-. rewrite (proj2 (Nat.ltb_lt _ _) (nth_error_Some_lt _ _ _ Hb)).
    exists b'. auto.
  - exists x. auto.
Qed.

Lemma bodies_rel_refl (R : mbody -> mbody -> Prop) w ps hs : (forall x, R x x) -> bodies_rel R w (mkMW ps (mw_bodies w) hs).
Proof. intros Hrefl bj b Hb. exists b. auto. Qed.

Lemma ptrs_same_upd w hi h h' ps bs :
  nth_error (mw_handles w) hi = Some h -> mh_body h' = mh_body h ->
  ptrs_same w (mkMW ps bs (upd_nth (mw_handles w) hi h')).
Proof.
  intros Hh Hptr hj x Hx. cbn [mw_handles]. rewrite nth_error_upd_nth.
  destruct (Nat.eqb_spec hi hj) as [->|Hne].
  - rewrite Hh in Hx. injection Hx as <-. rewrite (proj2 (Nat.ltb_lt _ _) (nth_error_Some_lt _ _ _ Hh)).
    exists h'. auto.
  - exists x. auto.
Qed.

Lemma ptrs_same_refl w ps bs : ptrs_same w (mkMW ps bs (mw_handles w)).
Proof. intros hj h Hh. exists h. auto. Qed.

(* ---- the shape of a successful proposal ---- *)
Lemma m_try_shape w hi h pick w1 :
  nth_error (mw_handles w) hi = Some h -> m_try w hi h pick = Ok w1 ->
  (* no action to toggle *)
  (w1 = mw_set_handle w hi (with_last h LNull) /\
   (body_of w h = None \/ exists bi b, body_of w h = Some (bi, b) /\ mb_active b = [])) \/
  (* action [pick] of the handle's body toggled and observed *)
  (exists bi b, body_of w h = Some (bi, b) /\ (pick < length (mb_active b))%nat /\
     w1 = mw_set_handle (mw_set_body w bi (observe (flip b pick) pick)) hi (with_last h (LAct bi pick))).
Proof.
  intros Hh. unfold m_try. destruct (body_of w h) as [[bi b]|] eqn:Hb.
  - destruct (Nat.eqb_spec (length (mb_active b)) 0) as [H0|Hn0].
    + intro H. injection H as <-. left. split; auto. right. exists bi, b. split; auto.
      destruct (mb_active b); auto; discriminate.
    + destruct (Nat.ltb_spec pick (length (mb_active b))) as [Hlt|Hge]; [|discriminate].
      intro H. injection H as <-. right. exists bi, b. auto.
  - intro H. injection H as <-. left. auto.
Qed.

Lemma flip_values b i : same_values b (flip b i).
Proof. intro k. simpl. auto. Qed.

Lemma try_body_values b pick : same_values b (observe (flip b pick) pick).
Proof. apply same_values_trans with (flip b pick); [apply flip_values|apply observe_values]. Qed.

(* while a change is only proposed, every reported value (total and per unit) of EVERY handle stays put *)
Lemma modumb_propose_keeps_values w hi pick w1 :
  mw_step w hi (MTry pick) = Ok w1 ->
  forall hj b, hbody w hj = Some b -> exists b1, hbody w1 hj = Some b1 /\ same_values b b1.
Proof.
  unfold mw_step. destruct (nth_error (mw_handles w) hi) as [h|] eqn:Hh; [|discriminate].
  intro Ht. destruct (m_try_shape w hi h pick w1 Hh Ht) as [[-> _]|(bi & b & Hb & Hlt & ->)].
  - apply hbody_rel.
    + apply bodies_rel_refl. apply same_values_refl.
    + apply ptrs_same_upd with h; auto.
  - apply body_of_Some in Hb. destruct Hb as [Hptr Hnb]. apply hbody_rel.
    + unfold mw_set_handle, mw_set_body; cbn [mw_bodies mw_handles mw_params].
      apply bodies_rel_upd with b; auto. apply same_values_refl. apply try_body_values.
    + unfold mw_set_handle, mw_set_body; cbn [mw_bodies mw_handles mw_params].
      apply ptrs_same_upd with h; auto.
Qed.

(* the body the proposing handle reads afterwards, and the change it reports *)
Lemma modumb_propose_reports w hi pick w1 b :
  mw_step w hi (MTry pick) = Ok w1 -> hbody w hi = Some b -> mb_active b <> [] ->
  (pick < length (mb_active b))%nat /\
  hbody w1 hi = Some (observe (flip b pick) pick) /\
  mv_change (mb_var (observe (flip b pick) pick) (act_obj pick)) =
    (if is_active b pick then - obj_cost (act_obj pick) else obj_cost (act_obj pick)).
Proof.
  unfold mw_step, hbody. destruct (nth_error (mw_handles w) hi) as [h|] eqn:Hh; [|discriminate].
  intros Ht Hb Hne. destruct (m_try_shape w hi h pick w1 Hh Ht) as [[-> [Hnone|(bi & b0 & Hb0 & Hnil)]]|(bi & b0 & Hb0 & Hlt & ->)].
  - rewrite body_of_spec in Hnone. destruct (mh_body h) as [bj|]; [|discriminate].
    rewrite Hb in Hnone. discriminate.
  - apply body_of_Some in Hb0. destruct Hb0 as [Hptr Hnb]. rewrite Hptr, Hnb in Hb. injection Hb as ->. contradiction.
  - apply body_of_Some in Hb0. destruct Hb0 as [Hptr Hnb]. rewrite Hptr, Hnb in Hb. injection Hb as ->.
    split; auto. split.
    + unfold mw_set_handle, mw_set_body; cbn [mw_bodies mw_handles mw_params].
      rewrite nth_error_upd_nth_eq by (eapply nth_error_Some_lt; eauto).
      unfold with_last; cbn [mh_body]. rewrite Hptr. apply nth_error_upd_nth_eq. eapply nth_error_Some_lt; eauto.
    + rewrite observe_var_own. unfold mv_change; cbn [mv_cmd mc_done mc_undone].
      rewrite is_active_flip by auto. destruct (is_active b pick); simpl; lia.
Qed.

(* reverting the proposal restores every observable of EVERY handle: action states, totals, per-unit values *)
Lemma modumb_revert_exact w hi pick w1 :
  mw_step w hi (MTry pick) = Ok w1 ->
  exists w2, mw_step w1 hi MRevert = Ok w2 /\
    forall hj b, hbody w hj = Some b -> exists b2, hbody w2 hj = Some b2 /\ same_obs b b2.
Proof.
  unfold mw_step at 1. destruct (nth_error (mw_handles w) hi) as [h|] eqn:Hh; [|discriminate].
  pose proof (nth_error_Some_lt _ _ _ Hh) as Hhi.
  intro Ht. destruct (m_try_shape w hi h pick w1 Hh Ht) as [[-> Hcase]|(bi & b & Hb & Hlt & ->)].
  - (* nothing to toggle *)
    unfold mw_step, mw_set_handle; cbn [mw_bodies mw_handles mw_params].
    rewrite nth_error_upd_nth_eq by auto. unfold with_last; cbn [mh_last toggle_last].
    eexists. split; [reflexivity|].
    unfold on_own_body. rewrite body_of_spec. unfold with_last; cbn [mh_body mw_bodies].
    destruct (mh_body h) as [bj|] eqn:Hptr.
    + destruct (nth_error (mw_bodies w) bj) as [b0|] eqn:Hb0.
      * unfold mw_set_body; cbn [mw_bodies mw_handles mw_params]. apply hbody_rel.
        -- apply bodies_rel_upd with b0; auto. apply same_obs_refl.
           split; [reflexivity|apply reject_all_values].
        -- apply ptrs_same_upd with h; auto.
      * apply hbody_rel; [apply bodies_rel_refl; apply same_obs_refl|apply ptrs_same_upd with h; auto].
    + apply hbody_rel; [apply bodies_rel_refl; apply same_obs_refl|apply ptrs_same_upd with h; auto].
  - (* action [pick] toggled and observed; revert drops the commands and toggles it back *)
    apply body_of_Some in Hb. destruct Hb as [Hptr Hnb].
    pose proof (nth_error_Some_lt _ _ _ Hnb) as Hbi.
    set (X := observe (flip b pick) pick).
    unfold mw_step, mw_set_handle, mw_set_body; cbn [mw_bodies mw_handles mw_params].
    rewrite nth_error_upd_nth_eq by auto. unfold with_last; cbn [mh_last mh_body mh_prm].
    unfold on_own_body. rewrite body_of_spec. cbn [mh_body mw_bodies]. rewrite Hptr.
    rewrite nth_error_upd_nth_eq by auto.
    unfold mw_set_body, toggle_last; cbn [mw_bodies mw_handles mw_params].
    rewrite nth_error_upd_nth_eq by (rewrite upd_nth_length; auto).
    eexists. split; [reflexivity|].
    unfold mw_set_body; cbn [mw_bodies mw_handles mw_params]. rewrite !upd_nth_twice.
    apply hbody_rel.
    + apply bodies_rel_upd with b; auto. apply same_obs_refl. split.
      * apply flip_flip_active; auto.
      * apply same_values_trans with X; [apply try_body_values|].
        apply same_values_trans with (reject_all X); [apply reject_all_values|apply flip_values].
    + apply ptrs_same_upd with h; auto.
Qed.

(* ---- well-formed worlds ---- *)
Lemma mw_wf_spec w : mw_wf w = true <->
  (forall bi b, nth_error (mw_bodies w) bi = Some b -> body_ok b = true) /\
  (forall hj h, nth_error (mw_handles w) hj = Some h -> handle_ok w h = true).
Proof.
  unfold mw_wf. rewrite andb_true_iff, !forallb_forall. split.
  - intros [HB HH]. split.
    + intros bi b Hb. apply HB. eapply nth_error_In; eauto.
    + intros hj h Hh. apply HH. eapply nth_error_In; eauto.
  - intros [HB HH]. split.
    + intros b Hin. destruct (In_nth_error _ _ Hin) as [bi Hb]. eapply HB; eauto.
    + intros h Hin. destruct (In_nth_error _ _ Hin) as [hj Hh]. eapply HH; eauto.
Qed.

Definition shape_le (bs bs' : list mbody) : Prop :=
  forall bi b, nth_error bs bi = Some b ->
    exists b', nth_error bs' bi = Some b' /\ length (mb_active b') = length (mb_active b).

Lemma shape_le_refl bs : shape_le bs bs.
Proof. intros bi b Hb. exists b. auto. Qed.
Lemma shape_le_trans a b c : shape_le a b -> shape_le b c -> shape_le a c.
Proof.
  intros H1 H2 bi x Hx. destruct (H1 bi x Hx) as (y & Hy & Ly). destruct (H2 bi y Hy) as (z & Hz & Lz).
  exists z. split; auto. congruence.
Qed.
Lemma shape_le_upd bs bi b b' :
  nth_error bs bi = Some b -> length (mb_active b') = length (mb_active b) -> shape_le bs (upd_nth bs bi b').
Proof.
  intros Hb Hl bj x Hx. rewrite nth_error_upd_nth. destruct (Nat.eqb_spec bi bj) as [->|Hne].
  - rewrite (proj2 (Nat.ltb_lt _ _) (nth_error_Some_lt _ _ _ Hb)). exists b'. split; auto. congruence.
  - exists x. auto.
Qed.
Lemma shape_le_app bs x : shape_le bs (bs ++ [x]).
Proof.
  intros bi b Hb. exists b. split; auto. rewrite nth_error_app1; auto. eapply nth_error_Some_lt; eauto.
Qed.

Lemma last_ok_mono w w' l : shape_le (mw_bodies w) (mw_bodies w') -> last_ok w l = true -> last_ok w' l = true.
Proof.
  intros Hs. destruct l as [| |bi i]; simpl; auto.
  destruct (nth_error (mw_bodies w) bi) as [b|] eqn:Hb; [|discriminate].
  destruct (Hs bi b Hb) as (b' & Hb' & Hl). rewrite Hb', Hl. auto.
Qed.

Lemma handle_ok_mono w w' h : shape_le (mw_bodies w) (mw_bodies w') -> handle_ok w h = true -> handle_ok w' h = true.
Proof.
  intros Hs. unfold handle_ok. rewrite !andb_true_iff. intros [Hb Hl]. split.
  - destruct (mh_body h) as [bi|]; auto. apply Nat.ltb_lt in Hb. apply Nat.ltb_lt.
    destruct (nth_error (mw_bodies w) bi) as [b|] eqn:E.
    + destruct (Hs bi b E) as (b' & Hb' & _). eapply nth_error_Some_lt; eauto.
    + apply nth_error_None in E. lia.
  - eapply last_ok_mono; eauto.
Qed.

Lemma wf_bodies_handles w ps bs hs :
  mw_wf w = true -> shape_le (mw_bodies w) bs ->
  (forall bi b, nth_error bs bi = Some b -> body_ok b = true) ->
  (forall hj h, nth_error hs hj = Some h ->
     (exists hk, nth_error (mw_handles w) hk = Some h) \/ handle_ok (mkMW ps bs hs) h = true) ->
  mw_wf (mkMW ps bs hs) = true.
Proof.
  intros Hwf Hs HB HH. apply mw_wf_spec. apply mw_wf_spec in Hwf. destruct Hwf as [_ HH0].
  split; [exact HB|]. intros hj h Hh. destruct (HH hj h Hh) as [(hk & Hk)|Hok]; auto.
  apply handle_ok_mono with w; auto. eapply HH0; eauto.
Qed.

Lemma upd_nth_cases {A} (l : list A) i x j y :
  nth_error (upd_nth l i x) j = Some y -> (j = i /\ y = x) \/ nth_error l j = Some y.
Proof.
  rewrite nth_error_upd_nth. destruct (Nat.eqb_spec i j) as [->|Hne]; auto.
  destruct (Nat.ltb j (length l)); [|discriminate]. intro H. injection H as <-. auto.
Qed.

Lemma wf_body_ok w bi b : mw_wf w = true -> nth_error (mw_bodies w) bi = Some b -> body_ok b = true.
Proof. intros Hwf. apply mw_wf_spec in Hwf. destruct Hwf as [HB _]. apply HB. Qed.
Lemma wf_handle_ok w hj h : mw_wf w = true -> nth_error (mw_handles w) hj = Some h -> handle_ok w h = true.
Proof. intros Hwf. apply mw_wf_spec in Hwf. destruct Hwf as [_ HH]. apply HH. Qed.

(* replacing one body by one of the same shape that is consistent *)
Lemma wf_set_body w bi b b' :
  mw_wf w = true -> nth_error (mw_bodies w) bi = Some b -> body_ok b' = true ->
  length (mb_active b') = length (mb_active b) -> mw_wf (mw_set_body w bi b') = true.
Proof.
  intros Hwf Hb Hok Hl. unfold mw_set_body. apply wf_bodies_handles with w; auto.
  - eapply shape_le_upd; eauto.
  - intros bj x Hx. destruct (upd_nth_cases _ _ _ _ _ Hx) as [[_ ->]|Hx']; auto. eapply wf_body_ok; eauto.
  - intros hj h Hh. left. exists hj. auto.
Qed.

Lemma wf_set_handle w hi h' :
  mw_wf w = true -> handle_ok w h' = true -> mw_wf (mw_set_handle w hi h') = true.
Proof.
  intros Hwf Hok. unfold mw_set_handle. apply wf_bodies_handles with w; auto.
  - apply shape_le_refl.
  - intros bi b. apply wf_body_ok; auto.
  - intros hj h Hh. destruct (upd_nth_cases _ _ _ _ _ Hh) as [[_ ->]|Hh']; [right; exact Hok|left; eauto].
Qed.

Lemma on_own_body_shape w h f :
  (forall b, length (mb_active (f b)) = length (mb_active b)) ->
  shape_le (mw_bodies w) (mw_bodies (on_own_body w h f)).
Proof.
  intro Hl. unfold on_own_body. destruct (body_of w h) as [[bi b]|] eqn:Hb; [|apply shape_le_refl].
  apply body_of_Some in Hb. destruct Hb as [_ Hb]. unfold mw_set_body; cbn [mw_bodies].
  eapply shape_le_upd; eauto.
Qed.

Lemma on_own_body_wf w h f :
  mw_wf w = true -> (forall b, body_ok b = true -> body_ok (f b) = true) ->
  (forall b, length (mb_active (f b)) = length (mb_active b)) -> mw_wf (on_own_body w h f) = true.
Proof.
  intros Hwf Hok Hl. unfold on_own_body. destruct (body_of w h) as [[bi b]|] eqn:Hb; auto.
  apply body_of_Some in Hb. destruct Hb as [_ Hb]. eapply wf_set_body; eauto. apply Hok. eapply wf_body_ok; eauto.
Qed.

Lemma toggle_last_shape w l o w' :
  toggle_last w l o = Ok w' -> shape_le (mw_bodies w) (mw_bodies w') /\ mw_handles w' = mw_handles w.
Proof.
  destruct l as [| |bi i]; simpl; try discriminate.
  - intro H. injection H as <-. split; [apply shape_le_refl|reflexivity].
  - destruct (nth_error (mw_bodies w) bi) as [b|] eqn:Hb; [|discriminate]. intro H. injection H as <-.
    split; [|reflexivity]. unfold mw_set_body; cbn [mw_bodies]. eapply shape_le_upd; eauto.
    destruct o; [rewrite observe_active|]; apply flip_length.
Qed.

Lemma toggle_last_wf w l o w' : mw_wf w = true -> toggle_last w l o = Ok w' -> mw_wf w' = true.
Proof.
  intro Hwf. destruct l as [| |bi i]; simpl; try discriminate.
  - intro H. injection H as <-. auto.
  - destruct (nth_error (mw_bodies w) bi) as [b|] eqn:Hb; [|discriminate]. intro H. injection H as <-.
    pose proof (wf_body_ok _ _ _ Hwf Hb) as Hok.
    eapply wf_set_body; eauto.
    + destruct o; [apply observe_ok|]; exact Hok.
    + destruct o; [rewrite observe_active|]; apply flip_length.
Qed.

Lemma accept_all_length b : length (mb_active (accept_all b)) = length (mb_active b).
Proof. reflexivity. Qed.
Lemma reject_all_length b : length (mb_active (reject_all b)) = length (mb_active b).
Proof. reflexivity. Qed.

Lemma m_accept_wf w h : mw_wf w = true -> mw_wf (m_accept w h) = true.
Proof. intro Hwf. apply on_own_body_wf; auto. intros b _. apply accept_all_ok. Qed.

Lemma m_try_wf w hi h pick w1 :
  mw_wf w = true -> nth_error (mw_handles w) hi = Some h -> m_try w hi h pick = Ok w1 ->
  mw_wf w1 = true /\ mw_handles w1 = upd_nth (mw_handles w) hi (with_last h (mh_last (nth hi (mw_handles w1) h))) /\
  shape_le (mw_bodies w) (mw_bodies w1).
Proof.
  intros Hwf Hh Ht. pose proof (wf_handle_ok _ _ _ Hwf Hh) as Hok.
  pose proof (nth_error_Some_lt _ _ _ Hh) as Hhi.
  destruct (m_try_shape w hi h pick w1 Hh Ht) as [[-> _]|(bi & b & Hb & Hlt & ->)].
  - split; [|split].
    + apply wf_set_handle; auto. unfold handle_ok in *. apply andb_true_iff in Hok. destruct Hok as [Hk _].
      unfold with_last; cbn [mh_body mh_last]. rewrite Hk. reflexivity.
    + unfold mw_set_handle; cbn [mw_handles]. rewrite nth_upd_nth_eq by auto. reflexivity.
    + apply shape_le_refl.
  - apply body_of_Some in Hb. destruct Hb as [Hptr Hnb].
    assert (HX : body_ok (observe (flip b pick) pick) = true).
    { apply observe_ok. unfold flip. rewrite set_flag_ok. eapply wf_body_ok; eauto. }
    assert (HL : length (mb_active (observe (flip b pick) pick)) = length (mb_active b)).
    { rewrite observe_active. apply flip_length. }
    split; [|split].
    + apply wf_set_handle.
      * eapply wf_set_body; eauto.
      * unfold handle_ok, with_last, mw_set_body; cbn [mh_body mh_last mw_bodies last_ok]. rewrite Hptr.
        rewrite upd_nth_length. rewrite (proj2 (Nat.ltb_lt _ _) (nth_error_Some_lt _ _ _ Hnb)).
        rewrite nth_error_upd_nth_eq by (eapply nth_error_Some_lt; eauto).
        rewrite HL. apply Nat.ltb_lt in Hlt. rewrite Hlt. reflexivity.
    + unfold mw_set_handle, mw_set_body; cbn [mw_handles]. rewrite nth_upd_nth_eq by auto. reflexivity.
    + unfold mw_set_handle, mw_set_body; cbn [mw_bodies]. eapply shape_le_upd; eauto.
Qed.

Lemma fresh_body_ok p b : fresh_body p = Ok b -> body_ok b = true /\ settled b = true.
Proof.
  unfold fresh_body. destruct (round2_res (mp_i0 p)); simpl; [|discriminate].
  destruct (round2_res (mp_i1 p)); simpl; [|discriminate].
  destruct (round2_res (mp_i2 p)); simpl; [|discriminate].
  intro H. injection H as <-. split; reflexivity.
Qed.

(* every operation keeps a well-formed world well-formed *)
Lemma mw_step_wf w hi o w' : mw_wf w = true -> mw_step w hi o = Ok w' -> mw_wf w' = true.
Proof.
  intros Hwf. unfold mw_step. destruct (nth_error (mw_handles w) hi) as [h|] eqn:Hh; [|discriminate].
  pose proof (wf_handle_ok _ _ _ Hwf Hh) as Hok.
  pose proof (nth_error_Some_lt _ _ _ Hh) as Hhi.
  destruct o.
  - (* SetParameters *) intro H. injection H as <-. exact Hwf.
  - (* Initialise *)
    destruct (fresh_body (nth (mh_prm h) (mw_params w) mp_default)) as [b|] eqn:Hf; simpl; [|discriminate].
    intro H. injection H as <-. destruct (fresh_body_ok _ _ Hf) as [Hbok _].
    apply wf_bodies_handles with w; auto.
    + apply shape_le_app.
    + intros bi x Hx. destruct (Nat.ltb_spec bi (length (mw_bodies w))) as [Hlt|Hge].
      * rewrite nth_error_app1 in Hx by auto. eapply wf_body_ok; eauto.
      * rewrite nth_error_app2 in Hx by auto. destruct (bi - length (mw_bodies w))%nat as [|n]; simpl in Hx.
        -- injection Hx as <-. auto.
        -- destruct n; discriminate.
    + intros hj x Hx. destruct (upd_nth_cases _ _ _ _ _ Hx) as [[_ ->]|Hx']; [right|left; eauto].
      unfold handle_ok; cbn [mh_body mh_last mw_bodies]. rewrite app_length; simpl.
      rewrite (proj2 (Nat.ltb_lt _ _)) by lia. simpl.
      apply last_ok_mono with w; [apply shape_le_app|].
      unfold handle_ok in Hok. apply andb_true_iff in Hok. apply Hok.
  - (* TryRandomChange *) intro Ht. apply (m_try_wf w hi h pick w' Hwf Hh Ht).
  - (* ChangeIsValid *) intro H. injection H as <-. exact Hwf.
  - (* AcceptChange *) intro H. injection H as <-. apply m_accept_wf; auto.
  - (* RevertChange *)
    apply toggle_last_wf. apply on_own_body_wf; auto; intros b _; apply reject_all_ok.
  - (* DoRandomChange *)
    destruct (m_try w hi h pick) as [w1|] eqn:Ht; simpl; [|discriminate].
    intro H. injection H as <-. apply m_accept_wf. apply (m_try_wf w hi h pick w1 Hwf Hh Ht).
  - (* UndoChange *)
    destruct (toggle_last w (mh_last h) true) as [w1|] eqn:Ht; simpl; [|discriminate].
    intro H. injection H as <-. apply m_accept_wf. eapply toggle_last_wf; eauto.
  - (* SetManagementAction *)
    destruct (body_of w h) as [[bi b]|] eqn:Hb; [|discriminate].
    destruct (Nat.ltb_spec i (length (mb_active b))) as [Hlt|Hge]; [|discriminate].
    destruct (Bool.eqb (is_active b i) v); intro H; injection H as <-; auto.
    apply body_of_Some in Hb. destruct Hb as [Hptr Hnb].
    apply wf_set_handle.
    + eapply wf_set_body; eauto. apply accept_all_ok.
      rewrite accept_all_length, observe_active. apply set_flag_length.
    + unfold handle_ok, with_last, mw_set_body; cbn [mh_body mh_last mw_bodies last_ok]. rewrite Hptr.
      rewrite upd_nth_length. rewrite (proj2 (Nat.ltb_lt _ _) (nth_error_Some_lt _ _ _ Hnb)).
      rewrite nth_error_upd_nth_eq by (eapply nth_error_Some_lt; eauto).
      rewrite accept_all_length, observe_active, set_flag_length.
      apply Nat.ltb_lt in Hlt. rewrite Hlt. reflexivity.
  - (* SetManagementActionUnobserved *)
    destruct (body_of w h) as [[bi b]|] eqn:Hb; [|discriminate].
    destruct (Nat.ltb_spec i (length (mb_active b))) as [Hlt|Hge]; [|discriminate].
    intro H; injection H as <-.
    apply body_of_Some in Hb. destruct Hb as [Hptr Hnb].
    apply wf_set_handle.
    + eapply wf_set_body; eauto. rewrite set_flag_ok. eapply wf_body_ok; eauto. apply set_flag_length.
    + unfold handle_ok, with_last, mw_set_body; cbn [mh_body mh_last mw_bodies last_ok]. rewrite Hptr.
      rewrite upd_nth_length. rewrite (proj2 (Nat.ltb_lt _ _) (nth_error_Some_lt _ _ _ Hnb)).
      rewrite nth_error_upd_nth_eq by (eapply nth_error_Some_lt; eauto).
      rewrite set_flag_length. apply Nat.ltb_lt in Hlt. rewrite Hlt. reflexivity.
  - (* DeepClone *)
    intro H. injection H as <-. apply wf_bodies_handles with w; auto.
    + apply shape_le_refl.
    + intros bi b. apply wf_body_ok; auto.
    + intros hj x Hx. left. destruct (Nat.ltb_spec hj (length (mw_handles w))) as [Hlt|Hge].
      * rewrite nth_error_app1 in Hx by auto. eauto.
      * rewrite nth_error_app2 in Hx by auto. destruct (hj - length (mw_handles w))%nat as [|n]; simpl in Hx.
        -- injection Hx as <-. eauto.
        -- destruct n; discriminate.
Qed.

Lemma mw_new_wf : mw_wf mw_new = true.
Proof. reflexivity. Qed.

Lemma mw_run_wf l : forall w w', mw_wf w = true -> mw_run w l = Ok w' -> mw_wf w' = true.
Proof.
  induction l as [|[h o] l IH]; intros w w' Hwf; simpl.
  - intro H. injection H as <-. exact Hwf.
  - destruct (mw_step w h o) as [w1|] eqn:Hs; simpl; [|discriminate].
    apply IH. eapply mw_step_wf; eauto.
Qed.

(* ---- accepting ---- *)
Lemma hbody_Some w hj b :
  hbody w hj = Some b <->
  exists h bi, nth_error (mw_handles w) hj = Some h /\ mh_body h = Some bi /\ nth_error (mw_bodies w) bi = Some b.
Proof.
  unfold hbody. split.
  - destruct (nth_error (mw_handles w) hj) as [h|]; [|discriminate].
    destruct (mh_body h) as [bi|] eqn:E; [|discriminate]. intro H. exists h, bi. auto.
  - intros (h & bi & -> & -> & H). exact H.
Qed.

Lemma step_accept w hi b :
  hbody w hi = Some b ->
  exists h bi, nth_error (mw_handles w) hi = Some h /\ mh_body h = Some bi /\ nth_error (mw_bodies w) bi = Some b /\
    mw_step w hi MAccept = Ok (mw_set_body w bi (accept_all b)) /\
    hbody (mw_set_body w bi (accept_all b)) hi = Some (accept_all b).
Proof.
  intro Hb. apply hbody_Some in Hb. destruct Hb as (h & bi & Hh & Hptr & Hnb). exists h, bi.
  repeat split; auto.
  - unfold mw_step. rewrite Hh. unfold m_accept, on_own_body. rewrite body_of_spec, Hptr, Hnb. reflexivity.
  - unfold hbody, mw_set_body; cbn [mw_handles mw_bodies]. rewrite Hh, Hptr.
    apply nth_error_upd_nth_eq. eapply nth_error_Some_lt; eauto.
Qed.

Lemma accept_all_total b k :
  body_ok b = true -> mv_total (mb_var (accept_all b) k) = mv_total (mb_var b k) + mv_change (mb_var b k).
Proof. intro Hok. unfold accept_all; cbn [mb_var]. apply apply_done_total. apply body_ok_spec. exact Hok. Qed.

Lemma accept_all_none b k : mv_cmd (mb_var b k) = None -> mb_var (accept_all b) k = mb_var b k.
Proof. intro H. unfold accept_all; cbn [mb_var]. unfold apply_done. rewrite H. reflexivity. Qed.

Lemma accept_all_settled_id b : settled b = true -> same_obs b (accept_all b).
Proof.
  intro Hs. split; [reflexivity|]. intro k. rewrite accept_all_none; auto. apply settled_spec. exact Hs.
Qed.

(* the body the proposing handle reads after a successful proposal *)
Lemma modumb_propose_body w hi pick w1 b :
  mw_step w hi (MTry pick) = Ok w1 -> hbody w hi = Some b ->
  (mb_active b = [] /\ hbody w1 hi = Some b) \/
  ((pick < length (mb_active b))%nat /\ hbody w1 hi = Some (observe (flip b pick) pick)).
Proof.
  intros Ht Hb. destruct (mb_active b) eqn:Hact.
  - left. split; auto. unfold mw_step in Ht. destruct (nth_error (mw_handles w) hi) as [h|] eqn:Hh; [|discriminate].
    apply hbody_Some in Hb. destruct Hb as (h0 & bi & Hh0 & Hptr & Hnb). rewrite Hh in Hh0. injection Hh0 as <-.
    unfold m_try in Ht. rewrite body_of_spec, Hptr, Hnb, Hact in Ht. simpl in Ht. injection Ht as <-.
    unfold hbody, mw_set_handle; cbn [mw_handles mw_bodies].
    rewrite nth_error_upd_nth_eq by (eapply nth_error_Some_lt; eauto). unfold with_last; cbn [mh_body]. rewrite Hptr. exact Hnb.
  - right. destruct (modumb_propose_reports w hi pick w1 b Ht Hb) as (Hlt & Hb1 & _); [rewrite Hact; discriminate|].
    rewrite <- Hact. auto.
Qed.

(* accepting moves each objective's total by exactly the change reported while the proposal was pending *)
Lemma modumb_accept_realises w hi pick w1 b b1 :
  mw_wf w = true -> mw_step w hi (MTry pick) = Ok w1 -> hbody w hi = Some b -> hbody w1 hi = Some b1 ->
  exists w2 b2, mw_step w1 hi MAccept = Ok w2 /\ hbody w2 hi = Some b2 /\
    mb_active b2 = mb_active b1 /\ settled b2 = true /\
    forall k, mv_total (mb_var b2 k) = mv_total (mb_var b k) + mv_change (mb_var b1 k).
Proof.
  intros Hwf Ht Hb Hb1. pose proof (mw_step_wf _ _ _ _ Hwf Ht) as Hwf1.
  destruct (step_accept w1 hi b1 Hb1) as (h1 & bi & Hh1 & Hptr1 & Hnb1 & Hstep & Hb2).
  exists (mw_set_body w1 bi (accept_all b1)), (accept_all b1). repeat split; auto.
  - apply accept_all_settled.
  - intro k. rewrite accept_all_total by (eapply wf_body_ok; eauto).
    destruct (modumb_propose_keeps_values w hi pick w1 Ht hi b Hb) as (b1' & Hb1' & Hv).
    rewrite Hb1 in Hb1'. injection Hb1' as <-. destruct (Hv k) as [-> _]. reflexivity.
Qed.

(* locality: from a state without a pending proposal, propose + accept changes the per-unit values of the
   picked action's objective in the picked action's planning unit only, and there by the reported change *)
Lemma modumb_locality w hi pick w1 b :
  mw_step w hi (MTry pick) = Ok w1 -> hbody w hi = Some b -> settled b = true ->
  exists w2 b1 b2, hbody w1 hi = Some b1 /\ mw_step w1 hi MAccept = Ok w2 /\ hbody w2 hi = Some b2 /\
    (forall k pu, (k <> act_obj pick \/ pu <> act_pu pick) -> mv_vals (mb_var b2 k) pu = mv_vals (mb_var b k) pu) /\
    (mb_active b <> [] ->
       mv_vals (mb_var b2 (act_obj pick)) (act_pu pick) =
       mv_vals (mb_var b (act_obj pick)) (act_pu pick) + mv_change (mb_var b1 (act_obj pick))).
Proof.
  intros Ht Hb Hs. pose proof (proj1 (settled_spec b) Hs) as Hnone.
  destruct (modumb_propose_body w hi pick w1 b Ht Hb) as [[Hnil Hb1]|[Hlt Hb1]].
  - destruct (step_accept w1 hi b Hb1) as (h1 & bi & _ & _ & _ & Hstep & Hb2).
    exists (mw_set_body w1 bi (accept_all b)), b, (accept_all b). repeat split; auto.
    + intros k pu _. rewrite accept_all_none; auto.
    + intro Hne. contradiction.
  - set (X := observe (flip b pick) pick) in *.
    destruct (step_accept w1 hi X Hb1) as (h1 & bi & _ & _ & _ & Hstep & Hb2).
    exists (mw_set_body w1 bi (accept_all X)), X, (accept_all X). repeat split; auto.
    + intros k pu Hor. destruct (obj_eqb k (act_obj pick)) eqn:E.
      * apply obj_eqb_eq in E. subst k. destruct Hor as [Hk|Hpu]; [contradiction|].
        unfold accept_all; cbn [mb_var]. unfold X. rewrite observe_var_own. unfold apply_done; cbn [mv_cmd mv_vals mc_pu mc_done].
        unfold upd. destruct (Nat.eqb_spec pu (act_pu pick)); [contradiction|]. rewrite flip_var. reflexivity.
      * assert (Hk : k <> act_obj pick) by (intro; subst k; rewrite obj_eqb_refl in E; discriminate).
        rewrite accept_all_none; unfold X; rewrite observe_var_other by auto; rewrite flip_var; auto.
    + intros _. unfold accept_all; cbn [mb_var]. unfold X. rewrite observe_var_own.
      unfold apply_done, mv_change; cbn [mv_cmd mv_vals mc_pu mc_done mc_undone].
      unfold upd. rewrite Nat.eqb_refl. rewrite flip_var. lia.
Qed.

(* undoing (UndoChange) an accepted change restores every observable of every handle *)
Lemma step_undo_own w hi h bi b i :
  nth_error (mw_handles w) hi = Some h -> mh_body h = Some bi -> mh_last h = LAct bi i ->
  nth_error (mw_bodies w) bi = Some b ->
  mw_step w hi MUndo = Ok (mkMW (mw_params w) (upd_nth (mw_bodies w) bi (accept_all (observe (flip b i) i))) (mw_handles w)).
Proof.
  intros Hh Hptr Hlast Hnb. unfold mw_step. rewrite Hh, Hlast. unfold toggle_last. rewrite Hnb. simpl.
  unfold m_accept, on_own_body. rewrite body_of_spec, Hptr. unfold mw_set_body; cbn [mw_bodies mw_params mw_handles].
  rewrite nth_error_upd_nth_eq by (eapply nth_error_Some_lt; eauto). rewrite upd_nth_twice. reflexivity.
Qed.

Lemma undo_body_obs b pick :
  settled b = true -> (pick < length (mb_active b))%nat ->
  same_obs b (accept_all (observe (flip (accept_all (observe (flip b pick) pick)) pick) pick)).
Proof.
  intros Hs Hlt. pose proof (proj1 (settled_spec b) Hs) as Hnone.
  set (X := observe (flip b pick) pick). set (B2 := accept_all X).
  split.
  - change (mb_active (flip B2 pick) = mb_active b). apply flip_flip_active; auto.
  - intro k. destruct (obj_eqb k (act_obj pick)) eqn:E.
    + apply obj_eqb_eq in E. subst k.
      assert (HactB2 : is_active B2 pick = negb (is_active b pick)).
      { change (is_active (flip b pick) pick = negb (is_active b pick)). apply is_active_flip; auto. }
      assert (HactF : is_active (flip B2 pick) pick = is_active b pick).
      { rewrite is_active_flip by (change (pick < length (mb_active (flip b pick)))%nat; rewrite flip_length; auto).
        rewrite HactB2. apply negb_involutive. }
      set (k := act_obj pick). set (pu := act_pu pick). set (v := mb_var b k).
      set (c := if negb (is_active b pick) then obj_cost k else - obj_cost k).
      assert (HX : mb_var X k = mkMV (mv_vals v) (mv_total v) (Some (mkMC pu (mv_vals v pu) (mv_vals v pu + c)))).
      { unfold X, k. rewrite observe_var_own. rewrite is_active_flip by auto. rewrite flip_var. reflexivity. }
      assert (HB2 : mb_var B2 k = mkMV (upd (mv_vals v) pu (mv_vals v pu + c)) (mv_total v + (mv_vals v pu + c - mv_vals v pu)) None).
      { unfold B2, accept_all; cbn [mb_var]. rewrite HX. reflexivity. }
      set (c' := if is_active b pick then obj_cost k else - obj_cost k).
      set (v2 := mb_var B2 k) in *.
      assert (HB4 : mb_var (accept_all (observe (flip B2 pick) pick)) k =
                    mkMV (upd (mv_vals v2) pu (mv_vals v2 pu + c')) (mv_total v2 + (mv_vals v2 pu + c' - mv_vals v2 pu)) None).
      { unfold accept_all at 1; cbn [mb_var]. unfold k. rewrite observe_var_own. rewrite HactF, flip_var. reflexivity. }
      rewrite HB4, HB2. cbn [mv_vals mv_total]. unfold upd. rewrite Nat.eqb_refl.
      split.
      * unfold c, c'. destruct (is_active b pick); simpl; lia.
      * intro pu0. destruct (Nat.eqb_spec pu0 pu) as [->|Hne]; [|reflexivity].
        unfold c, c'. destruct (is_active b pick); simpl; lia.
    + assert (Hk : k <> act_obj pick) by (intro; subst k; rewrite obj_eqb_refl in E; discriminate).
      rewrite accept_all_none.
      * rewrite observe_var_other by auto. rewrite flip_var. unfold B2. rewrite accept_all_none.
        -- unfold X. rewrite observe_var_other by auto. rewrite flip_var. auto.
        -- unfold X. rewrite observe_var_other by auto. rewrite flip_var. auto.
      * rewrite observe_var_other by auto. rewrite flip_var. unfold B2. rewrite accept_all_none;
          unfold X; rewrite observe_var_other by auto; rewrite flip_var; auto.
Qed.

Lemma modumb_undo_exact w hi pick w1 b :
  mw_step w hi (MTry pick) = Ok w1 -> hbody w hi = Some b -> settled b = true -> mb_active b <> [] ->
  exists w2 w3, mw_step w1 hi MAccept = Ok w2 /\ mw_step w2 hi MUndo = Ok w3 /\
    forall hj bj, hbody w hj = Some bj -> exists b3, hbody w3 hj = Some b3 /\ same_obs bj b3.
Proof.
  intros Ht Hb Hs Hne.
  unfold mw_step in Ht. destruct (nth_error (mw_handles w) hi) as [h|] eqn:Hh; [|discriminate].
  pose proof (nth_error_Some_lt _ _ _ Hh) as Hhi.
  apply hbody_Some in Hb. destruct Hb as (h0 & bi & Hh0 & Hptr & Hnb). rewrite Hh in Hh0. injection Hh0 as <-.
  pose proof (nth_error_Some_lt _ _ _ Hnb) as Hbi.
  destruct (m_try_shape w hi h pick w1 Hh Ht) as [[-> [Hnone|(bi' & b' & Hb' & Hnil)]]|(bi' & b' & Hb' & Hlt & ->)].
  - rewrite body_of_spec, Hptr, Hnb in Hnone. discriminate.
  - rewrite body_of_spec, Hptr, Hnb in Hb'. injection Hb' as <- <-. contradiction.
  - rewrite body_of_spec, Hptr, Hnb in Hb'. injection Hb' as <- <-.
    set (X := observe (flip b pick) pick).
    set (h1 := with_last h (LAct bi pick)).
    set (w1 := mw_set_handle (mw_set_body w bi X) hi h1).
    assert (Hh1 : nth_error (mw_handles w1) hi = Some h1).
    { unfold w1, mw_set_handle, mw_set_body; cbn [mw_handles]. apply nth_error_upd_nth_eq; auto. }
    assert (Hb1 : hbody w1 hi = Some X).
    { unfold hbody. rewrite Hh1. unfold h1, with_last; cbn [mh_body]. rewrite Hptr.
      unfold w1, mw_set_handle, mw_set_body; cbn [mw_bodies]. apply nth_error_upd_nth_eq; auto. }
    destruct (step_accept w1 hi X Hb1) as (h1' & bi1 & Hh1' & Hptr1 & Hnb1 & Hstep & Hb2).
    rewrite Hh1 in Hh1'. injection Hh1' as <-.
    assert (bi1 = bi) by (unfold h1, with_last in Hptr1; cbn [mh_body] in Hptr1; congruence). subst bi1.
    set (w2 := mw_set_body w1 bi (accept_all X)) in *.
    exists w2. eexists. split; [exact Hstep|]. split.
    + apply step_undo_own with (h := h1) (i := pick).
      * exact Hh1.
      * unfold h1, with_last; cbn [mh_body]. exact Hptr.
      * reflexivity.
      * unfold w2, mw_set_body; cbn [mw_bodies]. apply nth_error_upd_nth_eq.
        unfold w1, mw_set_handle, mw_set_body; cbn [mw_bodies]. rewrite upd_nth_length. auto.
    + unfold w2, w1, mw_set_handle, mw_set_body; cbn [mw_bodies mw_handles mw_params]. rewrite !upd_nth_twice.
      apply hbody_rel.
      * apply bodies_rel_upd with b; auto. apply same_obs_refl. apply undo_body_obs; auto.
      * apply ptrs_same_upd with h; auto.
Qed.

(* ---- which bodies an operation can touch: the handle's own and the one its last-applied action lives in ---- *)
Lemma modumb_step_touches w hi h o w' bj b :
  nth_error (mw_handles w) hi = Some h -> mw_step w hi o = Ok w' ->
  mh_body h <> Some bj -> (forall i, mh_last h <> LAct bj i) ->
  nth_error (mw_bodies w) bj = Some b -> nth_error (mw_bodies w') bj = Some b.
Proof.
  intros Hh Hstep Hown Hlast Hb. unfold mw_step in Hstep. rewrite Hh in Hstep.
  assert (Hset : forall w0 bi x, mh_body h = Some bi -> nth_error (mw_bodies w0) bj = Some b ->
                   nth_error (mw_bodies (mw_set_body w0 bi x)) bj = Some b).
  { intros w0 bi x Hp H0. unfold mw_set_body; cbn [mw_bodies]. rewrite nth_error_upd_nth_neq; auto. congruence. }
  assert (Hon : forall w0 f, nth_error (mw_bodies w0) bj = Some b -> nth_error (mw_bodies (on_own_body w0 h f)) bj = Some b).
  { intros w0 f H0. unfold on_own_body. destruct (body_of w0 h) as [[bi x]|] eqn:E; auto.
    apply body_of_Some in E. destruct E as [Hp _]. apply Hset; auto. }
  assert (Htog : forall w0 w1 ob, nth_error (mw_bodies w0) bj = Some b -> toggle_last w0 (mh_last h) ob = Ok w1 ->
                   nth_error (mw_bodies w1) bj = Some b).
  { intros w0 w1 ob H0. unfold toggle_last. destruct (mh_last h) as [| |bl i] eqn:El; try discriminate.
    - intro H. injection H as <-. auto.
    - destruct (nth_error (mw_bodies w0) bl) as [x|]; [|discriminate]. intro H. injection H as <-.
      unfold mw_set_body; cbn [mw_bodies]. rewrite nth_error_upd_nth_neq; auto. intro; subst bl. apply (Hlast i). reflexivity. }
  assert (Htry : forall pick w1, m_try w hi h pick = Ok w1 -> nth_error (mw_bodies w1) bj = Some b).
  { intros pick w1 Ht. destruct (m_try_shape w hi h pick w1 Hh Ht) as [[-> _]|(bi & x & Hx & _ & ->)]; auto.
    apply body_of_Some in Hx. destruct Hx as [Hp _].
    unfold mw_set_handle; cbn [mw_bodies]. apply Hset; auto. }
  destruct o.
  - injection Hstep as <-. auto.
  - destruct (fresh_body _) as [x|]; simpl in Hstep; [|discriminate]. injection Hstep as <-. cbn [mw_bodies].
    rewrite nth_error_app1; auto. eapply nth_error_Some_lt; eauto.
  - eapply Htry; eauto.
  - injection Hstep as <-. auto.
  - injection Hstep as <-. apply Hon. auto.
  - eapply Htog; [|exact Hstep]. apply Hon. auto.
  - destruct (m_try w hi h pick) as [w1|] eqn:Ht; simpl in Hstep; [|discriminate]. injection Hstep as <-.
    apply Hon. eapply Htry; eauto.
  - destruct (toggle_last w (mh_last h) true) as [w1|] eqn:Ht; simpl in Hstep; [|discriminate]. injection Hstep as <-.
    apply Hon. eapply Htog; eauto.
  - destruct (body_of w h) as [[bi x]|] eqn:E; [|discriminate]. apply body_of_Some in E. destruct E as [Hp _].
    destruct (Nat.ltb i (length (mb_active x))); [|discriminate].
    destruct (Bool.eqb (is_active x i) v); injection Hstep as <-; auto.
    unfold mw_set_handle; cbn [mw_bodies]. apply Hset; auto.
  - destruct (body_of w h) as [[bi x]|] eqn:E; [|discriminate]. apply body_of_Some in E. destruct E as [Hp _].
    destruct (Nat.ltb i (length (mb_active x))); [|discriminate]. injection Hstep as <-.
    unfold mw_set_handle; cbn [mw_bodies]. apply Hset; auto.
  - injection Hstep as <-. auto.
Qed.

Lemma settled_ext b y : mb_var b = mb_var y -> settled b = settled y.
Proof. intro H. unfold settled. rewrite H. reflexivity. Qed.

Lemma toggle_unobserved_vars w0 l w1 bj b :
  toggle_last w0 l false = Ok w1 -> nth_error (mw_bodies w1) bj = Some b ->
  exists y, nth_error (mw_bodies w0) bj = Some y /\ mb_var b = mb_var y.
Proof.
  unfold toggle_last. destruct l as [| |bl i]; try discriminate.
  - intro H. injection H as <-. intro Hb. exists b. auto.
  - destruct (nth_error (mw_bodies w0) bl) as [x|] eqn:Hx; [|discriminate]. intro H. injection H as <-.
    unfold mw_set_body; cbn [mw_bodies]. intro Hb.
    destruct (upd_nth_cases _ _ _ _ _ Hb) as [[-> ->]|Hold].
    + exists x. split; auto.
    + exists b. auto.
Qed.

(* a decision (accept / revert) leaves no proposal pending on the handle's body *)
Lemma modumb_decision_settles w hi o w' b :
  (o = MAccept \/ o = MRevert) -> mw_step w hi o = Ok w' -> hbody w' hi = Some b -> settled b = true.
Proof.
  intros Ho Hstep Hb'. unfold mw_step in Hstep. destruct (nth_error (mw_handles w) hi) as [h|] eqn:Hh; [|discriminate].
  apply hbody_Some in Hb'. destruct Hb' as (h' & bi & Hh' & Hptr' & Hnb').
  assert (Hown : forall f, mw_handles (on_own_body w h f) = mw_handles w).
  { intro f. unfold on_own_body. destruct (body_of w h) as [[bk x]|]; reflexivity. }
  assert (Hbody : forall f y, mh_body h = Some bi -> nth_error (mw_bodies (on_own_body w h f)) bi = Some y ->
                    exists x, y = f x).
  { intros f y Hp. unfold on_own_body. rewrite body_of_spec, Hp.
    destruct (nth_error (mw_bodies w) bi) as [x|] eqn:Hx.
    - unfold mw_set_body; cbn [mw_bodies]. rewrite nth_error_upd_nth_eq by (eapply nth_error_Some_lt; eauto).
      intro H. injection H as <-. exists x. reflexivity.
    - congruence. }
  destruct Ho as [-> | ->].
  - injection Hstep as <-. unfold m_accept in *. rewrite Hown in Hh'. rewrite Hh in Hh'. injection Hh' as <-.
    destruct (Hbody accept_all b Hptr' Hnb') as [x ->]. apply accept_all_settled.
  - destruct (toggle_last_shape _ _ _ _ Hstep) as [_ Hhs].
    rewrite Hhs, Hown, Hh in Hh'. injection Hh' as <-.
    destruct (toggle_unobserved_vars _ _ _ _ _ Hstep Hnb') as (y & Hy & Hvars).
    destruct (Hbody reject_all y Hptr' Hy) as [x ->].
    rewrite (settled_ext _ _ Hvars). apply reject_all_settled.
Qed.

(* =====================================================================================
   All interleavings: the clauses above hold in every world (dumb) / every well-formed world
   (modumb), hence after EVERY history of operations on any number of handles with any picks.
   ===================================================================================== *)
Lemma dumb_all_interleavings hist h up v :
  let w := dw_run dw_new hist in
  dw_value w h = Some v ->
  dw_value (dw_step w h (DTry up)) h = Some v /\
  dw_value (dw_step (dw_step w h (DTry up)) h DRevert) h = Some v /\
  (exists c, dw_change (dw_step w h (DTry up)) h = Some c /\ (c = 1000 \/ c = -1000) /\
             dw_value (dw_step (dw_step w h (DTry up)) h DAccept) h = Some (v + c)) /\
  (forall h' o, h' <> h -> dw_value (dw_step w h' o) h = Some v).
Proof.
  intros w Hv. split; [apply dw_propose_keeps_value; auto|]. split; [apply dw_revert_exact; auto|].
  split; [apply dw_accept_realises; auto|].
  intros h' o Hne. unfold dw_value in *. rewrite dw_handles_independent; auto.
  destruct (nth_error (dw_models w) h) eqn:E; [|discriminate]. eapply nth_error_Some_lt; eauto.
Qed.

Lemma modumb_all_interleavings hist w hi pick w1 b :
  mw_run mw_new hist = Ok w -> mw_step w hi (MTry pick) = Ok w1 -> hbody w hi = Some b ->
  (* unchanged while proposed, for every handle *)
  (forall hj bj, hbody w hj = Some bj -> exists b1, hbody w1 hj = Some b1 /\ same_values bj b1) /\
  (* revert restores every observable of every handle *)
  (exists w2, mw_step w1 hi MRevert = Ok w2 /\
     forall hj bj, hbody w hj = Some bj -> exists b2, hbody w2 hj = Some b2 /\ same_obs bj b2) /\
  (* accept = reported change *)
  (exists b1 w2 b2, hbody w1 hi = Some b1 /\ mw_step w1 hi MAccept = Ok w2 /\ hbody w2 hi = Some b2 /\
     mb_active b2 = mb_active b1 /\ settled b2 = true /\
     forall k, mv_total (mb_var b2 k) = mv_total (mb_var b k) + mv_change (mb_var b1 k)).
Proof.
  intros Hrun Ht Hb. pose proof (mw_run_wf hist mw_new w mw_new_wf Hrun) as Hwf.
  split; [apply (modumb_propose_keeps_values w hi pick w1 Ht)|].
  split; [apply (modumb_revert_exact w hi pick w1 Ht)|].
  destruct (modumb_propose_keeps_values w hi pick w1 Ht hi b Hb) as (b1 & Hb1 & _).
  destruct (modumb_accept_realises w hi pick w1 b b1 Hwf Ht Hb Hb1) as (w2 & b2 & H).
  exists b1, w2, b2. tauto.
Qed.
