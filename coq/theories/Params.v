(* C18 — executable model of the generic parameter machinery
     internal/pkg/parameters/Parameters.go
     internal/pkg/parameters/specification/{Specifications,Validators}.go
   transcribed from the code as it is.  No proofs in this file.

   Go                                             model
   ---------------------------------------------  ------------------------------------------
   interface{} value put in a parameters.Map      [value]   (dynamic type = constructor)
   SpecValidator function                         [vkind]   + [validate fs k v]
   Specification{Key,Validator,DefaultValue,      [spec]
                 IsOptional}
   Specifications (map keyed by Key; Add          [table] = list spec, [add_spec] replaces an
                 overwrites)                        existing entry with the same key
   Parameters.paramMap                            [pmap] = association list, first match wins
   Parameters.validationErrors                    list of [perror] (key + reason)
   p.paramMap[key].(T)  (getter)                  [getter T k m : res value]; missing key or other
                                                    dynamic type = failed type assertion = [Panic]
   os.OpenFile in IsReadableFile                  oracle [fs : string -> bool]
   range over a Go map (random order)             iteration in list order; the resulting map and the
                                                    MULTISET of errors do not depend on the order
                                                    (ParamsProofs.assign_all_perm_get / _errs)        *)
From Coq Require Import List ZArith QArith String Bool.
From Crem Require Import Base.Res.
Import ListNotations.
Open Scope string_scope.

(* ---- values that can sit in a parameters.Map (TOML decoding gives int64, float64, string, bool,
        []interface{}, map[string]interface{}, time.Time; Go callers can also put nil or any other type) *)
Inductive value :=
| VInt (z : Z)              (* int64 *)
| VFloat (q : Q)            (* finite float64, exact rational value (-0.0 = 0) *)
| VFloatNaN
| VFloatInf (neg : bool)    (* +Inf / -Inf *)
| VString (s : string)
| VBool (b : bool)
| VArray | VTable           (* []interface{}, map[string]interface{} *)
| VNil                      (* nil interface *)
| VOther.                   (* any other dynamic type: time.Time, int, int32, float32, ... *)

Inductive ty := TInt | TFloat | TString | TBool | TNone.

Definition ty_eqb (a b : ty) : bool :=
  match a, b with
  | TInt, TInt | TFloat, TFloat | TString, TString | TBool, TBool | TNone, TNone => true
  | _, _ => false
  end.

Definition type_of_value (v : value) : ty :=
  match v with
  | VInt _ => TInt
  | VFloat _ | VFloatNaN | VFloatInf _ => TFloat
  | VString _ => TString
  | VBool _ => TBool
  | VArray | VTable | VNil | VOther => TNone
  end.

(* ---- validators (Validators.go + the two component-local ones, as recognised by the translator) *)
Inductive vkind :=
| KDecimal                          (* IsDecimal *)
| KDecimalBetween (lo hi : Q)       (* IsDecimalWithInclusiveBounds(key, value, lo, hi) *)
| KInteger                          (* IsInteger *)
| KIntegerBetween (lo hi : Z)       (* IsIntegerWithInclusiveBounds(key, value, lo, hi) *)
| KString                           (* IsString *)
| KBoolean                          (* IsBoolean *)
| KReadableFile                     (* IsReadableFile: string + os.OpenFile succeeds *)
| KOneOf (l : list string).         (* string equal to one of the listed texts (isOptimisationDirection) *)

Definition type_of (k : vkind) : ty :=
  match k with
  | KDecimal | KDecimalBetween _ _ => TFloat
  | KInteger | KIntegerBetween _ _ => TInt
  | KString | KReadableFile | KOneOf _ => TString
  | KBoolean => TBool
  end.

(* `valueAsFloat < minValue || valueAsFloat > maxValue` => invalid.  For NaN both comparisons are false,
   so NaN is ACCEPTED by every bounded decimal validator (transcribed as it is); the bounds that occur are
   finite, so -Inf < lo and +Inf > hi are rejected. *)
Definition validate (fs : string -> bool) (k : vkind) (v : value) : bool :=
  match k, v with
  | KDecimal, (VFloat _ | VFloatNaN | VFloatInf _) => true
  | KDecimalBetween lo hi, VFloat q => Qle_bool lo q && Qle_bool q hi
  | KDecimalBetween _ _, VFloatNaN => true
  | KDecimalBetween _ _, VFloatInf _ => false
  | KInteger, VInt _ => true
  | KIntegerBetween lo hi, VInt z => (lo <=? z)%Z && (z <=? hi)%Z
  | KString, VString _ => true
  | KBoolean, VBool _ => true
  | KReadableFile, VString s => fs s
  | KOneOf l, VString s => existsb (String.eqb s) l
  | _, _ => false
  end.

(* ---- specification tables *)
Record spec := mkSpec { skey : string; svalidator : vkind; sdefault : value; soptional : bool }.

Definition table := list spec.

Fixpoint lookup (k : string) (t : table) : option spec :=
  match t with
  | [] => None
  | s :: t' => if String.eqb k (skey s) then Some s else lookup k t'
  end.

Definition keys (t : table) : list string := map skey t.

(* Specifications.Add: s[spec.Key] = spec  (overwrites) *)
Fixpoint add_spec (s : spec) (t : table) : table :=
  match t with
  | [] => [s]
  | x :: t' => if String.eqb (skey s) (skey x) then s :: t' else x :: add_spec s t'
  end.

Definition table_of (literals : list spec) : table :=
  fold_left (fun t s => add_spec s t) literals [].

(* Specifications.Validate + the IsValid() of its result *)
Definition validate_param (fs : string -> bool) (t : table) (k : string) (v : value) : bool :=
  match lookup k t with
  | Some s => validate fs (svalidator s) v
  | None => false                     (* NewSpecificationMissingError: isValid = false *)
  end.

(* ---- parameter map *)
Definition pmap := list (string * value).

Fixpoint get (k : string) (m : pmap) : option value :=
  match m with
  | [] => None
  | (k', v) :: m' => if String.eqb k k' then Some v else get k m'
  end.

Definition set (k : string) (v : value) (m : pmap) : pmap := (k, v) :: m.

Definition has_entry (k : string) (m : pmap) : bool :=
  match get k m with Some _ => true | None => false end.

(* p.paramMap[key].(T) *)
Definition getter (t : ty) (k : string) (m : pmap) : res value :=
  match get k m with
  | Some v => if ty_eqb (type_of_value v) t && negb (ty_eqb t TNone) then Ok v else Panic
  | None => Panic
  end.

(* ---- errors *)
Inductive reason := NotSupported | Rejected.
Definition perror := (string * reason)%type.

Definition error_of (t : table) (k : string) : perror :=
  match lookup k t with Some _ => (k, Rejected) | None => (k, NotSupported) end.

(* ---- CreatingDefaults *)
Definition creating_defaults (t : table) : pmap :=
  fold_left (fun m s => if soptional s then m else set (skey s) (sdefault s) m) t [].

(* ---- AssignAllUserValues / AssignOnlyEnforcedUserValues; state = (map, errors) *)
Definition pstate := (pmap * list perror)%type.

Definition assign_one (fs : string -> bool) (t : table) (st : pstate) (kv : string * value) : pstate :=
  if validate_param fs t (fst kv) (snd kv) then (set (fst kv) (snd kv) (fst st), snd st)
  else (fst st, error_of t (fst kv) :: snd st).

Definition assign_all (fs : string -> bool) (t : table) (user : pmap) (st : pstate) : pstate :=
  fold_left (assign_one fs t) user st.

Definition assign_enforced (fs : string -> bool) (t : table) (user : pmap) (st : pstate) : pstate :=
  fold_left (fun st s =>
               match get (skey s) user with
               | Some v => assign_one fs t st (skey s, v)
               | None => st
               end) t st.

Inductive variant := AssignAll | AssignEnforced.

Definition variant_eqb (a b : variant) : bool :=
  match a, b with AssignAll, AssignAll | AssignEnforced, AssignEnforced => true | _, _ => false end.

(* Initialise + Enforcing(specs) + Assign*UserValues(user) *)
Definition assign (fs : string -> bool) (vr : variant) (t : table) (user : pmap) : pstate :=
  match vr with
  | AssignAll => assign_all fs t user (creating_defaults t, [])
  | AssignEnforced => assign_enforced fs t user (creating_defaults t, [])
  end.

Definition reported (k : string) (errs : list perror) : bool :=
  existsb (fun e => String.eqb k (fst e)) errs.

(* ---- components as the translator (harness/astfacts) describes them in gen/Specs.v *)
Inductive ckind := CModel | COther.

Record site := mkSite { site_file : string; site_line : N; site_ty : ty; site_key : string; site_guarded : bool }.

Record component := mkComp {
  cname : string; ckind_of : ckind; cvariant : variant;
  cliterals : list spec;      (* the Specification{...} literals in the order they are Add()ed *)
  csites : list site }.

Definition ctable (c : component) : table := table_of (cliterals c).

Fixpoint nodupb (l : list string) : bool :=
  match l with
  | [] => true
  | x :: l' => negb (existsb (String.eqb x) l') && nodupb l'
  end.

(* "accepted up to the file-system oracle": the oracle answers yes *)
Definition fs_yes : string -> bool := fun _ => true.

(* a default that is stored (non-optional) has the validator's type and is accepted by its own validator
   (for IsReadableFile: is a string; whether the file is readable is the environment's business) *)
Definition default_ok (s : spec) : bool :=
  soptional s || validate fs_yes (svalidator s) (sdefault s).

Definition default_typed (s : spec) : bool :=
  soptional s || ty_eqb (type_of_value (sdefault s)) (type_of (svalidator s)).

Definition site_ok (t : table) (st : site) : bool :=
  match lookup (site_key st) t with
  | Some s => ty_eqb (site_ty st) (type_of (svalidator s)) && (negb (soptional s) || site_guarded st)
  | None => false
  end.

Definition model_reports_unknown (c : component) : bool :=
  match ckind_of c with CModel => variant_eqb (cvariant c) AssignAll | COther => true end.

Definition component_ok (c : component) : bool :=
  forallb default_ok (ctable c)
  && forallb (site_ok (ctable c)) (csites c)
  && model_reports_unknown c.
