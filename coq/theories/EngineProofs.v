(* EngineProofs.v -- lemmas about the engine model (Engine.v) for C14 and C15. *)
From Coq Require Import List String Ascii ZArith NArith QArith Bool Lia Arith.
From Crem Require Import Base.Res Engine.
Import ListNotations.
Open Scope string_scope.
Open Scope list_scope.
Open Scope nat_scope.

Section Proofs.
Context {V : Type}.
Notation state := (state V).
Notation request := (request V).
Notation mstate := (mstate V).
Notation snapshot := (snapshot V).
Notation desc := (desc V).
Notation outcome := (outcome V).

(* ------------------------------------------------------------------------------------------------ *)
(** * Attributes *)

Lemma fold_add_app : forall (inc acc : attrs),
  fold_left (fun acc p => a_add acc (fst p) (snd p)) inc acc = acc ++ inc.
Proof.
  induction inc as [|p inc IH]; intro acc; simpl.
  - now rewrite app_nil_r.
  - rewrite IH. unfold a_add. destruct p; simpl. now rewrite <- app_assoc.
Qed.

Lemma a_join_nil : forall l : attrs, a_join [] l = l.
Proof.
  intro l. unfold a_join.
  replace (fun (acc : attrs) (p : string * aval) =>
             if a_has [] (fst p) then a_replace acc (fst p) (snd p) else a_add acc (fst p) (snd p))
    with (fun (acc : attrs) (p : string * aval) => a_add acc (fst p) (snd p)).
  - now rewrite fold_add_app.
  - reflexivity.
Qed.

Lemma remove_last_some : forall (a : attrs) n v, In (n, v) a -> remove_last a n <> None.
Proof.
  induction a as [|[k w] a IH]; intros n v H; simpl.
  - destruct H.
  - destruct (remove_last a n) eqn:E; [discriminate|].
    destruct H as [H|H].
    + inversion H; subst. now rewrite String.eqb_refl.
    + exfalso. eapply IH; eauto.
Qed.

Lemma a_value_in : forall (a : attrs) n, a_value a n <> ANull -> exists v, In (n, v) a.
Proof.
  induction a as [|[k v] a IH]; intros n H; simpl in *.
  - congruence.
  - destruct (String.eqb k n) eqn:E.
    + apply String.eqb_eq in E; subst. exists v; now left.
    + destruct (IH n H) as [w Hw]. exists w; now right.
Qed.

Lemma ca_remove_ok : forall a n, exists a', ca_remove a n = Ok a'.
Proof.
  intros a n. unfold ca_remove. destruct (a_has a n) eqn:E; [|eauto].
  unfold a_remove. destruct (remove_last a n) eqn:L; [eauto|].
  exfalso. destruct (a_value_in a n) as [v Hv].
  { unfold a_has in E. destruct (a_value a n); simpl in E; congruence. }
  eapply remove_last_some; eauto.
Qed.

(* ------------------------------------------------------------------------------------------------ *)
(** * Tables *)

Definition soltable_ok (t : table) : Prop := table_wf t = true /\ 3 <= col_size t.

Lemma table_wf_rows : forall t, table_wf t = true ->
  0 < col_size t /\ Forall (fun r => List.length r = col_size t) (t_rows t).
Proof.
  intros t H. unfold table_wf in H. apply andb_true_iff in H. destruct H as [H1 H2]. split.
  - unfold col_size. destruct (List.length (t_header t)); simpl in H1; [discriminate|lia].
  - rewrite forallb_forall in H2. apply Forall_forall. intros r Hr. apply Nat.eqb_eq. now apply H2.
Qed.

Lemma front_scan_ok : forall enc col rows found,
  Forall (fun r : list cell => col < List.length r) rows -> exists b, front_scan enc col rows found = Ok b.
Proof.
  intros enc col rows. induction rows as [|r rows IH]; intros found H; simpl; [eauto|].
  inversion H as [|? ? Hr Hrs]; subst.
  destruct (nth_error r col) eqn:E.
  - now apply IH.
  - apply nth_error_None in E. lia.
Qed.

Lemma encoding_in_front_ok : forall t enc, soltable_ok t -> exists b, encoding_in_front t enc = Ok b.
Proof.
  intros t enc [Hwf Hc]. unfold encoding_in_front.
  destruct (table_wf_rows t Hwf) as [_ Hrows].
  destruct (t_rows t) as [|r0 rows] eqn:E; cbn [tl]; [eauto|].
  destruct rows as [|r1 rows]; [eauto|].
  destruct (Nat.ltb (col_size t) 2) eqn:L; [apply Nat.ltb_lt in L; lia|].
  apply front_scan_ok. inversion Hrows as [|? ? _ Hrs]; subst.
  eapply Forall_impl; [|exact Hrs]. cbv beta. intros r Hr. rewrite Hr. lia.
Qed.

Definition tbl_ok (tbl : option table) : Prop := forall t, tbl = Some t -> soltable_ok t.

Lemma derive_ok : forall tbl (m : mstate), tbl_ok tbl ->
  exists m', derive tbl m = Ok m' /\ m_desc m' = m_desc m /\ m_id m' = m_id m /\ m_bits m' = m_bits m.
Proof.
  intros tbl m Ht. unfold derive.
  destruct tbl as [t|]; simpl.
  - destruct (encoding_in_front_ok t (encode (m_bits m)) (Ht t eq_refl)) as [b Hb]. rewrite Hb. simpl.
    destruct (d_valid (m_desc m) (m_bits m)).
    + match goal with |- context[ca_remove ?a ?n] => destruct (ca_remove_ok a n) as [a' Ha]; rewrite Ha end.
      simpl. eexists; repeat split.
    + simpl. eexists; repeat split.
  - destruct (d_valid (m_desc m) (m_bits m)).
    + match goal with |- context[ca_remove ?a ?n] => destruct (ca_remove_ok a n) as [a' Ha]; rewrite Ha end.
      simpl. eexists; repeat split.
    + simpl. eexists; repeat split.
Qed.

(* ------------------------------------------------------------------------------------------------ *)
(** * Whole-table upload *)

Lemma set_matching_length : forall pu ty v acts bits, List.length (set_matching pu ty v acts bits) = List.length bits.
Proof.
  intros pu ty v acts. induction acts as [|[p t] acts IH]; intros [|b bits]; simpl; auto.
Qed.

Lemma process_cells_ok : forall acts c0 hdr cells bits,
  is_float_cell c0 = true -> forallb action_cell_ok cells = true -> List.length cells = List.length hdr ->
  exists bits', process_cells acts c0 hdr cells bits = Ok bits' /\ List.length bits' = List.length bits.
Proof.
  intros acts c0 hdr cells. revert hdr. induction cells as [|c cells IH]; intros hdr bits H0 Hc Hl; simpl.
  - exists bits; split; reflexivity.
  - destruct hdr as [|h hdr]; [simpl in Hl; discriminate|].
    simpl in Hc. apply andb_true_iff in Hc. destruct Hc as [Hc1 Hc2].
    destruct c as [f txt|b|s0]; simpl in Hc1; try discriminate.
    destruct acts as [|a acts'].
    + apply IH; auto.
    + destruct c0 as [f0 txt0|b0|s0]; simpl in H0; try discriminate.
      destruct (IH hdr (set_matching (pu_of_float f0) h (negb (float_is_zero f)) (a :: acts') bits) eq_refl Hc2) as [b' [Hb Hlen]].
      * simpl in Hl. lia.
      * exists b'. split; [exact Hb|]. rewrite Hlen. apply set_matching_length.
Qed.

Lemma process_rows_ok : forall acts hdr rows bits,
  hdr <> [] -> Forall (fun r : list cell => List.length r = List.length hdr) rows -> forallb row_ok rows = true ->
  exists bits', process_rows acts hdr rows bits = Ok bits' /\ List.length bits' = List.length bits.
Proof.
  intros acts hdr rows. induction rows as [|r rows IH]; intros bits Hh Hw Hr; simpl.
  - exists bits; split; reflexivity.
  - inversion Hw as [|? ? Hr1 Hrs]; subst. simpl in Hr. apply andb_true_iff in Hr. destruct Hr as [Hr0 Hr'].
    destruct r as [|c0 cells].
    + destruct hdr; [congruence|simpl in Hr1; discriminate].
    + simpl in Hr0. apply andb_true_iff in Hr0. destruct Hr0 as [Hf Hc].
      destruct (process_cells_ok acts c0 (tl hdr) cells bits Hf Hc) as [b1 [Hb1 Hl1]].
      * destruct hdr; [congruence|]. simpl in *. lia.
      * rewrite Hb1. simpl. destruct (IH b1 Hh Hrs Hr') as [b2 [Hb2 Hl2]]. exists b2. split; [exact Hb2|lia].
Qed.

Lemma update_sub_length : forall pu l acts bits, List.length (update_sub pu l acts bits) = List.length bits.
Proof.
  intros pu l acts. induction acts as [|[p t] acts IH]; intros [|b bits]; simpl; auto.
Qed.

(* ------------------------------------------------------------------------------------------------ *)
(** * Solution summaries *)

Lemma summary_cells_ok_total : forall hdr cells, List.length cells = List.length hdr -> exists b, summary_cells_ok hdr cells = Ok b.
Proof.
  intros hdr cells. revert hdr. induction cells as [|c cells IH]; intros hdr Hl; simpl; [eauto|].
  destruct hdr as [|h hdr]; [simpl in Hl; discriminate|].
  destruct (IH hdr) as [b Hb]; [simpl in Hl; lia|]. rewrite Hb. simpl. eauto.
Qed.

Lemma summary_rows_ok_total : forall hdr rows,
  Forall (fun r : list cell => List.length r = List.length hdr) rows -> exists b, summary_rows_ok hdr rows = Ok b.
Proof.
  intros hdr rows. induction rows as [|r rows IH]; intro H; simpl; [eauto|].
  inversion H as [|? ? Hr Hrs]; subst.
  destruct (summary_cells_ok_total (tl hdr) (tl r)) as [a Ha].
  { destruct r, hdr; simpl in *; lia. }
  rewrite Ha. simpl. destruct (IH Hrs) as [b Hb]. rewrite Hb. simpl. eauto.
Qed.

Lemma summary_table_ok_total : forall t, table_wf t = true -> exists b, summary_table_ok t = Ok b.
Proof.
  intros t Hwf. unfold summary_table_ok.
  destruct (Nat.ltb (col_size t) 3) eqn:L; [eauto|]. apply Nat.ltb_ge in L.
  unfold header_at, col_size in *.
  destruct (nth_error (t_header t) 0) eqn:E0; [|apply nth_error_None in E0; lia].
  destruct (nth_error (t_header t) (List.length (t_header t) - 2)) eqn:E1; [|apply nth_error_None in E1; lia].
  destruct (nth_error (t_header t) (List.length (t_header t) - 1)) eqn:E2; [|apply nth_error_None in E2; lia].
  simpl.
  destruct (table_wf_rows t Hwf) as [_ Hrows].
  destruct (summary_rows_ok_total (t_header t) (tl (t_rows t))) as [b Hb].
  { destruct (t_rows t); simpl; [constructor|]. now inversion Hrows. }
  rewrite Hb. simpl. eauto.
Qed.

Lemma summary_table_ok_true : forall t, summary_table_ok t = Ok true -> 3 <= col_size t.
Proof.
  intros t H. unfold summary_table_ok in H.
  destruct (Nat.ltb (col_size t) 3) eqn:L; [discriminate|]. now apply Nat.ltb_ge in L.
Qed.

Lemma asis_row_ok_total : forall asis k hdr cells,
  k <= List.length hdr -> k <= List.length cells -> exists b, asis_row_ok asis k hdr cells = Ok b.
Proof.
  intros asis k. induction k as [|k IH]; intros hdr cells Hh Hc; simpl; [eauto|].
  destruct hdr as [|h hdr]; [simpl in Hh; lia|]. destruct cells as [|c cells]; [simpl in Hc; lia|].
  destruct c as [f txt|b|s0]; eauto.
  destruct (lookup_q asis h); eauto.
  destruct f as [q0|nf]; eauto.
  destruct (Qeq_bool q0 q); eauto.
  apply IH; simpl in *; lia.
Qed.

Lemma verify_rows_total : forall asis hdr rows,
  List.length asis + 3 <= List.length hdr ->
  Forall (fun r : list cell => List.length r = List.length hdr) rows -> exists b, verify_rows asis hdr rows = Ok b.
Proof.
  intros asis hdr rows Hn. induction rows as [|r rows IH]; intro H; simpl; [eauto|].
  inversion H as [|? ? Hr Hrs]; subst.
  destruct r as [|c0 cells]; [simpl in Hr; lia|].
  destruct (String.eqb (cell_string_of c0) "As-Is").
  - destruct (asis_row_ok_total asis (List.length asis) (tl hdr) cells) as [b Hb].
    + destruct hdr; simpl in *; lia.
    + simpl in Hr. lia.
    + rewrite Hb. simpl. destruct b; [now apply IH|eauto].
  - now apply IH.
Qed.

Lemma actions_decode_total : forall n col rows,
  Forall (fun r : list cell => col < List.length r) rows -> exists b, actions_decode n col rows = Ok b.
Proof.
  intros n col rows. induction rows as [|r rows IH]; intro H; simpl; [eauto|].
  inversion H as [|? ? Hr Hrs]; subst.
  destruct (nth_error r col) eqn:E; [|apply nth_error_None in E; lia].
  destruct (decodes n (cell_string_of c)); [now apply IH|eauto].
Qed.

(* accepted means: no row has an Actions cell that fails to decode *)
Definition has_undecodable (n : nat) (t : table) : bool :=
  existsb (fun r => match nth_error r (col_size t - 2) with
                    | Some c => negb (decodes n (cell_string_of c))
                    | None => false
                    end) (t_rows t).

Lemma actions_decode_true : forall n col rows, actions_decode n col rows = Ok true ->
  existsb (fun r => match nth_error r col with Some c => negb (decodes n (cell_string_of c)) | None => false end) rows = false.
Proof.
  intros n col rows. induction rows as [|r rows IH]; intro H; simpl in *; [reflexivity|].
  destruct (nth_error r col); [|discriminate].
  destruct (decodes n (cell_string_of c)); [simpl; now apply IH|discriminate].
Qed.

Lemma verify_summary_total : forall (d : desc) t, table_wf t = true -> exists b, verify_summary d t = Ok b.
Proof.
  intros d t Hwf. unfold verify_summary.
  destruct (Nat.ltb (col_size t) (List.length (d_asis d) + 3)) eqn:L; [eauto|]. apply Nat.ltb_ge in L.
  destruct (table_wf_rows t Hwf) as [_ Hrows].
  destruct (actions_decode_total (List.length (d_actions d)) (col_size t - 2) (t_rows t)) as [b Hb].
  { eapply Forall_impl; [|exact Hrows]. cbv beta. intros r Hr. rewrite Hr. lia. }
  rewrite Hb. simpl. destruct b; simpl; [now apply verify_rows_total|eauto].
Qed.

Lemma verify_summary_true : forall (d : desc) t, verify_summary d t = Ok true ->
  has_undecodable (List.length (d_actions d)) t = false.
Proof.
  intros d t H. unfold verify_summary in H.
  destruct (Nat.ltb (col_size t) (List.length (d_asis d) + 3)); [discriminate|].
  unfold res_bind in H.
  destruct (actions_decode (List.length (d_actions d)) (col_size t - 2) (t_rows t)) as [b|] eqn:E; [|discriminate].
  destruct b; [|discriminate]. unfold has_undecodable. now apply actions_decode_true.
Qed.

Lemma label_row_total : forall label rows,
  Forall (fun r : list cell => 0 < List.length r) rows ->
  exists o, label_row label rows = Ok o /\ (forall r, o = Some r -> In r rows).
Proof.
  intros label rows. induction rows as [|r rows IH]; intro H; simpl.
  - exists None. split; [reflexivity|discriminate].
  - inversion H as [|? ? Hr Hrs]; subst. destruct r as [|c0 cs]; [simpl in Hr; lia|].
    destruct (String.eqb (cell_string_of c0) label).
    + eexists; split; [reflexivity|]. intros r Heq; inversion Heq; now left.
    + destruct (IH Hrs) as [o [Ho Hin]]. exists o. split; [exact Ho|]. intros r Heq. right. now apply Hin.
Qed.

(* ------------------------------------------------------------------------------------------------ *)
(** * Decoding *)

Lemma words_to_bits_length : forall n ws, List.length (words_to_bits n ws) = n.
Proof. intros. unfold words_to_bits. now rewrite map_length, seq_length. Qed.

Lemma words_of_bits_length : forall fuel bs, List.length (words_of_bits fuel bs) = fuel.
Proof. induction fuel; intros; simpl; auto. Qed.

(* the verdict of Decode does not depend on the archive it is decoded into (validatePatchAttributes decodes into a
   scratch archive, the application loop into the clone's) *)
Lemma decode_flag : forall n cur cur' e,
  List.length cur = n -> List.length cur' = n -> fst (decode n cur e) = fst (decode n cur' e).
Proof.
  intros n cur cur' e _ _. unfold decode.
  destruct (negb (Nat.eqb (List.length (split_colon e)) (archive_len n))); [reflexivity|].
  destruct (parse_all (split_colon e)); reflexivity.
Qed.

Lemma decode_length : forall n cur e ok bits, List.length cur = n -> decode n cur e = (ok, bits) -> List.length bits = n.
Proof.
  intros n cur e ok bits H D. unfold decode in D.
  destruct (negb (Nat.eqb (List.length (split_colon e)) (archive_len n))).
  - inversion D as [[Hok Hb]]. rewrite <- Hb. exact H.
  - destruct (parse_all (split_colon e)); inversion D as [[Hok Hb]]; [apply words_to_bits_length|rewrite <- Hb; exact H].
Qed.

(* a rejected encoding leaves the archive as it was *)
Lemma decode_rejected_keeps : forall n cur e bits, decode n cur e = (false, bits) -> bits = cur.
Proof.
  intros n cur e bits D. unfold decode in D.
  destruct (negb (Nat.eqb (List.length (split_colon e)) (archive_len n))); [now inversion D|].
  destruct (parse_all (split_colon e)); inversion D. reflexivity.
Qed.

Lemma repeat_length' : forall (A : Type) (x : A) n, List.length (repeat x n) = n.
Proof. intros. apply repeat_length. Qed.

(* ------------------------------------------------------------------------------------------------ *)
(** * The invariant of the reachable states *)

Definition Loaded (s : state) : Prop :=
  exists t n m p, st_text s = Some t /\ st_name s = Some n /\ st_model s = Some m /\ st_pool s = Some p
    /\ st_snap s = Some (snapshot_of m) /\ m_id m = n /\ List.length (m_bits m) = List.length (d_actions (m_desc m)).
Definition Empty (s : state) : Prop :=
  st_text s = None /\ st_name s = None /\ st_model s = None /\ st_snap s = None /\ st_pool s = None
  /\ st_soltext s = None /\ st_soltable s = None.
Definition Inv (s : state) : Prop :=
  (Empty s \/ Loaded s) /\ tbl_ok (st_soltable s) /\ (st_soltext s = None <-> st_soltable s = None).

Lemma Inv_init : Inv init_state.
Proof.
  split; [left; repeat split|]. split; [intros t H; discriminate|]. split; reflexivity.
Qed.

(* patch: once validated, the application loop never answers with an error *)
Lemma patch_apply_ok : forall tbl l (m : mstate) sn,
  tbl_ok tbl -> List.length (m_bits m) = List.length (d_actions (m_desc m)) ->
  patch_valid (List.length (d_actions (m_desc m))) l = true ->
  exists m' sn', patch_apply tbl l m sn = Ok (Some (m', sn'))
    /\ m_desc m' = m_desc m /\ m_id m' = m_id m /\ List.length (m_bits m') = List.length (d_actions (m_desc m')).
Proof.
  intros tbl l. induction l as [|[k v] l IH]; intros m sn Ht Hl Hv; simpl.
  - exists m, sn. repeat split; auto.
  - cbn [patch_valid] in Hv. destruct (engine_maintained k); [discriminate|].
    destruct (String.eqb k "Encoding") eqn:Ek.
    + destruct v as [|b|e|o]; try discriminate. apply andb_true_iff in Hv. destruct Hv as [Hd Hv].
      destruct (decode (List.length (d_actions (m_desc m))) (m_bits m) e) as [ok bits] eqn:D.
      assert (ok = true) as ->.
      { unfold decodes in Hd.
        rewrite (decode_flag _ _ (m_bits m) e (repeat_length' _ _ _) Hl) in Hd. now rewrite D in Hd. }
      pose proof (decode_length _ _ _ _ _ Hl D) as Hbl.
      match goal with |- context[derive tbl ?m0] => destruct (derive_ok tbl m0 Ht) as [m1 [Hm1 [Hd1 [Hi1 Hb1]]]]; rewrite Hm1 end.
      simpl in *.
      destruct (IH m1 (snapshot_of m1) Ht) as [m2 [sn2 [H2 [Hd2 [Hi2 Hl2]]]]].
      * rewrite Hb1, Hd1. exact Hbl.
      * rewrite Hd1. exact Hv.
      * exists m2, sn2. split; [exact H2|]. rewrite Hd2, Hi2, Hd1, Hi1. repeat split; auto. rewrite <- Hd1, <- Hd2. exact Hl2.
    + now apply IH.
Qed.

(* ------------------------------------------------------------------------------------------------ *)
(** * Shape of every answer (no invariant needed)                                                    *)

Definition is_error_response (r : response V) : Prop :=
  r = error_response 400 \/ r = error_response 404 \/ r = error_response 405 \/ r = error_response 415.
Definition is_ok_response (r : response V) : Prop :=
  rs_status r = 200 /\
  match rs_ctype r, rs_body r with
  | CtJson, BErr => False
  | CtJson, BText _ => False
  | CtJson, _ => True                 (* a value handed to the JSON marshaller *)
  | CtToml, BText _ => True           (* the stored bytes *)
  | CtCsv, BText _ => True
  | _, _ => False
  end.

Ltac inv_ok H := inversion H; subst; try clear H.
Ltac break_in H :=
  repeat match type of H with
         | context[match ?x with _ => _ end] => destruct x eqn:?; try discriminate
         end.

Ltac shape_tac H :=
  unfold respond, fail, res_bind, need_name in H; break_in H; inv_ok H;
  first [ right; split; [reflexivity | simpl; exact I]
        | left; unfold is_error_response; auto 6 ].

Lemma handle_shape : forall (s : state) (r : request) resp s',
  handle s r = Ok (resp, s') -> is_error_response resp \/ is_ok_response resp.
Proof.
  intros s r resp s' H. unfold handle in H.
  destruct (rq_route r); destruct (rq_meth r);
    try solve [unfold fail in H; inv_ok H; left; unfold is_error_response; auto 6].
  - unfold get_scenario in H. shape_tac H.
  - unfold post_scenario in H. shape_tac H.
  - unfold get_solutions in H. shape_tac H.
  - unfold post_solutions in H. shape_tac H.
  - unfold get_solution in H. shape_tac H.
  - unfold get_model in H. shape_tac H.
  - unfold patch_model in H. shape_tac H.
  - unfold get_applicable in H. shape_tac H.
  - unfold get_active in H. shape_tac H.
  - unfold put_active in H. shape_tac H.
  - unfold get_subcatchment in H. shape_tac H.
  - unfold put_subcatchment in H. shape_tac H.
Qed.

(* ------------------------------------------------------------------------------------------------ *)
(** * Every handler returns, keeps the invariant, and leaves the state alone unless it answers 200   *)

Definition spec (s : state) (o : outcome) : Prop :=
  exists resp s', o = Ok (resp, s') /\ Inv s' /\ (rs_status resp <> 200 -> s' = s).
Definition spec_read (s : state) (o : outcome) : Prop := exists resp, o = Ok (resp, s).

Lemma spec_of_read : forall s o, Inv s -> spec_read s o -> spec s o.
Proof. intros s o HI [resp ->]. exists resp, s. auto. Qed.

Lemma spec_fail : forall s code, Inv s -> spec s (fail code s).
Proof. intros s code HI. exists (error_response code), s. auto. Qed.

Ltac use_inv HI :=
  let HE := fresh "HE" in let HT := fresh "HT" in let HS := fresh "HS" in
  destruct HI as [[HE | HE] [HT HS]];
  [ destruct HE as (Et & En & Em & Esn & Ep & Est & Esb)
  | destruct HE as (t0 & n0 & m0 & p0 & Et & En & Em & Ep & Esn & Eid & Elen) ].

Lemma get_scenario_read : forall s, Inv s -> spec_read s (get_scenario s).
Proof.
  intros s HI. unfold get_scenario, spec_read, need_name, fail, respond. use_inv HI; rewrite Et; [eauto|].
  rewrite En. simpl. eauto.
Qed.
Lemma get_model_read : forall s, Inv s -> spec_read s (get_model s).
Proof.
  intros s HI. unfold get_model, spec_read, need_name, fail, respond. use_inv HI; rewrite Esn; [eauto|].
  rewrite En. simpl. eauto.
Qed.
Lemma get_active_read : forall s, Inv s -> spec_read s (get_active s).
Proof.
  intros s HI. unfold get_active, spec_read, need_name, fail, respond. use_inv HI; rewrite Esn; [eauto|].
  rewrite En. simpl. eauto.
Qed.
Lemma get_applicable_read : forall s, Inv s -> spec_read s (get_applicable s).
Proof.
  intros s HI. unfold get_applicable, spec_read, need_name, fail, respond. use_inv HI; rewrite Esn; [eauto|].
  rewrite En. simpl. eauto.
Qed.
Lemma get_subcatchment_read : forall s id, Inv s -> spec_read s (get_subcatchment s id).
Proof.
  intros s id HI. unfold get_subcatchment, spec_read, need_name, fail, respond. use_inv HI; rewrite Esn; [eauto|].
  destruct id as [pu|]; [|eauto]. destruct (negb (model_contains (snapshot_of m0) pu)); [eauto|].
  rewrite En. simpl. eauto.
Qed.
Lemma get_solutions_read : forall s, Inv s -> spec_read s (get_solutions s).
Proof.
  intros s HI. unfold get_solutions, spec_read, need_name, fail, respond. use_inv HI; rewrite Et; [eauto|].
  destruct (st_soltext s); [|eauto]. rewrite En. simpl. eauto.
Qed.

Lemma Loaded_with_model : forall (s : state) (m m' : mstate),
  Loaded s -> st_model s = Some m -> m_id m' = m_id m -> m_desc m' = m_desc m ->
  List.length (m_bits m') = List.length (d_actions (m_desc m')) ->
  Loaded (with_model s m' (snapshot_of m')).
Proof.
  intros s m m' (t0 & n0 & m0 & p0 & Et & En & Em & Ep & Esn & Eid & Elen) Hm Hid Hd Hl.
  rewrite Em in Hm. inversion Hm; subst m0.
  exists t0, n0, m', p0. unfold with_model; simpl. repeat split; auto. congruence.
Qed.

Lemma Inv_with_model : forall (s : state) (m m' : mstate),
  Inv s -> Loaded s -> st_model s = Some m -> m_id m' = m_id m -> m_desc m' = m_desc m ->
  List.length (m_bits m') = List.length (d_actions (m_desc m')) ->
  Inv (with_model s m' (snapshot_of m')).
Proof.
  intros s m m' [_ [HT HS]] HL Hm Hid Hd Hl. split; [right; eapply Loaded_with_model; eauto|].
  unfold with_model; simpl. split; assumption.
Qed.

Lemma post_scenario_spec : forall s r, Inv s -> wf_request r = true -> spec s (post_scenario s r).
Proof.
  intros s r HI Hwf. unfold post_scenario.
  destruct (rq_ctype r); try (now apply spec_fail).
  unfold wf_request in Hwf. apply andb_true_iff in Hwf. destruct Hwf as [Hwf Hj]. apply andb_true_iff in Hwf. destruct Hwf as [Hc Ht].
  destruct (rq_toml r) as [|name mv|]; try (now apply spec_fail); [|simpl in Ht; discriminate].
  destruct mv as [| | |d|]; try (now apply spec_fail); [|simpl in Ht; discriminate].
  assert (HT : tbl_ok (@None table)) by (intros t0 Ht0; discriminate).
  match goal with |- context[derive _ ?m0] => destruct (derive_ok None m0 HT) as [m1 [Hm1 [Hd1 [Hi1 Hb1]]]]; rewrite Hm1 end.
  simpl. eexists _, _. split; [reflexivity|]. split; [|intro H; simpl in H; congruence].
  split; [|split; simpl; [exact HT|split; reflexivity]].
  right. exists (rq_raw r), name, m1, []. simpl. repeat split; auto.
  rewrite Hb1, Hd1. simpl. unfold all_false. apply repeat_length.
Qed.

Lemma patch_model_spec : forall s r, Inv s -> wf_request r = true -> spec s (patch_model s r).
Proof.
  intros s r HI Hwf. unfold patch_model.
  pose proof HI as HI0. use_inv HI; rewrite Esn; [now apply spec_fail|].
  destruct (rq_ctype r); try (now apply spec_fail).
  unfold wf_request in Hwf. apply andb_true_iff in Hwf. destruct Hwf as [_ Hj].
  destruct (rq_json r) as [|l|]; [now apply spec_fail| |simpl in Hj; discriminate].
  rewrite Em.
  destruct (patch_valid (List.length (d_actions (m_desc m0))) l) eqn:Hv; simpl; [|now apply spec_fail].
  match goal with |- context[patch_apply _ l ?mj ?sn] =>
    destruct (patch_apply_ok (st_soltable s) l mj sn HT Elen Hv) as [m2 [sn2 [H2 [Hd2 [Hi2 Hl2]]]]]; rewrite H2 end.
  simpl. destruct (derive_ok (st_soltable s) m2 HT) as [m3 [Hm3 [Hd3 [Hi3 Hb3]]]]. rewrite Hm3. simpl.
  eexists _, _. split; [reflexivity|]. split; [|intro H; simpl in H; congruence].
  assert (HL : Loaded s) by (exists t0, n0, m0, p0; repeat split; auto).
  apply (Inv_with_model s m0 m3 HI0 HL Em).
  - simpl in *. congruence.
  - simpl in *. congruence.
  - rewrite Hb3, Hd3. exact Hl2.
Qed.

Lemma put_active_spec : forall s r, Inv s -> wf_request r = true -> spec s (put_active s r).
Proof.
  intros s r HI Hwf. unfold put_active.
  pose proof HI as HI0. use_inv HI; rewrite Esn; [now apply spec_fail|].
  destruct (rq_ctype r); try (now apply spec_fail).
  unfold wf_request in Hwf. apply andb_true_iff in Hwf. destruct Hwf as [Hwf _]. apply andb_true_iff in Hwf. destruct Hwf as [Hc _].
  destruct (rq_csv r) as [|t|]; [now apply spec_fail| |simpl in Hc; discriminate].
  simpl in Hc. destruct (table_wf_rows t Hc) as [Hcol Hrows].
  unfold actions_table_ok, header_at.
  destruct (nth_error (t_header t) 0) eqn:E0; [|apply nth_error_None in E0; unfold col_size in Hcol; lia].
  simpl. destruct (negb (String.eqb s0 "SubCatchment")); simpl; [now apply spec_fail|].
  destruct (forallb row_ok (t_rows t)) eqn:Hrow; simpl; [|now apply spec_fail].
  rewrite Em.
  destruct (process_rows_ok (d_actions (m_desc m0)) (t_header t) (t_rows t) (m_bits m0)) as [bits [Hb Hbl]]; auto.
  { intro Hn. rewrite Hn in E0. discriminate. }
  rewrite Hb. simpl.
  match goal with |- context[derive _ ?mm] => destruct (derive_ok (st_soltable s) mm HT) as [m1 [Hm1 [Hd1 [Hi1 Hb1]]]]; rewrite Hm1 end.
  simpl. eexists _, _. split; [reflexivity|]. split; [|intro H; simpl in H; congruence].
  assert (HL : Loaded s) by (exists t0, n0, m0, p0; repeat split; auto).
  apply (Inv_with_model s m0 m1 HI0 HL Em); [exact Hi1|exact Hd1|].
  rewrite Hb1, Hd1. simpl. lia.
Qed.

Lemma put_subcatchment_spec : forall s id r, Inv s -> wf_request r = true -> spec s (put_subcatchment s id r).
Proof.
  intros s id r HI Hwf. unfold put_subcatchment.
  pose proof HI as HI0. use_inv HI; rewrite Esn; [now apply spec_fail|].
  destruct id as [pu|]; [|now apply spec_fail].
  destruct (negb (model_contains (snapshot_of m0) pu)); [now apply spec_fail|].
  unfold need_name. rewrite En. simpl.
  unfold wf_request in Hwf. apply andb_true_iff in Hwf. destruct Hwf as [_ Hj].
  destruct (rq_json r) as [|l|]; [now apply spec_fail| |simpl in Hj; discriminate].
  destruct (negb (syntax_ok l)); [now apply spec_fail|].
  rewrite Em.
  destruct (negb (supported (d_actions (m_desc m0)) pu l)); [now apply spec_fail|].
  match goal with |- context[derive _ ?mm] => destruct (derive_ok (st_soltable s) mm HT) as [m1 [Hm1 [Hd1 [Hi1 Hb1]]]]; rewrite Hm1 end.
  simpl. eexists _, _. split; [reflexivity|]. split; [|intro H; simpl in H; congruence].
  assert (HL : Loaded s) by (exists t0, n0, m0, p0; repeat split; auto).
  apply (Inv_with_model s m0 m1 HI0 HL Em); [exact Hi1|exact Hd1|].
  rewrite Hb1, Hd1. simpl. rewrite update_sub_length. exact Elen.
Qed.

Lemma post_solutions_spec : forall s r, Inv s -> wf_request r = true -> spec s (post_solutions s r).
Proof.
  intros s r HI Hwf. unfold post_solutions.
  pose proof HI as HI0. use_inv HI; rewrite Et; [now apply spec_fail|].
  destruct (rq_ctype r); try (now apply spec_fail).
  unfold wf_request in Hwf. apply andb_true_iff in Hwf. destruct Hwf as [Hwf _]. apply andb_true_iff in Hwf. destruct Hwf as [Hc _].
  destruct (rq_csv r) as [|t|]; [now apply spec_fail| |simpl in Hc; discriminate].
  simpl in Hc.
  destruct (summary_table_ok_total t Hc) as [ok Hok]. rewrite Hok. simpl.
  destruct ok; simpl; [|now apply spec_fail].
  rewrite Em.
  destruct (verify_summary_total (m_desc m0) t Hc) as [same Hsame]. rewrite Hsame. simpl.
  destruct same; simpl; [|now apply spec_fail].
  unfold need_name. rewrite En. simpl.
  eexists _, _. split; [reflexivity|]. split; [|intro H; simpl in H; congruence].
  split; [right; exists t0, n0, m0, []; simpl; rewrite Ep; simpl; repeat split; auto|].
  simpl. split.
  - intros t' Ht'. inversion Ht'; subst. split; [exact Hc|]. now apply summary_table_ok_true.
  - split; discriminate.
Qed.

Lemma get_solution_spec : forall s label, Inv s -> spec s (get_solution s label).
Proof.
  intros s label HI. unfold get_solution.
  pose proof HI as HI0. use_inv HI; rewrite En; [now apply spec_fail|].
  destruct (st_soltable s) as [t|] eqn:Etbl; [|now apply spec_fail].
  destruct (HT t eq_refl) as [Hwf Hcol]. destruct (table_wf_rows t Hwf) as [_ Hrows].
  destruct (label_row_total label (t_rows t)) as [o [Ho Hin]].
  { eapply Forall_impl; [|exact Hrows]. cbv beta. intros a Ha. rewrite Ha. lia. }
  rewrite Ho. simpl. destruct o as [row|]; [|now apply spec_fail].
  rewrite Ep, Em.
  destruct (String.eqb label "As-Is"); [apply spec_of_read; [exact HI0|eexists; reflexivity]|].
  destruct (pool_find p0 label); [apply spec_of_read; [exact HI0|eexists; reflexivity]|].
  destruct (Nat.ltb (col_size t) 2) eqn:L; [apply Nat.ltb_lt in L; lia|].
  assert (Hrl : List.length row = col_size t).
  { rewrite Forall_forall in Hrows. apply Hrows. now apply Hin. }
  destruct (nth_error row (col_size t - 2)) eqn:E1; [|apply nth_error_None in E1; lia].
  destruct (nth_error row (col_size t - 1)) eqn:E2; [|apply nth_error_None in E2; lia].
  eexists _, _. split; [reflexivity|]. split; [|intro H; simpl in H; congruence].
  split; [right; eexists t0, n0, m0, _; simpl; repeat split; eauto|].
  simpl. split; assumption.
Qed.

Lemma handle_spec : forall s r, Inv s -> wf_request r = true -> spec s (handle s r).
Proof.
  intros s r HI Hwf. unfold handle.
  destruct (rq_route r); destruct (rq_meth r); try (now apply spec_fail).
  - apply spec_of_read; [exact HI|now apply get_scenario_read].
  - now apply post_scenario_spec.
  - apply spec_of_read; [exact HI|now apply get_solutions_read].
  - now apply post_solutions_spec.
  - now apply get_solution_spec.
  - apply spec_of_read; [exact HI|now apply get_model_read].
  - now apply patch_model_spec.
  - apply spec_of_read; [exact HI|now apply get_applicable_read].
  - apply spec_of_read; [exact HI|now apply get_active_read].
  - now apply put_active_spec.
  - apply spec_of_read; [exact HI|now apply get_subcatchment_read].
  - now apply put_subcatchment_spec.
Qed.

(* ------------------------------------------------------------------------------------------------ *)
(** * Runs                                                                                           *)

Definition reachable (s : state) : Prop := exists rs : list request, forallb wf_request rs = true /\ run init_state rs = Ok s.

Lemma run_spec : forall (rs : list request) s, Inv s -> forallb wf_request rs = true -> exists s', run s rs = Ok s' /\ Inv s'.
Proof.
  induction rs as [|r rs IH]; intros s HI Hwf; simpl.
  - eauto.
  - simpl in Hwf. apply andb_true_iff in Hwf. destruct Hwf as [Hr Hrs].
    destruct (handle_spec s r HI Hr) as (resp & s1 & H1 & HI1 & _). rewrite H1. now apply IH.
Qed.

Lemma reachable_Inv : forall s, reachable s -> Inv s.
Proof.
  intros s (rs & Hwf & Hrun). destruct (run_spec rs init_state Inv_init Hwf) as (s' & Hs' & HI). congruence.
Qed.

Lemma run_never_panics : forall rs : list request, forallb wf_request rs = true -> exists s : state, run init_state rs = Ok s.
Proof. intros rs Hwf. destruct (run_spec rs init_state Inv_init Hwf) as (s & Hs & _). eauto. Qed.

Lemma handle_returns : forall s r, reachable s -> wf_request r = true -> exists resp s', handle s r = Ok (resp, s').
Proof.
  intros s r Hs Hr. destruct (handle_spec s r (reachable_Inv s Hs) Hr) as (resp & s' & H & _). eauto.
Qed.

Lemma error_leaves_state : forall s r resp s', reachable s -> wf_request r = true ->
  handle s r = Ok (resp, s') -> rs_status resp <> 200 -> s' = s.
Proof.
  intros s r resp s' Hs Hr H Hst.
  destruct (handle_spec s r (reachable_Inv s Hs) Hr) as (resp1 & s1 & H1 & _ & Hsame).
  rewrite H in H1. inversion H1; subst. now apply Hsame.
Qed.

Lemma status_documented : forall (s : state) (r : request) resp s',
  handle s r = Ok (resp, s') -> In (rs_status resp) [200; 400; 404; 405; 415; 500; 503].
Proof.
  intros s r resp s' H. destruct (handle_shape s r resp s' H) as [[E|[E|[E|E]]]|[E _]]; try rewrite E; simpl; auto 8.
Qed.

Lemma error_is_json_document : forall (s : state) (r : request) resp s',
  handle s r = Ok (resp, s') -> rs_status resp <> 200 -> rs_ctype resp = CtJson /\ rs_body resp = BErr.
Proof.
  intros s r resp s' H Hst. destruct (handle_shape s r resp s' H) as [[E|[E|[E|E]]]|[E _]]; try (rewrite E; split; reflexivity).
  congruence.
Qed.

Lemma ok_is_not_error_document : forall (s : state) (r : request) resp s',
  handle s r = Ok (resp, s') -> rs_status resp = 200 -> rs_body resp <> BErr.
Proof.
  intros s r resp s' H Hst. destruct (handle_shape s r resp s' H) as [[E|[E|[E|E]]]|[_ E]];
    try (rewrite E in Hst; simpl in Hst; discriminate).
  intro Hb. rewrite Hb in E. destruct (rs_ctype resp); exact E.
Qed.

(* what is declared as JSON is a value that went through the JSON marshaller (never the stored bytes); the stored
   bytes are only ever sent with the TOML / CSV content type, unchanged (Response.writeBody is fmt.Fprint) *)
Lemma json_bodies_are_marshalled : forall (s : state) (r : request) resp s',
  handle s r = Ok (resp, s') ->
  match rs_ctype resp with
  | CtJson => match rs_body resp with BText _ => False | _ => True end
  | CtToml | CtCsv => exists t, rs_body resp = BText t
  | CtOther => False
  end.
Proof.
  intros s r resp s' H. destruct (handle_shape s r resp s' H) as [[E|[E|[E|E]]]|[_ E]]; try (rewrite E; exact I).
  destruct (rs_ctype resp), (rs_body resp); simpl in *; try contradiction; try exact I; eauto.
Qed.

(* a summary with an Actions cell that does not decode for the loaded scenario is refused: never 200 (hence, by
   [error_is_json_document], an error document), whatever the state; in a reachable state nothing changes *)
Lemma undecodable_encoding_refused : forall (s : state) (r : request) t resp s',
  rq_route r = RSolutions -> rq_meth r = MPost -> rq_csv r = CsvOk t ->
  (forall m, st_model s = Some m -> has_undecodable (List.length (d_actions (m_desc m))) t = true) ->
  handle s r = Ok (resp, s') -> rs_status resp <> 200.
Proof.
  intros s r t resp s' Hr Hm Hc Hu H. unfold handle in H. rewrite Hr, Hm in H. unfold post_solutions in H. rewrite Hc in H.
  unfold fail, respond, res_bind, need_name in H.
  destruct (st_text s); [|inversion H; simpl; discriminate].
  destruct (rq_ctype r); try (inversion H; simpl; discriminate).
  destruct (summary_table_ok t) as [ok|]; [|discriminate].
  destruct ok; simpl in H; [|inversion H; simpl; discriminate].
  destruct (st_model s) as [m|] eqn:Em; [|discriminate].
  destruct (verify_summary (m_desc m) t) as [same|] eqn:Ev; [|discriminate].
  destruct same; simpl in H.
  - apply verify_summary_true in Ev. rewrite (Hu m eq_refl) in Ev. discriminate.
  - inversion H; simpl; discriminate.
Qed.

(* without the hypothesis that the library calls return, the statement is false of the model *)
Definition lib_panic_request : request :=
  {| rq_meth := MPost; rq_route := RScenario; rq_ctype := CtToml; rq_raw := "t";
     rq_toml := TomlOk "n" MLibPanic; rq_csv := CsvErr; rq_json := JsonErr |}.
Lemma lib_panic_propagates : handle (init_state : state) lib_panic_request = Panic.
Proof. reflexivity. Qed.

End Proofs.
