(* EngineProofs.v -- lemmas about the engine model (Engine.v) for C14 and C15. *)
From Coq Require Import List String Ascii ZArith NArith QArith Bool Lia Arith.
From Crem Require Import Base.Res Engine.
Import ListNotations.
Open Scope string_scope.
Open Scope list_scope.
Open Scope nat_scope.

Section Proofs.
Context {V : Type}.
Notation state := (state V).
Notation request := (request V).
Notation mstate := (mstate V).
Notation snapshot := (snapshot V).
Notation desc := (desc V).
Notation outcome := (outcome V).

(* ------------------------------------------------------------------------------------------------ *)
(** * Attributes *)

Lemma fold_add_app : forall (inc acc : attrs),
  fold_left (fun acc p => a_add acc (fst p) (snd p)) inc acc = acc ++ inc.
Proof.
  induction inc as [|p inc IH]; intro acc; simpl.
  - now rewrite app_nil_r.
  - rewrite IH. unfold a_add. destruct p; simpl. now rewrite <- app_assoc.
Qed.

Lemma a_join_nil : forall l : attrs, a_join [] l = l.
Proof.
  intro l. unfold a_join.
  replace (fun (acc : attrs) (p : string * aval) =>
             if a_has [] (fst p) then a_replace acc (fst p) (snd p) else a_add acc (fst p) (snd p))
    with (fun (acc : attrs) (p : string * aval) => a_add acc (fst p) (snd p)).
  - now rewrite fold_add_app.
  - reflexivity.
Qed.

Lemma last_index_some : forall (a : attrs) n i found,
  (found <> None \/ exists v, In (n, v) a) -> last_index a n i found <> None.
Proof.
  induction a as [|[k v] a IH]; intros n i found H; simpl.
  - destruct H as [H|[v H]]; [exact H | destruct H].
  - apply IH. destruct (String.eqb k n) eqn:E.
    + left; discriminate.
    + destruct H as [H|[w [H|H]]].
      * now left.
      * inversion H; subst. rewrite String.eqb_refl in E. discriminate.
      * right; now exists w.
Qed.

Lemma a_value_in : forall (a : attrs) n, a_value a n <> ANull -> exists v, In (n, v) a.
Proof.
  induction a as [|[k v] a IH]; intros n H; simpl in *.
  - congruence.
  - destruct (String.eqb k n) eqn:E.
    + apply String.eqb_eq in E; subst. exists v; now left.
    + destruct (IH n H) as [w Hw]. exists w; now right.
Qed.

Lemma ca_remove_ok : forall a n, exists a', ca_remove a n = Ok a'.
Proof.
  intros a n. unfold ca_remove. destruct (a_has a n) eqn:E; [|eauto].
  unfold a_remove. destruct (last_index a n 0 None) eqn:L; [eauto|].
  exfalso. eapply last_index_some; [|exact L].
  right. apply a_value_in. unfold a_has in E. destruct (a_value a n); simpl in E; congruence.
Qed.

(* ------------------------------------------------------------------------------------------------ *)
(** * Tables *)

Definition soltable_ok (t : table) : Prop := table_wf t = true /\ 3 <= col_size t.

Lemma table_wf_rows : forall t, table_wf t = true ->
  0 < col_size t /\ Forall (fun r => List.length r = col_size t) (t_rows t).
Proof.
  intros t H. unfold table_wf in H. apply andb_true_iff in H. destruct H as [H1 H2]. split.
  - unfold col_size. destruct (List.length (t_header t)); simpl in H1; [discriminate|lia].
  - rewrite forallb_forall in H2. apply Forall_forall. intros r Hr. apply Nat.eqb_eq. now apply H2.
Qed.

Lemma front_scan_ok : forall enc col rows found,
  Forall (fun r : list cell => col < List.length r) rows -> exists b, front_scan enc col rows found = Ok b.
Proof.
  intros enc col rows. induction rows as [|r rows IH]; intros found H; simpl; [eauto|].
  inversion H as [|? ? Hr Hrs]; subst.
  destruct (nth_error r col) eqn:E.
  - now apply IH.
  - apply nth_error_None in E. lia.
Qed.

Lemma encoding_in_front_ok : forall t enc, soltable_ok t -> exists b, encoding_in_front t enc = Ok b.
Proof.
  intros t enc [Hwf Hc]. unfold encoding_in_front.
  destruct (table_wf_rows t Hwf) as [_ Hrows].
  destruct (t_rows t) as [|r0 rows] eqn:E; cbn [tl]; [eauto|].
  destruct rows as [|r1 rows]; [eauto|].
  destruct (Nat.ltb (col_size t) 2) eqn:L; [apply Nat.ltb_lt in L; lia|].
  apply front_scan_ok. inversion Hrows as [|? ? _ Hrs]; subst.
  eapply Forall_impl; [|exact Hrs]. cbv beta. intros r Hr. rewrite Hr. lia.
Qed.

Definition tbl_ok (tbl : option table) : Prop := forall t, tbl = Some t -> soltable_ok t.

Lemma derive_ok : forall tbl (m : mstate), tbl_ok tbl ->
  exists m', derive tbl m = Ok m' /\ m_desc m' = m_desc m /\ m_id m' = m_id m /\ m_bits m' = m_bits m.
Proof.
  intros tbl m Ht. unfold derive.
  destruct tbl as [t|]; simpl.
  - destruct (encoding_in_front_ok t (encode (m_bits m)) (Ht t eq_refl)) as [b Hb]. rewrite Hb. simpl.
    destruct (d_valid (m_desc m) (m_bits m)).
    + match goal with |- context[ca_remove ?a ?n] => destruct (ca_remove_ok a n) as [a' Ha]; rewrite Ha end.
      simpl. eexists; repeat split.
    + simpl. eexists; repeat split.
  - destruct (d_valid (m_desc m) (m_bits m)).
    + match goal with |- context[ca_remove ?a ?n] => destruct (ca_remove_ok a n) as [a' Ha]; rewrite Ha end.
      simpl. eexists; repeat split.
    + simpl. eexists; repeat split.
Qed.

(* ------------------------------------------------------------------------------------------------ *)
(** * Whole-table upload *)

Lemma set_matching_length : forall pu ty v acts bits, List.length (set_matching pu ty v acts bits) = List.length bits.
Proof.
  intros pu ty v acts. induction acts as [|[p t] acts IH]; intros [|b bits]; simpl; auto.
Qed.

Lemma process_cells_ok : forall acts c0 hdr cells bits,
  is_float_cell c0 = true -> forallb action_cell_ok cells = true -> List.length cells = List.length hdr ->
  exists bits', process_cells acts c0 hdr cells bits = Ok bits' /\ List.length bits' = List.length bits.
Proof.
  intros acts c0 hdr cells. revert hdr. induction cells as [|c cells IH]; intros hdr bits H0 Hc Hl; simpl.
  - exists bits; split; reflexivity.
  - destruct hdr as [|h hdr]; [simpl in Hl; discriminate|].
    simpl in Hc. apply andb_true_iff in Hc. destruct Hc as [Hc1 Hc2].
    destruct c as [f txt|b|s0]; simpl in Hc1; try discriminate.
    destruct acts as [|a acts'].
    + apply IH; auto.
    + destruct c0 as [f0 txt0|b0|s0]; simpl in H0; try discriminate.
      destruct (IH hdr (set_matching (pu_of_float f0) h (negb (float_is_zero f)) (a :: acts') bits) eq_refl Hc2) as [b' [Hb Hlen]].
      * simpl in Hl. lia.
      * exists b'. split; [exact Hb|]. rewrite Hlen. apply set_matching_length.
Qed.

Lemma process_rows_ok : forall acts hdr rows bits,
  hdr <> [] -> Forall (fun r : list cell => List.length r = List.length hdr) rows -> forallb row_ok rows = true ->
  exists bits', process_rows acts hdr rows bits = Ok bits' /\ List.length bits' = List.length bits.
Proof.
  intros acts hdr rows. induction rows as [|r rows IH]; intros bits Hh Hw Hr; simpl.
  - exists bits; split; reflexivity.
  - inversion Hw as [|? ? Hr1 Hrs]; subst. simpl in Hr. apply andb_true_iff in Hr. destruct Hr as [Hr0 Hr'].
    destruct r as [|c0 cells].
    + destruct hdr; [congruence|simpl in Hr1; discriminate].
    + simpl in Hr0. apply andb_true_iff in Hr0. destruct Hr0 as [Hf Hc].
      destruct (process_cells_ok acts c0 (tl hdr) cells bits Hf Hc) as [b1 [Hb1 Hl1]].
      * destruct hdr; [congruence|]. simpl in *. lia.
      * rewrite Hb1. simpl. destruct (IH b1 Hh Hrs Hr') as [b2 [Hb2 Hl2]]. exists b2. split; [exact Hb2|lia].
Qed.

Lemma update_sub_length : forall pu l acts bits, List.length (update_sub pu l acts bits) = List.length bits.
Proof.
  intros pu l acts. induction acts as [|[p t] acts IH]; intros [|b bits]; simpl; auto.
Qed.

(* ------------------------------------------------------------------------------------------------ *)
(** * Solution summaries *)

Lemma summary_cells_ok_total : forall hdr cells, List.length cells = List.length hdr -> exists b, summary_cells_ok hdr cells = Ok b.
Proof.
  intros hdr cells. revert hdr. induction cells as [|c cells IH]; intros hdr Hl; simpl; [eauto|].
  destruct hdr as [|h hdr]; [simpl in Hl; discriminate|].
  destruct (IH hdr) as [b Hb]; [simpl in Hl; lia|]. rewrite Hb. simpl. eauto.
Qed.

Lemma summary_rows_ok_total : forall hdr rows,
  Forall (fun r : list cell => List.length r = List.length hdr) rows -> exists b, summary_rows_ok hdr rows = Ok b.
Proof.
  intros hdr rows. induction rows as [|r rows IH]; intro H; simpl; [eauto|].
  inversion H as [|? ? Hr Hrs]; subst.
  destruct (summary_cells_ok_total (tl hdr) (tl r)) as [a Ha].
  { destruct r, hdr; simpl in *; lia. }
  rewrite Ha. simpl. destruct (IH Hrs) as [b Hb]. rewrite Hb. simpl. eauto.
Qed.

Lemma summary_table_ok_total : forall t, table_wf t = true -> exists b, summary_table_ok t = Ok b.
Proof.
  intros t Hwf. unfold summary_table_ok.
  destruct (Nat.ltb (col_size t) 3) eqn:L; [eauto|]. apply Nat.ltb_ge in L.
  unfold header_at, col_size in *.
  destruct (nth_error (t_header t) 0) eqn:E0; [|apply nth_error_None in E0; lia].
  destruct (nth_error (t_header t) (List.length (t_header t) - 2)) eqn:E1; [|apply nth_error_None in E1; lia].
  destruct (nth_error (t_header t) (List.length (t_header t) - 1)) eqn:E2; [|apply nth_error_None in E2; lia].
  simpl.
  destruct (table_wf_rows t Hwf) as [_ Hrows].
  destruct (summary_rows_ok_total (t_header t) (tl (t_rows t))) as [b Hb].
  { destruct (t_rows t); simpl; [constructor|]. now inversion Hrows. }
  rewrite Hb. simpl. eauto.
Qed.

Lemma summary_table_ok_true : forall t, summary_table_ok t = Ok true -> 3 <= col_size t.
Proof.
  intros t H. unfold summary_table_ok in H.
  destruct (Nat.ltb (col_size t) 3) eqn:L; [discriminate|]. now apply Nat.ltb_ge in L.
Qed.

Lemma asis_row_ok_total : forall asis k hdr cells,
  k <= List.length hdr -> k <= List.length cells -> exists b, asis_row_ok asis k hdr cells = Ok b.
Proof.
  intros asis k. induction k as [|k IH]; intros hdr cells Hh Hc; simpl; [eauto|].
  destruct hdr as [|h hdr]; [simpl in Hh; lia|]. destruct cells as [|c cells]; [simpl in Hc; lia|].
  destruct c as [f txt|b|s0]; eauto.
  destruct (lookup_q asis h); eauto.
  destruct f as [q0|nf]; eauto.
  destruct (Qeq_bool q0 q); eauto.
  apply IH; simpl in *; lia.
Qed.

Lemma verify_rows_total : forall asis hdr rows,
  List.length asis + 3 <= List.length hdr ->
  Forall (fun r : list cell => List.length r = List.length hdr) rows -> exists b, verify_rows asis hdr rows = Ok b.
Proof.
  intros asis hdr rows Hn. induction rows as [|r rows IH]; intro H; simpl; [eauto|].
  inversion H as [|? ? Hr Hrs]; subst.
  destruct r as [|c0 cells]; [simpl in Hr; lia|].
  destruct (String.eqb (cell_string_of c0) "As-Is").
  - destruct (asis_row_ok_total asis (List.length asis) (tl hdr) cells) as [b Hb].
    + destruct hdr; simpl in *; lia.
    + simpl in Hr. lia.
    + rewrite Hb. simpl. destruct b; [now apply IH|eauto].
  - now apply IH.
Qed.

Lemma verify_summary_total : forall (d : desc) t, table_wf t = true -> exists b, verify_summary d t = Ok b.
Proof.
  intros d t Hwf. unfold verify_summary.
  destruct (Nat.ltb (col_size t) (List.length (d_asis d) + 3)) eqn:L; [eauto|]. apply Nat.ltb_ge in L.
  destruct (table_wf_rows t Hwf) as [_ Hrows]. now apply verify_rows_total.
Qed.

Lemma label_row_total : forall label rows,
  Forall (fun r : list cell => 0 < List.length r) rows ->
  exists o, label_row label rows = Ok o /\ (forall r, o = Some r -> In r rows).
Proof.
  intros label rows. induction rows as [|r rows IH]; intro H; simpl.
  - exists None. split; [reflexivity|discriminate].
  - inversion H as [|? ? Hr Hrs]; subst. destruct r as [|c0 cs]; [simpl in Hr; lia|].
    destruct (String.eqb (cell_string_of c0) label).
    + eexists; split; [reflexivity|]. intros r Heq; inversion Heq; now left.
    + destruct (IH Hrs) as [o [Ho Hin]]. exists o. split; [exact Ho|]. intros r Heq. right. now apply Hin.
Qed.

(* ------------------------------------------------------------------------------------------------ *)
(** * Decoding *)

Lemma words_to_bits_length : forall n ws, List.length (words_to_bits n ws) = n.
Proof. intros. unfold words_to_bits. now rewrite map_length, seq_length. Qed.

Lemma words_of_bits_length : forall fuel bs, List.length (words_of_bits fuel bs) = fuel.
Proof. induction fuel; intros; simpl; auto. Qed.

Lemma parse_entries_flag : forall entries ws ws',
  List.length ws = List.length entries -> List.length ws' = List.length entries ->
  fst (parse_entries entries ws) = fst (parse_entries entries ws').
Proof.
  induction entries as [|e es IH]; intros ws ws' H H'; simpl.
  - destruct ws, ws'; reflexivity.
  - destruct ws as [|w ws]; [simpl in H; discriminate|]. destruct ws' as [|w' ws']; [simpl in H'; discriminate|].
    destruct (parse_hex64 e); [|reflexivity].
    specialize (IH ws ws'). simpl in H, H'.
    destruct (parse_entries es ws) as [ok r] eqn:E1. destruct (parse_entries es ws') as [ok' r'] eqn:E2.
    simpl in *. apply IH; lia.
Qed.

(* the verdict of Decode does not depend on the archive it is decoded into (validatePatchAttributes decodes into a
   scratch archive, the application loop into the clone's) *)
Lemma decode_flag : forall n cur cur' e,
  List.length cur = n -> List.length cur' = n -> fst (decode n cur e) = fst (decode n cur' e).
Proof.
  intros n cur cur' e H H'. unfold decode.
  destruct (negb (Nat.eqb (List.length (split_colon e)) (archive_len n))) eqn:E; [reflexivity|].
  apply negb_false_iff in E. apply Nat.eqb_eq in E.
  pose proof (parse_entries_flag (split_colon e) (bits_to_words cur) (bits_to_words cur')) as P.
  unfold bits_to_words in *. rewrite !words_of_bits_length, H, H' in P. specialize (P (eq_sym E) (eq_sym E)).
  rewrite H, H'.
  destruct (parse_entries (split_colon e) (words_of_bits (archive_len n) cur)).
  destruct (parse_entries (split_colon e) (words_of_bits (archive_len n) cur')). exact P.
Qed.

Lemma decode_length : forall n cur e ok bits, List.length cur = n -> decode n cur e = (ok, bits) -> List.length bits = n.
Proof.
  intros n cur e ok bits H D. unfold decode in D.
  destruct (negb (Nat.eqb (List.length (split_colon e)) (archive_len n))).
  - inversion D as [[Hok Hb]]. rewrite <- Hb. exact H.
  - destruct (parse_entries (split_colon e) (bits_to_words cur)). inversion D as [[Hok Hb]]. apply words_to_bits_length.
Qed.

Lemma repeat_length' : forall (A : Type) (x : A) n, List.length (repeat x n) = n.
Proof. intros. apply repeat_length. Qed.

(* ------------------------------------------------------------------------------------------------ *)
(** * The invariant of the reachable states *)

Definition Loaded (s : state) : Prop :=
  exists t n m p, st_text s = Some t /\ st_name s = Some n /\ st_model s = Some m /\ st_pool s = Some p
    /\ st_snap s = Some (snapshot_of m) /\ m_id m = n /\ List.length (m_bits m) = List.length (d_actions (m_desc m)).
Definition Empty (s : state) : Prop :=
  st_text s = None /\ st_name s = None /\ st_model s = None /\ st_snap s = None /\ st_pool s = None
  /\ st_soltext s = None /\ st_soltable s = None.
Definition Inv (s : state) : Prop :=
  (Empty s \/ Loaded s) /\ tbl_ok (st_soltable s) /\ (st_soltext s = None <-> st_soltable s = None).

Lemma Inv_init : Inv init_state.
Proof.
  split; [left; repeat split|]. split; [intros t H; discriminate|]. split; reflexivity.
Qed.

(* patch: once validated, the application loop never answers with an error *)
Lemma patch_apply_ok : forall tbl l (m : mstate) sn,
  tbl_ok tbl -> List.length (m_bits m) = List.length (d_actions (m_desc m)) ->
  patch_valid (List.length (d_actions (m_desc m))) l = true ->
  exists m' sn', patch_apply tbl l m sn = Ok (inr (m', sn'))
    /\ m_desc m' = m_desc m /\ m_id m' = m_id m /\ List.length (m_bits m') = List.length (d_actions (m_desc m')).
Proof.
  intros tbl l. induction l as [|[k v] l IH]; intros m sn Ht Hl Hv; simpl.
  - exists m, sn. repeat split; auto.
  - simpl in Hv. destruct (String.eqb k "Encoding") eqn:Ek.
    + destruct v as [|b|e|o]; try discriminate. apply andb_true_iff in Hv. destruct Hv as [Hd Hv].
      destruct (decode (List.length (d_actions (m_desc m))) (m_bits m) e) as [ok bits] eqn:D.
      assert (ok = true) as ->.
      { unfold decodes in Hd.
        rewrite (decode_flag _ _ (m_bits m) e (repeat_length' _ _ _) Hl) in Hd. now rewrite D in Hd. }
      pose proof (decode_length _ _ _ _ _ Hl D) as Hbl.
      match goal with |- context[derive tbl ?m0] => destruct (derive_ok tbl m0 Ht) as [m1 [Hm1 [Hd1 [Hi1 Hb1]]]]; rewrite Hm1 end.
      simpl in *.
      destruct (IH m1 (snapshot_of m1) Ht) as [m2 [sn2 [H2 [Hd2 [Hi2 Hl2]]]]].
      * rewrite Hb1, Hd1. exact Hbl.
      * rewrite Hd1. exact Hv.
      * exists m2, sn2. split; [exact H2|]. rewrite Hd2, Hi2, Hd1, Hi1. repeat split; auto. rewrite <- Hd1, <- Hd2. exact Hl2.
    + now apply IH.
Qed.

End Proofs.
