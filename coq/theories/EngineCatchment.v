(* EngineCatchment.v -- ties the engine model's ABSTRACT valuation to the catchment model.

   Engine.v takes the valuation of an action set as a field of the scenario descriptor ([d_eval], [d_valid]).  Here the
   descriptor is built from an arbitrary catchment data set [d] (Catchment.v): [d_eval bits] is THE valuation of the
   action set (Catchment.canon_obs -- totals and per-planning-unit values of the six decision variables, as grid
   integers), [d_valid] the limit check on those totals.  With C01 (CatchmentProofs.obs_is_valuation: whatever history of
   toggles / sets / synchronisations / re-initialisations the Go model inside the engine went through, its observables
   are canon_obs of its active set) this gives: what GET /model serves is the catchment valuation of the action set last
   written, by whatever route. *)
From Coq Require Import List String ZArith QArith Bool Lia.
From Crem Require Import Base.Res Engine EngineProofs EngineC14.
From Crem Require Catchment CatchmentProofs.
Import ListNotations.
Open Scope string_scope.
Open Scope list_scope.
Open Scope nat_scope.

Module C := Catchment.

Definition valuation := list C.vobs.     (* one (total, per-unit values) record per decision variable, in C.all_vk order *)

Definition bits_fn (bits : list bool) : nat -> bool := fun i => nth i bits false.

Definition type_name (t : C.atype) : string :=
  match t with
  | C.Gully => "GullyRestoration" | C.HillSlope => "HillSlopeRestoration"
  | C.Riparian => "RiverBankRestoration" | C.Wetland => "WetlandsEstablishment"
  end.
Definition var_name (k : C.vk) : string :=
  match k with
  | C.VSed => "SedimentProduction" | C.VPN => "ParticulateNitrogen" | C.VDN => "DissolvedNitrogen"
  | C.VTN => "TotalNitrogen" | C.VIC => "ImplementationCost" | C.VOC => "OpportunityCost"
  end.

Definition catch_eval (d : C.dataset) (bits : list bool) : valuation := C.o_vars (C.canon_obs d (bits_fn bits)).
Definition catch_totals (d : C.dataset) (bits : list bool) : list Z :=
  map (fun k => C.canon_total d k (bits_fn bits)) C.all_vk.
(* StateIsValid: every limited variable's total within its limit *)
Definition catch_valid (d : C.dataset) (bits : list bool) : bool :=
  forallb (fun k => C.within d k (C.canon_total d k (bits_fn bits))) C.all_vk.

(* the scenario descriptor of the engine for the data set [d]; [errs] = the validation error text (a function of the set) *)
Definition engine_desc (d : C.dataset) (errs : list bool -> string) : desc valuation :=
  {| d_actions := map (fun a => (C.a_pu a, type_name (C.a_type a))) (C.d_actions d);
     d_pus := C.d_pus d;
     d_asis := map (fun k => (var_name k, C.grid_to_Q k (C.canon_total d k C.none_active))) C.all_vk;
     d_valid := catch_valid d;
     d_errs := errs;
     d_eval := catch_eval d |}.

Lemma catch_eval_totals : forall d bits, map C.o_total (catch_eval d bits) = catch_totals d bits.
Proof. intros. unfold catch_eval, catch_totals, C.canon_obs. cbn [C.o_vars]. rewrite map_map. reflexivity. Qed.

Lemma bits_fn_of_active_list : forall d (s : C.state) j,
  j < C.nactions d -> bits_fn (C.active_list d s) j = C.st_active s j.
Proof.
  intros d s j Hj. unfold bits_fn, C.active_list.
  rewrite (nth_indep _ false (C.st_active s 0)) by (rewrite map_length, seq_length; lia).
  rewrite map_nth. now rewrite seq_nth.
Qed.

(* whatever history the Go catchment model went through, if its active set is [bits] its observables are catch_eval *)
Lemma catchment_history_gives_catch_eval : forall d h bits,
  C.wf_dataset d = true -> C.wf_history d h = true -> C.active_list d (C.run d h) = bits ->
  C.o_vars (C.obs_of d (C.run d h)) = catch_eval d bits.
Proof.
  intros d h bits Hd Hh Hb. rewrite (CatchmentProofs.obs_is_valuation d Hd h Hh). unfold catch_eval. f_equal.
  apply CatchmentProofs.canon_obs_ext. intros j Hj. rewrite <- Hb. symmetry. now apply bits_fn_of_active_list.
Qed.

(* What GET /model serves in ANY reachable engine state whose scenario is the data set [d]. *)
Theorem served_variables_are_the_catchment_valuation :
  forall (d : C.dataset) errs (s : state valuation) (m : mstate valuation),
    C.wf_dataset d = true -> reachable s -> st_model s = Some m -> m_desc m = engine_desc d errs ->
    exists sn, st_snap s = Some sn
      /\ sn_bits sn = m_bits m
      /\ sn_vars sn = catch_eval d (m_bits m)
      /\ map C.o_total (sn_vars sn) = catch_totals d (m_bits m)
      /\ (forall h, C.wf_history d h = true -> C.active_list d (C.run d h) = m_bits m ->
                    C.o_vars (C.obs_of d (C.run d h)) = sn_vars sn).
Proof.
  intros d errs s m Hd Hr Em Ed.
  pose proof (snapshot_is_current s (reachable_Inv s Hr)) as Hsn. rewrite Em in Hsn. simpl in Hsn.
  exists (snapshot_of m). split; [exact Hsn|]. unfold snapshot_of; simpl. rewrite Ed. simpl.
  split; [reflexivity|]. split; [reflexivity|]. split; [apply catch_eval_totals|].
  intros h Hh Hb. now apply catchment_history_gives_catch_eval.
Qed.

(* Route equivalence, instantiated: two pure routes to the same action set serve the same catchment valuation. *)
Theorem routes_serve_the_same_catchment_valuation :
  forall (d : C.dataset) errs (s s1 s2 : state valuation) (rs1 rs2 : list (request valuation)) m,
    reachable s -> st_model s = Some m -> m_desc m = engine_desc d errs ->
    forallb wf_request rs1 = true -> forallb pure_route rs1 = true -> run s rs1 = Ok s1 -> wrote s rs1 = true ->
    forallb wf_request rs2 = true -> forallb pure_route rs2 = true -> run s rs2 = Ok s2 -> wrote s rs2 = true ->
    option_map m_bits (st_model s1) = option_map m_bits (st_model s2) ->
    exists sn1 sn2, st_snap s1 = Some sn1 /\ st_snap s2 = Some sn2 /\ same_representation sn1 sn2
      /\ sn_vars sn1 = catch_eval d (sn_bits sn1) /\ sn_vars sn2 = catch_eval d (sn_bits sn1).
Proof.
  intros d errs s s1 s2 rs1 rs2 m Hr Em Ed Hw1 Hp1 Hr1 Hwr1 Hw2 Hp2 Hr2 Hwr2 Hb.
  destruct (route_equivalence_full s s1 s2 rs1 rs2 Hr Hw1 Hp1 Hr1 Hwr1 Hw2 Hp2 Hr2 Hwr2 Hb) as (sn1 & sn2 & S1 & S2 & SR).
  exists sn1, sn2. split; [exact S1|]. split; [exact S2|]. split; [exact SR|].
  pose proof (reachable_Inv s Hr) as HI.
  destruct (pure_run rs1 s s1 HI Hw1 Hp1 Hr1) as [[_ Hc]|(_ & ma & m1 & Ema & Em1 & Esn1 & W1)]; [congruence|].
  rewrite Em in Ema. inversion Ema; subst ma. rewrite Esn1 in S1. inversion S1; subst sn1.
  destruct W1 as (Hd1 & _ & _).
  destruct SR as (_ & _ & Hbits & Hvars & _).
  assert (V1 : sn_vars (snapshot_of m1) = catch_eval d (sn_bits (snapshot_of m1))).
  { unfold snapshot_of; simpl. rewrite Hd1, Ed. reflexivity. }
  split; [exact V1|]. rewrite <- Hvars. exact V1.
Qed.

(* ------------------------------------------------------------------------------------------------ *)
(** * Correspondence: served values against the catchment valuation computed in Coq                 *)

Fixpoint zlist_eqb (a b : list Z) : bool :=
  match a, b with
  | [], [] => true
  | x :: a', y :: b' => Z.eqb x y && zlist_eqb a' b'
  | _, _ => false
  end.

(* one sampled GET /model answer: the data set of the scenario being served, the served action set, the six served
   totals as grid integers (C.all_vk order) and the served ValidAgainstScenario attribute *)
Record served := mkServed { sv_bits : list bool; sv_totals : list Z; sv_valid : option bool }.

Definition served_ok (d : C.dataset) (c : served) : bool :=
  Nat.eqb (List.length (sv_bits c)) (C.nactions d)
  && zlist_eqb (catch_totals d (sv_bits c)) (sv_totals c)
  && match sv_valid c with Some v => Bool.eqb (catch_valid d (sv_bits c)) v | None => true end.

Fixpoint served_mismatches_from (d : C.dataset) (i : nat) (cs : list served) : list nat :=
  match cs with
  | [] => []
  | c :: cs' => if served_ok d c then served_mismatches_from d (S i) cs' else i :: served_mismatches_from d (S i) cs'
  end.

(* the descriptor the engine correspondence uses (actions, planning units, as-is values exported by the harness) agrees
   with the one built from the data set *)
Fixpoint lookup_asis (l : list (string * Q)) (n : string) : option Q :=
  match l with [] => None | (k, v) :: l' => if String.eqb k n then Some v else lookup_asis l' n end.
Definition desc_agrees {V} (d : C.dataset) (e : desc V) : bool :=
  let ed := engine_desc d (fun _ => "") in
  Nat.eqb (List.length (Engine.d_actions e)) (List.length (Engine.d_actions ed))
  && forallb (fun p => Z.eqb (fst (fst p)) (fst (snd p)) && String.eqb (snd (fst p)) (snd (snd p)))
             (combine (Engine.d_actions e) (Engine.d_actions ed))
  && zlist_eqb (Engine.d_pus e) (Engine.d_pus ed)
  && forallb (fun k => match lookup_asis (Engine.d_asis e) (var_name k) with
                       | Some q => Z.eqb (C.round_grid (C.scale_of k) q) (C.canon_total d k C.none_active)
                       | None => false
                       end) C.all_vk.

(* 999: the data set is not well-formed; 998: the descriptors disagree *)
Definition served_mismatches {V} (d : C.dataset) (e : desc V) (cs : list served) : list nat :=
  if negb (C.wf_dataset d) then [999] else if negb (desc_agrees d e) then [998] else served_mismatches_from d 0 cs.
