(* Lemmas about the CSV table model (C20). *)
From Coq Require Import List String QArith Bool Arith Lia.
From Crem Require Import Base.Res CsvTable.
Import ListNotations.

Local Open Scope nat_scope.
Local Notation len := List.length.

(* ---------- take_cast / rows_cast: closed forms ---------- *)

Lemma take_cast_ok : forall cast n r, n <= len r ->
  take_cast cast n r = Ok (map (to_base cast) (firstn n r)).
Proof.
  intros cast n; induction n as [|n IH]; intros r Hle; cbn [take_cast firstn map]; [reflexivity|].
  destruct r as [|f r']; cbn [len] in Hle; [lia|].
  rewrite IH by lia. reflexivity.
Qed.

Lemma take_cast_short : forall cast n r, len r < n -> take_cast cast n r = Panic.
Proof.
  intros cast n; induction n as [|n IH]; intros r Hlt; [lia|].
  destruct r as [|f r']; cbn [take_cast]; [reflexivity|].
  cbn [len] in Hlt. rewrite IH by lia. reflexivity.
Qed.

Lemma take_cast_panic_iff : forall cast n r, take_cast cast n r = Panic <-> len r < n.
Proof.
  intros cast n r; split; intro H.
  - destruct (le_lt_dec n (len r)) as [Hle|Hlt]; [|exact Hlt].
    rewrite take_cast_ok in H by exact Hle. discriminate.
  - apply take_cast_short; exact H.
Qed.

Definition cast_rows (cast : caster) (n : nat) (rows : list (list string)) : list (list cellv) :=
  map (fun r => map (to_base cast) (firstn n r)) rows.

Definition text_rows (n : nat) (rows : list (list string)) : list (list string) := map (firstn n) rows.

Lemma rows_cast_ok : forall cast n rows, (forall r, In r rows -> n <= len r) ->
  rows_cast cast n rows = Ok (cast_rows cast n rows).
Proof.
  intros cast n rows; induction rows as [|r rows IH]; intro Hall; cbn [rows_cast cast_rows map]; [reflexivity|].
  rewrite take_cast_ok by (apply Hall; left; reflexivity).
  cbn [res_bind]. rewrite IH by (intros r' Hin; apply Hall; right; exact Hin).
  reflexivity.
Qed.

Lemma rows_cast_panic_iff : forall cast n rows,
  rows_cast cast n rows = Panic <-> exists r, In r rows /\ len r < n.
Proof.
  intros cast n rows; induction rows as [|r rows IH]; cbn [rows_cast].
  - split; [discriminate|intros [r [[] _]]].
  - destruct (le_lt_dec n (len r)) as [Hle|Hlt].
    + rewrite take_cast_ok by exact Hle. cbn [res_bind].
      destruct (rows_cast cast n rows) as [cs|] eqn:E; cbn [res_bind].
      * split; [discriminate|].
        intros [r' [[Heq|Hin] Hlt]]; [subst r'; lia|].
        destruct IH as [_ IH2]. discriminate IH2. exists r'; split; assumption.
      * split; [|reflexivity]. intros _. destruct IH as [IH1 _].
        destruct (IH1 eq_refl) as [r' [Hin Hlt]]. exists r'; split; [right; exact Hin|exact Hlt].
    + rewrite take_cast_short by exact Hlt. cbn [res_bind].
      split; [|reflexivity]. intros _. exists r; split; [left; reflexivity|exact Hlt].
Qed.

(* ---------- derive_table ---------- *)

Lemma derive_table_panic_iff : forall cast recs,
  derive_table cast recs = Panic <->
  recs = [] \/ exists r, In r (tl recs) /\ len r < len (hd [] recs).
Proof.
  intros cast [|h rows]; cbn [derive_table tl hd].
  - split; [intros _; left; reflexivity|reflexivity].
  - destruct (rows_cast cast (len h) rows) as [cs|] eqn:E; cbn [res_bind].
    + split; [discriminate|]. intros [Hnil|Hex]; [discriminate|].
      apply (proj2 (rows_cast_panic_iff cast (len h) rows)) in Hex. congruence.
    + split; [|reflexivity]. intros _. right. apply rows_cast_panic_iff with (cast := cast). exact E.
Qed.

Lemma derive_table_ok_inv : forall cast h rows t,
  derive_table cast (h :: rows) = Ok t ->
  t = mkTable h (len h) (cast_rows cast (len h) rows) (text_rows (len h) rows) /\ (forall r, In r rows -> len h <= len r).
Proof.
  intros cast h rows t H. cbn [derive_table] in H.
  assert (Hall : forall r, In r rows -> len h <= len r).
  { intros r Hin. destruct (le_lt_dec (len h) (len r)) as [Hle|Hlt]; [exact Hle|].
    assert (Hp : rows_cast cast (len h) rows = Panic)
      by (apply rows_cast_panic_iff; exists r; split; assumption).
    rewrite Hp in H. discriminate. }
  rewrite rows_cast_ok in H by exact Hall. cbn [res_bind] in H.
  injection H as <-. split; [reflexivity|exact Hall].
Qed.

Lemma rectangular_rows : forall h rows, rectangular (h :: rows) = true ->
  forall r, In r rows -> len r = len h.
Proof.
  intros h rows H r Hin. cbn [rectangular] in H. rewrite forallb_forall in H.
  apply Nat.eqb_eq. apply H. exact Hin.
Qed.

Lemma derive_table_rectangular : forall cast h rows, rectangular (h :: rows) = true ->
  derive_table cast (h :: rows) = Ok (mkTable h (len h) (cast_rows cast (len h) rows) (text_rows (len h) rows)).
Proof.
  intros cast h rows H. cbn [derive_table].
  rewrite rows_cast_ok; [reflexivity|].
  intros r Hin. rewrite (rectangular_rows h rows H r Hin). lia.
Qed.

(* ---------- totality ---------- *)

(* every result encoding/csv can hand back *)
Definition csv_can_return (c : csv_result) : bool :=
  match c with CsvError => true | CsvRecords recs => rectangular recs end.

Lemma parse_total : forall cast c, csv_can_return c = true ->
  exists l, parse_csv_text_into_table cast c = Ok l.
Proof.
  intros cast [|[|h rows]] H; cbn [parse_csv_text_into_table].
  - exists Rejected; reflexivity.
  - exists Rejected; reflexivity.
  - cbn [csv_can_return] in H. rewrite derive_table_rectangular by exact H. cbn [res_bind].
    eexists; reflexivity.
Qed.

Lemma parse_rejects_iff : forall cast c, csv_can_return c = true ->
  (parse_csv_text_into_table cast c = Ok Rejected <-> c = CsvError \/ c = CsvRecords []).
Proof.
  intros cast [|[|h rows]] H; cbn [parse_csv_text_into_table].
  - split; [left; reflexivity|reflexivity].
  - split; [right; reflexivity|reflexivity].
  - cbn [csv_can_return] in H. rewrite derive_table_rectangular by exact H. cbn [res_bind].
    split; [discriminate|intros [E|E]; discriminate].
Qed.

(* exact characterisation of the panics of the loader on ARBITRARY record lists *)
Lemma parse_panic_iff : forall cast c,
  parse_csv_text_into_table cast c = Panic <->
  exists recs, c = CsvRecords recs /\ exists r, In r (tl recs) /\ len r < len (hd [] recs).
Proof.
  intros cast [|[|h rows]]; cbn [parse_csv_text_into_table].
  - split; [discriminate|intros [recs [E _]]; discriminate].
  - split; [discriminate|]. intros [recs [E [r [Hin _]]]]. injection E as <-. destruct Hin.
  - destruct (derive_table cast (h :: rows)) as [t|] eqn:E; cbn [res_bind].
    + split; [discriminate|]. intros [recs [Ec Hex]]. injection Ec as <-.
      assert (Hp : derive_table cast (h :: rows) = Panic)
        by (apply derive_table_panic_iff; right; exact Hex).
      congruence.
    + split; [|reflexivity]. intros _. exists (h :: rows); split; [reflexivity|].
      apply derive_table_panic_iff in E. destruct E as [E|E]; [discriminate|exact E].
Qed.

Lemma parse_loaded_inv : forall cast c t, parse_csv_text_into_table cast c = Ok (Loaded t) ->
  exists h rows, c = CsvRecords (h :: rows) /\
    t = mkTable h (len h) (cast_rows cast (len h) rows) (text_rows (len h) rows) /\ (forall r, In r rows -> len h <= len r).
Proof.
  intros cast [|[|h rows]] t H; cbn [parse_csv_text_into_table] in H; try discriminate.
  destruct (derive_table cast (h :: rows)) as [t'|] eqn:E; cbn [res_bind] in H; [|discriminate].
  injection H as <-. apply derive_table_ok_inv in E. destruct E as [E1 E2].
  exists h, rows; repeat split; assumption.
Qed.

(* ---------- cells ---------- *)

Lemma index_nth_error : forall A (l : list A) i, index l i = match nth_error l i with Some a => Ok a | None => Panic end.
Proof. reflexivity. Qed.

Lemma index_ok : forall A (l : list A) i d, i < len l -> index l i = Ok (nth i l d).
Proof.
  intros A l i d H. unfold index. rewrite (nth_error_nth' l d H). reflexivity.
Qed.

Lemma index_panic_iff : forall A (l : list A) i, index l i = Panic <-> len l <= i.
Proof.
  intros A l i. unfold index. destruct (nth_error l i) as [a|] eqn:E.
  - split; [discriminate|]. intro H. apply nth_error_None in H. congruence.
  - split; [intros _; apply nth_error_None; exact E|reflexivity].
Qed.

Lemma cell_of_cast_rows : forall cast n rows tx col row,
  (forall r, In r rows -> n <= len r) -> col < n -> row < len rows ->
  cell (mkTable (nil) n (cast_rows cast n rows) tx) col row =
  Ok (to_base cast (nth col (nth row rows []) EmptyString)).
Proof.
  intros cast n rows tx col row Hall Hc Hr. unfold cell. cbn [t_cells].
  assert (Hr' : row < len (cast_rows cast n rows)) by (unfold cast_rows; rewrite map_length; exact Hr).
  set (f := fun r : list string => map (to_base cast) (firstn n r)).
  rewrite (index_ok _ _ _ (f []) Hr'). cbn [res_bind].
  unfold cast_rows. fold f. rewrite (map_nth f rows [] row). unfold f.
  assert (Hlen : n <= len (nth row rows [])) by (apply Hall; apply nth_In; exact Hr).
  assert (Hc' : col < len (map (to_base cast) (firstn n (nth row rows [])))).
  { rewrite map_length, firstn_length. lia. }
  rewrite (index_ok _ _ _ (to_base cast EmptyString) Hc').
  rewrite map_nth. f_equal. f_equal.
  rewrite <- (firstn_skipn n (nth row rows [])) at 2.
  rewrite app_nth1; [reflexivity|]. rewrite firstn_length. lia.
Qed.

Lemma cell_header_irrelevant : forall h1 h2 n cs x1 x2 col row,
  cell (mkTable h1 n cs x1) col row = cell (mkTable h2 n cs x2) col row.
Proof. reflexivity. Qed.

Lemma cell_panic_iff_cast_rows : forall cast h n rows tx col row,
  (forall r, In r rows -> n <= len r) ->
  (cell (mkTable h n (cast_rows cast n rows) tx) col row = Panic <-> ~ (col < n /\ row < len rows)).
Proof.
  intros cast h n rows tx col row Hall.
  destruct (lt_dec col n) as [Hc|Hc]; destruct (lt_dec row (len rows)) as [Hr|Hr].
  - rewrite (cell_header_irrelevant h [] n _ tx tx). rewrite cell_of_cast_rows by assumption.
    split; [discriminate|]. intro H. exfalso; apply H; split; assumption.
  - split; [intros _ [_ H]; contradiction|]. intros _.
    unfold cell. cbn [t_cells].
    assert (Hp : index (cast_rows cast n rows) row = Panic).
    { apply index_panic_iff. unfold cast_rows. rewrite map_length. lia. }
    rewrite Hp. reflexivity.
  - split; [intros _ [H _]; contradiction|]. intros _.
    unfold cell. cbn [t_cells].
    assert (Hr' : row < len (cast_rows cast n rows)) by (unfold cast_rows; rewrite map_length; exact Hr).
    set (f := fun r : list string => map (to_base cast) (firstn n r)).
    rewrite (index_ok _ _ _ (f []) Hr'). cbn [res_bind].
    apply index_panic_iff. unfold cast_rows. fold f. rewrite (map_nth f rows [] row). unfold f.
    rewrite map_length, firstn_length.
    assert (n <= len (nth row rows [])) by (apply Hall; apply nth_In; exact Hr). lia.
  - split; [intros _ [H _]; contradiction|]. intros _.
    unfold cell. cbn [t_cells].
    assert (Hp : index (cast_rows cast n rows) row = Panic).
    { apply index_panic_iff. unfold cast_rows. rewrite map_length. lia. }
    rewrite Hp. reflexivity.
Qed.

(* the remembered text *)
Lemma nth_error_firstn_lt : forall A (l : list A) n i, i < n -> nth_error (firstn n l) i = nth_error l i.
Proof.
  intros A l; induction l as [|a l IH]; intros n i H; destruct n as [|n]; try lia; destruct i as [|i]; cbn; try reflexivity.
  apply IH. lia.
Qed.

Lemma text_of_text_rows : forall n rows row col, (forall r, In r rows -> n <= len r) -> col < n -> row < len rows ->
  exists r, nth_error (text_rows n rows) row = Some r /\
            nth_error r col = Some (nth col (nth row rows []) EmptyString).
Proof.
  intros n rows row col Hall Hc Hr. exists (firstn n (nth row rows [])). split.
  - unfold text_rows. rewrite nth_error_map. rewrite (nth_error_nth' rows [] Hr). reflexivity.
  - assert (Hlen : n <= len (nth row rows [])) by (apply Hall; apply nth_In; exact Hr).
    rewrite nth_error_firstn_lt by exact Hc. apply nth_error_nth'. lia.
Qed.

Lemma text_out_of_range : forall n rows row col, (forall r, In r rows -> n <= len r) ->
  ~ (col < n /\ row < len rows) ->
  match nth_error (text_rows n rows) row with
  | Some r => nth_error r col = None
  | None => True
  end.
Proof.
  intros n rows row col Hall Hout. unfold text_rows. rewrite nth_error_map.
  destruct (nth_error rows row) as [r|] eqn:E; cbn [option_map]; [|exact I].
  apply nth_error_None. rewrite firstn_length.
  assert (row < len rows) by (apply nth_error_Some; congruence).
  assert (n <= len r) by (apply Hall; apply (nth_error_In _ _ E)). lia.
Qed.

(* ---------- the statements used by Properties/C20.v ---------- *)

Definition loads (cast : caster) (recs : list (list string)) (t : table) : Prop :=
  parse_csv_text_into_table cast (CsvRecords recs) = Ok (Loaded t).

Definition n_cols (recs : list (list string)) : nat := len (hd [] recs).
Definition n_rows (recs : list (list string)) : nat := len (tl recs).

Lemma c20_faithful : forall cast fmt recs t, loads cast recs t ->
  header t = hd [] recs /\
  column_and_row_size t = Ok (n_cols recs, n_rows recs) /\
  (forall col row, col < n_cols recs -> row < n_rows recs ->
     cell t col row = Ok (to_base cast (field recs col row)) /\
     cell_string fmt t col row = Ok (field recs col row)) /\
  (forall col row, cell t col row = Panic <-> ~ (col < n_cols recs /\ row < n_rows recs)) /\
  (forall col row, cell_string fmt t col row = Panic <-> ~ (col < n_cols recs /\ row < n_rows recs)).
Proof.
  intros cast fmt recs t H. unfold loads in H.
  destruct (parse_loaded_inv cast _ t H) as [h [rows [Ec [Et Hall]]]].
  injection Ec as ->. subst t. unfold n_cols, n_rows, field; cbn [hd tl].
  split; [reflexivity|]. split.
  { unfold column_and_row_size; cbn [t_colnum t_cells]. unfold cast_rows. rewrite map_length. reflexivity. }
  split.
  { intros col row Hcol Hrow. split.
    - rewrite (cell_header_irrelevant h [] (len h) _ _ (text_rows (len h) rows)). apply cell_of_cast_rows; assumption.
    - destruct (text_of_text_rows (len h) rows row col Hall Hcol Hrow) as [r [E1 E2]].
      unfold cell_string. cbn [t_text]. rewrite E1, E2. reflexivity. }
  split.
  { intros col row. apply cell_panic_iff_cast_rows. exact Hall. }
  intros col row. split.
  - intros Hp [Hcol Hrow].
    destruct (text_of_text_rows (len h) rows row col Hall Hcol Hrow) as [r [E1 E2]].
    unfold cell_string in Hp. cbn [t_text] in Hp. rewrite E1, E2 in Hp. discriminate.
  - intro Hout. pose proof (text_out_of_range (len h) rows row col Hall Hout) as Ht.
    assert (Hc : cell (mkTable h (len h) (cast_rows cast (len h) rows) (text_rows (len h) rows)) col row = Panic)
      by (apply cell_panic_iff_cast_rows; assumption).
    unfold cell_string. cbn [t_text].
    destruct (nth_error (text_rows (len h) rows) row) as [r|]; [rewrite Ht|]; unfold base_cell_string; rewrite Hc; reflexivity.
Qed.

Lemma c20_total : forall cast fmt c, csv_can_return c = true ->
  exists l, parse_csv_text_into_table cast c = Ok l /\
    match l with
    | Rejected => c = CsvError \/ c = CsvRecords []
    | Loaded t =>
      exists recs, c = CsvRecords recs /\ recs <> [] /\
        column_and_row_size t = Ok (n_cols recs, n_rows recs) /\
        forall col row, col < n_cols recs -> row < n_rows recs ->
          (exists v, cell t col row = Ok v) /\ (exists s, cell_string fmt t col row = Ok s)
    end.
Proof.
  intros cast fmt c Hc. destruct (parse_total cast c Hc) as [l Hl]. exists l; split; [exact Hl|].
  destruct l as [t|].
  - destruct (parse_loaded_inv cast c t Hl) as [h [rows [Ec _]]].
    exists (h :: rows); split; [exact Ec|]. split; [discriminate|].
    subst c. destruct (c20_faithful cast fmt (h :: rows) t Hl) as [_ [Hd [Hcell _]]].
    split; [exact Hd|]. intros col row Hcol Hrow. destruct (Hcell col row Hcol Hrow) as [H1 H2].
    split; eexists; eassumption.
  - apply (parse_rejects_iff cast c Hc). exact Hl.
Qed.

Lemma c20_no_panic : forall cast c, csv_can_return c = true -> parse_csv_text_into_table cast c <> Panic.
Proof.
  intros cast c Hc. destruct (parse_total cast c Hc) as [l Hl]. rewrite Hl. discriminate.
Qed.

Lemma c20_header_only : forall cast h,
  exists t, loads cast [h] t /\ column_and_row_size t = Ok (len h, 0) /\ header t = h.
Proof.
  intros cast h. eexists. split; [|split].
  - unfold loads. cbn. reflexivity.
  - reflexivity.
  - reflexivity.
Qed.

(* every field is read back verbatim by CellString, whatever it was cast to *)
Lemma c20_verbatim : forall cast fmt recs t col row, loads cast recs t ->
  col < n_cols recs -> row < n_rows recs ->
  cell_string fmt t col row = Ok (field recs col row).
Proof.
  intros cast fmt recs t col row H Hc Hr.
  destruct (c20_faithful cast fmt recs t H) as [_ [_ [Hcell _]]]. apply (Hcell col row Hc Hr).
Qed.

Lemma c20_text_preserved : forall cast recs t col row, loads cast recs t ->
  col < n_cols recs -> row < n_rows recs ->
  cast (field recs col row) = TText ->
  cell t col row = Ok (VStr (field recs col row)).
Proof.
  intros cast recs t col row H Hc Hr Htag.
  destruct (c20_faithful cast (fun _ => EmptyString) recs t H) as [_ [_ [Hcell _]]].
  destruct (Hcell col row Hc Hr) as [H1 _]. rewrite H1. unfold to_base. rewrite Htag. reflexivity.
Qed.

Lemma c20_number_preserved : forall cast recs t col row x, loads cast recs t ->
  col < n_cols recs -> row < n_rows recs ->
  cast (field recs col row) = TNum x ->
  cell t col row = Ok (VNum x) /\ cell_float64 t col row = Ok x.
Proof.
  intros cast recs t col row x H Hc Hr Htag.
  destruct (c20_faithful cast (fun _ => EmptyString) recs t H) as [_ [_ [Hcell _]]].
  destruct (Hcell col row Hc Hr) as [H1 _]. unfold cell_float64. rewrite H1. cbn [res_bind].
  unfold to_base. rewrite Htag. split; reflexivity.
Qed.

Lemma c20_bool_cell : forall cast recs t col row b, loads cast recs t ->
  col < n_cols recs -> row < n_rows recs ->
  cast (field recs col row) = TBool b ->
  cell t col row = Ok (VBool b).
Proof.
  intros cast recs t col row b H Hc Hr Htag.
  destruct (c20_faithful cast (fun _ => EmptyString) recs t H) as [_ [_ [Hcell _]]].
  destruct (Hcell col row Hc Hr) as [H1 _]. rewrite H1. unfold to_base. rewrite Htag. reflexivity.
Qed.

(* "numeric fields as numbers, all others as text" at the level of the TYPED cell (Cell / CellFloat64) *)
Definition typed_faithfully (cast : caster) (recs : list (list string)) (t : table) (col row : nat) : Prop :=
  match cast (field recs col row) with
  | TNum x => cell t col row = Ok (VNum x) /\ cell_float64 t col row = Ok x
  | _ => cell t col row = Ok (VStr (field recs col row))
  end.

Lemma no_bool_field_at : forall cast recs col row, no_bool_field cast recs = true ->
  (forall r, In r (tl recs) -> n_cols recs <= len r) ->
  col < n_cols recs -> row < n_rows recs ->
  is_tbool (cast (field recs col row)) = false.
Proof.
  intros cast recs col row Hnb Hall Hc Hr. unfold no_bool_field in Hnb.
  rewrite forallb_forall in Hnb.
  assert (Hin : In (nth row (tl recs) []) (tl recs)) by (apply nth_In; exact Hr).
  specialize (Hnb _ Hin). rewrite forallb_forall in Hnb.
  assert (Hin2 : In (field recs col row) (nth row (tl recs) [])).
  { unfold field. apply nth_In. specialize (Hall _ Hin). lia. }
  specialize (Hnb _ Hin2). destruct (is_tbool (cast (field recs col row))); [discriminate|reflexivity].
Qed.

Lemma c20_typed_partial : forall cast recs t, loads cast recs t ->
  no_bool_field cast recs = true ->
  forall col row, col < n_cols recs -> row < n_rows recs -> typed_faithfully cast recs t col row.
Proof.
  intros cast recs t H Hnb col row Hc Hr. unfold typed_faithfully.
  assert (Hall : forall r, In r (tl recs) -> n_cols recs <= len r).
  { unfold loads in H. destruct (parse_loaded_inv cast _ t H) as [h [rows [Ec [_ Hall]]]].
    injection Ec as ->. exact Hall. }
  pose proof (no_bool_field_at cast recs col row Hnb Hall Hc Hr) as Hb.
  destruct (cast (field recs col row)) as [x|b|] eqn:E.
  - apply (c20_number_preserved cast recs t col row x H Hc Hr E).
  - discriminate Hb.
  - apply (c20_text_preserved cast recs t col row H Hc Hr E).
Qed.
