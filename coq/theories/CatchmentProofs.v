(* Proofs about the catchment valuation model (Catchment.v): the invariant "every variable is the
   canonical valuation of the active set", preserved by every operation of the API, and its
   consequences C01 (history independence), C02 (transactions), C10 (validity), C11 (aggregates). *)
From Coq Require Import List ZArith QArith Bool Arith Lia.
From Crem Require Import Catchment.
Import ListNotations.
Open Scope Z_scope.

(* ------------------------------------------------------------------------------------------ *)
(** * small facts *)

Lemma atype_eqb_eq a b : atype_eqb a b = true <-> a = b.
Proof. destruct a, b; simpl; split; intro H; try reflexivity; try discriminate. Qed.

Lemma atype_eqb_refl a : atype_eqb a a = true.
Proof. destruct a; reflexivity. Qed.

Lemma setc_getc t x : setc t (getc t x) x = x.
Proof. destruct t, x; reflexivity. Qed.

Lemma setc_same t c c' x : setc t c (setc t c' x) = setc t c x.
Proof. destruct t; reflexivity. Qed.

Lemma upd_same f i b : upd f i b i = b.
Proof. unfold upd. now rewrite Nat.eqb_refl. Qed.

Lemma upd_other f i b j : j <> i -> upd f i b j = f j.
Proof. unfold upd. intro H. apply Nat.eqb_neq in H. now rewrite H. Qed.

Lemma zmem_In z l : zmem z l = true <-> In z l.
Proof.
  induction l as [|y l IH]; simpl; [split; [discriminate|tauto]|].
  rewrite orb_true_iff, IH, Z.eqb_eq. tauto.
Qed.

Lemma znodup_NoDup l : znodup l = true -> NoDup l.
Proof.
  induction l as [|y l IH]; simpl; intro H; [constructor|].
  apply andb_true_iff in H as [H1 H2]. constructor; [|auto].
  intro Hin. apply zmem_In in Hin. rewrite Hin in H1. discriminate.
Qed.

(* sums over the planning-unit list *)
Lemma zsum_map_ext (f g : Z -> Z) l : (forall x, In x l -> f x = g x) -> zsum (map f l) = zsum (map g l).
Proof.
  induction l as [|y l IH]; simpl; intro H; [reflexivity|].
  rewrite (H y) by auto. rewrite IH; auto.
Qed.

Lemma zsum_map_add (f g : Z -> Z) l : zsum (map (fun x => f x + g x) l) = zsum (map f l) + zsum (map g l).
Proof. induction l as [|y l IH]; simpl; lia. Qed.

Lemma zsum_fupd (f : Z -> Z) l k v :
  NoDup l -> In k l -> zsum (map (fupd f k v) l) = zsum (map f l) + (v - f k).
Proof.
  induction l as [|y l IH]; simpl; intros Hnd Hin; [tauto|].
  inversion Hnd as [|? ? Hny Hnd']; subst.
  destruct Hin as [->|Hin].
  - unfold fupd at 1. rewrite Z.eqb_refl.
    rewrite (zsum_map_ext (fupd f k v) f).
    + lia.
    + intros x Hx. unfold fupd. destruct (x =? k) eqn:E; [|reflexivity].
      apply Z.eqb_eq in E. subst. contradiction.
  - rewrite IH by assumption. unfold fupd at 1.
    destruct (y =? k) eqn:E; [apply Z.eqb_eq in E; subst; contradiction|]. lia.
Qed.

Lemma zsum_fupd_notin (f : Z -> Z) l k v : ~ In k l -> zsum (map (fupd f k v) l) = zsum (map f l).
Proof.
  intro H. apply zsum_map_ext. intros x Hx. unfold fupd.
  destruct (x =? k) eqn:E; [apply Z.eqb_eq in E; subst; contradiction|reflexivity].
Qed.

(* ------------------------------------------------------------------------------------------ *)
(** * finding the action of a (unit, type) key *)

Lemma find_from_spec l s pu t j :
  find_from l s pu t = Some j ->
  (s <= j < s + length l)%nat /\ a_pu (nth (j - s) l dummy_action) = pu /\ a_type (nth (j - s) l dummy_action) = t.
Proof.
  revert s. induction l as [|a l IH]; simpl; intros s H; [discriminate|].
  destruct ((a_pu a =? pu) && atype_eqb (a_type a) t) eqn:E.
  - inversion H; subst. replace (j - j)%nat with 0%nat by lia.
    apply andb_true_iff in E as [E1 E2]. apply Z.eqb_eq in E1. apply atype_eqb_eq in E2.
    repeat split; auto; lia.
  - apply IH in H as (H1 & H2 & H3).
    replace (j - s)%nat with (S (j - S s)) by lia. repeat split; auto; lia.
Qed.

Lemma find_act_spec d pu t j :
  find_act d pu t = Some j -> (j < nactions d)%nat /\ a_pu (act d j) = pu /\ a_type (act d j) = t.
Proof.
  unfold find_act, act, nactions. intro H. apply find_from_spec in H as (H1 & H2 & H3).
  rewrite Nat.sub_0_r in *. repeat split; auto; lia.
Qed.

(* the per-action part of wf_dataset, as a Prop *)
Definition act_wf (d : dataset) (i : nat) : Prop :=
  In (a_pu (act d i)) (d_pus d) /\ find_act d (a_pu (act d i)) (a_type (act d i)) = Some i.

Lemma wf_dataset_spec d :
  wf_dataset d = true -> NoDup (d_pus d) /\ forall i, (i < nactions d)%nat -> act_wf d i.
Proof.
  unfold wf_dataset. intro H. apply andb_true_iff in H as [H1 H2]. split; [now apply znodup_NoDup|].
  intros i Hi. rewrite forallb_forall in H2. specialize (H2 i).
  assert (Hin : In i (seq 0 (nactions d))) by (apply in_seq; lia).
  apply H2 in Hin. unfold action_ok in Hin. apply andb_true_iff in Hin as [Ha Hb].
  split; [now apply zmem_In|].
  destruct (find_act d (a_pu (act d i)) (a_type (act d i))) as [j|]; simpl in Hb; [|discriminate].
  apply Nat.eqb_eq in Hb. now subst.
Qed.

(* ------------------------------------------------------------------------------------------ *)
(** * the canonical attributes under a change of one flag *)

Lemma comp_upd d k f i b pu t :
  act_wf d i ->
  comp d k (upd f i b) pu t =
    if (pu =? a_pu (act d i)) && atype_eqb t (a_type (act d i))
    then Some (consts k (act d i) b) else comp d k f pu t.
Proof.
  intros [_ Hfind]. unfold comp.
  destruct ((pu =? a_pu (act d i)) && atype_eqb t (a_type (act d i))) eqn:E.
  - apply andb_true_iff in E as [E1 E2]. apply Z.eqb_eq in E1. apply atype_eqb_eq in E2. subst.
    rewrite Hfind. now rewrite upd_same.
  - destruct (find_act d pu t) as [j|] eqn:Fj; [|reflexivity].
    destruct (Nat.eq_dec j i) as [->|Hne].
    + apply find_act_spec in Fj as (_ & Hp & Ht). subst.
      rewrite Z.eqb_refl, atype_eqb_refl in E. discriminate.
    + now rewrite upd_other.
Qed.

Lemma comp_ext d k f g pu t :
  (forall j, (j < nactions d)%nat -> f j = g j) -> comp d k f pu t = comp d k g pu t.
Proof.
  intro H. unfold comp. destruct (find_act d pu t) as [j|] eqn:Fj; [|reflexivity].
  apply find_act_spec in Fj as (Hj & _). now rewrite H.
Qed.

Lemma canon_attrs_ext d k f g pu :
  (forall j, (j < nactions d)%nat -> f j = g j) -> canon_attrs d k f pu = canon_attrs d k g pu.
Proof. intro H. unfold canon_attrs. now rewrite !(comp_ext d k f g pu _ H). Qed.

Lemma canon_attrs_upd d k f i b pu :
  act_wf d i ->
  canon_attrs d k (upd f i b) pu =
    if pu =? a_pu (act d i)
    then setc (a_type (act d i)) (consts k (act d i) b) (canon_attrs d k f pu)
    else canon_attrs d k f pu.
Proof.
  intro W. unfold canon_attrs. rewrite !(comp_upd d k f i b pu _ W).
  destruct (pu =? a_pu (act d i)); simpl; [|reflexivity].
  destruct (a_type (act d i)); simpl; reflexivity.
Qed.

Lemma upd_self_ext (f : nat -> bool) i j : upd f i (f i) j = f j.
Proof. unfold upd. destruct (Nat.eqb j i) eqn:E; [apply Nat.eqb_eq in E; now subst|reflexivity]. Qed.

(* the stored attributes already carry the action's constants for its CURRENT flag *)
Lemma canon_attrs_self d k f i :
  act_wf d i ->
  setc (a_type (act d i)) (consts k (act d i) (f i)) (canon_attrs d k f (a_pu (act d i)))
  = canon_attrs d k f (a_pu (act d i)).
Proof.
  intro W. pose proof (canon_attrs_upd d k f i (f i) (a_pu (act d i)) W) as H.
  rewrite Z.eqb_refl in H. rewrite <- H. apply canon_attrs_ext. intros j _. apply upd_self_ext.
Qed.

(* ------------------------------------------------------------------------------------------ *)
(** * costs under a change of one flag *)

Lemma cost_from_ext l s name f g pu :
  (forall j, (s <= j < s + length l)%nat -> f j = g j) -> cost_from l s name f pu = cost_from l s name g pu.
Proof.
  revert s. induction l as [|a l IH]; simpl; intros s H; [reflexivity|].
  rewrite (H s) by lia. rewrite (IH (S s)); [reflexivity|]. intros j Hj. apply H. lia.
Qed.

Lemma cost_from_upd l s name f i b pu :
  (s <= i < s + length l)%nat -> f i = negb b ->
  cost_from l s name (upd f i b) pu =
  cost_from l s name f pu +
  (if a_pu (nth (i - s) l dummy_action) =? pu
   then (if b then round2 (mv (nth (i - s) l dummy_action) name) else - round2 (mv (nth (i - s) l dummy_action) name))
   else 0).
Proof.
  revert s. induction l as [|a l IH]; simpl; intros s Hi Hf; [lia|].
  destruct (Nat.eq_dec s i) as [->|Hne].
  - replace (i - i)%nat with 0%nat by lia. rewrite upd_same, Hf.
    rewrite (cost_from_ext l (S i) name (upd f i b) f pu).
    2:{ intros j Hj. apply upd_other. lia. }
    destruct (a_pu a =? pu); destruct b; simpl; lia.
  - rewrite upd_other by lia. rewrite (IH (S s)) by (assumption || lia).
    replace (i - s)%nat with (S (i - S s)) by lia. lia.
Qed.

(* ------------------------------------------------------------------------------------------ *)
(** * per-variable invariants *)

Record AttrInv (d : dataset) (k : pk) (f : nat -> bool) (v : vstate) : Prop := {
  ai_attrs : forall pu, v_attrs v pu = canon_attrs d k f pu;
  ai_vals  : forall pu, v_vals v pu = calc k (canon_attrs d k f pu);
  ai_total : v_total v = zsum (map (v_vals v) (d_pus d))
}.

Record CostInv (d : dataset) (name : mvname) (f : nat -> bool) (v : vstate) : Prop := {
  ci_vals  : forall pu, v_vals v pu = cost_from (d_actions d) 0 name f pu;
  ci_total : v_total v = zsum (map (v_vals v) (d_pus d))
}.

Record TNInv (d : dataset) (pn dn tn : vstate) : Prop := {
  ti_vals  : forall pu, v_vals tn pu = v_vals pn pu + v_vals dn pu;
  ti_total : v_total tn = zsum (map (v_vals tn) (d_pus d))
}.

Definition Inv (d : dataset) (s : state) : Prop :=
  AttrInv d PSed (st_active s) (st_sed s) /\
  AttrInv d PPN (st_active s) (st_pn s) /\
  AttrInv d PDN (st_active s) (st_dn s) /\
  TNInv d (st_pn s) (st_dn s) (st_tn s) /\
  CostInv d ImplementationCostVar (st_active s) (st_ic s) /\
  CostInv d OpportunityCostVar (st_active s) (st_oc s).

Lemma AttrInv_ext d k f g v :
  (forall j, (j < nactions d)%nat -> f j = g j) -> AttrInv d k f v -> AttrInv d k g v.
Proof.
  intros H [A B C]. split; [| |exact C]; intro pu.
  - rewrite A. now apply canon_attrs_ext.
  - rewrite B. f_equal. now apply canon_attrs_ext.
Qed.

Lemma CostInv_ext d name f g v :
  (forall j, (j < nactions d)%nat -> f j = g j) -> CostInv d name f v -> CostInv d name g v.
Proof.
  intros H [A B]. split; [|exact B]. intro pu. rewrite A. apply cost_from_ext.
  intros j Hj. apply H. unfold nactions. lia.
Qed.

(* only the commands differ: invariants do not mention them *)
Lemma AttrInv_cmd d k f v c : AttrInv d k f v -> AttrInv d k f (set_cmd v c).
Proof. intros [A B C]. split; assumption. Qed.

(* Do of a freshly built (non-null, not yet done) command *)
Lemma do_vals v c : c_null c = false -> c_isdone c = false ->
  v_vals (do_cmd (set_cmd v c)) = fupd (v_vals v) (c_pu c) (c_done c).
Proof. intros H1 H2. unfold do_cmd, set_cmd. cbn [v_cmd]. rewrite H1, H2. reflexivity. Qed.

Lemma do_total v c : c_null c = false -> c_isdone c = false ->
  v_total (do_cmd (set_cmd v c)) = v_total v + (c_done c - v_vals v (c_pu c)).
Proof. intros H1 H2. unfold do_cmd, set_cmd. cbn [v_cmd]. rewrite H1, H2. reflexivity. Qed.

Lemma do_attrs v c : c_null c = false -> c_isdone c = false ->
  v_attrs (do_cmd (set_cmd v c)) =
  match c_attr c with
  | Some (t, _, dn) => fupd (v_attrs v) (c_pu c) (setc t dn (v_attrs v (c_pu c)))
  | None => v_attrs v
  end.
Proof. intros H1 H2. unfold do_cmd, set_cmd. cbn [v_cmd]. rewrite H1, H2. cbn. destruct (c_attr c) as [[[t un] dn]|]; reflexivity. Qed.

(* ------------------------------------------------------------------------------------------ *)
(** * one toggle, variable by variable *)

Section Toggle.
  Variable d : dataset.
  Hypothesis Hnd : NoDup (d_pus d).
  Variable i : nat.
  Hypothesis W : act_wf d i.
  Variable f : nat -> bool.
  Variable b : bool.
  Hypothesis Hf : f i = negb b.

  Let a := act d i.
  Let pu := a_pu a.

  Lemma pu_in : In pu (d_pus d).
  Proof. exact (proj1 W). Qed.

  Lemma attr_toggle k v :
    AttrInv d k f v ->
    AttrInv d k (upd f i b) (do_cmd (set_cmd v (build_attr_cmd k a b v))).
  Proof.
    intros [A B C].
    assert (Hasis : calc k (setc (a_type a) (consts k a (negb b)) (v_attrs v pu)) = v_vals v pu).
    { fold pu. rewrite A, B. rewrite <- Hf. unfold pu, a. now rewrite canon_attrs_self. }
    assert (Htobe : calc k (setc (a_type a) (consts k a b) (v_attrs v pu))
                    = calc k (canon_attrs d k (upd f i b) pu)).
    { rewrite A. unfold pu, a. rewrite canon_attrs_upd by assumption. now rewrite Z.eqb_refl. }
    unfold do_cmd, set_cmd, build_attr_cmd. cbn [v_cmd c_null c_isdone c_pu c_done c_attr v_attrs v_vals v_total set_pu_value].
    fold pu. rewrite Hasis, Htobe.
    replace (v_vals v pu + (calc k (canon_attrs d k (upd f i b) pu) - v_vals v pu))
      with (calc k (canon_attrs d k (upd f i b) pu)) by lia.
    split; cbn [v_attrs v_vals v_total].
    - intro pu'. unfold fupd. rewrite canon_attrs_upd by assumption. fold a. fold pu.
      destruct (pu' =? pu) eqn:E; [|apply A].
      apply Z.eqb_eq in E. subst pu'. now rewrite A.
    - intro pu'. unfold fupd. destruct (pu' =? pu) eqn:E.
      + apply Z.eqb_eq in E. now subst pu'.
      + rewrite B. f_equal. rewrite canon_attrs_upd by assumption. fold a. fold pu. now rewrite E.
    - rewrite zsum_fupd by (exact Hnd || exact pu_in). rewrite C. lia.
  Qed.

  Lemma attr_change k v :
    AttrInv d k f v ->
    cmd_change (build_attr_cmd k a b v) = calc k (canon_attrs d k (upd f i b) pu) - v_vals v pu.
  Proof.
    intros [A B C]. unfold cmd_change, build_attr_cmd. cbn [c_null c_done c_undone]. fold pu.
    assert (Hasis : calc k (setc (a_type a) (consts k a (negb b)) (v_attrs v pu)) = v_vals v pu).
    { rewrite A, B. rewrite <- Hf. unfold pu, a. now rewrite canon_attrs_self. }
    rewrite Hasis. rewrite A. unfold pu, a. rewrite canon_attrs_upd by assumption. rewrite Z.eqb_refl. lia.
  Qed.

  Lemma cost_toggle name v :
    CostInv d name f v ->
    CostInv d name (upd f i b) (do_cmd (set_cmd v (build_cost_cmd name a b v))).
  Proof.
    intros [A B].
    assert (Hi : (i < nactions d)%nat).
    { destruct W as [_ Hfd]. now apply find_act_spec in Hfd. }
    unfold do_cmd, set_cmd, build_cost_cmd. cbn [v_cmd c_null c_isdone c_pu c_done c_attr v_attrs v_vals v_total set_pu_value].
    fold pu.
    split; cbn [v_attrs v_vals v_total].
    - intro pu'. unfold fupd. rewrite (cost_from_upd (d_actions d) 0 name f i b pu') by (unfold nactions in Hi; lia || exact Hf).
      rewrite Nat.sub_0_r. fold (act d i). fold a. fold pu.
      destruct (pu' =? pu) eqn:E.
      + apply Z.eqb_eq in E. subst pu'. rewrite Z.eqb_refl. rewrite A. reflexivity.
      + rewrite Z.eqb_sym, E. rewrite A. lia.
    - rewrite zsum_fupd by (exact Hnd || exact pu_in). rewrite B. lia.
  Qed.

  Lemma tn_toggle pn dn tn :
    AttrInv d PPN f pn -> AttrInv d PDN f dn -> TNInv d pn dn tn ->
    let cpn := build_attr_cmd PPN a b pn in
    let cdn := build_attr_cmd PDN a b dn in
    TNInv d (do_cmd (set_cmd pn cpn)) (do_cmd (set_cmd dn cdn))
            (do_cmd (set_cmd tn (build_tn_cmd a cpn cdn tn))).
  Proof.
    intros Ipn Idn [A B] cpn cdn.
    pose proof (attr_toggle PPN pn Ipn) as Ipn'. pose proof (attr_toggle PDN dn Idn) as Idn'.
    fold cpn in Ipn'. fold cdn in Idn'.
    pose proof (attr_change PPN pn Ipn) as Cpn. pose proof (attr_change PDN dn Idn) as Cdn.
    fold cpn in Cpn. fold cdn in Cdn.
    split.
    - intro pu'. rewrite do_vals by reflexivity. cbn [build_tn_cmd c_pu c_done]. rewrite Cpn, Cdn. fold pu.
      rewrite (ai_vals _ _ _ _ Ipn' pu'), (ai_vals _ _ _ _ Idn' pu').
      unfold fupd. destruct (pu' =? pu) eqn:E.
      + apply Z.eqb_eq in E. subst pu'. rewrite A. lia.
      + rewrite A. rewrite (ai_vals _ _ _ _ Ipn pu'), (ai_vals _ _ _ _ Idn pu').
        rewrite !canon_attrs_upd by assumption. fold a. fold pu. now rewrite E.
    - rewrite do_vals, do_total by reflexivity. cbn [build_tn_cmd c_pu c_done]. fold pu.
      rewrite zsum_fupd by (exact Hnd || exact pu_in). rewrite B. lia.
  Qed.
End Toggle.

(* ------------------------------------------------------------------------------------------ *)
(** * whole-state steps *)

Section Steps.
  Variable d : dataset.
  Hypothesis Hwf : wf_dataset d = true.

  Lemma nd : NoDup (d_pus d).
  Proof. exact (proj1 (wf_dataset_spec d Hwf)). Qed.

  Lemma awf i : (i < nactions d)%nat -> act_wf d i.
  Proof. exact (proj2 (wf_dataset_spec d Hwf) i). Qed.

  Lemma fresh_inv : Inv d (fresh d).
  Proof.
    unfold Inv, fresh. cbn [st_active st_sed st_pn st_dn st_tn st_ic st_oc].
    repeat split; cbn [fresh_v v_attrs v_vals v_total canon_val cost_name]; try reflexivity.
  Qed.

  (* flags changed to [upd f i b] (with f i = negb b), all six observers build, all six Do *)
  Lemma toggle_accept_inv s i b l :
    Inv d s -> (i < nactions d)%nat -> st_active s i = negb b ->
    Inv d (accept (observe d (with_active s (upd (st_active s) i b) l) i)).
  Proof.
    intros (Is & Ip & Id & It & Ic & Io) Hi Hf.
    pose proof nd as Hnd. pose proof (awf i Hi) as W.
    unfold Inv, accept, observe, map_vars, with_active.
    cbn [st_active st_last st_sed st_pn st_dn st_tn st_ic st_oc].
    rewrite upd_same.
    refine (conj _ (conj _ (conj _ (conj _ (conj _ _))))).
    - apply attr_toggle; assumption.
    - apply attr_toggle; assumption.
    - apply attr_toggle; assumption.
    - apply (tn_toggle d Hnd i W (st_active s) b Hf _ _ _ Ip Id It).
    - apply cost_toggle; assumption.
    - apply cost_toggle; assumption.
  Qed.

  (* states that differ only in commands, lastApplied and (extensionally equal) flags *)
  Definition same_vars (s s' : state) : Prop :=
    forall k, (forall pu, v_attrs (var s k) pu = v_attrs (var s' k) pu) /\
              (forall pu, v_vals (var s k) pu = v_vals (var s' k) pu) /\
              v_total (var s k) = v_total (var s' k).

  Lemma inv_transfer s s' :
    Inv d s -> same_vars s s' ->
    (forall j, (j < nactions d)%nat -> st_active s j = st_active s' j) -> Inv d s'.
  Proof.
    intros (Is & Ip & Id & It & Ic & Io) Hv Ha.
    pose proof (Hv VSed) as (S1 & S2 & S3). pose proof (Hv VPN) as (P1 & P2 & P3).
    pose proof (Hv VDN) as (D1 & D2 & D3). pose proof (Hv VTN) as (T1 & T2 & T3).
    pose proof (Hv VIC) as (I1 & I2 & I3). pose proof (Hv VOC) as (O1 & O2 & O3).
    cbn [var] in *.
    unfold Inv. repeat split.
    - intro pu. rewrite <- S1. rewrite (ai_attrs _ _ _ _ Is). now apply canon_attrs_ext.
    - intro pu. rewrite <- S2. rewrite (ai_vals _ _ _ _ Is). f_equal. now apply canon_attrs_ext.
    - rewrite <- S3. rewrite (ai_total _ _ _ _ Is). apply zsum_map_ext. intros; apply S2.
    - intro pu. rewrite <- P1. rewrite (ai_attrs _ _ _ _ Ip). now apply canon_attrs_ext.
    - intro pu. rewrite <- P2. rewrite (ai_vals _ _ _ _ Ip). f_equal. now apply canon_attrs_ext.
    - rewrite <- P3. rewrite (ai_total _ _ _ _ Ip). apply zsum_map_ext. intros; apply P2.
    - intro pu. rewrite <- D1. rewrite (ai_attrs _ _ _ _ Id). now apply canon_attrs_ext.
    - intro pu. rewrite <- D2. rewrite (ai_vals _ _ _ _ Id). f_equal. now apply canon_attrs_ext.
    - rewrite <- D3. rewrite (ai_total _ _ _ _ Id). apply zsum_map_ext. intros; apply D2.
    - intro pu. rewrite <- T2, <- P2, <- D2. apply (ti_vals _ _ _ _ It).
    - rewrite <- T3. rewrite (ti_total _ _ _ _ It). apply zsum_map_ext. intros; apply T2.
    - intro pu. rewrite <- I2. rewrite (ci_vals _ _ _ _ Ic). apply cost_from_ext. intros j Hj. apply Ha. unfold nactions. lia.
    - rewrite <- I3. rewrite (ci_total _ _ _ _ Ic). apply zsum_map_ext. intros; apply I2.
    - intro pu. rewrite <- O2. rewrite (ci_vals _ _ _ _ Io). apply cost_from_ext. intros j Hj. apply Ha. unfold nactions. lia.
    - rewrite <- O3. rewrite (ci_total _ _ _ _ Io). apply zsum_map_ext. intros; apply O2.
  Qed.

  (* ---- C02: facts that hold in EVERY state (no invariant needed) ---- *)

  Lemma propose_same_vars s i : same_vars s (propose d s i).
  Proof. intro k. destruct k; repeat split; reflexivity. Qed.

  Lemma undo_undone v : c_isdone (v_cmd v) = false ->
    v_attrs (undo_cmd v) = v_attrs v /\ v_vals (undo_cmd v) = v_vals v /\ v_total (undo_cmd v) = v_total v.
  Proof. intro H. unfold undo_cmd. destruct (c_null (v_cmd v)); [auto|]. rewrite H. simpl. auto. Qed.

  Lemma revert_propose_same_vars s i : same_vars s (revert (propose d s i)).
  Proof.
    intro k. unfold revert, propose, observe, map_vars, with_active.
    cbn [st_active st_last st_sed st_pn st_dn st_tn st_ic st_oc].
    destruct k; cbn [var st_sed st_pn st_dn st_tn st_ic st_oc];
      match goal with |- context [undo_cmd ?v] => destruct (undo_undone v eq_refl) as (A & B & C) end;
      rewrite A, B, C; repeat split; reflexivity.
  Qed.

  Lemma flip_flip f i j : upd (flip f i) i (negb (flip f i i)) j = f j.
  Proof.
    unfold flip. unfold upd. destruct (Nat.eqb j i) eqn:E; [|reflexivity].
    rewrite Nat.eqb_refl. apply Nat.eqb_eq in E. subst. now rewrite negb_involutive.
  Qed.

  Lemma revert_propose_active s i j : st_active (revert (propose d s i)) j = st_active s j.
  Proof.
    unfold revert, propose, observe, map_vars, with_active.
    cbn [st_active st_last]. unfold flip at 1. apply flip_flip.
  Qed.

  Lemma try_revert_inv s i : Inv d s -> Inv d (revert (propose d s i)).
  Proof.
    intro H. apply (inv_transfer s); [assumption|apply revert_propose_same_vars|].
    intros j _. symmetry. apply revert_propose_active.
  Qed.

  Lemma try_accept_inv s i : Inv d s -> (i < nactions d)%nat -> Inv d (accept (propose d s i)).
  Proof.
    intros H Hi. unfold propose, flip. apply toggle_accept_inv; auto. now rewrite negb_involutive.
  Qed.

  (* ---- a command as the builders make it, done and undone again ---- *)
  Definition cmd_built (v : vstate) (c : cmd) : Prop :=
    c_null c = false /\ c_isdone c = false /\ c_undone c = v_vals v (c_pu c) /\
    match c_attr c with Some (t, un, _) => un = getc t (v_attrs v (c_pu c)) | None => True end.

  Lemma built_attr k a b v : cmd_built v (build_attr_cmd k a b v).
  Proof. unfold cmd_built, build_attr_cmd; cbn. auto. Qed.
  Lemma built_tn a c1 c2 v : cmd_built v (build_tn_cmd a c1 c2 v).
  Proof. unfold cmd_built, build_tn_cmd; cbn. auto. Qed.
  Lemma built_cost n a b v : cmd_built v (build_cost_cmd n a b v).
  Proof. unfold cmd_built, build_cost_cmd; cbn. auto. Qed.

  Lemma undo_do v c : cmd_built v c ->
    let v' := undo_cmd (do_cmd (set_cmd v c)) in
    (forall pu, v_attrs v' pu = v_attrs v pu) /\ (forall pu, v_vals v' pu = v_vals v pu) /\ v_total v' = v_total v.
  Proof.
    intros (H1 & H2 & H3 & H4).
    unfold undo_cmd, do_cmd, set_cmd. cbn [v_cmd]. rewrite H1, H2. cbn [v_cmd mark c_null c_isdone negb].
    rewrite H1. cbn [c_pu c_undone c_attr mark set_pu_value v_attrs v_vals v_total].
    repeat split.
    - intro pu. destruct (c_attr c) as [[[t un] dn]|]; [|reflexivity].
      unfold fupd. destruct (pu =? c_pu c) eqn:E; [|reflexivity].
      apply Z.eqb_eq in E. subst pu. rewrite Z.eqb_refl. rewrite setc_same, H4. apply setc_getc.
    - intro pu. unfold fupd. destruct (pu =? c_pu c) eqn:E; [|reflexivity].
      apply Z.eqb_eq in E. subst pu. exact H3.
    - unfold fupd. rewrite Z.eqb_refl. rewrite H3. lia.
  Qed.

  Lemma try_accept_revert_same_vars s i : same_vars (revert (accept (propose d s i))) s.
  Proof.
    intro k. unfold revert, accept, propose, observe, map_vars, with_active.
    cbn [st_active st_last st_sed st_pn st_dn st_tn st_ic st_oc].
    destruct k; cbn [var st_sed st_pn st_dn st_tn st_ic st_oc]; apply undo_do;
      first [apply built_attr | apply built_tn | apply built_cost].
  Qed.

  Lemma try_accept_revert_active s i j : st_active (revert (accept (propose d s i))) j = st_active s j.
  Proof.
    unfold revert, accept, propose, observe, map_vars, with_active.
    cbn [st_active st_last]. unfold flip at 1. apply flip_flip.
  Qed.

  Lemma same_vars_sym s s' : same_vars s s' -> same_vars s' s.
  Proof. intros H k. destruct (H k) as (A & B & C). repeat split; intros; symmetry; auto. Qed.

  Lemma try_accept_revert_inv s i : Inv d s -> Inv d (revert (accept (propose d s i))).
  Proof.
    intro H. apply (inv_transfer s); [assumption|apply same_vars_sym, try_accept_revert_same_vars|].
    intros j _. symmetry. apply try_accept_revert_active.
  Qed.

  Lemma eqb_false_negb (x b : bool) : Bool.eqb x b = false -> x = negb b.
  Proof. destruct x, b; simpl; auto; discriminate. Qed.

  Lemma set_action_inv s i b : Inv d s -> (i < nactions d)%nat -> Inv d (set_action d s i b).
  Proof.
    intros H Hi. unfold set_action. destruct (Bool.eqb (st_active s i) b) eqn:E; [assumption|].
    apply toggle_accept_inv; auto. now apply eqb_false_negb.
  Qed.

  Lemma initialising_set_inv s i b l : Inv d s -> (i < nactions d)%nat -> Inv d (initialising_set d s i b l).
  Proof.
    intros H Hi. unfold initialising_set. destruct (Bool.eqb (st_active s i) b) eqn:E.
    - destruct l; exact H.
    - unfold flip. apply toggle_accept_inv; auto. now rewrite negb_involutive.
  Qed.

  Lemma set_all_inv bits : forall s i0, Inv d s -> (i0 + length bits <= nactions d)%nat -> Inv d (set_all d s i0 bits).
  Proof.
    induction bits as [|b bits IH]; simpl; intros s i0 H Hl; [assumption|].
    apply IH; [|lia]. apply set_action_inv; [assumption|lia].
  Qed.

  Lemma step_inv s o : Inv d s -> op_in_range d o = true -> Inv d (step d s o).
  Proof.
    intros H Hr. destruct o as [i|i|i|i b|i b l|bits|]; simpl in Hr |- *;
      try (apply Nat.ltb_lt in Hr).
    - now apply try_accept_inv.
    - now apply try_revert_inv.
    - now apply try_accept_revert_inv.
    - now apply set_action_inv.
    - now apply initialising_set_inv.
    - apply Nat.leb_le in Hr. unfold synchronise. apply set_all_inv; [assumption|lia].
    - apply fresh_inv.
  Qed.

  Lemma fold_inv h : forall s, Inv d s -> wf_history d h = true -> Inv d (fold_left (step d) h s).
  Proof.
    induction h as [|o h IH]; simpl; intros s H Hh; [assumption|].
    apply andb_true_iff in Hh as [H1 H2]. apply IH; [|assumption]. now apply step_inv.
  Qed.

  Theorem run_inv h : wf_history d h = true -> Inv d (run d h).
  Proof. intro H. unfold run. apply fold_inv; [apply fresh_inv|assumption]. Qed.
End Steps.

(* ------------------------------------------------------------------------------------------ *)
(** * observables: C01, C11 *)

Section Observables.
  Variable d : dataset.
  Hypothesis Hwf : wf_dataset d = true.

  Lemma inv_val s k pu : Inv d s -> v_vals (var s k) pu = canon_val d k (st_active s) pu.
  Proof.
    intros (Is & Ip & Id & It & Ic & Io). destruct k; cbn [var canon_val cost_name].
    - apply (ai_vals _ _ _ _ Is).
    - apply (ai_vals _ _ _ _ Ip).
    - apply (ai_vals _ _ _ _ Id).
    - rewrite (ti_vals _ _ _ _ It). now rewrite (ai_vals _ _ _ _ Ip), (ai_vals _ _ _ _ Id).
    - apply (ci_vals _ _ _ _ Ic).
    - apply (ci_vals _ _ _ _ Io).
  Qed.

  Lemma inv_total_sum s k : Inv d s -> v_total (var s k) = zsum (map (v_vals (var s k)) (d_pus d)).
  Proof.
    intros (Is & Ip & Id & It & Ic & Io). destruct k; cbn [var].
    - apply (ai_total _ _ _ _ Is). - apply (ai_total _ _ _ _ Ip). - apply (ai_total _ _ _ _ Id).
    - apply (ti_total _ _ _ _ It). - apply (ci_total _ _ _ _ Ic). - apply (ci_total _ _ _ _ Io).
  Qed.

  Lemma inv_total s k : Inv d s -> v_total (var s k) = canon_total d k (st_active s).
  Proof.
    intro H. rewrite inv_total_sum by assumption. unfold canon_total.
    apply zsum_map_ext. intros pu _. now apply inv_val.
  Qed.

  Lemma inv_obs s : Inv d s -> obs_of d s = canon_obs d (st_active s).
  Proof.
    intro H. unfold obs_of, canon_obs, active_list. f_equal.
    apply map_ext. intro k. unfold obs_var. f_equal; [now apply inv_total|].
    apply map_ext. intro pu. now apply inv_val.
  Qed.

  (* the spec only looks at the flags of real actions *)
  Lemma canon_val_ext k f g pu :
    (forall j, (j < nactions d)%nat -> f j = g j) -> canon_val d k f pu = canon_val d k g pu.
  Proof.
    intro H. destruct k; cbn [canon_val];
      try (now rewrite ?(canon_attrs_ext d _ f g pu H));
      apply cost_from_ext; intros j Hj; apply H; unfold nactions; lia.
  Qed.

  Lemma canon_obs_ext f g :
    (forall j, (j < nactions d)%nat -> f j = g j) -> canon_obs d f = canon_obs d g.
  Proof.
    intro H. unfold canon_obs. f_equal.
    - apply map_ext_in. intros j Hj. apply in_seq in Hj. apply H. lia.
    - apply map_ext. intro k. f_equal.
      + unfold canon_total. apply zsum_map_ext. intros pu _. now apply canon_val_ext.
      + apply map_ext. intro pu. now apply canon_val_ext.
  Qed.

  (* flags after SetManagementAction(index, bit) for consecutive indices *)
  Lemma set_action_active s i b j :
    st_active (set_action d s i b) j = if Nat.eqb j i then b else st_active s j.
  Proof.
    unfold set_action. destruct (Bool.eqb (st_active s i) b) eqn:E.
    - destruct (Nat.eqb j i) eqn:Ej; [|reflexivity]. apply Nat.eqb_eq in Ej. subst.
      now apply eqb_prop in E.
    - reflexivity.
  Qed.

  Lemma set_all_active bits : forall s i0 j,
    st_active (set_all d s i0 bits) j =
    if (Nat.leb i0 j && Nat.ltb j (i0 + length bits))%bool then nth (j - i0) bits false else st_active s j.
  Proof.
    induction bits as [|b bits IH]; intros s i0 j; cbn [set_all length].
    - replace (Nat.ltb j (i0 + 0)) with (negb (Nat.leb i0 j)).
      + destruct (Nat.leb i0 j); reflexivity.
      + rewrite Nat.add_0_r. destruct (Nat.leb_spec i0 j), (Nat.ltb_spec j i0); simpl; auto; lia.
    - rewrite IH. rewrite set_action_active.
      destruct (Nat.leb_spec (S i0) j), (Nat.leb_spec i0 j), (Nat.ltb_spec j (S i0 + length bits)),
               (Nat.ltb_spec j (i0 + S (length bits))), (Nat.eqb_spec j i0); simpl; try lia; try reflexivity.
      + replace (j - i0)%nat with (S (j - S i0)) by lia. reflexivity.
      + subst. replace (i0 - i0)%nat with 0%nat by lia. reflexivity.
  Qed.

  Lemma apply_set_active f j : (j < nactions d)%nat ->
    st_active (apply_set d (map f (seq 0 (nactions d)))) j = f j.
  Proof.
    intro Hj. unfold apply_set, synchronise. rewrite set_all_active. rewrite map_length, seq_length.
    replace (Nat.leb 0 j) with true by (symmetry; apply Nat.leb_le; lia).
    replace (Nat.ltb j (0 + nactions d)) with true by (symmetry; apply Nat.ltb_lt; lia).
    simpl. rewrite Nat.sub_0_r.
    rewrite (nth_indep _ false (f 0%nat)) by (rewrite map_length, seq_length; lia).
    rewrite map_nth. now rewrite seq_nth.
  Qed.

  Lemma apply_set_inv bits : (length bits <= nactions d)%nat -> Inv d (apply_set d bits).
  Proof.
    intro H. unfold apply_set, synchronise. apply set_all_inv; [assumption|apply fresh_inv|lia].
  Qed.

  (* C01, spec form: the observables of any reachable state are THE valuation of its active set *)
  Theorem obs_is_valuation h :
    wf_history d h = true -> obs_of d (run d h) = canon_obs d (st_active (run d h)).
  Proof. intro H. apply inv_obs. now apply run_inv. Qed.

  (* C01, as stated: same as a freshly initialised model to which exactly that set is applied *)
  Theorem history_independence h :
    wf_history d h = true ->
    obs_of d (run d h) = obs_of d (apply_set d (active_list d (run d h))).
  Proof.
    intro H. rewrite obs_is_valuation by assumption.
    rewrite inv_obs.
    2:{ apply apply_set_inv. unfold active_list. rewrite map_length, seq_length. lia. }
    apply canon_obs_ext. intros j Hj. unfold active_list. now rewrite apply_set_active.
  Qed.

  Corollary same_set_same_values h1 h2 :
    wf_history d h1 = true -> wf_history d h2 = true ->
    active_list d (run d h1) = active_list d (run d h2) ->
    obs_of d (run d h1) = obs_of d (run d h2).
  Proof.
    intros H1 H2 E. rewrite (history_independence h1 H1), (history_independence h2 H2). now rewrite E.
  Qed.

  (* C11 *)
  Theorem aggregates h k :
    wf_history d h = true ->
    v_total (var (run d h) k) = zsum (map (v_vals (var (run d h) k)) (d_pus d)).
  Proof. intro H. apply inv_total_sum. now apply run_inv. Qed.

  Theorem tn_is_pn_plus_dn h :
    wf_history d h = true ->
    let s := run d h in
    (forall pu, v_vals (st_tn s) pu = v_vals (st_pn s) pu + v_vals (st_dn s) pu) /\
    v_total (st_tn s) = v_total (st_pn s) + v_total (st_dn s).
  Proof.
    intros H s. pose proof (run_inv d Hwf h H) as I. fold s in I.
    pose proof I as (Is & Ip & Id & It & Ic & Io). split; [apply (ti_vals _ _ _ _ It)|].
    rewrite (ti_total _ _ _ _ It), (ai_total _ _ _ _ Ip), (ai_total _ _ _ _ Id).
    rewrite <- zsum_map_add. apply zsum_map_ext. intros pu _. apply (ti_vals _ _ _ _ It).
  Qed.
End Observables.

(* ------------------------------------------------------------------------------------------ *)
(** * C02: proposals are transactional (facts about EVERY state) and C10: validity is exact *)

Section Transactions.
  Variable d : dataset.

  Lemma propose_keeps_values s i k :
    (forall pu, v_vals (var (propose d s i) k) pu = v_vals (var s k) pu) /\
    v_total (var (propose d s i) k) = v_total (var s k) /\
    (forall pu, v_attrs (var (propose d s i) k) pu = v_attrs (var s k) pu).
  Proof. destruct k; repeat split; reflexivity. Qed.

  Lemma propose_var_cmd s i k : cmd_built (var s k) (v_cmd (var (propose d s i) k)).
  Proof.
    unfold propose, observe, with_active. destruct k; cbn [var st_sed st_pn st_dn st_tn st_ic st_oc set_cmd v_cmd];
      first [apply built_attr | apply built_tn | apply built_cost].
  Qed.

  Lemma propose_var s i k : var (propose d s i) k = set_cmd (var s k) (v_cmd (var (propose d s i) k)).
  Proof. destruct k; reflexivity. Qed.

  Lemma accept_var s k : var (accept s) k = do_cmd (var s k).
  Proof. destruct k; reflexivity. Qed.

  Lemma accept_total s i k :
    v_total (var (accept (propose d s i)) k) =
    v_total (var s k) + cmd_change (v_cmd (var (propose d s i) k)).
  Proof.
    destruct (propose_var_cmd s i k) as (H1 & H2 & H3 & _).
    remember (v_cmd (var (propose d s i) k)) as c eqn:Hc.
    rewrite accept_var, propose_var. rewrite <- Hc.
    rewrite do_total by assumption. unfold cmd_change. rewrite H1, H3. reflexivity.
  Qed.

  Lemma propose_cmd_pu s i k : c_pu (v_cmd (var (propose d s i) k)) = a_pu (act d i).
  Proof. destruct k; reflexivity. Qed.

  Lemma accept_locality s i k pu :
    pu <> a_pu (act d i) -> v_vals (var (accept (propose d s i)) k) pu = v_vals (var s k) pu.
  Proof.
    intro H. destruct (propose_var_cmd s i k) as (H1 & H2 & _).
    pose proof (propose_cmd_pu s i k) as Hpu.
    remember (v_cmd (var (propose d s i) k)) as c eqn:Hc.
    rewrite accept_var, propose_var. rewrite <- Hc.
    rewrite do_vals by assumption. unfold fupd. rewrite Hpu.
    destruct (pu =? a_pu (act d i)) eqn:E; [apply Z.eqb_eq in E; contradiction|reflexivity].
  Qed.

  Lemma accept_idempotent s k :
    c_null (v_cmd (var s k)) = false ->
    var (accept (accept s)) k = var (accept s) k.
  Proof.
    intro Hn. rewrite !accept_var. unfold do_cmd at 1.
    assert (H : c_isdone (v_cmd (do_cmd (var s k))) = true \/ c_null (v_cmd (do_cmd (var s k))) = true).
    { unfold do_cmd. rewrite Hn. destruct (c_isdone (v_cmd (var s k))) eqn:E; [left; exact E|left; reflexivity]. }
    destruct (c_null (v_cmd (do_cmd (var s k)))); [reflexivity|].
    destruct H as [H|H]; [now rewrite H|discriminate].
  Qed.

  (* observables restored exactly by a revert (hidden attributes included: revert_propose_same_vars) *)
  Lemma revert_obs s i : obs_of d (revert (propose d s i)) = obs_of d s.
  Proof.
    unfold obs_of. apply f_equal2.
    - unfold active_list. apply map_ext. intro j. apply revert_propose_active.
    - apply map_ext. intro k. unfold obs_var.
      destruct (revert_propose_same_vars d s i k) as (_ & B & C). rewrite <- C. apply f_equal2; [reflexivity|].
      apply map_ext. intro pu. symmetry. apply B.
  Qed.

  Lemma undo_obs s i : obs_of d (revert (accept (propose d s i))) = obs_of d s.
  Proof.
    unfold obs_of. apply f_equal2.
    - unfold active_list. apply map_ext. intro j. apply try_accept_revert_active.
    - apply map_ext. intro k. unfold obs_var.
      destruct (try_accept_revert_same_vars d s i k) as (_ & B & C). rewrite C. apply f_equal2; [reflexivity|].
      apply map_ext. intro pu. apply B.
  Qed.

  (* ---- C10 ---- *)
  Lemma undoable_is_prospective s i k :
    undoable_value (propose d s i) k = v_total (var (accept (propose d s i)) k).
  Proof.
    unfold undoable_value. rewrite accept_total.
    destruct (propose_keeps_values s i k) as (_ & T & _). now rewrite T.
  Qed.

  Theorem valid_iff_prospective_state_valid s i :
    change_is_valid d (propose d s i) = state_is_valid d (accept (propose d s i)).
  Proof.
    unfold change_is_valid, state_is_valid, all_vk. cbn [forallb]. now rewrite !undoable_is_prospective.
  Qed.

  Lemma within_limited k m z : d_limit d = Some (k, m) -> within d k z = Qle_bool (grid_to_Q k z) m.
  Proof. intro H. unfold within. rewrite H. destruct k; reflexivity. Qed.

  Lemma within_other k k' m z : d_limit d = Some (k', m) -> k <> k' -> within d k z = true.
  Proof. intros H Hne. unfold within. rewrite H. destruct k, k'; try reflexivity; contradiction. Qed.

  Lemma within_nolimit k z : d_limit d = None -> within d k z = true.
  Proof. intro H. unfold within. now rewrite H. Qed.

  Theorem valid_iff_within_limit s i k m :
    d_limit d = Some (k, m) ->
    change_is_valid d (propose d s i) = Qle_bool (grid_to_Q k (v_total (var (accept (propose d s i)) k))) m.
  Proof.
    intro H. rewrite valid_iff_prospective_state_valid. unfold state_is_valid, all_vk.
    cbn [forallb]. rewrite <- (within_limited k m _ H).
    destruct k;
      repeat match goal with
             | |- context [within d ?k' ?z] => rewrite (within_other k' _ m z H) by discriminate
             end; rewrite ?andb_true_r; reflexivity.
  Qed.

  Theorem quote_is_prospective s i q :
    rejection_quote d (propose d s i) = Some q ->
    exists k m, d_limit d = Some (k, m) /\ q = v_total (var (accept (propose d s i)) k) /\
                change_is_valid d (propose d s i) = false.
  Proof.
    unfold rejection_quote. destruct (d_limit d) as [[k m]|] eqn:L; [|discriminate].
    destruct (within d k (undoable_value (propose d s i) k)) eqn:W; [discriminate|].
    intro H. inversion H; subst. exists k, m. repeat split; [apply undoable_is_prospective|].
    rewrite (valid_iff_within_limit s i k m L). rewrite <- undoable_is_prospective.
    now rewrite <- (within_limited k m _ L).
  Qed.

  Lemma scale_pos k : (0 < scale_of k)%Z.
  Proof. destruct k; reflexivity. Qed.

  Lemma grid_to_Q_mono k z1 z2 : (z1 <= z2)%Z -> Qle (grid_to_Q k z1) (grid_to_Q k z2).
  Proof.
    intro H. unfold grid_to_Q, Qdiv. apply Qmult_le_compat_r.
    - now rewrite <- Zle_Qle.
    - apply Qinv_le_0_compat. replace 0%Q with (inject_Z 0) by reflexivity. rewrite <- Zle_Qle.
      pose proof (scale_pos k). lia.
  Qed.

  Theorem lowering_never_rejected s i k m :
    d_limit d = Some (k, m) ->
    (cmd_change (v_cmd (var (propose d s i) k)) <= 0)%Z ->
    Qle_bool (grid_to_Q k (v_total (var s k))) m = true ->
    change_is_valid d (propose d s i) = true.
  Proof.
    intros L Hc Hw. rewrite (valid_iff_within_limit s i k m L). rewrite accept_total.
    apply Qle_bool_iff. apply Qle_bool_iff in Hw.
    eapply Qle_trans; [|exact Hw]. apply grid_to_Q_mono. lia.
  Qed.
End Transactions.
