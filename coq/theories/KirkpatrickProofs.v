(* Lemmas about the Kirkpatrick acceptance model (C04).  Statements are re-exported, at full
   strength, in Properties/C04.v. *)
From Coq Require Import Floats ZArith Bool List Reals Lra.
From Crem Require Import Kirkpatrick.
Import ListNotations.

(* ------------------------------------------------------------------------------------------ *)
(* 1. The decision table                                                                      *)
(* ------------------------------------------------------------------------------------------ *)

Lemma improves_is_desirable : forall d c, improves d c = desirable d c.
Proof. intros [] c; reflexivity. Qed.

Lemma change_seen_configured : forall d sc c, configured d = true -> change_seen d sc c = c.
Proof. intros [] sc c H; try discriminate H; reflexivity. Qed.

(* the model's decision IS the Metropolis table, for both configured directions *)
Lemma step_decision_is_metropolis :
  forall d s i, configured d = true -> snd (step d s i) = metropolis_spec d i.
Proof.
  intros d s i Hd. unfold step, metropolis_spec.
  rewrite (change_seen_configured d _ _ Hd).
  change (improves d (change i)) with (desirable d (change i)).
  destruct (valid i); cbn [negb]; [|reflexivity].
  destruct (desirable d (change i)); [reflexivity|].
  unfold decide_if_acceptable. destruct (u i <? e i)%float; reflexivity.
Qed.

(* invalid => revert; nothing else happens: no draw, the reported probability is not touched *)
Lemma step_invalid :
  forall d s i, valid i = false ->
    snd (step d s i) = RevertInvalid
    /\ accepts (snd (step d s i)) = false
    /\ draws d s i = false
    /\ st_prob (fst (step d s i)) = st_prob s
    /\ st_invalid (fst (step d s i)) = true
    /\ calls_of d (snd (step d s i)) = [CTry; CValid; CChange; CRevert].
Proof.
  intros d s i Hv. unfold step, draws. rewrite Hv. cbn. repeat split; reflexivity.
Qed.

Lemma guaranteed_is_one : set_acceptance_probability guaranteed = 1%float.
Proof. vm_compute. reflexivity. Qed.

(* valid and improving in the configured direction => accepted, reported probability exactly 1, no draw *)
Lemma step_improving :
  forall d s i, configured d = true -> valid i = true -> improves d (change i) = true ->
    snd (step d s i) = AcceptDesirable
    /\ accepts (snd (step d s i)) = true
    /\ draws d s i = false
    /\ st_prob (fst (step d s i)) = 1%float
    /\ calls_of d (snd (step d s i)) = [CTry; CValid; CChange; CAccept].
Proof.
  intros d s i Hd Hv Hi. unfold step, draws.
  rewrite (change_seen_configured d _ _ Hd).
  change (desirable d (change i)) with (improves d (change i)).
  rewrite Hv, Hi. cbn [negb fst snd andb st_prob].
  rewrite guaranteed_is_one.
  destruct d; try discriminate Hd; repeat split; reflexivity.
Qed.

(* valid and not improving => ONE draw; accepted exactly when e > u (strictly); reported probability = e *)
Lemma step_not_improving :
  forall d s i, configured d = true -> valid i = true -> improves d (change i) = false ->
    (accepts (snd (step d s i)) = true <-> (u i <? e i)%float = true)
    /\ snd (step d s i) = (if (u i <? e i)%float then AcceptUndesirable else RevertUndesirable)
    /\ draws d s i = true
    /\ st_prob (fst (step d s i)) = e i
    /\ calls_of d (snd (step d s i)) = [CTry; CValid; CChange; if (u i <? e i)%float then CAccept else CRevert].
Proof.
  intros d s i Hd Hv Hi. unfold step, draws, decide_if_acceptable.
  rewrite (change_seen_configured d _ _ Hd).
  change (desirable d (change i)) with (improves d (change i)).
  rewrite Hv, Hi. cbn [negb andb].
  destruct (u i <? e i)%float; cbn [fst snd accepts st_prob];
    (destruct d; try discriminate Hd; repeat split; try reflexivity; intro H; try reflexivity; try discriminate H).
Qed.

(* a zero change (+0 or -0) is NOT an improvement, in either direction; nor is NaN *)
Lemma zero_not_improving : forall d, improves d 0%float = false /\ improves d (-0)%float = false.
Proof. intros []; split; vm_compute; reflexivity. Qed.

Lemma nan_not_improving : forall d, improves d nan = false.
Proof. intros []; vm_compute; reflexivity. Qed.

(* the model receives exactly one of AcceptChange / RevertChange per proposal, as its last call,
   and it is AcceptChange iff the decision accepts *)
Lemma calls_end_with_decision :
  forall d dec, exists pre,
    calls_of d dec = pre ++ [if accepts dec then CAccept else CRevert]
    /\ ~ In CAccept pre /\ ~ In CRevert pre.
Proof.
  intros d dec. destruct dec; cbn [calls_of accepts].
  - exists [CTry; CValid; CChange]. split; [reflexivity|]. split; intros [H|[H|[H|[]]]]; discriminate H.
  - destruct (reads_change d).
    + exists [CTry; CValid; CChange]. split; [reflexivity|]. split; intros [H|[H|[H|[]]]]; discriminate H.
    + exists [CTry; CValid]. split; [reflexivity|]. split; intros [H|[H|[]]]; discriminate H.
  - destruct (reads_change d).
    + exists [CTry; CValid; CChange]. split; [reflexivity|]. split; intros [H|[H|[H|[]]]]; discriminate H.
    + exists [CTry; CValid]. split; [reflexivity|]. split; intros [H|[H|[]]]; discriminate H.
  - destruct (reads_change d).
    + exists [CTry; CValid; CChange]. split; [reflexivity|]. split; intros [H|[H|[H|[]]]]; discriminate H.
    + exists [CTry; CValid]. split; [reflexivity|]. split; intros [H|[H|[]]]; discriminate H.
Qed.

(* the two directions are mirror images: minimising c decides like maximising -c.
   (uses the specification of binary64 negation and comparison: FloatAxioms.opp_spec, ltb_spec) *)
Lemma SFltb_opp_zero :
  forall x, SFltb x (Prim2SF 0) = SFltb (Prim2SF 0) (SFopp x).
Proof.
  intros x. replace (Prim2SF 0) with (S754_zero false) by (vm_compute; reflexivity).
  destruct x as [[]|[]| |[] m ex]; reflexivity.
Qed.

Lemma direction_mirror : forall c, improves Minimise c = improves Maximise (- c)%float.
Proof.
  intros c. cbn [improves]. rewrite !ltb_spec, opp_spec. apply SFltb_opp_zero.
Qed.

(* ------------------------------------------------------------------------------------------ *)
(* 2. Reported probabilities, binary64: every value of AcceptanceProbability is in [0,1]       *)
(*    provided what math.Exp returned is (hypothesis on the INPUT e; see section 3 for why it  *)
(*    is true of the ideal exponential, and the harness checks it on every math.Exp result)   *)
(* ------------------------------------------------------------------------------------------ *)

Lemma in01_zero : in01 0 = true.  Proof. vm_compute. reflexivity. Qed.
Lemma in01_one : in01 1 = true.   Proof. vm_compute. reflexivity. Qed.
Lemma in01_nan : in01 nan = false. Proof. vm_compute. reflexivity. Qed.

Lemma step_prob_in01 :
  forall d s i, in01 (st_prob s) = true -> in01 (e i) = true ->
    in01 (st_prob (fst (step d s i))) = true.
Proof.
  intros d s i Hs He. unfold step.
  destruct (negb (valid i)); [exact Hs|].
  destruct (desirable d _).
  - cbn [fst st_prob]. rewrite guaranteed_is_one. exact in01_one.
  - destruct (decide_if_acceptable _ _); exact He.
Qed.

Lemma st_prob_after_cool : forall b s, st_prob (after_cool b s) = st_prob s.
Proof. intros [] s; reflexivity. Qed.

Lemma run_probs_in01 :
  forall d is s, in01 (st_prob s) = true ->
    Forall (fun ic => in01 (e (fst ic)) = true) is ->
    Forall (fun dp => in01 (snd dp) = true) (snd (run d s is))
    /\ in01 (st_prob (fst (run d s is))) = true.
Proof.
  intros d is. induction is as [|[i cool] is IH]; intros s Hs Hall.
  - cbn. split; [constructor | exact Hs].
  - inversion Hall as [|? ? He Hrest]; subst. cbn [fst] in He.
    cbn [run]. destruct (step d s i) as [s1 dec] eqn:Hstep.
    assert (H1 : in01 (st_prob s1) = true).
    { pose proof (step_prob_in01 d s i Hs He) as H. rewrite Hstep in H. exact H. }
    specialize (IH (after_cool cool s1)). rewrite st_prob_after_cool in IH.
    specialize (IH H1 Hrest).
    destruct (run d (after_cool cool s1) is) as [s2 tr]. cbn [fst snd] in *.
    destruct IH as [IHa IHb]. split; [constructor; [exact H1 | exact IHa] | exact IHb].
Qed.

Lemma init_prob_in01 : forall T cf, in01 (st_prob (init_state T cf)) = true.
Proof. intros. exact in01_zero. Qed.

(* every decision of a history is the Metropolis table applied to that proposal *)
Lemma run_decisions_are_metropolis :
  forall d is s, configured d = true ->
    map fst (snd (run d s is)) = map (fun ic => metropolis_spec d (fst ic)) is.
Proof.
  intros d is. induction is as [|[i cool] is IH]; intros s Hd; [reflexivity|].
  cbn [run]. pose proof (step_decision_is_metropolis d s i Hd) as Hs.
  destruct (step d s i) as [s1 dec]. cbn [snd] in Hs.
  specialize (IH (after_cool cool s1) Hd).
  destruct (run d (after_cool cool s1) is) as [s2 tr]. cbn [fst snd map] in *.
  rewrite Hs, IH. reflexivity.
Qed.

(* ------------------------------------------------------------------------------------------ *)
(* 3. Reported probabilities, ideal formula over the reals                                     *)
(* ------------------------------------------------------------------------------------------ *)
Section Ideal.
Open Scope R_scope.

Definition ideal_probability (d T : R) : R := exp (- Rabs d / T).

Lemma ideal_arg_nonpos : forall d T, 0 < T -> - Rabs d / T <= 0.
Proof.
  intros d T HT. unfold Rdiv.
  assert (H0 : 0 <= Rabs d) by apply Rabs_pos.
  assert (H1 : 0 < / T) by (apply Rinv_0_lt_compat; exact HT).
  assert (H2 : 0 <= Rabs d * / T) by (apply Rmult_le_pos; lra).
  lra.
Qed.

Lemma exp_le_1_of_nonpos : forall x, x <= 0 -> exp x <= 1.
Proof.
  intros x Hx. destruct Hx as [Hlt|Heq].
  - left. rewrite <- exp_0. apply exp_increasing. exact Hlt.
  - subst. rewrite exp_0. right. reflexivity.
Qed.

Lemma ideal_probability_range : forall d T, 0 < T -> 0 < ideal_probability d T <= 1.
Proof.
  intros d T HT. unfold ideal_probability. split.
  - apply exp_pos.
  - apply exp_le_1_of_nonpos. apply ideal_arg_nonpos. exact HT.
Qed.

(* certainty exactly for a zero change *)
Lemma ideal_probability_one_iff : forall d T, 0 < T -> (ideal_probability d T = 1 <-> d = 0).
Proof.
  intros d T HT. unfold ideal_probability. split.
  - intro H. rewrite <- exp_0 in H. apply exp_inv in H.
    assert (H1 : 0 < / T) by (apply Rinv_0_lt_compat; exact HT).
    unfold Rdiv in H.
    assert (H2 : Rabs d * / T = 0) by lra.
    apply Rmult_integral in H2. destruct H2 as [H2|H2]; [|lra].
    destruct (Req_dec d 0) as [E|N]; [exact E|]. apply Rabs_no_R0 in N. contradiction.
  - intros ->. rewrite Rabs_R0. unfold Rdiv. rewrite Ropp_0, Rmult_0_l. apply exp_0.
Qed.

(* worse moves are less likely; hotter is more permissive *)
Lemma ideal_probability_antitone_in_change :
  forall d1 d2 T, 0 < T -> Rabs d1 <= Rabs d2 -> ideal_probability d2 T <= ideal_probability d1 T.
Proof.
  intros d1 d2 T HT H. unfold ideal_probability.
  assert (H1 : 0 < / T) by (apply Rinv_0_lt_compat; exact HT).
  assert (Hle : - Rabs d2 / T <= - Rabs d1 / T).
  { unfold Rdiv. apply Rmult_le_compat_r; lra. }
  destruct Hle as [Hlt|Heq].
  - left. apply exp_increasing. exact Hlt.
  - rewrite Heq. right. reflexivity.
Qed.

Lemma ideal_probability_monotone_in_temperature :
  forall d T1 T2, 0 < T1 -> T1 <= T2 -> ideal_probability d T1 <= ideal_probability d T2.
Proof.
  intros d T1 T2 H1 H12. unfold ideal_probability.
  assert (H2 : 0 < T2) by lra.
  assert (Hinv : / T2 <= / T1) by (apply Rinv_le_contravar; assumption).
  assert (Hd : 0 <= Rabs d) by apply Rabs_pos.
  assert (Hle : - Rabs d / T1 <= - Rabs d / T2).
  { unfold Rdiv. rewrite !Ropp_mult_distr_l_reverse. apply Ropp_le_contravar.
    apply Rmult_le_compat_l; assumption. }
  destruct Hle as [Hlt|Heq].
  - left. apply exp_increasing. exact Hlt.
  - rewrite Heq. right. reflexivity.
Qed.

End Ideal.

(* ------------------------------------------------------------------------------------------ *)
(* 4. Objective recurrence, for ANY model obeying the accept / revert laws                     *)
(* ------------------------------------------------------------------------------------------ *)
Section ObjectiveTrace.
  Context {M P V : Type}.
  Variable ops : model_ops M P V.
  (* [plus v c]: the objective value [v] moved by the reported change [c] *)
  Variable plus : V -> float -> V.

  (* the laws (C02 for the catchment model; true by construction of the scripted model):
     proposing does not move the objective, AcceptChange realises the reported change,
     RevertChange restores the value *)
  Definition accept_law : Prop :=
    forall m p, m_objective ops (m_accept ops (m_propose ops m p))
                = plus (m_objective ops m) (m_change ops (m_propose ops m p)).
  Definition revert_law : Prop :=
    forall m p, m_objective ops (m_revert ops (m_propose ops m p)) = m_objective ops m.

  Hypothesis Haccept : accept_law.
  Hypothesis Hrevert : revert_law.

  (* the change the explorer reported for the proposal p made in model state m *)
  Definition reported_change (m : M) (p : P) : float := m_change ops (m_propose ops m p).

  (* one iteration *)
  Lemma iterate_objective :
    forall d s m p q,
      let r := iterate ops d (s, m) (p, q) in
      m_objective ops (snd (fst r))
      = if accepts (snd r) then plus (m_objective ops m) (reported_change m p) else m_objective ops m.
  Proof.
    intros d s m p q. unfold iterate, reported_change.
    destruct (step d s _) as [s1 dec]. cbn [fst snd].
    destruct (accepts dec); [apply Haccept | apply Hrevert].
  Qed.

  (* the objective after a whole history, computed from the decisions alone *)
  Fixpoint objective_trace (d : direction) (sm : state * M) (pqs : list (P * draw)) (v : V) : V :=
    match pqs with
    | [] => v
    | pq :: rest =>
        let r := iterate ops d sm pq in
        let v' := if accepts (snd r) then plus v (reported_change (snd sm) (fst pq)) else v in
        objective_trace d (fst r) rest v'
    end.

  Lemma iterations_objective :
    forall d pqs s m,
      m_objective ops (snd (fst (iterations ops d (s, m) pqs)))
      = objective_trace d (s, m) pqs (m_objective ops m).
  Proof.
    intros d pqs. induction pqs as [|[p q] rest IH]; intros s m; [reflexivity|].
    cbn [iterations objective_trace].
    pose proof (iterate_objective d s m p q) as H1. cbv zeta in H1.
    destruct (iterate ops d (s, m) (p, q)) as [[s1 m1] dec] eqn:Hit. cbn [fst snd] in *.
    specialize (IH s1 m1).
    destruct (iterations ops d (s1, m1) rest) as [sm2 decs]. cbn [fst snd] in *.
    rewrite IH, H1. reflexivity.
  Qed.

  (* every prefix: the value at each iteration boundary obeys the recurrence *)
  Fixpoint boundary_objectives (d : direction) (sm : state * M) (pqs : list (P * draw)) : list V :=
    match pqs with
    | [] => []
    | pq :: rest =>
        let r := iterate ops d sm pq in
        m_objective ops (snd (fst r)) :: boundary_objectives d (fst r) rest
    end.

  Fixpoint recurrence_ok (d : direction) (sm : state * M) (pqs : list (P * draw)) (vs : list V) : Prop :=
    match pqs, vs with
    | [], [] => True
    | pq :: rest, v :: vs' =>
        let r := iterate ops d sm pq in
        v = (if accepts (snd r)
             then plus (m_objective ops (snd sm)) (reported_change (snd sm) (fst pq))
             else m_objective ops (snd sm))
        /\ recurrence_ok d (fst r) rest vs'
    | _, _ => False
    end.

  Lemma boundaries_obey_recurrence :
    forall d pqs sm, recurrence_ok d sm pqs (boundary_objectives d sm pqs).
  Proof.
    intros d pqs. induction pqs as [|[p q] rest IH]; intros [s m]; [exact I|].
    cbn [boundary_objectives recurrence_ok]. split.
    - apply iterate_objective.
    - apply IH.
  Qed.
End ObjectiveTrace.

(* the scripted model of the harness obeys the laws, with binary64 addition *)
Lemma scripted_accept_law : accept_law scripted_ops (fun v c => (v + c)%float).
Proof. intros m p. reflexivity. Qed.
Lemma scripted_revert_law : revert_law scripted_ops.
Proof. intros m p. reflexivity. Qed.

(* ------------------------------------------------------------------------------------------ *)
(* 5. Outside the quantifier (for the record): temperature 0                                   *)
(* ------------------------------------------------------------------------------------------ *)

(* T = 0 and a zero change: -|0|/0 = NaN; math.Exp(NaN) = NaN; the proposal is reverted whatever
   the draw and the reported probability is NaN *)
Lemma zero_temperature_zero_change_arg_is_nan : is_nan (exp_arg 0 0) = true.
Proof. vm_compute. reflexivity. Qed.

Lemma nan_probability_reverts :
  forall d s c uu, configured d = true -> improves d c = false ->
    snd (step d s (mkInput true c nan uu)) = RevertUndesirable
    /\ in01 (st_prob (fst (step d s (mkInput true c nan uu)))) = false.
Proof.
  intros d s c uu Hd Hi.
  destruct (step_not_improving d s (mkInput true c nan uu) Hd eq_refl Hi) as (_ & Hdec & _ & Hp & _).
  cbn [u e] in *. rewrite Hp, Hdec.
  assert (Hlt : (uu <? nan)%float = false).
  { rewrite ltb_spec. replace (Prim2SF nan) with S754_nan by (vm_compute; reflexivity).
    destruct (Prim2SF uu) as [[]|[]| |[] mm ee]; reflexivity. }
  rewrite Hlt. split; [reflexivity | exact in01_nan].
Qed.

(* a temperature that starts positive reaches 0 by underflow under repeated CoolDown when the
   cooling factor is at most 1/2: 1 * 0.5^1075 = 0 in binary64 *)
Fixpoint cool_n (n : nat) (s : state) : state :=
  match n with O => s | S n' => cool_n n' (cool_down s) end.

Lemma temperature_underflows :
  (0 <? st_T (init_state 1 0.5))%float = true
  /\ PrimFloat.eqb (st_T (cool_n 1075 (init_state 1 0.5))) 0 = true.
Proof. split; vm_compute; reflexivity. Qed.
