(* EngineCensus.v -- comparison of the panic sites Engine.v accounts for ([Engine.accounted_sites]) with the census the
   translator harness/astfacts15 takes of the CURRENT source (gen/Facts15.v).  Decision rule:

   * a function whose census exceeds its accounting in some kind (a NEW unchecked assertion / panic( / call of a
     known-panicking function) is UNEXPLAINED -> [census_matches] is false;
   * exception (rename): a function WITHOUT any accounting may take over the accounting of a function that is no longer
     declared anywhere in the scanned packages, if the two profiles are identical;
   * a census BELOW the accounting (an assertion got its ", ok", a function was deleted) only means the model
     over-approximates: reported ([census_decreases]), never an alarm. *)
From Coq Require Import List String Bool Arith.
Import ListNotations.
Open Scope string_scope.

Definition prof := (nat * nat * nat)%type.
Definition prof_le (a b : prof) : bool :=
  let '(a1, a2, a3) := a in let '(b1, b2, b3) := b in Nat.leb a1 b1 && Nat.leb a2 b2 && Nat.leb a3 b3.
Definition prof_eqb (a b : prof) : bool := prof_le a b && prof_le b a.

Fixpoint lookup_prof (f : string) (l : list (string * prof)) : option prof :=
  match l with [] => None | (g, p) :: l' => if String.eqb f g then Some p else lookup_prof f l' end.
Definition mem_name (f : string) (l : list string) : bool := existsb (String.eqb f) l.
Definition prof_or_zero (o : option prof) : prof := match o with Some p => p | None => (0, 0, 0) end.

Definition excess (acc sites : list (string * prof)) : list (string * prof) :=
  filter (fun fp => negb (prof_le (snd fp) (prof_or_zero (lookup_prof (fst fp) acc)))) sites.
Definition vanished (acc : list (string * prof)) (declared : list string) : list (string * prof) :=
  filter (fun fp => negb (mem_name (fst fp) declared)) acc.

Fixpoint take_prof (p : prof) (l : list (string * prof)) : option (list (string * prof)) :=
  match l with
  | [] => None
  | (g, q) :: l' => if prof_eqb p q then Some l'
                    else match take_prof p l' with Some r => Some ((g, q) :: r) | None => None end
  end.

Fixpoint unexplained (ex van acc : list (string * prof)) : list string :=
  match ex with
  | [] => []
  | (f, p) :: ex' =>
      match lookup_prof f acc with
      | Some _ => f :: unexplained ex' van acc                       (* an accounted function grew *)
      | None => match take_prof p van with
                | Some van' => unexplained ex' van' acc              (* renamed: same profile as a vanished function *)
                | None => f :: unexplained ex' van acc               (* new sites in a function without accounting *)
                end
      end
  end.

Definition strip {A} (l : list (string * prof * A)) : list (string * prof) := map fst l.

Definition census_unexplained {A} (accounted : list (string * prof * A)) (sites : list (string * prof)) (declared : list string)
  : list string :=
  unexplained (excess (strip accounted) sites) (vanished (strip accounted) declared) (strip accounted).
Definition census_matches {A} (accounted : list (string * prof * A)) (sites : list (string * prof)) (declared : list string) : bool :=
  match census_unexplained accounted sites declared with [] => true | _ => false end.

(* accounted functions whose census is strictly below the accounting (reported only) *)
Definition census_decreases {A} (accounted : list (string * prof * A)) (sites : list (string * prof)) : list string :=
  map fst (filter (fun fp => negb (prof_le (snd fp) (prof_or_zero (lookup_prof (fst fp) sites)))) (strip accounted)).
